(* Proofs about Model/SnapOps.v, part 1: flat scripts (one kind per site, no dict nesting).
   T1, T3-T9, T12-T15.  Stdlib only, no axioms. *)
From Coq Require Import List ZArith Bool Lia.
From V Require Import Model.SnapOps.
Import ListNotations.
Open Scope Z_scope.

(* ------------------------------------------------------------------ helper notions *)

Definition noflags : flags := {| f_create := false; f_fix := false; f_trim := false; f_update := false |}.

Definition r_site (r : site * list result * counters) : site := fst (fst r).
Definition r_results (r : site * list result * counters) : list result := snd (fst r).
Definition r_counters (r : site * list result * counters) : counters := snd r.

Definition s_kind (s : site) := match s with Site k _ _ _ _ => k end.
Definition s_old (s : site) := match s with Site _ o _ _ _ => o end.
Definition s_newv (s : site) := match s with Site _ _ n _ _ => n end.
Definition s_coll (s : site) := match s with Site _ _ _ l _ => l end.
Definition s_children (s : site) := match s with Site _ _ _ _ ch => ch end.

Definition ops_eq (xs : list Z) := map OEq xs.
Definition ops_min (xs : list Z) := map OMin xs.
Definition ops_max (xs : list Z) := map OMax xs.
Definition ops_in (xs : list Z) := map OIn xs.

(* the same comparison on a plain value *)
Fixpoint plain_op (o : op) (v : pv) {struct o} : option bool :=
  match o, v with
  | OEq x, PAtom z => Some (x =? z)
  | OMin x, PAtom z => Some (z <=? x)
  | OMax x, PAtom z => Some (x <=? z)
  | OIn x, PList l => Some (zmem x l)
  | OGet k o', PDict kvs => match assoc k kvs with Some v' => plain_op o' v' | None => None end
  | _, _ => None
  end.

(* counters ordering *)
Definition cle (c c' : counters) : Prop :=
  (missing c <= missing c')%nat /\ (incorrect c <= incorrect c')%nat.

Lemma cle_refl c : cle c c. Proof. split; lia. Qed.
Lemma cle_trans a b c : cle a b -> cle b c -> cle a c.
Proof. intros [H1 H2] [H3 H4]; split; lia. Qed.
Lemma cle_inc_missing c : cle c (inc_missing c). Proof. split; simpl; lia. Qed.
Lemma cle_inc_incorrect c : cle c (inc_incorrect c). Proof. split; simpl; lia. Qed.

Lemma ret_cle F od r nr c : cle c (snd (ret F od r nr c)).
Proof. unfold ret; simpl. destruct r; [apply cle_refl | apply cle_inc_incorrect]. Qed.

(* ------------------------------------------------------------------ T3 *)

Theorem mixed_ops_typeerror :
  forall fixed F k old nv coll ch o c,
    k <> KUndecided -> op_kind o <> k ->
    step fixed F (Site k old nv coll ch) o c = (Site k old nv coll ch, RTypeError, c).
Proof.
  intros fixed F k old nv coll ch o c Hk Ho.
  assert (Hg : negb (kind_eqb k KUndecided) && negb (kind_eqb k (op_kind o)) = true).
  { destruct k, o; simpl in *; congruence. }
  destruct o; simpl; simpl in Hg; rewrite Hg; reflexivity.
Qed.

Example mixed_ops_typeerror_ex :
  step true noflags (Site KMin (Some (SAtom 3 true)) (Some 4) [] []) (OEq 4) zero
  = (Site KMin (Some (SAtom 3 true)) (Some 4) [] [], RTypeError, zero).
Proof. apply mixed_ops_typeerror; discriminate. Qed.


(* ------------------------------------------------------------------ T15 *)

Arguments ret : simpl never.
Arguments cmp_of : simpl never.
Arguments ignore_old : simpl never.
Arguments ignore_old_value : simpl never.

Lemma ret_cle' F od r nr c b c' : ret F od r nr c = (b, c') -> cle c c'.
Proof. intros H. pose proof (ret_cle F od r nr c) as H1. rewrite H in H1. exact H1. Qed.

(* case-split the scrutinees occurring in hypothesis H, one at a time *)
Ltac split_step H :=
  repeat (first
    [ match type of H with context [match ?x with Some _ => _ | None => _ end] => is_var x; destruct x end
    | match type of H with context [match ?x with SAtom _ _ => _ | SList _ => _ | SDict _ => _ end] => is_var x; destruct x end
    | match type of H with context [ret ?a ?b ?c ?d ?e] => let Hr := fresh "Hret" in destruct (ret a b c d e) eqn:Hr end
    | match type of H with context [if ?b then _ else _] => let Hb := fresh "Hb" in destruct b eqn:Hb end ];
    cbn in H).

Theorem step_cle : forall fixed F o s c s' r c',
  step fixed F s o c = (s', r, c') -> cle c c'.
Proof.
  intros fixed F o; induction o as [x|x|x|x|key o' IH]; intros s c s' r c' H;
    destruct s as [k old nv coll ch]; cbn in H.
  1-4: split_step H; inversion H; subst;
       repeat match goal with Hr : ret _ _ _ _ _ = (_, _) |- _ => apply ret_cle' in Hr end;
       eauto using cle_refl, cle_trans, cle_inc_missing, cle_inc_incorrect.
  destruct (negb (kind_eqb k KUndecided) && negb (kind_eqb k KDict)) eqn:Hg.
  { inversion H; subst; apply cle_refl. }
  destruct old as [[z cn|l|kvs]|];
    try (inversion H; subst; apply cle_refl);
    (destruct (assoc key ch) as [child|] eqn:Hch;
     [ destruct (step fixed F child o' c) as [[child' r2] c2] eqn:Hs
     | match type of H with context [step fixed F ?s0 o' ?c0] =>
         destruct (step fixed F s0 o' c0) as [[child' r2] c2] eqn:Hs end ];
     inversion H; subst; apply IH in Hs; cbn in Hs;
     eauto using cle_refl, cle_trans, cle_inc_missing).
Qed.

Theorem counters_monotone : forall fixed F s o c,
  (missing c <= missing (snd (step fixed F s o c)))%nat /\
  (incorrect c <= incorrect (snd (step fixed F s o c)))%nat.
Proof.
  intros fixed F s o c. destruct (step fixed F s o c) as [[s' r] c'] eqn:H.
  apply step_cle in H. exact H.
Qed.


(* ------------------------------------------------------------------ run: projections *)

Lemma run_cons fixed F s o r c :
  run fixed F s (o :: r) c =
  (r_site (run fixed F (fst (fst (step fixed F s o c))) r (snd (step fixed F s o c))),
   snd (fst (step fixed F s o c)) :: r_results (run fixed F (fst (fst (step fixed F s o c))) r (snd (step fixed F s o c))),
   r_counters (run fixed F (fst (fst (step fixed F s o c))) r (snd (step fixed F s o c)))).
Proof.
  cbn [run]. destruct (step fixed F s o c) as [[s1 x] c1]. cbn [fst snd].
  destruct (run fixed F s1 r c1) as [[s2 xs] c2]. reflexivity.
Qed.

Lemma run_cle : forall fixed F ops s c, cle c (r_counters (run fixed F s ops c)).
Proof.
  intros fixed F ops; induction ops as [|o r IH]; intros s c.
  - apply cle_refl.
  - rewrite run_cons. unfold r_counters at 1. cbn [snd].
    eapply cle_trans; [|apply IH].
    destruct (step fixed F s o c) as [[s1 x] c1] eqn:Hs. cbn [snd]. eapply step_cle; eassumption.
Qed.

(* ------------------------------------------------------------------ bounds: Min / Max *)

Definition is_bound (K : kind) : bool := match K with KMin | KMax => true | _ => false end.
(* the comparison of kind K with value x *)
Definition kop (K : kind) (x : Z) : op :=
  match K with KEq => OEq x | KMin => OMin x | KMax => OMax x | _ => OIn x end.
Definition atomish (old : option src) : bool :=
  match old with None | Some (SAtom _ _) => true | _ => false end.

(* the recorded value after one more comparison, exactly as in [step] *)
Definition ext (K : kind) (n x : Z) : Z := if cmp_of K n x then n else x.
Definition list_ext (K : kind) (x : Z) (r : list Z) : Z := fold_left (ext K) r x.
Definition list_min (x : Z) (r : list Z) : Z := fold_left Z.min r x.
Definition list_max (x : Z) (r : list Z) : Z := fold_left Z.max r x.

Lemma ext_min n x : ext KMin n x = Z.min n x.
Proof. unfold ext, cmp_of. destruct (Z.leb_spec n x); lia. Qed.
Lemma ext_max n x : ext KMax n x = Z.max n x.
Proof. unfold ext, cmp_of. destruct (Z.leb_spec x n); lia. Qed.

Lemma list_ext_min : forall r x, list_ext KMin x r = list_min x r.
Proof. induction r as [|y r IH]; intros x; [reflexivity|]. unfold list_ext, list_min in *. cbn [fold_left]. rewrite ext_min. apply IH. Qed.
Lemma list_ext_max : forall r x, list_ext KMax x r = list_max x r.
Proof. induction r as [|y r IH]; intros x; [reflexivity|]. unfold list_ext, list_max in *. cbn [fold_left]. rewrite ext_max. apply IH. Qed.

Lemma list_min_spec : forall r x, In (list_min x r) (x :: r) /\ (forall y, In y (x :: r) -> list_min x r <= y).
Proof.
  induction r as [|y r IH]; intros x.
  - split; [left; reflexivity|]. intros y [Hy|[]]. subst. unfold list_min; simpl; lia.
  - unfold list_min in *. cbn [fold_left]. destruct (IH (Z.min x y)) as [Hin Hle]. split.
    + destruct Hin as [Hin|Hin]; [|right; right; exact Hin].
      rewrite <- Hin. destruct (Z.min_spec x y) as [[_ Hm]|[_ Hm]]; rewrite Hm; [left|right; left]; reflexivity.
    + intros w Hw. assert (Hb : fold_left Z.min r (Z.min x y) <= Z.min x y) by (apply Hle; left; reflexivity).
      destruct Hw as [Hw|[Hw|Hw]]; subst; try lia. apply Hle. right; exact Hw.
Qed.

Lemma list_max_spec : forall r x, In (list_max x r) (x :: r) /\ (forall y, In y (x :: r) -> y <= list_max x r).
Proof.
  induction r as [|y r IH]; intros x.
  - split; [left; reflexivity|]. intros y [Hy|[]]. subst. unfold list_max; simpl; lia.
  - unfold list_max in *. cbn [fold_left]. destruct (IH (Z.max x y)) as [Hin Hle]. split.
    + destruct Hin as [Hin|Hin]; [|right; right; exact Hin].
      rewrite <- Hin. destruct (Z.max_spec x y) as [[_ Hm]|[_ Hm]]; rewrite Hm; [right; left|left]; reflexivity.
    + intros w Hw. assert (Hb : Z.max x y <= fold_left Z.max r (Z.max x y)) by (apply Hle; left; reflexivity).
      destruct Hw as [Hw|[Hw|Hw]]; subst; try lia. apply Hle. right; exact Hw.
Qed.

(* generic facts on cmp_of for a bound kind *)
Lemma cmp_refl K a : cmp_of K a a = true.
Proof. unfold cmp_of; destruct K; apply Z.leb_refl. Qed.
Lemma cmp_trans K a b c : cmp_of K a b = true -> cmp_of K b c = true -> cmp_of K a c = true.
Proof. unfold cmp_of; destruct K; rewrite !Z.leb_le; lia. Qed.
Lemma cmp_total K a b : cmp_of K a b = false -> cmp_of K b a = true.
Proof. unfold cmp_of; destruct K; rewrite Z.leb_le, Z.leb_gt; lia. Qed.
Lemma cmp_antisym K a b : cmp_of K a b = true -> cmp_of K b a = true -> a = b.
Proof. unfold cmp_of; destruct K; rewrite !Z.leb_le; lia. Qed.

Lemma ext_cmp_l K n x : cmp_of K (ext K n x) n = true.
Proof. unfold ext. destruct (cmp_of K n x) eqn:Hc; [apply cmp_refl|apply cmp_total; exact Hc]. Qed.
Lemma ext_cmp_r K n x : cmp_of K (ext K n x) x = true.
Proof. unfold ext. destruct (cmp_of K n x) eqn:Hc; [exact Hc|apply cmp_refl]. Qed.
Lemma ext_in K n x : ext K n x = n \/ ext K n x = x.
Proof. unfold ext. destruct (cmp_of K n x); auto. Qed.

Lemma list_ext_spec K : forall r x,
  In (list_ext K x r) (x :: r) /\ (forall y, In y (x :: r) -> cmp_of K (list_ext K x r) y = true).
Proof.
  induction r as [|y r IH]; intros x.
  - split; [left; reflexivity|]. intros y [Hy|[]]. subst. apply cmp_refl.
  - unfold list_ext in *. cbn [fold_left]. destruct (IH (ext K x y)) as [Hin Hle]. split.
    + destruct Hin as [Hin|Hin]; [|right; right; exact Hin].
      rewrite <- Hin. destruct (ext_in K x y) as [Hm|Hm]; rewrite Hm; [left|right; left]; reflexivity.
    + intros w Hw. assert (Hb : cmp_of K (fold_left (ext K) r (ext K x y)) (ext K x y) = true) by (apply Hle; left; reflexivity).
      destruct Hw as [Hw|[Hw|Hw]]; subst.
      * eapply cmp_trans; [exact Hb|apply ext_cmp_l].
      * eapply cmp_trans; [exact Hb|apply ext_cmp_r].
      * apply Hle. right; exact Hw.
Qed.

(* one step of a bound on a flat site: the new site *)
Lemma step_bound_site fixed F K k0 old nv coll ch x c :
  is_bound K = true -> (k0 = KUndecided \/ k0 = K) -> atomish old = true ->
  fst (fst (step fixed F (Site k0 old nv coll ch) (kop K x) c)) =
  Site K old (Some (match nv with None => x | Some n => ext K n x end)) coll ch.
Proof.
  intros HK Hk0 Hold.
  destruct K; try discriminate HK; destruct Hk0 as [Hk0|Hk0]; subst k0;
    (destruct old as [[z cn|l|kvs]|]; try discriminate Hold);
    destruct nv as [n|]; destruct fixed; cbn; unfold ret, ext;
    repeat match goal with |- context [if ?b then _ else _] => destruct b end; reflexivity.
Qed.

Lemma run_bound_site fixed F K old coll ch :
  is_bound K = true -> atomish old = true ->
  forall xs n c,
  r_site (run fixed F (Site K old (Some n) coll ch) (map (kop K) xs) c) =
  Site K old (Some (list_ext K n xs)) coll ch.
Proof.
  intros HK Hold xs; induction xs as [|x r IH]; intros n c; [reflexivity|].
  cbn [map]. rewrite run_cons. unfold r_site at 1. cbn [fst].
  rewrite step_bound_site by auto. rewrite IH. reflexivity.
Qed.

Lemma run_bound_site_fresh fixed F K old x r c :
  is_bound K = true -> atomish old = true ->
  r_site (run fixed F (fresh old) (map (kop K) (x :: r)) c) = Site K old (Some (list_ext K x r)) [] [].
Proof.
  intros HK Hold. cbn [map]. rewrite run_cons. unfold r_site at 1. cbn [fst]. unfold fresh.
  rewrite step_bound_site by auto. apply run_bound_site; assumption.
Qed.

(* ------------------------------------------------------------------ T4 *)

Theorem mm_new_is_extreme : forall fixed F old x r c,
  atomish old = true ->
  r_site (run fixed F (fresh old) (ops_min (x :: r)) c) = Site KMin old (Some (list_min x r)) [] [] /\
  r_site (run fixed F (fresh old) (ops_max (x :: r)) c) = Site KMax old (Some (list_max x r)) [] [].
Proof.
  intros fixed F old x r c Hold. split.
  - rewrite <- list_ext_min. apply (run_bound_site_fresh fixed F KMin); auto.
  - rewrite <- list_ext_max. apply (run_bound_site_fresh fixed F KMax); auto.
Qed.

Corollary mm_new_is_extreme_newv : forall fixed F old x r c,
  atomish old = true ->
  s_newv (r_site (run fixed F (fresh old) (ops_min (x :: r)) c)) = Some (list_min x r) /\
  s_newv (r_site (run fixed F (fresh old) (ops_max (x :: r)) c)) = Some (list_max x r).
Proof.
  intros fixed F old x r c Hold. destruct (mm_new_is_extreme fixed F old x r c Hold) as [H1 H2].
  rewrite H1, H2. split; reflexivity.
Qed.

Example mm_new_is_extreme_ex :
  atomish (Some (SAtom 5 true)) = true /\
  s_newv (r_site (run false noflags (fresh (Some (SAtom 5 true))) (ops_min [7;3;9]) zero)) = Some 3 /\
  s_newv (r_site (run true noflags (fresh None) (ops_max [7;3;9]) zero)) = Some 9.
Proof. vm_compute. repeat split; reflexivity. Qed.

(* the premise on [old] is needed: on a list-valued snapshot a bound raises, nothing is recorded *)
Theorem mm_new_is_extreme_any_old_refuted :
  exists fixed F old x r c,
    s_newv (r_site (run fixed F (fresh old) (ops_min (x :: r)) c)) <> Some (list_min x r).
Proof. exists true, noflags, (Some (SList [])), 1, [], zero. vm_compute. discriminate. Qed.

(* ------------------------------------------------------------------ T14 *)

(* pinned tree (fixed = false): a failing bound / membership test is not counted under --fix *)
Definition fix_only : flags := {| f_create := false; f_fix := true; f_trim := false; f_update := false |}.

Theorem bad_snapshot_not_counted_pinned_refuted :
  exists F z cn xs,
    existsb (fun x => negb (cmp_of KMax z x)) xs = true /\
    r_counters (run false F (fresh (Some (SAtom z cn))) (ops_max xs) zero) = zero.
Proof. exists fix_only, 5, true, [8]. vm_compute. split; reflexivity. Qed.

Theorem bad_snapshot_not_counted_pinned_refuted_in :
  exists F l xs,
    existsb (fun x => negb (zmem x (map fst l))) xs = true /\
    r_counters (run false F (fresh (Some (SList l))) (ops_in xs) zero) = zero.
Proof. exists fix_only, [(1, true)], [2; 1; 3]. vm_compute. split; reflexivity. Qed.

(* the same witnesses are counted by the repaired tree *)
Example bad_snapshot_counted_fixed_ex :
  r_counters (run true fix_only (fresh (Some (SAtom 5 true))) (ops_max [8]) zero) = {| missing := 0; incorrect := 1 |} /\
  r_counters (run true fix_only (fresh (Some (SList [(1, true)]))) (ops_in [2; 1; 3]) zero) = {| missing := 0; incorrect := 2 |}.
Proof. vm_compute. split; reflexivity. Qed.

(* ------------------------------------------------------------------ flat kinds *)

Definition flat_kind (K : kind) : bool := match K with KEq | KMin | KMax | KColl => true | _ => false end.
Definition old_matches (K : kind) (o : src) : bool :=
  match K, o with
  | (KEq | KMin | KMax), SAtom _ _ => true
  | KColl, SList _ => true
  | _, _ => false
  end.
Definition opt_result (ob : option bool) : result := match ob with Some b => RBool b | None => ROther end.

Lemma kop_kind K x : flat_kind K = true -> op_kind (kop K x) = K.
Proof. destruct K; intros H; try discriminate H; reflexivity. Qed.

Lemma plain_op_flat_defined K o x :
  old_matches K o = true -> plain_op (kop K x) (src_val o) <> None.
Proof. destruct K, o; intros H; try discriminate H; cbn; discriminate. Qed.

(* one step of a flat kind on a flat site keeps the site flat of that kind *)
Lemma step_flat_site fixed F K k0 o nv coll ch x c :
  old_matches K o = true -> (k0 = KUndecided \/ k0 = K) ->
  exists nv' coll', fst (fst (step fixed F (Site k0 (Some o) nv coll ch) (kop K x) c)) = Site K (Some o) nv' coll' ch.
Proof.
  intros Hm Hk0.
  destruct K, o as [z cn|l|kvs]; try discriminate Hm; destruct Hk0 as [Hk0|Hk0]; subst k0;
    destruct nv as [n|]; destruct fixed; cbn; unfold ret;
    repeat match goal with |- context [if ?b then _ else _] => destruct b end;
    do 2 eexists; reflexivity.
Qed.

Lemma step_flat_noflags_result fixed K k0 o nv coll ch x c :
  old_matches K o = true -> (k0 = KUndecided \/ k0 = K) ->
  snd (fst (step fixed noflags (Site k0 (Some o) nv coll ch) (kop K x) c)) = opt_result (plain_op (kop K x) (src_val o)).
Proof.
  intros Hm Hk0.
  destruct K, o as [z cn|l|kvs]; try discriminate Hm; destruct Hk0 as [Hk0|Hk0]; subst k0;
    destruct nv as [n|]; destruct fixed; cbn; try rewrite (Z.eqb_sym x z); reflexivity.
Qed.

Lemma run_flat_noflags fixed K o ch :
  old_matches K o = true ->
  forall xs k0 nv coll c, (k0 = KUndecided \/ k0 = K) ->
  r_results (run fixed noflags (Site k0 (Some o) nv coll ch) (map (kop K) xs) c) =
  map (fun x => opt_result (plain_op (kop K x) (src_val o))) xs.
Proof.
  intros Hm xs; induction xs as [|x r IH]; intros k0 nv coll c Hk0; [reflexivity|].
  cbn [map]. rewrite run_cons. unfold r_results at 1. cbn [fst snd].
  rewrite step_flat_noflags_result by assumption.
  destruct (step_flat_site fixed noflags K k0 o nv coll ch x c Hm Hk0) as [nv' [coll' Hs]].
  rewrite Hs. rewrite IH by (right; reflexivity). reflexivity.
Qed.

(* ------------------------------------------------------------------ T1 *)

Theorem noflags_transparent_flat : forall fixed K o xs c,
  old_matches K o = true ->
  r_results (run fixed noflags (fresh (Some o)) (map (kop K) xs) c) =
  map (fun x => opt_result (plain_op (kop K x) (src_val o))) xs.
Proof. intros fixed K o xs c Hm. apply run_flat_noflags; auto. Qed.

(* the four instances, spelled out *)
Corollary noflags_transparent_flat_explicit : forall fixed xs c,
  (forall z cn, r_results (run fixed noflags (fresh (Some (SAtom z cn))) (ops_eq xs) c) = map (fun x => RBool (x =? z)) xs) /\
  (forall z cn, r_results (run fixed noflags (fresh (Some (SAtom z cn))) (ops_min xs) c) = map (fun x => RBool (z <=? x)) xs) /\
  (forall z cn, r_results (run fixed noflags (fresh (Some (SAtom z cn))) (ops_max xs) c) = map (fun x => RBool (x <=? z)) xs) /\
  (forall l, r_results (run fixed noflags (fresh (Some (SList l))) (ops_in xs) c) = map (fun x => RBool (zmem x (map fst l))) xs).
Proof.
  intros fixed xs c. repeat split; intros.
  - apply (noflags_transparent_flat fixed KEq (SAtom z cn)); reflexivity.
  - apply (noflags_transparent_flat fixed KMin (SAtom z cn)); reflexivity.
  - apply (noflags_transparent_flat fixed KMax (SAtom z cn)); reflexivity.
  - apply (noflags_transparent_flat fixed KColl (SList l)); reflexivity.
Qed.

Example noflags_transparent_flat_ex :
  old_matches KMax (SAtom 5 false) = true /\
  r_results (run false noflags (fresh (Some (SAtom 5 false))) (map (kop KMax) [3; 8; 5]) zero)
  = [RBool true; RBool false; RBool true] /\
  r_results (run true noflags (fresh (Some (SList [(1, true); (4, false)]))) (ops_in [4; 2]) zero)
  = [RBool true; RBool false].
Proof. vm_compute. repeat split; reflexivity. Qed.

(* ------------------------------------------------------------------ T5 - T7 *)

(* the site reached by a non-empty script of one bound kind over an atom *)
Definition bound_site (K : kind) (z : Z) (cn : bool) (e : Z) : site := Site K (Some (SAtom z cn)) (Some e) [] [].

Lemma run_bound_atom fixed F K z cn x r c :
  is_bound K = true ->
  r_site (run fixed F (fresh (Some (SAtom z cn))) (map (kop K) (x :: r)) c) = bound_site K z cn (list_ext K x r).
Proof. intros HK. apply run_bound_site_fresh; auto. Qed.

Lemma cats_bound_site K z cn e :
  is_bound K = true ->
  cats (bound_site K z cn e) =
  if negb (cmp_of K z e) then [Fix]
  else if negb (cmp_of K e z) then [Trim]
  else if cn then [] else [Update].
Proof. destruct K; intros HK; try discriminate HK; reflexivity. Qed.

Lemma value_after_bound_site F K z cn e :
  is_bound K = true ->
  value_after F (bound_site K z cn e) =
  if negb (cmp_of K z e) then Some (PAtom (if f_fix F then e else z))
  else if negb (cmp_of K e z) then Some (PAtom (if f_trim F then e else z))
  else Some (PAtom z).
Proof. destruct K; intros HK; try discriminate HK; reflexivity. Qed.

Lemma exists_failed_iff K z x r :
  existsb (fun y => negb (cmp_of K z y)) (x :: r) = negb (cmp_of K z (list_ext K x r)).
Proof.
  destruct (list_ext_spec K r x) as [Hin Hall].
  destruct (cmp_of K z (list_ext K x r)) eqn:Hc; cbn [negb].
  - apply not_true_is_false. intros H. apply existsb_exists in H. destruct H as [y [Hy Hn]].
    rewrite (cmp_trans K z _ y Hc (Hall y Hy)) in Hn. discriminate Hn.
  - apply existsb_exists. exists (list_ext K x r). split; [exact Hin|]. rewrite Hc. reflexivity.
Qed.

Lemma all_strict_iff K z x r :
  forallb (fun y => negb (cmp_of K y z)) (x :: r) = negb (cmp_of K (list_ext K x r) z).
Proof.
  destruct (list_ext_spec K r x) as [Hin Hall].
  destruct (cmp_of K (list_ext K x r) z) eqn:Hc; cbn [negb].
  - apply not_true_is_false. intros H. rewrite forallb_forall in H.
    specialize (H _ Hin). rewrite Hc in H. discriminate H.
  - apply forallb_forall. intros y Hy. destruct (cmp_of K y z) eqn:Hyz; [|reflexivity].
    rewrite (cmp_trans K _ y z (Hall y Hy) Hyz) in Hc. discriminate Hc.
Qed.

Theorem mm_fix_iff_failed : forall fixed F K z cn x r c,
  is_bound K = true ->
  let s' := r_site (run fixed F (fresh (Some (SAtom z cn))) (map (kop K) (x :: r)) c) in
  has_cat Fix (cats s') = existsb (fun y => negb (cmp_of K z y)) (x :: r) /\
  has_cat Trim (cats s') = forallb (fun y => negb (cmp_of K y z)) (x :: r) /\
  has_cat Fix (cats s') && has_cat Trim (cats s') = false.
Proof.
  intros fixed F K z cn x r c HK s'. subst s'.
  rewrite run_bound_atom by assumption. rewrite cats_bound_site by assumption.
  rewrite exists_failed_iff, all_strict_iff.
  destruct (cmp_of K z (list_ext K x r)) eqn:Hze; cbn [negb].
  - destruct (cmp_of K (list_ext K x r) z) eqn:Hez; cbn [negb].
    + destruct cn; repeat split; reflexivity.
    + repeat split; reflexivity.
  - apply cmp_total in Hze. rewrite Hze. repeat split; reflexivity.
Qed.

Example mm_fix_iff_failed_ex :
  let s' := r_site (run false fix_only (fresh (Some (SAtom 5 true))) (map (kop KMin) [7; 3; 9]) zero) in
  has_cat Fix (cats s') = true /\ existsb (fun y => negb (cmp_of KMin 5 y)) [7; 3; 9] = true /\
  has_cat Trim (cats (r_site (run true noflags (fresh (Some (SAtom 5 true))) (map (kop KMax) [2; 3]) zero))) = true.
Proof. vm_compute. repeat split; reflexivity. Qed.

Theorem mm_fix_makes_all_hold : forall fixed F K z cn x r c,
  is_bound K = true -> f_fix F = true ->
  let s' := r_site (run fixed F (fresh (Some (SAtom z cn))) (map (kop K) (x :: r)) c) in
  exists w, value_after F s' = Some (PAtom w) /\
            forall y, In y (x :: r) -> cmp_of K w y = true.
Proof.
  intros fixed F K z cn x r c HK Hfix s'. subst s'.
  rewrite run_bound_atom by assumption. rewrite value_after_bound_site by assumption.
  destruct (list_ext_spec K r x) as [Hin Hall]. rewrite Hfix.
  destruct (cmp_of K z (list_ext K x r)) eqn:Hze; cbn [negb].
  - destruct (cmp_of K (list_ext K x r) z) eqn:Hez; cbn [negb].
    + exists z. split; [reflexivity|]. intros y Hy. eapply cmp_trans; [exact Hze|auto].
    + destruct (f_trim F).
      * eexists. split; [reflexivity|]. exact Hall.
      * exists z. split; [reflexivity|]. intros y Hy. eapply cmp_trans; [exact Hze|auto].
  - eexists. split; [reflexivity|]. exact Hall.
Qed.

Example mm_fix_makes_all_hold_ex :
  value_after fix_only (r_site (run true fix_only (fresh (Some (SAtom 5 true))) (map (kop KMin) [7; 3; 9]) zero))
  = Some (PAtom 3) /\ forallb (cmp_of KMin 3) [7; 3; 9] = true.
Proof. vm_compute. split; reflexivity. Qed.

(* without --fix the written value may still fail *)
Example mm_nofix_may_fail_ex :
  value_after noflags (r_site (run true noflags (fresh (Some (SAtom 5 true))) (map (kop KMin) [7; 3; 9]) zero))
  = Some (PAtom 5) /\ forallb (cmp_of KMin 5) [7; 3; 9] = false.
Proof. vm_compute. split; reflexivity. Qed.

Theorem mm_trim_tightest : forall fixed F K z cn x r c,
  is_bound K = true -> f_fix F = true -> f_trim F = true ->
  let s' := r_site (run fixed F (fresh (Some (SAtom z cn))) (map (kop K) (x :: r)) c) in
  let e := list_ext K x r in
  value_after F s' = Some (PAtom e) /\
  (forall y, In y (x :: r) -> cmp_of K e y = true) /\
  (forall w, cmp_of K w e = false -> exists y, In y (x :: r) /\ cmp_of K w y = false).
Proof.
  intros fixed F K z cn x r c HK Hfix Htrim s' e. subst s' e.
  rewrite run_bound_atom by assumption. rewrite value_after_bound_site by assumption.
  destruct (list_ext_spec K r x) as [Hin Hall]. rewrite Hfix, Htrim.
  split; [|split].
  - destruct (cmp_of K z (list_ext K x r)) eqn:Hze; cbn [negb]; [|reflexivity].
    destruct (cmp_of K (list_ext K x r) z) eqn:Hez; cbn [negb]; [|reflexivity].
    rewrite (cmp_antisym K _ _ Hze Hez). reflexivity.
  - exact Hall.
  - intros w Hw. exists (list_ext K x r). split; assumption.
Qed.

(* the two kinds spelled out: "strictly tighter" is  w > min  resp.  w < max *)
Corollary mm_trim_tightest_min : forall fixed F z cn x r c,
  f_fix F = true -> f_trim F = true ->
  value_after F (r_site (run fixed F (fresh (Some (SAtom z cn))) (ops_min (x :: r)) c)) = Some (PAtom (list_min x r)) /\
  (forall w, list_min x r < w -> exists y, In y (x :: r) /\ (w <=? y) = false).
Proof.
  intros fixed F z cn x r c Hfix Htrim.
  destruct (mm_trim_tightest fixed F KMin z cn x r c eq_refl Hfix Htrim) as [Hv [_ Ht]].
  rewrite list_ext_min in *. split; [exact Hv|].
  intros w Hw. apply Ht. unfold cmp_of. apply Z.leb_gt. exact Hw.
Qed.

Corollary mm_trim_tightest_max : forall fixed F z cn x r c,
  f_fix F = true -> f_trim F = true ->
  value_after F (r_site (run fixed F (fresh (Some (SAtom z cn))) (ops_max (x :: r)) c)) = Some (PAtom (list_max x r)) /\
  (forall w, w < list_max x r -> exists y, In y (x :: r) /\ (y <=? w) = false).
Proof.
  intros fixed F z cn x r c Hfix Htrim.
  destruct (mm_trim_tightest fixed F KMax z cn x r c eq_refl Hfix Htrim) as [Hv [_ Ht]].
  rewrite list_ext_max in *. split; [exact Hv|].
  intros w Hw. apply Ht. unfold cmp_of. apply Z.leb_gt. exact Hw.
Qed.

Definition fix_trim : flags := {| f_create := false; f_fix := true; f_trim := true; f_update := false |}.

Example mm_trim_tightest_ex :
  value_after fix_trim (r_site (run true fix_trim (fresh (Some (SAtom 1 true))) (ops_min [7; 3; 9]) zero)) = Some (PAtom 3) /\
  value_after fix_trim (r_site (run false fix_trim (fresh (Some (SAtom 1 true))) (ops_max [7; 3; 9]) zero)) = Some (PAtom 9) /\
  (4 <=? 3) = false.
Proof. vm_compute. repeat split; reflexivity. Qed.

(* ------------------------------------------------------------------ lists of integers: zmem, dedup *)

Lemma zmem_In y l : zmem y l = true <-> In y l.
Proof.
  induction l as [|a l IH]; cbn [zmem In]; [split; [discriminate|tauto]|].
  rewrite orb_true_iff, IH, Z.eqb_eq. split; intros [H|H]; auto.
Qed.

Lemma zmem_app y a b : zmem y (a ++ b) = zmem y a || zmem y b.
Proof. induction a as [|z a IH]; cbn [zmem app]; [reflexivity|]. rewrite IH. apply orb_assoc. Qed.

Lemma zmem_ext y l l' : (forall v, In v l <-> In v l') -> zmem y l = zmem y l'.
Proof.
  intros H. destruct (zmem y l') eqn:H'.
  - apply zmem_In, H, zmem_In, H'.
  - apply not_true_is_false. intros H1. apply zmem_In, H, zmem_In in H1. congruence.
Qed.

Lemma filter_filter {A} (f g : A -> bool) l : filter f (filter g l) = filter (fun x => g x && f x) l.
Proof.
  induction l as [|a l IH]; [reflexivity|]. cbn [filter].
  destruct (g a) eqn:Hg; cbn [filter andb]; [destruct (f a)|]; rewrite IH; reflexivity.
Qed.

Lemma existsb_filter {A} (f : A -> bool) l :
  existsb f l = match filter f l with [] => false | _ => true end.
Proof. induction l as [|a l IH]; [reflexivity|]. cbn [existsb filter]. destruct (f a); [reflexivity|exact IH]. Qed.

Lemma existsb_ext_in {A} (f : A -> bool) l l' : (forall v, In v l <-> In v l') -> existsb f l = existsb f l'.
Proof.
  intros H. destruct (existsb f l') eqn:H'.
  - apply existsb_exists in H'. destruct H' as [v [Hv Hf]]. apply existsb_exists. exists v. split; [apply H, Hv|exact Hf].
  - apply not_true_is_false. intros H1. apply existsb_exists in H1. destruct H1 as [v [Hv Hf]].
    assert (H2 : existsb f l' = true) by (apply existsb_exists; exists v; split; [apply H, Hv|exact Hf]). congruence.
Qed.

(* xs without repetitions, first occurrences kept, order kept *)
Fixpoint dedup (xs : list Z) : list Z :=
  match xs with
  | [] => []
  | x :: r => x :: filter (fun y => negb (y =? x)) (dedup r)
  end.

Lemma dedup_In y : forall xs, In y (dedup xs) <-> In y xs.
Proof.
  induction xs as [|x r IH]; [tauto|]. cbn [dedup In]. rewrite filter_In, IH, negb_true_iff, Z.eqb_neq.
  destruct (Z.eq_dec x y) as [E|E]; [tauto|]. split; [tauto|].
  intros [H|H]; [tauto|]. right. split; [exact H|congruence].
Qed.

Lemma NoDup_filter {A} (f : A -> bool) l : NoDup l -> NoDup (filter f l).
Proof.
  induction 1 as [|a l Hn Hd IH]; cbn [filter]; [constructor|].
  destruct (f a); [constructor; [|exact IH]|exact IH]. rewrite filter_In. tauto.
Qed.

Lemma dedup_NoDup : forall xs, NoDup (dedup xs).
Proof.
  induction xs as [|x r IH]; cbn [dedup]; constructor.
  - rewrite filter_In, negb_true_iff, Z.eqb_neq. tauto.
  - apply NoDup_filter, IH.
Qed.

Lemma zmem_dedup y xs : zmem y (dedup xs) = zmem y xs.
Proof. apply zmem_ext. intros v. apply dedup_In. Qed.

(* recording one more tested value, exactly as in [step] *)
Definition add_new (coll : list Z) (x : Z) : list Z := if zmem x coll then coll else coll ++ [x].

Lemma fold_add_new : forall xs coll,
  fold_left add_new xs coll = coll ++ filter (fun y => negb (zmem y coll)) (dedup xs).
Proof.
  induction xs as [|x r IH]; intros coll; cbn [fold_left dedup filter].
  - symmetry; apply app_nil_r.
  - rewrite IH. unfold add_new. rewrite filter_filter. destruct (zmem x coll) eqn:Hx; cbn [negb].
    + f_equal. apply filter_ext. intros y.
      destruct (Z.eqb_spec y x) as [E|E]; cbn [negb andb]; [|reflexivity].
      subst y. rewrite Hx. reflexivity.
    + rewrite <- app_assoc. cbn [app]. do 2 f_equal. apply filter_ext. intros y.
      rewrite zmem_app. cbn [zmem]. rewrite orb_false_r, negb_orb. apply andb_comm.
Qed.

Lemma fold_add_new_nil xs : fold_left add_new xs [] = dedup xs.
Proof.
  rewrite fold_add_new. cbn [app]. rewrite <- (filter_ext (fun _ => true)); [|reflexivity].
  induction (dedup xs) as [|a l IH]; [reflexivity|]. cbn [filter]. rewrite IH. reflexivity.
Qed.

(* ------------------------------------------------------------------ T8 *)

Definition collish (old : option src) : bool :=
  match old with None | Some (SList _) => true | _ => false end.

Lemma step_in_site fixed F k0 old nv coll ch x c :
  (k0 = KUndecided \/ k0 = KColl) -> collish old = true ->
  fst (fst (step fixed F (Site k0 old nv coll ch) (OIn x) c)) = Site KColl old nv (add_new coll x) ch.
Proof.
  intros Hk0 Hold. destruct Hk0 as [Hk0|Hk0]; subst k0;
    (destruct old as [[z cn|l|kvs]|]; try discriminate Hold);
    destruct fixed; cbn; unfold ret, add_new;
    repeat match goal with |- context [if ?b then _ else _] => destruct b end; reflexivity.
Qed.

Lemma run_in_site fixed F old nv ch :
  collish old = true ->
  forall xs k0 coll c, (k0 = KUndecided \/ k0 = KColl) ->
  r_site (run fixed F (Site k0 old nv coll ch) (ops_in xs) c) =
  match xs with [] => Site k0 old nv coll ch | _ => Site KColl old nv (fold_left add_new xs coll) ch end.
Proof.
  intros Hold xs; induction xs as [|x r IH]; intros k0 coll c Hk0; [reflexivity|].
  unfold ops_in. cbn [map]. rewrite run_cons. unfold r_site at 1. cbn [fst].
  rewrite step_in_site by assumption. fold (ops_in r). rewrite IH by (right; reflexivity).
  destruct r; reflexivity.
Qed.

Theorem coll_new_is_dedup : forall fixed F old xs c,
  collish old = true ->
  s_coll (r_site (run fixed F (fresh old) (ops_in xs) c)) = dedup xs /\
  (xs <> [] -> r_site (run fixed F (fresh old) (ops_in xs) c) = Site KColl old None (dedup xs) []).
Proof.
  intros fixed F old xs c Hold. unfold fresh. rewrite run_in_site by auto.
  destruct xs as [|x r]; [split; [reflexivity|congruence]|].
  rewrite fold_add_new_nil. split; reflexivity.
Qed.

Example coll_new_is_dedup_ex :
  s_coll (r_site (run false fix_only (fresh (Some (SList [(1, true)]))) (ops_in [3; 1; 3; 2; 1]) zero)) = [3; 1; 2]
  /\ dedup [3; 1; 3; 2; 1] = [3; 1; 2].
Proof. vm_compute. split; reflexivity. Qed.

Theorem coll_new_is_dedup_any_old_refuted :
  exists fixed F old xs c, s_coll (r_site (run fixed F (fresh old) (ops_in xs) c)) <> dedup xs.
Proof. exists true, noflags, (Some (SAtom 1 true)), [1], zero. vm_compute. discriminate. Qed.

(* ------------------------------------------------------------------ T9 *)

Definition coll_site (l : list (Z * bool)) (coll : list Z) : site := Site KColl (Some (SList l)) None coll [].

Lemma existsb_ext_fun {A} (f g : A -> bool) l : (forall a, f a = g a) -> existsb f l = existsb g l.
Proof. intros H. induction l as [|a l IH]; [reflexivity|]. cbn [existsb]. rewrite H, IH. reflexivity. Qed.

Lemma has_cat_app c a b : has_cat c (a ++ b) = has_cat c a || has_cat c b.
Proof. apply existsb_app. Qed.

Lemma coll_cats_fix_part l coll :
  has_cat Fix (flat_map (fun e : Z * bool => if negb (zmem (fst e) coll) then [Trim] else if snd e then @nil cat else [Update]) l) = false.
Proof.
  induction l as [|[v cn] l IH]; [reflexivity|]. cbn [flat_map fst snd]. rewrite has_cat_app, IH, orb_false_r.
  destruct (zmem v coll); cbn [negb]; [destruct cn|]; reflexivity.
Qed.

Lemma coll_cats_trim_part l coll :
  has_cat Trim (flat_map (fun e : Z * bool => if negb (zmem (fst e) coll) then [Trim] else if snd e then @nil cat else [Update]) l)
  = existsb (fun e => negb (zmem (fst e) coll)) l.
Proof.
  induction l as [|[v cn] l IH]; [reflexivity|]. cbn [flat_map fst snd existsb]. rewrite has_cat_app, IH.
  destruct (zmem v coll); cbn [negb]; [destruct cn|]; reflexivity.
Qed.

Lemma cats_coll_site l coll :
  has_cat Fix (cats (coll_site l coll)) = existsb (fun v => negb (zmem v (map fst l))) coll /\
  has_cat Trim (cats (coll_site l coll)) = existsb (fun e => negb (zmem (fst e) coll)) l.
Proof.
  unfold coll_site. cbn [cats]. rewrite !has_cat_app, coll_cats_fix_part, coll_cats_trim_part.
  rewrite (existsb_filter (fun v => negb (zmem v (map fst l))) coll).
  destruct (filter (fun v => negb (zmem v (map fst l))) coll); split; cbn; try reflexivity; apply orb_false_r.
Qed.

Lemma value_after_coll_site F l coll :
  value_after F (coll_site l coll) =
  Some (PList ((if f_trim F then filter (fun v => zmem v coll) (map fst l) else map fst l) ++
               (if f_fix F then filter (fun v => negb (zmem v (map fst l))) coll else []))).
Proof. reflexivity. Qed.

Lemma run_in_list fixed F l x r c :
  r_site (run fixed F (fresh (Some (SList l))) (ops_in (x :: r)) c) = coll_site l (dedup (x :: r)).
Proof. apply (coll_new_is_dedup fixed F (Some (SList l)) (x :: r) c eq_refl). discriminate. Qed.

Theorem coll_categories : forall fixed F l x r c,
  let xs := x :: r in
  let ol := map fst l in
  let s' := r_site (run fixed F (fresh (Some (SList l))) (ops_in xs) c) in
  has_cat Fix (cats s') = existsb (fun y => negb (zmem y ol)) xs /\
  has_cat Trim (cats s') = existsb (fun e => negb (zmem (fst e) xs)) l /\
  (f_fix F = true -> f_trim F = true ->
     let kept := filter (fun v => zmem v xs) ol in
     let added := filter (fun v => negb (zmem v ol)) (dedup xs) in
     value_after F s' = Some (PList (kept ++ added)) /\
     (forall y, In y xs -> zmem y (kept ++ added) = true) /\
     (forall m, In m (kept ++ added) -> In m xs)).
Proof.
  intros fixed F l x r c xs ol s'. subst s' xs ol. cbv zeta. rewrite run_in_list.
  destruct (cats_coll_site l (dedup (x :: r))) as [Hf Ht]. split; [|split].
  - rewrite Hf. apply existsb_ext_in. intros v. apply dedup_In.
  - rewrite Ht. apply existsb_ext_fun. intros e. rewrite zmem_dedup. reflexivity.
  - intros Hfix Htrim. rewrite value_after_coll_site, Hfix, Htrim. split; [|split].
    + f_equal. f_equal. f_equal. apply filter_ext. intros v. apply zmem_dedup.
    + intros y Hy. rewrite zmem_app. destruct (zmem y (map fst l)) eqn:Hyo.
      * apply orb_true_iff. left. apply zmem_In. apply filter_In. split; [apply zmem_In, Hyo|apply zmem_In, Hy].
      * apply orb_true_iff. right. apply zmem_In. apply filter_In. split; [apply dedup_In, Hy|rewrite Hyo; reflexivity].
    + intros m Hm. apply in_app_or in Hm. destruct Hm as [Hm|Hm]; apply filter_In in Hm; destruct Hm as [H1 H2].
      * apply zmem_In, H2.
      * apply dedup_In, H1.
Qed.

Example coll_categories_ex :
  let s' := r_site (run true fix_trim (fresh (Some (SList [(1, true); (2, true); (3, false)]))) (ops_in [3; 5; 1; 5; 4]) zero) in
  has_cat Fix (cats s') = true /\ has_cat Trim (cats s') = true /\
  value_after fix_trim s' = Some (PList [1; 3; 5; 4]).
Proof. vm_compute. repeat split; reflexivity. Qed.

(* with an empty script the site is still undecided: nothing is trimmed *)
Theorem coll_categories_empty_script_refuted :
  exists fixed F l c,
    let s' := r_site (run fixed F (fresh (Some (SList l))) (ops_in []) c) in
    has_cat Trim (cats s') <> existsb (fun e => negb (zmem (fst e) [])) l.
Proof. exists true, noflags, [(1, true)], zero. vm_compute. discriminate. Qed.

(* ------------------------------------------------------------------ counters of flat scripts *)

(* does the comparison hold against the old value? *)
Definition holds (K : kind) (o : src) (x : Z) : bool :=
  match plain_op (kop K x) (src_val o) with Some b => b | None => false end.

(* the situations in which the pinned tree does not look at the old value at all (F-02) *)
Definition pinned_skips (F : flags) (K : kind) (nv : option Z) : bool :=
  match K with
  | KEq => false
  | KColl => ignore_old_value F
  | _ => match nv with None => ignore_old_value F | Some _ => ignore_old F true end
  end.

Lemma step_flat_counters fixed F K k0 o nv coll ch x c :
  old_matches K o = true -> (k0 = KUndecided \/ k0 = K) ->
  snd (step fixed F (Site k0 (Some o) nv coll ch) (kop K x) c) =
  if holds K o x then c
  else if fixed || negb (pinned_skips F K nv) then inc_incorrect c else c.
Proof.
  intros Hm Hk0.
  destruct K, o as [z cn|l|kvs]; try discriminate Hm; destruct Hk0 as [Hk0|Hk0]; subst k0;
    destruct nv as [n|]; destruct fixed; cbn; unfold ret, holds, pinned_skips; cbn.
  all: try match goal with |- context [?a =? ?b] => rewrite (Z.eqb_sym a b) end.
  all: try match goal with |- context [if cmp_of ?K ?n ?y then ?n else ?y] => fold (ext K n y) end.
  all: try reflexivity.
  all: try (destruct (ignore_old_value F); cbn).
  all: try (destruct (ignore_old F true); [rewrite ext_cmp_r|]; cbn).
  all: unfold cmp_of; repeat match goal with |- context [if ?b then _ else _] => destruct b end; reflexivity.
Qed.

(* ------------------------------------------------------------------ T12 *)

Lemma run_flat_good fixed F K o ch :
  old_matches K o = true ->
  forall xs k0 nv coll c, (k0 = KUndecided \/ k0 = K) ->
  Forall (fun x => holds K o x = true) xs ->
  r_counters (run fixed F (Site k0 (Some o) nv coll ch) (map (kop K) xs) c) = c.
Proof.
  intros Hm xs; induction xs as [|x r IH]; intros k0 nv coll c Hk0 Hall; [reflexivity|].
  inversion Hall as [|x' r' Hx Hr]; subst x' r'.
  cbn [map]. rewrite run_cons. unfold r_counters at 1. cbn [snd].
  rewrite step_flat_counters by assumption. rewrite Hx.
  destruct (step_flat_site fixed F K k0 o nv coll ch x c Hm Hk0) as [nv' [coll' Hs]].
  rewrite Hs. apply IH; [right; reflexivity|exact Hr].
Qed.

Theorem good_snapshots_never_counted : forall fixed F K o xs c,
  old_matches K o = true ->
  Forall (fun x => plain_op (kop K x) (src_val o) = Some true) xs ->
  r_counters (run fixed F (fresh (Some o)) (map (kop K) xs) c) = c.
Proof.
  intros fixed F K o xs c Hm Hall. apply run_flat_good; auto.
  eapply Forall_impl; [|exact Hall]. intros x Hx. unfold holds. rewrite Hx. reflexivity.
Qed.

Corollary good_snapshots_never_counted_zero : forall fixed F K o xs,
  old_matches K o = true ->
  Forall (fun x => plain_op (kop K x) (src_val o) = Some true) xs ->
  r_counters (run fixed F (fresh (Some o)) (map (kop K) xs) zero) = zero.
Proof. intros. apply good_snapshots_never_counted; assumption. Qed.

Example good_snapshots_never_counted_ex :
  Forall (fun x => plain_op (kop KMin x) (src_val (SAtom 3 false)) = Some true) [5; 3; 4] /\
  r_counters (run false fix_trim (fresh (Some (SAtom 3 false))) (map (kop KMin) [5; 3; 4]) zero) = zero.
Proof. split; [repeat constructor|vm_compute; reflexivity]. Qed.

(* ------------------------------------------------------------------ T13 *)

(* repaired tree: every failing comparison against a defined old value is counted, exactly once *)
Lemma run_flat_fixed_count F K o ch :
  old_matches K o = true ->
  forall xs k0 nv coll c, (k0 = KUndecided \/ k0 = K) ->
  r_counters (run true F (Site k0 (Some o) nv coll ch) (map (kop K) xs) c) =
  {| missing := missing c;
     incorrect := incorrect c + length (filter (fun x => negb (holds K o x)) xs) |}.
Proof.
  intros Hm xs; induction xs as [|x r IH]; intros k0 nv coll c Hk0.
  - cbn. rewrite Nat.add_0_r. destruct c; reflexivity.
  - cbn [map]. rewrite run_cons. unfold r_counters at 1. cbn [snd].
    rewrite step_flat_counters by assumption.
    destruct (step_flat_site true F K k0 o nv coll ch x c Hm Hk0) as [nv' [coll' Hs]].
    rewrite Hs. rewrite IH by (right; reflexivity). cbn [filter orb].
    destruct (holds K o x); cbn [negb length missing incorrect inc_incorrect]; [reflexivity|].
    f_equal. lia.
Qed.

Lemma step_flat_missing fixed F K old_none_nv coll ch x c :
  flat_kind K = true ->
  missing (snd (step fixed F (Site KUndecided None old_none_nv coll ch) (kop K x) c)) = S (missing c).
Proof.
  intros HK. destruct K; try discriminate HK; destruct old_none_nv as [n|]; destruct fixed; cbn; unfold ret;
    repeat match goal with |- context [if ?b then _ else _] => destruct b end; reflexivity.
Qed.

Theorem bad_snapshot_counted :
  (* a missing value is counted (both trees) *)
  (forall fixed F K x r c, flat_kind K = true ->
     (missing (r_counters (run fixed F (fresh None) (map (kop K) (x :: r)) c)) > missing c)%nat) /\
  (* repaired tree: a failing comparison is counted *)
  (forall F K o xs c, old_matches K o = true ->
     existsb (fun x => negb (holds K o x)) xs = true ->
     (incorrect (r_counters (run true F (fresh (Some o)) (map (kop K) xs) c)) > incorrect c)%nat).
Proof.
  split.
  - intros fixed F K x r c HK. cbn [map]. rewrite run_cons. unfold r_counters at 1. cbn [snd].
    match goal with |- context [r_counters (run fixed F ?s ?ops ?c1)] =>
      pose proof (run_cle fixed F ops s c1) as [Hle _] end.
    unfold fresh in *. rewrite step_flat_missing in Hle by assumption. lia.
  - intros F K o xs c Hm Hex. unfold fresh. rewrite run_flat_fixed_count by auto.
    cbn [incorrect]. rewrite existsb_filter in Hex.
    destruct (filter (fun x => negb (holds K o x)) xs); [discriminate Hex|]. cbn [length]. lia.
Qed.

Corollary bad_snapshot_counted_exact : forall F K o xs,
  old_matches K o = true ->
  r_counters (run true F (fresh (Some o)) (map (kop K) xs) zero) =
  {| missing := 0; incorrect := length (filter (fun x => negb (holds K o x)) xs) |}.
Proof. intros F K o xs Hm. unfold fresh. rewrite run_flat_fixed_count by auto. reflexivity. Qed.

Example bad_snapshot_counted_ex :
  existsb (fun x => negb (holds KMax (SAtom 5 true) x)) [4; 8; 9] = true /\
  r_counters (run true fix_only (fresh (Some (SAtom 5 true))) (map (kop KMax) [4; 8; 9]) zero)
  = {| missing := 0; incorrect := 2 |} /\
  r_counters (run false noflags (fresh None) (map (kop KColl) [4; 8]) zero) = {| missing := 2; incorrect := 0 |}.
Proof. vm_compute. repeat split; reflexivity. Qed.

(* ------------------------------------------------------------------ further instances *)

Example counters_monotone_ex :
  snd (step true noflags (fresh None) (OEq 1) zero) = {| missing := 1; incorrect := 1 |} /\
  snd (step true noflags (fresh None) (OMin 1) zero) = {| missing := 1; incorrect := 0 |} /\
  snd (step false fix_only (Site KMax (Some (SAtom 5 true)) (Some 6) [] []) (OMax 9) {| missing := 2; incorrect := 3 |})
  = {| missing := 2; incorrect := 3 |}.
Proof. vm_compute. repeat split; reflexivity. Qed.

(* the Fix half of T9 also holds for the empty script *)
Theorem coll_categories_fix_any_script : forall fixed F l xs c,
  has_cat Fix (cats (r_site (run fixed F (fresh (Some (SList l))) (ops_in xs) c)))
  = existsb (fun y => negb (zmem y (map fst l))) xs.
Proof.
  intros fixed F l [|x r] c.
  - cbn. induction (filter (fun e : Z * bool => negb (snd e)) l) as [|e t IH]; [reflexivity|exact IH].
  - apply (coll_categories fixed F l x r c).
Qed.

(* T14 in general form (defect F-02): under --fix or --update the pinned tree counts no failing
   bound or membership test at all *)
Theorem pinned_never_counts_under_fix_or_update : forall F K o xs c,
  (K = KMin \/ K = KMax \/ K = KColl) -> old_matches K o = true ->
  ignore_old_value F = true ->
  r_counters (run false F (fresh (Some o)) (map (kop K) xs) c) = c.
Proof.
  intros F K o xs c HK Hm Hig. unfold fresh.
  assert (Hgen : forall xs k0 nv coll c, (k0 = KUndecided \/ k0 = K) ->
            r_counters (run false F (Site k0 (Some o) nv coll []) (map (kop K) xs) c) = c).
  { clear xs c. induction xs as [|x r IH]; intros k0 nv coll c Hk0; [reflexivity|].
    cbn [map]. rewrite run_cons. unfold r_counters at 1. cbn [snd].
    rewrite step_flat_counters by assumption.
    destruct (step_flat_site false F K k0 o nv coll [] x c Hm Hk0) as [nv' [coll' Hs]].
    rewrite Hs, IH by (right; reflexivity).
    assert (Hsk : pinned_skips F K nv = true).
    { unfold pinned_skips, ignore_old. unfold ignore_old_value in Hig.
      destruct HK as [HK|[HK|HK]]; subst K; try exact Hig; destruct nv; try exact Hig;
        rewrite Hig; reflexivity. }
    rewrite Hsk. destruct (holds K o x); reflexivity. }
  apply Hgen. left; reflexivity.
Qed.

Example pinned_never_counts_ex :
  ignore_old_value fix_only = true /\
  r_counters (run false fix_only (fresh (Some (SAtom 5 true))) (map (kop KMin) [1; 2; 9]) zero) = zero /\
  r_counters (run true fix_only (fresh (Some (SAtom 5 true))) (map (kop KMin) [1; 2; 9]) zero)
  = {| missing := 0; incorrect := 2 |}.
Proof. vm_compute. repeat split; reflexivity. Qed.
