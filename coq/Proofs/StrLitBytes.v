(* CPython bytes_repr output is read back by the lexer for b'..' literals. *)
From Coq Require Import List NArith Bool Lia.
Import ListNotations.
From V Require Import Model.StrLit Proofs.StrLitRepr.
Open Scope N_scope.

Section B.
Variable q : cp.

Lemma runb_hex_gen : forall d m a n r acc, n < 16 ^ (N.of_nat d) ->
  runb q (SHex (d + S m) a) (hex_fixed d n ++ r) acc = runb q (SHex (S m) (a * 16 ^ (N.of_nat d) + n)) r acc.
Proof. induction d as [|d IH]; intros m a n r acc Hn.
  - simpl in *. assert (n = 0) by lia. subst. f_equal. f_equal. lia.
  - cbn [hex_fixed]. rewrite <- app_assoc. cbn [app].
    replace (S d + S m)%nat with (d + S (S m))%nat by lia.
    assert (Hd : n / 16 < 16 ^ N.of_nat d).
    { apply N.div_lt_upper_bound; [lia|]. rewrite Nat2N.inj_succ, N.pow_succ_r' in Hn. lia. }
    rewrite (IH (S m) a (n / 16) _ acc Hd).
    cbn [runb]. rewrite hexval_hexdigit by (apply N.mod_lt; lia).
    f_equal. f_equal. rewrite Nat2N.inj_succ, N.pow_succ_r'.
    pose proof (N.div_mod n 16 ltac:(lia)). lia.
Qed.

Lemma runb_hex : forall d c r acc, c < 16 ^ (N.of_nat (S d)) ->
  runb q (SHex (S d) 0) (hex_fixed (S d) c ++ r) acc = runb q SNorm r (c :: acc).
Proof. intros d c r acc Hc. cbn [hex_fixed]. rewrite <- app_assoc. cbn [app].
  replace (S d) with (d + 1)%nat at 1 by lia.
  assert (Hd : c / 16 < 16 ^ N.of_nat d).
  { apply N.div_lt_upper_bound; [lia|]. rewrite Nat2N.inj_succ, N.pow_succ_r' in Hc. lia. }
  rewrite (runb_hex_gen d 0 0 (c / 16) _ acc Hd).
  cbn [runb]. rewrite hexval_hexdigit by (apply N.mod_lt; lia).
  replace ((0 * 16 ^ N.of_nat d + c / 16) * 16 + c mod 16) with c
    by (pose proof (N.div_mod c 16 ltac:(lia)); lia).
  destruct d; reflexivity.
Qed.

Hypothesis Hq : q = 39 \/ q = 34.

Lemma runb_brepr_char c r acc : c < 256 ->
  runb q SNorm (brepr_char q c ++ r) acc = runb q SNorm r (c :: acc).
Proof. intros Hc. unfold brepr_char.
  destruct ((c =? q) || (c =? 92)) eqn:E1.
  { apply orb_prop in E1. cbn [app runb]. rewrite N.eqb_refl.
    destruct E1 as [E|E]; apply N.eqb_eq in E; subst c.
    - destruct Hq; subst q; reflexivity.
    - reflexivity. }
  apply orb_false_elim in E1. destruct E1 as [Eq Ebs]. apply N.eqb_neq in Eq, Ebs.
  destruct (c =? 9) eqn:E2. { apply N.eqb_eq in E2; subst. reflexivity. }
  destruct (c =? 10) eqn:E3. { apply N.eqb_eq in E3; subst. reflexivity. }
  destruct (c =? 13) eqn:E4. { apply N.eqb_eq in E4; subst. reflexivity. }
  apply N.eqb_neq in E2, E3, E4.
  destruct ((c <? 32) || (127 <=? c)) eqn:E5.
  { rewrite <- app_assoc. cbn [app]. cbn [runb]. rewrite N.eqb_refl.
    cbn [runb N.eqb Pos.eqb orb andb N.leb N.compare Pos.compare Pos.compare_cont].
    apply runb_hex. change (16 ^ N.of_nat 2) with 256. exact Hc. }
  apply orb_false_elim in E5. destruct E5 as [E5 E6]. apply N.ltb_ge in E5. apply N.leb_gt in E6.
  cbn [app runb]. destruct (c =? 92) eqn:X; [apply N.eqb_eq in X; lia|].
  destruct (c =? q) eqn:Y; [apply N.eqb_eq in Y; lia|].
  destruct (c =? 10) eqn:Z; [apply N.eqb_eq in Z; lia|].
  destruct (128 <=? c) eqn:W; [apply N.leb_le in W; lia|]. reflexivity.
Qed.

Lemma runb_brepr_chars : forall s r acc, Forall (fun c => c < 256) s ->
  runb q SNorm (concat (map (brepr_char q) s) ++ r) acc = runb q SNorm r (rev s ++ acc).
Proof. induction s as [|c s IH]; intros r acc Hs; [reflexivity|].
  inversion Hs as [|c' s' Hc Hs']; subst. cbn [map concat]. rewrite <- app_assoc. rewrite runb_brepr_char by auto.
  rewrite IH by auto. cbn [rev]. rewrite <- app_assoc. reflexivity. Qed.
End B.

(* D *)
Theorem bytes_repr_roundtrip s : Forall (fun c => c < 256) s ->
  decode_bytes_literal (bytes_repr s) = Done s [].
Proof. intros Hs. unfold bytes_repr. set (q := pick_q s). pose proof (pick_q_cases s) as Hq. fold q in Hq.
  assert (Hq' : (q =? 39) || (q =? 34) = true) by (destruct Hq as [-> | ->]; reflexivity).
  cbn [app decode_bytes_literal]. rewrite Hq'.
  rewrite runb_brepr_chars by (auto; tauto). rewrite app_nil_r.
  cbn [runb]. rewrite N.eqb_refl. rewrite rev_involutive.
  destruct Hq as [Eq | Eq]; rewrite Eq; reflexivity.
Qed.

(* the bytes value a, quote, double quote, newline, NUL, 0xff, backslash *)
Example bytes_repr_ex :
  bytes_repr [97; 39; 34; 10; 0; 255; 92] = [98; 39; 97; 92; 39; 34; 92; 110; 92; 120; 48; 48; 92; 120; 102; 102; 92; 92; 39]
  /\ decode_bytes_literal (bytes_repr [97; 39; 34; 10; 0; 255; 92]) = Done [97; 39; 34; 10; 0; 255; 92] [].
Proof. split; vm_compute; reflexivity. Qed.

Print Assumptions bytes_repr_roundtrip.
