(* Proofs about Model/DictAssign.v: dict displays are repaired key by key; the values are nested lists / tuples. *)
From Coq Require Import List ZArith Bool Arith Lia Permutation.
Import ListNotations.
From V Require Import Model.Align Model.SnapOps Model.TreeAssign Model.DictAssign Proofs.UnmanagedProofs Proofs.TreeAssignProofs Proofs.TreeAssignConfluence.

Definition pair_of (i : ditem) : Z * val := (fst i, eval_r (snd i)).
Definition old_pair (e : entry) : Z * val := (e_key e, eval (e_val e)).

Lemma has_old_in : forall k olds, has_old k olds = true <-> In k (map e_key olds).
Proof.
  intros k olds. induction olds as [|e r IH]; cbn [has_old map In]; [split; [discriminate|tauto]|].
  rewrite orb_true_iff, IH, Z.eqb_eq. split; intros [H|H]; auto.
Qed.
Lemma lookup_new_in : forall k v news, lookup_new k news = Some v -> In (k, v) news.
Proof.
  intros k v news. induction news as [|[k' v'] r IH]; cbn [lookup_new]; [discriminate|].
  destruct (k =? k')%Z eqn:E; [apply Z.eqb_eq in E; subst; intros H; injection H as ->; left; reflexivity|intros H; right; exact (IH H)].
Qed.
Lemma lookup_new_nodup : forall k v news, NoDup (map fst news) -> In (k, v) news -> lookup_new k news = Some v.
Proof.
  intros k v news. induction news as [|[k' v'] r IH]; intros Hnd Hin; [destruct Hin|]. cbn [map fst] in Hnd. inversion Hnd as [|? ? Hni Hnd']; subst.
  cbn [lookup_new]. destruct Hin as [H|H].
  - injection H as -> ->. rewrite Z.eqb_refl. reflexivity.
  - destruct (k =? k')%Z eqn:E; [|exact (IH Hnd' H)]. apply Z.eqb_eq in E. subst k'. exfalso. apply Hni.
    apply in_map_iff. exists (k, v). split; [reflexivity|exact H].
Qed.
Lemma lookup_new_none : forall k news, lookup_new k news = None <-> ~ In k (map fst news).
Proof.
  intros k news. induction news as [|[k' v'] r IH]; cbn [lookup_new map fst In]; [tauto|].
  destruct (k =? k')%Z eqn:E.
  - apply Z.eqb_eq in E. subst. split; [discriminate|intros H; exfalso; apply H; left; reflexivity].
  - apply Z.eqb_neq in E. rewrite IH. split; [intros H [H1|H1]; [congruence|exact (H H1)]|tauto].
Qed.

(* ------------------------------------------------------------------------- (1) without fix the value never changes *)
Lemma assign_entry_nofix : forall F e news, f_fix F = false ->
  map pair_of (assign_entry F e news) = [old_pair e].
Proof.
  intros F e news HF. unfold assign_entry, old_pair. destruct (lookup_new (e_key e) news) as [v|]; [|rewrite HF; reflexivity].
  unfold pair_of. cbn [map fst snd]. rewrite tree_nofix_value by exact HF. reflexivity.
Qed.
Theorem dict_nofix_value : forall F olds news, f_fix F = false ->
  map pair_of (dict_result F olds news) = map old_pair olds.
Proof.
  intros F olds news HF. unfold dict_result. generalize (inserts olds news [] 0) as ins. generalize 0%nat as i.
  induction olds as [|e r IH]; intros i ins; cbn [place map]; rewrite HF; [reflexivity|].
  cbn [app]. rewrite map_app, assign_entry_nofix by exact HF. cbn [app]. rewrite IH. reflexivity.
Qed.

(* ------------------------------------------------------------------------- (2) C11: an equal entry under a surviving key *)
Lemma in_place_entry : forall F ins news e olds i x, In e olds -> In x (assign_entry F e news) -> In x (place F ins news i olds).
Proof.
  intros F ins news e olds. induction olds as [|o r IH]; intros i x He Hx; [destruct He|].
  cbn [place]. apply in_or_app. right. apply in_or_app. destruct He as [->|He]; [left; exact Hx|right; apply IH; assumption].
Qed.
(* entries are matched by key: an entry whose value did not change keeps its source text (nested containers included), wherever
   other entries are inserted or deleted *)
Theorem dict_equal_entry_verbatim : forall F olds news e v, f_update F = false -> In e olds ->
  lookup_new (e_key e) news = Some v -> elt_eqb (e_val e) v = true ->
  exists r, In (e_key e, r) (dict_result F olds news) /\ verbatim r = Some (e_val e).
Proof.
  intros F olds news e v HU He Hl Hv. exists (assign_tree F (e_val e) v). split; [|apply tree_equal_keeps_text; assumption].
  unfold dict_result. apply (in_place_entry F _ news e olds 0%nat _ He). unfold assign_entry. rewrite Hl. left. reflexivity.
Qed.

(* ------------------------------------------------------------------------- (3) with fix the result is exactly the new value *)
Lemma inserts_concat : forall olds news pending pos,
  flat_map snd (inserts olds news pending pos) = rev pending ++ filter (fun kv => negb (has_old (fst kv) olds)) news.
Proof.
  intros olds news. induction news as [|[k v] r IH]; intros pending pos; cbn [inserts filter fst].
  - destruct pending as [|p ps]; cbn [flat_map snd]; rewrite ?app_nil_r; reflexivity.
  - destruct (has_old k olds) eqn:E; cbn [negb].
    + rewrite flat_map_app, IH. cbn [rev app]. destruct pending as [|p ps]; cbn [flat_map snd app]; rewrite ?app_nil_r; reflexivity.
    + rewrite IH. cbn [rev]. rewrite <- app_assoc. reflexivity.
Qed.

Lemma inserts_pos_bound : forall olds news pending pos n,
  pos + length (filter (fun kv => has_old (fst kv) olds) news) <= n -> length olds <= n ->
  Forall (fun g : nat * list (Z * val) => fst g <= n) (inserts olds news pending pos).
Proof.
  intros olds news. induction news as [|[k v] r IH]; intros pending pos n H Hl; cbn [inserts].
  - destruct pending; constructor; [cbn [fst]; exact Hl|constructor].
  - cbn [filter fst] in H. destruct (has_old k olds) eqn:E.
    + cbn [length] in H. apply Forall_app. split; [destruct pending; constructor; [cbn [fst]; lia|constructor]|]. apply IH; [lia|exact Hl].
    + apply IH; assumption.
Qed.

Lemma matched_le_olds : forall olds (news : list (Z * val)), NoDup (map fst news) ->
  length (filter (fun kv => has_old (fst kv) olds) news) <= length olds.
Proof.
  intros olds news Hnd.
  assert (H : NoDup (map fst (filter (fun kv => has_old (fst kv) olds) news))).
  { induction news as [|[k v] r IH]; [constructor|]. cbn [map fst] in Hnd. inversion Hnd as [|? ? Hni Hnd']; subst. cbn [filter fst].
    destruct (has_old k olds); [|exact (IH Hnd')]. cbn [map fst]. constructor; [|exact (IH Hnd')].
    intros Hin. apply Hni. apply in_map_iff in Hin. destruct Hin as [[k' v'] [E Hin]]. apply filter_In in Hin. apply in_map_iff. exists (k', v'). tauto. }
  rewrite <- (map_length fst). rewrite <- (map_length e_key olds). apply NoDup_incl_length; [exact H|].
  intros k Hk. apply in_map_iff in Hk. destruct Hk as [[k' v'] [E Hin]]. apply filter_In in Hin. destruct Hin as [_ Hin]. cbn [fst] in *. subst. apply has_old_in. exact Hin.
Qed.

Lemma inserted_at_perm : forall ins n, Forall (fun g : nat * list (Z * val) => fst g <= n) ins ->
  Permutation (flat_map (inserted_at ins) (seq 0 (S n))) (gens (flat_map snd ins)).
Proof.
  intros ins n. induction ins as [|[p g] r IH]; intros H.
  - unfold inserted_at. cbn [flat_map]. induction (seq 0 (S n)) as [|x l IHl]; [constructor|exact IHl].
  - inversion H as [|? ? Hp Hr]; subst. cbn [fst] in Hp. cbn [flat_map snd]. unfold gens. rewrite map_app. fold (gens g). fold (gens (flat_map snd r)).
    assert (E : forall i, inserted_at ((p, g) :: r) i = (if Nat.eqb p i then gens g else []) ++ inserted_at r i) by (intros; reflexivity).
    assert (P : forall l, Permutation (flat_map (inserted_at ((p, g) :: r)) l)
                                      (flat_map (fun i => if Nat.eqb p i then gens g else []) l ++ flat_map (inserted_at r) l)).
    { induction l as [|x l IHl]; [constructor|]. cbn [flat_map]. rewrite E. rewrite IHl. rewrite <- !app_assoc.
      apply Permutation_app_head. apply Permutation_app_swap_app. }
    rewrite P. apply Permutation_app; [|exact (IH Hr)].
    assert (G : forall a len, a <= p < a + len -> flat_map (fun i => if Nat.eqb p i then gens g else []) (seq a len) = gens g).
    { intros a len. revert a. induction len as [|len IHlen]; intros a Ha; [lia|]. cbn [seq flat_map].
      destruct (Nat.eqb p a) eqn:Epa.
      - apply Nat.eqb_eq in Epa. subst a. assert (Z0 : forall b len', p < b -> flat_map (fun i => if Nat.eqb p i then gens g else []) (seq b len') = []).
        { intros b len'. revert b. induction len' as [|l' IHl']; intros b Hb; [reflexivity|]. cbn [seq flat_map].
          destruct (Nat.eqb p b) eqn:Eb; [apply Nat.eqb_eq in Eb; lia|]. apply IHl'. lia. }
        rewrite Z0 by lia. apply app_nil_r.
      - apply Nat.eqb_neq in Epa. cbn [app]. apply IHlen. lia. }
    rewrite G by lia. apply Permutation_refl.
Qed.

Lemma place_perm : forall F ins news olds i, f_fix F = true ->
  Permutation (place F ins news i olds) (flat_map (fun e => assign_entry F e news) olds ++ flat_map (inserted_at ins) (seq i (S (length olds)))).
Proof.
  intros F ins news olds. induction olds as [|e r IH]; intros i HF; cbn [place length seq flat_map]; rewrite HF.
  - rewrite app_nil_r. apply Permutation_refl.
  - rewrite (IH (S i) HF). cbn [seq flat_map]. rewrite <- !app_assoc.
    rewrite Permutation_app_swap_app. apply Permutation_app_head. apply Permutation_app_swap_app.
Qed.

Definition new_entries (olds : list entry) (news : list (Z * val)) : list (Z * val) := filter (fun kv => negb (has_old (fst kv) olds)) news.

Theorem dict_result_perm : forall F olds news, f_fix F = true -> NoDup (map fst news) ->
  Permutation (dict_result F olds news) (flat_map (fun e => assign_entry F e news) olds ++ gens (new_entries olds news)).
Proof.
  intros F olds news HF Hnd. unfold dict_result. rewrite (place_perm F _ news olds 0 HF). apply Permutation_app_head.
  rewrite inserted_at_perm.
  - rewrite inserts_concat. reflexivity.
  - apply inserts_pos_bound; [cbn [Nat.add]; apply matched_le_olds; exact Hnd|lia].
Qed.

Definition managed_entries (olds : list entry) : Prop := forall e, In e olds -> managed (e_val e) = true.

(* with fix: the (key, value) pairs of the result are exactly the pairs of the new value *)
Theorem dict_fix_value : forall F olds news k v, f_fix F = true -> managed_entries olds -> NoDup (map e_key olds) -> NoDup (map fst news) ->
  (In (k, v) (map pair_of (dict_result F olds news)) <-> In (k, v) news).
Proof.
  intros F olds news k v HF Hm Hno Hnn.
  assert (P : Permutation (map pair_of (dict_result F olds news))
                (map pair_of (flat_map (fun e => assign_entry F e news) olds) ++ new_entries olds news)).
  { rewrite (dict_result_perm F olds news HF Hnn). rewrite map_app. apply Permutation_app_head.
    unfold gens. rewrite map_map. unfold pair_of. cbn [fst snd eval_r]. rewrite map_ext with (g := fun x => x); [rewrite map_id; reflexivity|]. intros [a b]; reflexivity. }
  split; intros H.
  - apply (Permutation_in _ P) in H. apply in_app_or in H. destruct H as [H|H]; [|apply filter_In in H; tauto].
    apply in_map_iff in H. destruct H as [x [Ex Hx]]. apply in_flat_map in Hx. destruct Hx as [e [He Hx]].
    unfold assign_entry in Hx. destruct (lookup_new (e_key e) news) as [v0|] eqn:El; [|rewrite HF in Hx; destruct Hx].
    destruct Hx as [<-|[]]. unfold pair_of in Ex. cbn [fst snd] in Ex. rewrite (tree_fix_value F (e_val e) v0 (Hm e He) HF) in Ex.
    injection Ex as <- <-. apply lookup_new_in. exact El.
  - apply (Permutation_in _ (Permutation_sym P)). apply in_or_app.
    destruct (has_old k olds) eqn:Eo.
    + left. apply has_old_in in Eo. apply in_map_iff in Eo. destruct Eo as [e [Ek He]]. subst k.
      apply in_map_iff. pose proof (lookup_new_nodup _ _ _ Hnn H) as El.
      exists (e_key e, assign_tree F (e_val e) v). split; [unfold pair_of; cbn [fst snd]; rewrite (tree_fix_value F (e_val e) v (Hm e He) HF); reflexivity|].
      apply in_flat_map. exists e. split; [exact He|]. unfold assign_entry. rewrite El. left. reflexivity.
    + right. apply filter_In. split; [exact H|]. cbn [fst]. rewrite Eo. reflexivity.
Qed.

Lemma NoDup_app_intro : forall (X : Type) (a b : list X), NoDup a -> NoDup b -> (forall x, In x a -> In x b -> False) -> NoDup (a ++ b).
Proof.
  intros X a b Ha Hb Hd. induction Ha as [|x l Hx Hl IH]; [exact Hb|]. cbn [app]. constructor.
  - intros Hin. apply in_app_or in Hin. destruct Hin as [Hin|Hin]; [exact (Hx Hin)|]. apply (Hd x); [left; reflexivity|exact Hin].
  - apply IH. intros y Hy. apply Hd. right. exact Hy.
Qed.

Lemma assign_entry_keys : forall F e news x, In x (map fst (assign_entry F e news)) -> x = e_key e.
Proof.
  intros F e news x. unfold assign_entry. destruct (lookup_new (e_key e) news); [|destruct (f_fix F)]; cbn; intros H; try tauto; destruct H as [<-|[]]; reflexivity.
Qed.
Lemma old_entries_nodup : forall F news olds, NoDup (map e_key olds) -> NoDup (map fst (flat_map (fun e => assign_entry F e news) olds)).
Proof.
  intros F news olds. induction olds as [|e r IH]; intros Hno; [constructor|]. cbn [map] in Hno. inversion Hno as [|? ? Hni Hno']; subst. cbn [flat_map]. rewrite map_app.
  apply NoDup_app_intro; [| exact (IH Hno') |].
  - unfold assign_entry. destruct (lookup_new (e_key e) news); [|destruct (f_fix F)]; cbn; repeat constructor; intros [].
  - intros x Hx Hy. apply assign_entry_keys in Hx. subst x. apply Hni.
    apply in_map_iff in Hy. destruct Hy as [it [Ek Hit]]. apply in_flat_map in Hit. destruct Hit as [e' [He' Hit]].
    apply in_map_iff. exists e'. split; [|exact He'].
    assert (Hk : In (fst it) (map fst (assign_entry F e' news))) by (apply in_map; exact Hit). apply assign_entry_keys in Hk. congruence.
Qed.

(* ... and no key occurs twice in the result *)
Theorem dict_fix_nodup : forall F olds news, f_fix F = true -> NoDup (map e_key olds) -> NoDup (map fst news) ->
  NoDup (map fst (dict_result F olds news)).
Proof.
  intros F olds news HF Hno Hnn.
  apply (Permutation_NoDup (l := map fst (flat_map (fun e => assign_entry F e news) olds ++ gens (new_entries olds news)))).
  - apply Permutation_map. apply Permutation_sym. apply dict_result_perm; assumption.
  - rewrite map_app. apply NoDup_app_intro.
    + apply old_entries_nodup. exact Hno.
    + unfold gens, new_entries. rewrite map_map. cbn [fst].
      clear Hno. induction news as [|[k v] r IH]; [constructor|]. cbn [map fst] in Hnn. inversion Hnn as [|? ? Hni Hnn']; subst. cbn [filter fst].
      destruct (negb (has_old k olds)); [|exact (IH Hnn')]. cbn [map fst]. constructor; [|exact (IH Hnn')].
      intros Hin. apply Hni. apply in_map_iff in Hin. destruct Hin as [[k' v'] [E Hin]]. apply filter_In in Hin. apply in_map_iff. exists (k', v'). tauto.
    + intros x Hx Hy. apply in_map_iff in Hx. destruct Hx as [it [Ek Hit]]. apply in_flat_map in Hit. destruct Hit as [e [He Hit]].
      assert (Ex : x = e_key e) by (apply (assign_entry_keys F e news); rewrite <- Ek; apply in_map; exact Hit).
      unfold gens, new_entries in Hy. rewrite map_map in Hy. apply in_map_iff in Hy. destruct Hy as [[k' v'] [E Hin]]. apply filter_In in Hin. destruct Hin as [_ Hin]. cbn [fst] in *. subst.
      apply negb_true_iff in Hin. assert (Ht : has_old (e_key e) olds = true) by (apply has_old_in; apply in_map; exact He). congruence.
Qed.

(* ------------------------------------------------------------------------- (4) C10: parts the user controls *)
Definition dict_unms (olds : list entry) : list nat := flat_map (fun e => unms (e_val e)) olds.
Definition dresult_unms (l : list ditem) : list nat := flat_map (fun i => unms_r (snd i)) l.

Lemma flat_map_nil : forall (X Y : Type) (f : X -> list Y) l, (forall x, In x l -> f x = []) -> flat_map f l = [].
Proof. intros X Y f l. induction l as [|x l IH]; intros H; [reflexivity|]. cbn [flat_map]. rewrite (H x (or_introl eq_refl)), IH; [reflexivity|]. intros y Hy. apply H. right. exact Hy. Qed.
Lemma inserted_unms : forall ins i, dresult_unms (inserted_at ins i) = [].
Proof.
  intros ins i. unfold dresult_unms. apply flat_map_nil. intros x Hx. unfold inserted_at in Hx. apply in_flat_map in Hx. destruct Hx as [g [_ Hx]].
  destruct (Nat.eqb (fst g) i); [|destruct Hx]. unfold gens in Hx. apply in_map_iff in Hx. destruct Hx as [kv [<- _]]. reflexivity.
Qed.
Lemma assign_entry_unms : forall F e news, subseq (dresult_unms (assign_entry F e news)) (unms (e_val e)).
Proof.
  intros F e news. unfold assign_entry, dresult_unms. destruct (lookup_new (e_key e) news) as [v|].
  - cbn [flat_map snd]. rewrite app_nil_r. unfold assign_tree. apply assign_unmanaged_subsequence.
  - destruct (f_fix F); cbn [flat_map snd unms_r]; [apply subseq_nil_l|rewrite app_nil_r; apply subseq_refl].
Qed.
(* whatever is approved and observed: no code is generated for a user-controlled part of any value, none is duplicated or reordered *)
Theorem dict_unmanaged_subsequence : forall F olds news, subseq (dresult_unms (dict_result F olds news)) (dict_unms olds).
Proof.
  intros F olds news. unfold dict_result, dict_unms. generalize (inserts olds news [] 0) as ins. generalize 0%nat as i.
  induction olds as [|e r IH]; intros i ins; cbn [place flat_map].
  - destruct (f_fix F); [rewrite inserted_unms|]; apply ss_nil.
  - unfold dresult_unms. rewrite !flat_map_app.
    match goal with |- subseq (?a ++ _) _ => assert (E : a = []) by (destruct (f_fix F); [apply inserted_unms|reflexivity]); rewrite E end.
    cbn [app]. apply subseq_app; [apply assign_entry_unms|apply IH].
Qed.
(* without fix nothing the user controls disappears *)
Theorem dict_unmanaged_kept_nofix : forall F olds news, f_fix F = false -> dresult_unms (dict_result F olds news) = dict_unms olds.
Proof.
  intros F olds news HF. unfold dict_result, dict_unms. generalize (inserts olds news [] 0) as ins. generalize 0%nat as i.
  induction olds as [|e r IH]; intros i ins; cbn [place flat_map]; rewrite HF; [reflexivity|].
  cbn [app]. unfold dresult_unms. rewrite flat_map_app. f_equal; [|apply IH].
  unfold assign_entry. destruct (lookup_new (e_key e) news) as [v|]; [|rewrite HF; cbn [flat_map snd unms_r]; apply app_nil_r].
  cbn [flat_map snd]. rewrite app_nil_r. unfold assign_tree. apply assign_unmanaged_kept_nofix. exact HF.
Qed.

(* ------------------------------------------------------------------------- (5) C09: two runs compose *)
Definition entries_of (l : list ditem) : list entry := map (fun i => {| e_key := fst i; e_val := to_tree (snd i) |}) l.

Lemma has_old_ext : forall k a b, map e_key a = map e_key b -> has_old k a = has_old k b.
Proof.
  intros k a. induction a as [|x a IH]; intros [|y b] H; cbn [map] in H; try discriminate; [reflexivity|].
  injection H as H1 H2. cbn [has_old]. rewrite H1, (IH b H2). reflexivity.
Qed.
Lemma inserts_ext : forall a b news pending pos, map e_key a = map e_key b -> inserts a news pending pos = inserts b news pending pos.
Proof.
  intros a b news. induction news as [|[k v] r IH]; intros pending pos H; cbn [inserts].
  - assert (E : length a = length b) by (rewrite <- (map_length e_key a), H, map_length; reflexivity). rewrite E. reflexivity.
  - rewrite (has_old_ext k a b H). destruct (has_old k b); [rewrite (IH [] (S pos) H)|rewrite (IH ((k, v) :: pending) pos H)]; reflexivity.
Qed.

(* a run without fix keeps every entry (keys and order) *)
Lemma nofix_keys : forall F olds news, f_fix F = false -> map e_key (entries_of (dict_result F olds news)) = map e_key olds.
Proof.
  intros F olds news HF. pose proof (dict_nofix_value F olds news HF) as H.
  unfold entries_of. rewrite map_map. cbn [e_key].
  assert (E : map fst (map pair_of (dict_result F olds news)) = map fst (map old_pair olds)) by (rewrite H; reflexivity).
  rewrite !map_map in E. cbn [pair_of old_pair fst] in E. exact E.
Qed.

Lemma canon_run_d : forall F v, to_tree (assign_tree F (canon_tree v) v) = canon_tree v.
Proof.
  intros F v. unfold assign_tree. rewrite assign_equal_run; [| lia | apply managed_canon_tree | unfold elt_eqb; rewrite eval_canon; apply val_eqb_refl].
  destruct (f_update F); [|reflexivity]. rewrite canonize_canon_tree by apply managed_canon_tree. rewrite eval_canon. reflexivity.
Qed.

(* the entries a run leaves, processed by a second run that inserts nothing *)
Lemma place_noins : forall F news olds i ins, (forall j, inserted_at ins j = []) ->
  place F ins news i olds = flat_map (fun e => assign_entry F e news) olds.
Proof.
  intros F news olds. induction olds as [|e r IH]; intros i ins H; cbn [place flat_map]; rewrite H; [destruct (f_fix F); reflexivity|].
  rewrite (IH (S i) ins H). destruct (f_fix F); reflexivity.
Qed.
Lemma inserts_none : forall olds news pos, (forall k v, In (k, v) news -> has_old k olds = true) -> inserts olds news [] pos = [].
Proof.
  intros olds news. induction news as [|[k v] r IH]; intros pos H; cbn [inserts]; [reflexivity|].
  rewrite (H k v (or_introl eq_refl)). cbn [app]. apply IH. intros k' v' Hin. apply (H k' v'). right. exact Hin.
Qed.

Lemma entries_of_app : forall a b, entries_of (a ++ b) = entries_of a ++ entries_of b.
Proof. intros. unfold entries_of. apply map_app. Qed.

(* one entry over two runs *)
Lemma per_entry : forall F1 F2 e news, managed (e_val e) = true ->
  entries_of (flat_map (fun e' => assign_entry F2 e' news) (entries_of (assign_entry F1 e news))) = entries_of (assign_entry (funion F1 F2) e news).
Proof.
  intros F1 F2 e news Hm. unfold assign_entry at 2 3. destruct (lookup_new (e_key e) news) as [v|] eqn:El.
  - cbn [entries_of map flat_map fst snd app]. unfold assign_entry. cbn [e_key e_val]. rewrite El. cbn [app map fst snd].
    rewrite tree_two_runs_compose by exact Hm. reflexivity.
  - change (f_fix (funion F1 F2)) with (f_fix F1 || f_fix F2). destruct (f_fix F1); cbn [orb]; [reflexivity|].
    cbn [entries_of map flat_map fst snd app to_tree]. unfold assign_entry. cbn [e_key e_val]. rewrite El. destruct (f_fix F2); reflexivity.
Qed.

(* generated entries are left alone by any later run *)
Lemma gens_stable_d : forall F news l, (forall k v, In (k, v) l -> lookup_new k news = Some v) ->
  entries_of (flat_map (fun e' => assign_entry F e' news) (entries_of (gens l))) = entries_of (gens l).
Proof.
  intros F news l. induction l as [|[k v] l IH]; intros H; [reflexivity|].
  cbn [gens map entries_of flat_map fst snd to_tree]. unfold assign_entry at 1. cbn [e_key e_val]. rewrite (H k v (or_introl eq_refl)).
  cbn [app map fst snd]. rewrite canon_run_d. f_equal. apply IH. intros k' v' Hin. apply H. right. exact Hin.
Qed.
Lemma inserts_members : forall olds news0 news pending pos, (forall kv, In kv news -> In kv news0) -> (forall kv, In kv pending -> In kv news0) ->
  Forall (fun g : nat * list (Z * val) => forall kv, In kv (snd g) -> In kv news0) (inserts olds news pending pos).
Proof.
  intros olds news0 news. induction news as [|[k v] r IH]; intros pending pos Hn Hp; cbn [inserts].
  - destruct pending as [|x l]; constructor; [|constructor]. cbn [snd]. intros kv Hin. apply in_rev in Hin. apply Hp. exact Hin.
  - assert (Hr : forall kv, In kv r -> In kv news0) by (intros kv Hkv; apply Hn; right; exact Hkv).
    destruct (has_old k olds).
    + apply Forall_app. split; [|apply IH; [exact Hr|intros kv []]].
      destruct pending as [|x l]; constructor; [|constructor]. cbn [snd]. intros kv Hin. apply in_rev in Hin. apply Hp. exact Hin.
    + apply IH; [exact Hr|]. intros kv [<-|Hin]; [apply Hn; left; reflexivity|apply Hp; exact Hin].
Qed.
Lemma inserted_stable : forall F news ins j, NoDup (map fst news) ->
  Forall (fun g : nat * list (Z * val) => forall kv, In kv (snd g) -> In kv news) ins ->
  entries_of (flat_map (fun e' => assign_entry F e' news) (entries_of (inserted_at ins j))) = entries_of (inserted_at ins j).
Proof.
  intros F news ins j Hnn H. unfold inserted_at. induction H as [|g r Hg Hr IH]; [reflexivity|].
  cbn [flat_map]. rewrite entries_of_app, flat_map_app, entries_of_app, IH. f_equal.
  destruct (Nat.eqb (fst g) j); [|reflexivity]. apply gens_stable_d. intros k v Hin. apply lookup_new_nodup; [exact Hnn|apply Hg; exact Hin].
Qed.

(* the first run repairs: the second run finds every key and inserts nothing *)
Lemma place_compose_fix : forall F1 F2 news ins, f_fix F1 = true -> NoDup (map fst news) ->
  Forall (fun g : nat * list (Z * val) => forall kv, In kv (snd g) -> In kv news) ins ->
  forall olds i, (forall e, In e olds -> managed (e_val e) = true) ->
  entries_of (flat_map (fun e' => assign_entry F2 e' news) (entries_of (place F1 ins news i olds))) = entries_of (place (funion F1 F2) ins news i olds).
Proof.
  intros F1 F2 news ins HF1 Hnn Hins.
  assert (HFu : f_fix (funion F1 F2) = true) by (change (f_fix (funion F1 F2)) with (f_fix F1 || f_fix F2); rewrite HF1; reflexivity).
  induction olds as [|e r IH]; intros i Hm; cbn [place]; rewrite HF1, HFu.
  - apply inserted_stable; assumption.
  - rewrite !entries_of_app, !flat_map_app, !entries_of_app.
    rewrite inserted_stable by assumption. rewrite per_entry by (apply Hm; left; reflexivity).
    rewrite IH by (intros e' He'; apply Hm; right; exact He'). reflexivity.
Qed.

(* the first run does not repair: it keeps every entry where it is *)
Lemma assign_entry_nofix_single : forall F e news, f_fix F = false -> exists r, assign_entry F e news = [(e_key e, r)].
Proof.
  intros F e news HF. unfold assign_entry. destruct (lookup_new (e_key e) news); [|rewrite HF]; eexists; reflexivity.
Qed.
Lemma place_compose_nofix : forall F1 F2 news ins, f_fix F1 = false ->
  forall olds i, (forall e, In e olds -> managed (e_val e) = true) ->
  entries_of (place F2 ins news i (entries_of (flat_map (fun e => assign_entry F1 e news) olds))) = entries_of (place (funion F1 F2) ins news i olds).
Proof.
  intros F1 F2 news ins HF1.
  assert (HFu : f_fix (funion F1 F2) = f_fix F2) by (change (f_fix (funion F1 F2)) with (f_fix F1 || f_fix F2); rewrite HF1; reflexivity).
  induction olds as [|e r IH]; intros i Hm; cbn [flat_map].
  - cbn [entries_of map place]. rewrite HFu. reflexivity.
  - destruct (assign_entry_nofix_single F1 e news HF1) as [x Ex]. pose proof (per_entry F1 F2 e news (Hm e (or_introl eq_refl))) as Hp.
    rewrite Ex in Hp |- *. cbn [app entries_of map fst snd] in Hp |- *. cbn [flat_map] in Hp. rewrite app_nil_r in Hp.
    cbn [place]. fold (entries_of (flat_map (fun e0 => assign_entry F1 e0 news) r)). rewrite HFu.
    rewrite !entries_of_app. rewrite Hp. rewrite IH by (intros e' He'; apply Hm; right; exact He'). reflexivity.
Qed.

(* C09 for dict displays: a run with F1 followed by a run with F2 on the display the first run wrote leaves the same entries - same
   order, same texts - as one run with F1 and F2 together, for all flag sets *)
Theorem dict_two_runs_compose : forall F1 F2 olds news, managed_entries olds -> NoDup (map e_key olds) -> NoDup (map fst news) ->
  entries_of (dict_result F2 (entries_of (dict_result F1 olds news)) news) = entries_of (dict_result (funion F1 F2) olds news).
Proof.
  intros F1 F2 olds news Hm Hno Hnn.
  destruct (f_fix F1) eqn:HF1.
  - set (o1 := entries_of (dict_result F1 olds news)).
    assert (Hall : forall k v, In (k, v) news -> has_old k o1 = true).
    { intros k v Hin. apply has_old_in. unfold o1, entries_of. rewrite map_map. cbn [e_key].
      pose proof (proj2 (dict_fix_value F1 olds news k v HF1 Hm Hno Hnn) Hin) as H. apply in_map_iff in H. destruct H as [it [E Hit]].
      apply in_map_iff. exists it. split; [|exact Hit]. unfold pair_of in E. congruence. }
    unfold dict_result at 1. rewrite (inserts_none o1 news 0 Hall). rewrite place_noins by (intros j; reflexivity).
    unfold o1, dict_result. apply place_compose_fix; [exact HF1|exact Hnn| |exact Hm].
    apply inserts_members; [intros kv H; exact H|intros kv []].
  - assert (E1 : dict_result F1 olds news = flat_map (fun e => assign_entry F1 e news) olds).
    { unfold dict_result. generalize (inserts olds news [] 0) as ins. generalize 0%nat as i.
      induction olds as [|e r IH]; intros i ins; cbn [place flat_map]; rewrite HF1; [reflexivity|]. cbn [app]. f_equal. apply IH.
      - intros e' He'. apply Hm. right. exact He'.
      - cbn [map] in Hno. inversion Hno. assumption. }
    unfold dict_result at 1. rewrite (inserts_ext _ olds news [] 0%nat (nofix_keys F1 olds news HF1)).
    rewrite E1. unfold dict_result. apply place_compose_nofix; [exact HF1|exact Hm].
Qed.

(* non-vacuity *)
Example dict_example :
  let F := {| f_create := false; f_fix := true; f_trim := false; f_update := false |} in
  let olds := [ {| e_key := 1; e_val := TLeaf 5 false |}; {| e_key := 2; e_val := TLeaf 6 true |};
                {| e_key := 3; e_val := TSeq KList [TLeaf 7 false; TLeaf 8 true] |} ] in
  dict_result F olds [(9, VAtom 0); (3, VSeq KList [VAtom 7; VAtom 8; VAtom 9]); (1, VAtom 4); (8, VAtom 8)]%Z
  = [(9, RGen (VAtom 0)); (1, RGen (VAtom 4)); (3, RSeq KList [RKeep (TLeaf 7 false); RKeep (TLeaf 8 true); RGen (VAtom 9)]); (8, RGen (VAtom 8))]%Z.
Proof. vm_compute. reflexivity. Qed.
