(* Proofs about Model/DictAssign.v: dict displays are repaired key by key. *)
From Coq Require Import List ZArith Bool Arith Lia Permutation.
Import ListNotations.
From V Require Import Model.SnapOps Model.SeqAssign Model.DictAssign Proofs.SeqAssignProofs.

Definition pair_of (i : ditem) : Z * Z := (ditem_key i, ditem_val i).

Lemma has_old_in : forall k olds, has_old k olds = true <-> In k (map e_key olds).
Proof.
  intros k olds. induction olds as [|e r IH]; cbn [has_old map In]; [split; [discriminate|tauto]|].
  rewrite orb_true_iff, IH, Z.eqb_eq. split; intros [H|H]; auto.
Qed.
Lemma lookup_new_in : forall k v news, lookup_new k news = Some v -> In (k, v) news.
Proof.
  intros k v news. induction news as [|[k' v'] r IH]; cbn [lookup_new]; [discriminate|].
  destruct (k =? k')%Z eqn:E; [apply Z.eqb_eq in E; subst; intros H; injection H as ->; left; reflexivity|intros H; right; exact (IH H)].
Qed.
Lemma lookup_new_nodup : forall k v news, NoDup (map fst news) -> In (k, v) news -> lookup_new k news = Some v.
Proof.
  intros k v news. induction news as [|[k' v'] r IH]; intros Hnd Hin; [destruct Hin|]. cbn [map fst] in Hnd. inversion Hnd as [|? ? Hni Hnd']; subst.
  cbn [lookup_new]. destruct Hin as [H|H].
  - injection H as -> ->. rewrite Z.eqb_refl. reflexivity.
  - destruct (k =? k')%Z eqn:E; [|exact (IH Hnd' H)]. apply Z.eqb_eq in E. subst k'. exfalso. apply Hni.
    apply in_map_iff. exists (k, v). split; [reflexivity|exact H].
Qed.
Lemma lookup_new_none : forall k news, lookup_new k news = None <-> ~ In k (map fst news).
Proof.
  intros k news. induction news as [|[k' v'] r IH]; cbn [lookup_new map fst In]; [tauto|].
  destruct (k =? k')%Z eqn:E.
  - apply Z.eqb_eq in E. subst. split; [discriminate|intros H; exfalso; apply H; left; reflexivity].
  - apply Z.eqb_neq in E. rewrite IH. split; [intros H [H1|H1]; [congruence|exact (H H1)]|tauto].
Qed.

(* ------------------------------------------------------------------------- (1) without fix the value never changes *)
Lemma assign_entry_nofix : forall F e news, f_fix F = false ->
  map pair_of (assign_entry F e news) = [(e_key e, l_val (e_leaf e))].
Proof.
  intros F e news HF. unfold assign_entry. destruct (lookup_new (e_key e) news) as [v|]; [|rewrite HF; reflexivity].
  pose proof (assign_leaf_val_nofix F (e_leaf e) v HF) as H.
  destruct (assign_leaf F (e_leaf e) v); unfold pair_of; simpl in *; rewrite H; reflexivity.
Qed.
Theorem dict_nofix_value : forall F olds news, f_fix F = false ->
  map pair_of (dict_result F olds news) = map (fun e => (e_key e, l_val (e_leaf e))) olds.
Proof.
  intros F olds news HF. unfold dict_result. generalize (inserts olds news [] 0) as ins. generalize 0%nat as i.
  induction olds as [|e r IH]; intros i ins; cbn [place map]; rewrite HF; [reflexivity|].
  cbn [app]. rewrite map_app, assign_entry_nofix by exact HF. cbn [app]. rewrite IH. reflexivity.
Qed.

(* ------------------------------------------------------------------------- (2) C11: an equal entry under a surviving key *)
Lemma in_place_entry : forall F ins news e olds i x, In e olds -> In x (assign_entry F e news) -> In x (place F ins news i olds).
Proof.
  intros F ins news e olds. induction olds as [|o r IH]; intros i x He Hx; [destruct He|].
  cbn [place]. apply in_or_app. right. apply in_or_app. destruct He as [->|He]; [left; exact Hx|right; apply IH; assumption].
Qed.
Theorem dict_equal_entry_verbatim : forall F olds news e, f_update F = false -> In e olds ->
  lookup_new (e_key e) news = Some (l_val (e_leaf e)) ->
  In (DKeep (e_key e) (e_leaf e)) (dict_result F olds news).
Proof.
  intros F olds news e HU He Hl. unfold dict_result. apply (in_place_entry F _ news e olds 0%nat _ He).
  unfold assign_entry. rewrite Hl. rewrite (assign_leaf_keep_eq F (e_leaf e) _ HU); [left; reflexivity|].
  apply leaf_eqb_eq. reflexivity.
Qed.

(* ------------------------------------------------------------------------- (3) with fix the result is exactly the new value *)
(* the inserted groups together are the entries with new keys, in the order of the new value *)
Lemma inserts_concat : forall olds news pending pos,
  flat_map snd (inserts olds news pending pos) = rev pending ++ filter (fun kv => negb (has_old (fst kv) olds)) news.
Proof.
  intros olds news. induction news as [|[k v] r IH]; intros pending pos; cbn [inserts filter fst].
  - destruct pending as [|p ps]; cbn [flat_map snd]; rewrite ?app_nil_r; reflexivity.
  - destruct (has_old k olds) eqn:E; cbn [negb].
    + rewrite flat_map_app, IH. cbn [rev app]. destruct pending as [|p ps]; cbn [flat_map snd app]; rewrite ?app_nil_r; reflexivity.
    + rewrite IH. cbn [rev]. rewrite <- app_assoc. reflexivity.
Qed.

(* every group is placed in front of an old entry or behind the last one *)
Lemma inserts_pos_bound : forall olds news pending pos n,
  pos + length (filter (fun kv => has_old (fst kv) olds) news) <= n -> length olds <= n ->
  Forall (fun g : nat * list (Z * Z) => fst g <= n) (inserts olds news pending pos).
Proof.
  intros olds news. induction news as [|[k v] r IH]; intros pending pos n H Hl; cbn [inserts].
  - destruct pending; constructor; [cbn [fst]; exact Hl|constructor].
  - cbn [filter fst] in H. destruct (has_old k olds) eqn:E.
    + cbn [length] in H. apply Forall_app. split; [destruct pending; constructor; [cbn [fst]; lia|constructor]|]. apply IH; [lia|exact Hl].
    + apply IH; assumption.
Qed.

Lemma matched_le_olds : forall olds (news : list (Z * Z)), NoDup (map fst news) ->
  length (filter (fun kv => has_old (fst kv) olds) news) <= length olds.
Proof.
  intros olds news Hnd.
  assert (H : NoDup (map fst (filter (fun kv => has_old (fst kv) olds) news))).
  { induction news as [|[k v] r IH]; [constructor|]. cbn [map fst] in Hnd. inversion Hnd as [|? ? Hni Hnd']; subst. cbn [filter fst].
    destruct (has_old k olds); [|exact (IH Hnd')]. cbn [map fst]. constructor; [|exact (IH Hnd')].
    intros Hin. apply Hni. apply in_map_iff in Hin. destruct Hin as [[k' v'] [E Hin]]. apply filter_In in Hin. apply in_map_iff. exists (k', v'). tauto. }
  rewrite <- (map_length fst). rewrite <- (map_length e_key olds). apply NoDup_incl_length; [exact H|].
  intros k Hk. apply in_map_iff in Hk. destruct Hk as [[k' v'] [E Hin]]. apply filter_In in Hin. destruct Hin as [_ Hin]. cbn [fst] in *. subst. apply has_old_in. exact Hin.
Qed.

(* placing the groups: up to order, the result is the processed old entries plus all inserted entries *)
Lemma inserted_at_perm : forall ins n, Forall (fun g : nat * list (Z * Z) => fst g <= n) ins ->
  Permutation (flat_map (inserted_at ins) (seq 0 (S n))) (gens (flat_map snd ins)).
Proof.
  intros ins n. induction ins as [|[p g] r IH]; intros H.
  - unfold inserted_at. cbn [flat_map]. induction (seq 0 (S n)) as [|x l IHl]; [constructor|exact IHl].
  - inversion H as [|? ? Hp Hr]; subst. cbn [fst] in Hp. cbn [flat_map snd]. unfold gens. rewrite map_app. fold (gens g). fold (gens (flat_map snd r)).
    (* split every inserted_at into the part of the first group and the rest *)
    assert (E : forall i, inserted_at ((p, g) :: r) i = (if Nat.eqb p i then gens g else []) ++ inserted_at r i) by (intros; reflexivity).
    assert (P : forall l, Permutation (flat_map (inserted_at ((p, g) :: r)) l)
                                      (flat_map (fun i => if Nat.eqb p i then gens g else []) l ++ flat_map (inserted_at r) l)).
    { induction l as [|x l IHl]; [constructor|]. cbn [flat_map]. rewrite E. rewrite IHl. rewrite <- !app_assoc.
      apply Permutation_app_head. apply Permutation_app_swap_app. }
    rewrite P. apply Permutation_app; [|exact (IH Hr)].
    (* exactly one index of 0..n equals p *)
    assert (G : forall a len, a <= p < a + len -> flat_map (fun i => if Nat.eqb p i then gens g else []) (seq a len) = gens g).
    { intros a len. revert a. induction len as [|len IHlen]; intros a Ha; [lia|]. cbn [seq flat_map].
      destruct (Nat.eqb p a) eqn:Epa.
      - apply Nat.eqb_eq in Epa. subst a. assert (Z0 : forall b len', p < b -> flat_map (fun i => if Nat.eqb p i then gens g else []) (seq b len') = []).
        { intros b len'. revert b. induction len' as [|l' IHl']; intros b Hb; [reflexivity|]. cbn [seq flat_map].
          destruct (Nat.eqb p b) eqn:Eb; [apply Nat.eqb_eq in Eb; lia|]. apply IHl'. lia. }
        rewrite Z0 by lia. apply app_nil_r.
      - apply Nat.eqb_neq in Epa. cbn [app]. apply IHlen. lia. }
    rewrite G by lia. apply Permutation_refl.
Qed.

Lemma place_perm : forall F ins news olds i, f_fix F = true ->
  Permutation (place F ins news i olds) (flat_map (fun e => assign_entry F e news) olds ++ flat_map (inserted_at ins) (seq i (S (length olds)))).
Proof.
  intros F ins news olds. induction olds as [|e r IH]; intros i HF; cbn [place length seq flat_map]; rewrite HF.
  - rewrite app_nil_r. apply Permutation_refl.
  - rewrite (IH (S i) HF). cbn [seq flat_map]. rewrite <- !app_assoc.
    (* a ++ b ++ c ++ d  ~  b ++ c ++ a ++ d *)
    rewrite Permutation_app_swap_app. apply Permutation_app_head. apply Permutation_app_swap_app.
Qed.

Theorem dict_result_perm : forall F olds news, f_fix F = true -> NoDup (map fst news) ->
  Permutation (dict_result F olds news)
              (flat_map (fun e => assign_entry F e news) olds ++ gens (filter (fun kv => negb (has_old (fst kv) olds)) news)).
Proof.
  intros F olds news HF Hnd. unfold dict_result. rewrite (place_perm F _ news olds 0 HF). apply Permutation_app_head.
  rewrite inserted_at_perm.
  - rewrite inserts_concat. reflexivity.
  - apply inserts_pos_bound; [cbn [Nat.add]; apply matched_le_olds; exact Hnd|lia].
Qed.

(* with fix: the entries of the result are exactly the entries of the new value *)
Theorem dict_fix_value : forall F olds news k v, f_fix F = true -> NoDup (map e_key olds) -> NoDup (map fst news) ->
  (In (k, v) (map pair_of (dict_result F olds news)) <-> In (k, v) news).
Proof.
  intros F olds news k v HF Hno Hnn.
  assert (P : Permutation (map pair_of (dict_result F olds news))
                (map pair_of (flat_map (fun e => assign_entry F e news) olds) ++ filter (fun kv => negb (has_old (fst kv) olds)) news)).
  { rewrite (dict_result_perm F olds news HF Hnn). rewrite map_app. apply Permutation_app_head.
    unfold gens. rewrite map_map. cbn [pair_of ditem_key ditem_val]. rewrite map_ext with (g := fun x => x); [rewrite map_id; reflexivity|]. intros [a b]; reflexivity. }
  split; intros H.
  - apply (Permutation_in _ P) in H. apply in_app_or in H. destruct H as [H|H]; [|apply filter_In in H; tauto].
    apply in_map_iff in H. destruct H as [x [Ex Hx]]. apply in_flat_map in Hx. destruct Hx as [e [He Hx]].
    unfold assign_entry in Hx. destruct (lookup_new (e_key e) news) as [v0|] eqn:El; [|rewrite HF in Hx; destruct Hx].
    pose proof (assign_leaf_val_fix F (e_leaf e) v0 HF) as Hv.
    destruct (assign_leaf F (e_leaf e) v0); destruct Hx as [<-|[]]; unfold pair_of in Ex; simpl in Ex, Hv; injection Ex as <- <-; rewrite Hv; apply lookup_new_in; exact El.
  - apply (Permutation_in _ (Permutation_sym P)). apply in_or_app.
    destruct (has_old k olds) eqn:Eo.
    + left. apply has_old_in in Eo. apply in_map_iff in Eo. destruct Eo as [e [Ek He]]. subst k.
      apply in_map_iff. pose proof (lookup_new_nodup _ _ _ Hnn H) as El.
      pose proof (assign_leaf_val_fix F (e_leaf e) v HF) as Hv.
      destruct (assign_leaf F (e_leaf e) v) as [l|v'] eqn:Ea.
      * exists (DKeep (e_key e) l). split; [unfold pair_of; simpl; simpl in Hv; congruence|]. apply in_flat_map. exists e. split; [exact He|]. unfold assign_entry. rewrite El, Ea. left. reflexivity.
      * exists (DGen (e_key e) v'). split; [unfold pair_of; simpl; simpl in Hv; congruence|]. apply in_flat_map. exists e. split; [exact He|]. unfold assign_entry. rewrite El, Ea. left. reflexivity.
    + right. apply filter_In. split; [exact H|]. cbn [fst]. rewrite Eo. reflexivity.
Qed.

Lemma NoDup_app_intro : forall (X : Type) (a b : list X), NoDup a -> NoDup b -> (forall x, In x a -> In x b -> False) -> NoDup (a ++ b).
Proof.
  intros X a b Ha Hb Hd. induction Ha as [|x l Hx Hl IH]; [exact Hb|]. cbn [app]. constructor.
  - intros Hin. apply in_app_or in Hin. destruct Hin as [Hin|Hin]; [exact (Hx Hin)|]. apply (Hd x); [left; reflexivity|exact Hin].
  - apply IH. intros y Hy. apply Hd. right. exact Hy.
Qed.

(* ... and no key occurs twice in the result *)
Theorem dict_fix_nodup : forall F olds news, f_fix F = true -> NoDup (map e_key olds) -> NoDup (map fst news) ->
  NoDup (map ditem_key (dict_result F olds news)).
Proof.
  intros F olds news HF Hno Hnn.
  apply (Permutation_NoDup (l := map ditem_key (flat_map (fun e => assign_entry F e news) olds ++ gens (filter (fun kv => negb (has_old (fst kv) olds)) news)))).
  - apply Permutation_map. apply Permutation_sym. apply dict_result_perm; assumption.
  - rewrite map_app. apply NoDup_app_intro.
    + (* processed old entries: a sub-list of the old keys *)
      clear Hnn. induction olds as [|e r IH]; [constructor|]. cbn [map] in Hno. inversion Hno as [|? ? Hni Hno']; subst. cbn [flat_map]. rewrite map_app.
      apply NoDup_app_intro; [| |].
      * unfold assign_entry. destruct (lookup_new (e_key e) news); [destruct (assign_leaf F (e_leaf e) z)|rewrite HF]; cbn; repeat constructor; intros [].
      * exact (IH Hno').
      * intros x Hx Hy. apply Hni.
        assert (Ex : x = e_key e).
        { unfold assign_entry in Hx. destruct (lookup_new (e_key e) news); [destruct (assign_leaf F (e_leaf e) z)|rewrite HF in Hx]; cbn in Hx; try tauto; destruct Hx as [<-|[]]; reflexivity. }
        subst x. apply in_map_iff in Hy. destruct Hy as [it [Ek Hit]]. apply in_flat_map in Hit. destruct Hit as [e' [He' Hit]].
        apply in_map_iff. exists e'. split; [|exact He'].
        unfold assign_entry in Hit. destruct (lookup_new (e_key e') news); [destruct (assign_leaf F (e_leaf e') z)|rewrite HF in Hit]; cbn in Hit; try tauto; destruct Hit as [<-|[]]; cbn in Ek; congruence.
    + unfold gens. rewrite map_map. cbn [ditem_key].
      clear Hno. induction news as [|[k v] r IH]; [constructor|]. cbn [map fst] in Hnn. inversion Hnn as [|? ? Hni Hnn']; subst. cbn [filter fst].
      destruct (negb (has_old k olds)); [|exact (IH Hnn')]. cbn [map fst]. constructor; [|exact (IH Hnn')].
      intros Hin. apply Hni. apply in_map_iff in Hin. destruct Hin as [[k' v'] [E Hin]]. apply filter_In in Hin. apply in_map_iff. exists (k', v'). tauto.
    + intros x Hx Hy. apply in_map_iff in Hx. destruct Hx as [it [Ek Hit]]. apply in_flat_map in Hit. destruct Hit as [e [He Hit]].
      assert (Ex : x = e_key e).
      { unfold assign_entry in Hit. destruct (lookup_new (e_key e) news); [destruct (assign_leaf F (e_leaf e) z)|rewrite HF in Hit]; cbn in Hit; try tauto; destruct Hit as [<-|[]]; cbn in Ek; congruence. }
      unfold gens in Hy. rewrite map_map in Hy. apply in_map_iff in Hy. destruct Hy as [[k' v'] [E Hin]]. apply filter_In in Hin. destruct Hin as [_ Hin]. cbn [fst ditem_key] in *. subst.
      apply negb_true_iff in Hin. assert (Ht : has_old (e_key e) olds = true) by (apply has_old_in; apply in_map; exact He). congruence.
Qed.

(* non-vacuity *)
Example dict_example :
  let F := {| f_create := false; f_fix := true; f_trim := false; f_update := false |} in
  let olds := [ {| e_key := 1; e_leaf := {| l_val := 5; l_canon := false |} |}; {| e_key := 2; e_leaf := {| l_val := 6; l_canon := true |} |};
                {| e_key := 3; e_leaf := {| l_val := 7; l_canon := false |} |} ] in
  dict_result F olds [(9, 0); (3, 7); (1, 4); (8, 8)]%Z
  = [DGen 9 0; DGen 1 4; DKeep 3 {| l_val := 7; l_canon := false |}; DGen 8 8]%Z.
Proof. vm_compute. reflexivity. Qed.
