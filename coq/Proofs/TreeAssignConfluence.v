(* Proofs about Model/TreeAssign.v, part 2: approving fix and update one after the other, in any order, or together gives the
   same source text - for nested lists / tuples of any depth without user-controlled parts (C09 beyond flat sequences). *)
From Coq Require Import List Arith ZArith Bool Lia.
Import ListNotations.
From V Require Import Model.Align Model.SnapOps Model.TreeAssign Proofs.AlignValid Proofs.AlignProofs Proofs.SeqAssignProofs
  Proofs.UnmanagedProofs Proofs.TreeAssignProofs.
Open Scope nat_scope.

(* ------------------------------------------------------------------------- the alignment only sees the == matrix *)
Section Ext.
Variables (A A' B : Type) (eqb : A -> B -> bool) (eqb' : A' -> B -> bool).
Definition SameEq (a : A) (a' : A') : Prop := forall b, eqb a b = eqb' a' b.

Lemma row_ext : forall a a', SameEq a a' -> forall bs last left, row A B eqb a last bs left = row A' B eqb' a' last bs left.
Proof.
  intros a a' H bs. induction bs as [|b bs IH]; intros last left; [reflexivity|].
  cbn [row]. destruct last as [|lc [|lb last']]; try reflexivity. rewrite (H b). rewrite IH. reflexivity.
Qed.
Lemma rows_ext : forall as_ as', Forall2 SameEq as_ as' -> forall bs last, rows A B eqb as_ bs last = rows A' B eqb' as' bs last.
Proof.
  intros as_ as' H. induction H as [|a a' as_ as' Ha H IH]; intros bs last; [reflexivity|].
  cbn [rows]. unfold next_row. rewrite (row_ext a a' Ha). rewrite IH. reflexivity.
Qed.
Lemma F2_len : forall as_ as', Forall2 SameEq as_ as' -> length as_ = length as'.
Proof. intros as_ as' H. induction H; cbn [length]; congruence. Qed.
Lemma nw_align_ext : forall as_ as' bs, Forall2 SameEq as_ as' -> nw_align A B eqb as_ bs = nw_align A' B eqb' as' bs.
Proof.
  intros as_ as' bs H. unfold nw_align, matrix. rewrite (rows_ext as_ as' H). rewrite (F2_len as_ as' H). reflexivity.
Qed.
Lemma cp_ext : forall as_ as', Forall2 SameEq as_ as' -> forall bs, common_prefix A B eqb as_ bs = common_prefix A' B eqb' as' bs.
Proof.
  intros as_ as' H. induction H as [|a a' as_ as' Ha H IH]; intros bs; [reflexivity|].
  cbn [common_prefix]. destruct bs as [|b bs]; [reflexivity|]. rewrite (Ha b). rewrite IH. reflexivity.
Qed.
Lemma F2_skipn : forall n as_ as', Forall2 SameEq as_ as' -> Forall2 SameEq (skipn n as_) (skipn n as').
Proof.
  induction n as [|n IH]; intros as_ as' H; [exact H|]. destruct H as [|a a' as_ as' Ha H]; [constructor|]. cbn [skipn]. apply IH. exact H.
Qed.
Lemma F2_firstn : forall n as_ as', Forall2 SameEq as_ as' -> Forall2 SameEq (firstn n as_) (firstn n as').
Proof.
  induction n as [|n IH]; intros as_ as' H; [constructor|]. destruct H as [|a a' as_ as' Ha H]; [constructor|]. cbn [firstn]. constructor; [exact Ha|apply IH; exact H].
Qed.
Lemma F2_rev : forall as_ as', Forall2 SameEq as_ as' -> Forall2 SameEq (rev as_) (rev as').
Proof.
  intros as_ as' H. induction H as [|a a' as_ as' Ha H IH]; [constructor|]. cbn [rev]. apply Forall2_app; [exact IH|constructor; [exact Ha|constructor]].
Qed.
Theorem align_ext : forall as_ as' bs, Forall2 SameEq as_ as' -> align A B eqb as_ bs = align A' B eqb' as' bs.
Proof.
  intros as_ as' bs H. unfold align. rewrite (cp_ext as_ as' H bs). rewrite <- (F2_len as_ as' H).
  set (start := common_prefix A' B eqb' as' bs).
  destruct ((start =? length as_) && (start =? length bs)); [reflexivity|].
  pose proof (F2_skipn start as_ as' H) as Hs.
  rewrite (cp_ext _ _ (F2_rev _ _ Hs)). rewrite (F2_len _ _ Hs).
  rewrite (nw_align_ext _ _ _ (F2_firstn _ _ _ Hs)). reflexivity.
Qed.
End Ext.

Lemma script_ext : forall os os' ns, map eval os = map eval os' -> script os ns = script os' ns.
Proof.
  intros os os' ns H. unfold script. f_equal. apply align_ext.
  revert os' H. induction os as [|o os IH]; intros [|o' os'] H; cbn [map] in H; try discriminate; [constructor|].
  injection H as H1 H2. constructor; [|apply IH; exact H2]. intros b. unfold elt_eqb. rewrite H1. reflexivity.
Qed.

(* ------------------------------------------------------------------------- the source text after a run *)
Fixpoint canon_tree (v : val) : tree :=
  match v with
  | VAtom z => TLeaf z true
  | VSeq k l => TSeq k (map canon_tree l)
  end.
Fixpoint to_tree (r : rtree) : tree :=
  match r with
  | RKeep t => t
  | RGen v => canon_tree v
  | RSeq k l => TSeq k (map to_tree l)
  end.

Lemma eval_canon : forall v, eval (canon_tree v) = v.
Proof.
  induction v as [z|k l IH] using val_induction; [reflexivity|]. cbn [canon_tree eval]. f_equal. rewrite map_map.
  induction IH as [|x r Hx Hr IHr]; [reflexivity|]. cbn [map]. rewrite Hx, IHr. reflexivity.
Qed.
Lemma eval_to_tree : forall r, eval (to_tree r) = eval_r r.
Proof.
  fix IH 1. intros [t|v|k l]; cbn [to_tree eval_r]; [reflexivity|apply eval_canon|].
  cbn [eval]. f_equal. rewrite map_map. induction l as [|x r IHl]; [reflexivity|]. cbn [map]. rewrite IH, IHl. reflexivity.
Qed.
Lemma verbatim_list_to_tree : forall l ts, (forall r t, In r l -> verbatim r = Some t -> to_tree r = t) ->
  verbatim_list l = Some ts -> map to_tree l = ts.
Proof.
  induction l as [|x r IH]; intros ts Hx H; cbn [verbatim_list] in H; [injection H as <-; reflexivity|].
  destruct (verbatim x) as [t|] eqn:E; [|discriminate]. destruct (verbatim_list r) as [ts'|] eqn:E2; [|discriminate]. injection H as <-.
  cbn [map]. f_equal; [apply Hx; [left; reflexivity|exact E]|]. apply IH; [|reflexivity]. intros; apply Hx; [right; assumption|assumption].
Qed.
Section RInd.
Variable P : rtree -> Prop.
Hypothesis HK : forall t, P (RKeep t).
Hypothesis HG : forall v, P (RGen v).
Hypothesis HS : forall k l, Forall P l -> P (RSeq k l).
Fixpoint rtree_induction (r : rtree) : P r :=
  match r with
  | RKeep t => HK t
  | RGen v => HG v
  | RSeq k l => HS k l ((fix go (l : list rtree) : Forall P l :=
                           match l with [] => Forall_nil _ | x :: r => Forall_cons x (rtree_induction x) (go r) end) l)
  end.
End RInd.

Lemma verbatim_to_tree : forall r t, verbatim r = Some t -> to_tree r = t.
Proof.
  induction r as [t0|v|k l IH] using rtree_induction; intros t H.
  - cbn in H. injection H as <-. reflexivity.
  - discriminate.
  - rewrite verbatim_seq in H. destruct (verbatim_list l) as [ts|] eqn:E; [|discriminate]. injection H as <-.
    cbn [to_tree]. f_equal. apply verbatim_list_to_tree; [|exact E]. intros r t Hin Hr. rewrite Forall_forall in IH. apply IH; assumption.
Qed.

(* only the fix and update bits matter *)
Lemma walk_flags_ext : forall asg1 asg2 F F', f_fix F = f_fix F' -> forall s os ns,
  (forall o n, In o os -> asg1 o n = asg2 o n) -> walk asg1 F s os ns = walk asg2 F' s os ns.
Proof.
  intros asg1 asg2 F F' Hf s. induction s as [|d s IH]; intros os ns H; [reflexivity|].
  destruct d; cbn [walk]; try reflexivity.
  - destruct os as [|o' os']; [reflexivity|]. rewrite Hf. f_equal. apply IH. intros; apply H; right; assumption.
  - destruct ns as [|n' ns']; [reflexivity|]. rewrite Hf. f_equal. apply IH. exact H.
  - destruct os as [|o' os']; [reflexivity|]. destruct ns as [|n' ns']; [reflexivity|]. f_equal; [apply H; left; reflexivity|].
    apply IH. intros; apply H; right; assumption.
  - destruct os as [|o' os']; [reflexivity|]. destruct ns as [|n' ns']; [reflexivity|]. f_equal; [apply H; left; reflexivity|].
    apply IH. intros; apply H; right; assumption.
Qed.
Lemma assign_flags_ext : forall f F F' o n, f_fix F = f_fix F' -> f_update F = f_update F' -> assign f F o n = assign f F' o n.
Proof.
  induction f as [|f IH]; intros F F' o n Hf Hu; [reflexivity|]. rewrite !assign_S.
  assert (Hv : forall o n, value_assign F o n = value_assign F' o n) by (intros; unfold value_assign; rewrite Hf, Hu; reflexivity).
  destruct o as [z c|i z|k olds]; destruct n as [m|k' news]; try apply Hv.
  destruct (skind_eqb k k'); [|apply Hv]. f_equal. apply walk_flags_ext; [exact Hf|]. intros; apply IH; assumption.
Qed.

(* ------------------------------------------------------------------------- fix and update together: everything canonical *)
Lemma walk_fix_update_canon : forall asg F s os ns, valid tree val elt_eqb s os ns -> f_fix F = true ->
  (forall o n, In o os -> to_tree (asg o n) = canon_tree n) -> map to_tree (walk asg F s os ns) = map canon_tree ns.
Proof.
  intros asg F s os ns H HF Ha.
  induction H as [|s o n os ns He H IH|s o os ns H IH|s n os ns H IH|s o n os ns H IH]; cbn [walk]; try rewrite HF; cbn [app map].
  - reflexivity.
  - rewrite Ha by (left; reflexivity). rewrite IH; [reflexivity|]. intros; apply Ha; right; assumption.
  - apply IH. intros; apply Ha; right; assumption.
  - cbn [to_tree]. rewrite IH; [reflexivity|exact Ha].
  - rewrite Ha by (left; reflexivity). rewrite IH; [reflexivity|]. intros; apply Ha; right; assumption.
Qed.

Lemma managed_elt : forall k l o, managed (TSeq k l) = true -> In o l -> managed o = true.
Proof. intros k l o H Hin. cbn [managed] in H. rewrite forallb_forall in H. apply H. exact Hin. Qed.

Lemma value_assign_fix_update : forall F o n, managed o = true -> f_fix F = true -> f_update F = true ->
  (forall z c, o = TLeaf z c -> True) ->
  val_eqb (eval o) n = false -> to_tree (value_assign F o n) = canon_tree n.
Proof. intros F o n Hm HF HU _ E. unfold value_assign. rewrite (managed_not_unm o Hm), E, HF. reflexivity. Qed.

Theorem assign_fix_update_canon : forall f F o n, depth o < f -> managed o = true -> f_fix F = true -> f_update F = true ->
  to_tree (assign f F o n) = canon_tree n.
Proof.
  induction f as [|f IH]; intros F o n Hd Hm HF HU; [lia|]. rewrite assign_S.
  assert (Hleaf : forall z c m, to_tree (value_assign F (TLeaf z c) (VAtom m)) = canon_tree (VAtom m)).
  { intros z c m. unfold value_assign. cbn [is_unm eval val_eqb canonical]. rewrite HF, HU.
    destruct (z =? m)%Z eqn:E; cbn [negb]; [|reflexivity]. apply Z.eqb_eq in E. subst m.
    destruct c; cbn [negb andb to_tree canon_tree]; reflexivity. }
  assert (Hne : forall o n, managed o = true -> val_eqb (eval o) n = false -> to_tree (value_assign F o n) = canon_tree n).
  { intros o0 n0 Hm0 E. unfold value_assign. rewrite (managed_not_unm o0 Hm0), E, HF. reflexivity. }
  destruct o as [z c|i z|k olds]; destruct n as [m|k' news].
  - apply Hleaf.
  - apply Hne; [exact Hm|reflexivity].
  - discriminate.
  - discriminate.
  - apply Hne; [exact Hm|reflexivity].
  - destruct (skind_eqb k k') eqn:Ek.
    + apply skind_eqb_eq in Ek. subst k'. cbn [to_tree canon_tree]. f_equal.
      apply walk_fix_update_canon; [apply script_valid|exact HF|].
      intros o n Hin. apply IH; [exact (depth_elt k olds o f Hd Hin)|exact (managed_elt k olds o Hm Hin)|exact HF|exact HU].
    + apply Hne; [exact Hm|]. cbn [eval]. rewrite val_eqb_seq, Ek. reflexivity.
Qed.

(* ------------------------------------------------------------------------- a run on a tree that already has the value *)
Lemma walk_all_m_map : forall asg F os ns (g : tree -> tree), Forall2 (fun o n => elt_eqb o n = true) os ns ->
  (forall o n, In o os -> elt_eqb o n = true -> to_tree (asg o n) = g o) ->
  map to_tree (walk asg F (repeat Dm (length os)) os ns) = map g os.
Proof.
  intros asg F os ns g H Ha. induction H as [|o n os ns He H IH]; [reflexivity|].
  cbn [length repeat walk map]. rewrite Ha; [|left; reflexivity|exact He].
  rewrite IH; [reflexivity|]. intros; apply Ha; [right; assumption|assumption].
Qed.

(* every leaf written canonically *)
Fixpoint canonize (t : tree) : tree :=
  match t with
  | TLeaf z _ => TLeaf z true
  | TUnm i z => TUnm i z
  | TSeq k l => TSeq k (map canonize l)
  end.

Theorem assign_equal_run : forall f F o n, depth o < f -> managed o = true -> elt_eqb o n = true ->
  to_tree (assign f F o n) = if f_update F then canonize o else o.
Proof.
  induction f as [|f IH]; intros F o n Hd Hm He; [lia|]. rewrite assign_S.
  assert (Hv : forall z c m, elt_eqb (TLeaf z c) (VAtom m) = true ->
               to_tree (value_assign F (TLeaf z c) (VAtom m)) = if f_update F then canonize (TLeaf z c) else TLeaf z c).
  { intros z c m E. unfold value_assign. unfold elt_eqb in E. cbn [is_unm]. rewrite E. cbn [negb canonical].
    cbn [eval val_eqb] in E. apply Z.eqb_eq in E. subst m.
    destruct c; cbn [negb andb]; [destruct (f_update F); reflexivity|]. destruct (f_update F); reflexivity. }
  destruct o as [z c|i z|k olds]; destruct n as [m|k' news]; try discriminate.
  - apply Hv. exact He.
  - unfold elt_eqb in He. cbn [eval] in He. rewrite val_eqb_seq in He. apply andb_prop in He. destruct He as [Ek He].
    rewrite Ek. apply skind_eqb_eq in Ek. subst k'.
    assert (Hl : map eval olds = news).
    { assert (E : val_eqb (VSeq k (map eval olds)) (VSeq k news) = true) by (rewrite val_eqb_seq; rewrite He; destruct k; reflexivity).
      apply val_eqb_eq in E. injection E as E. exact E. }
    pose proof (eval_seq_eq_inv olds news Hl) as HF2.
    cbn [to_tree]. unfold script. rewrite (align_refl_all_m tree val elt_eqb olds news HF2). rewrite add_x_all_m.
    rewrite (walk_all_m_map (assign f F) F olds news (fun o => if f_update F then canonize o else o) HF2).
    + destruct (f_update F); cbn [canonize]; [reflexivity|]. rewrite map_id. reflexivity.
    + intros o n Hin Hon. apply IH; [exact (depth_elt k olds o f Hd Hin)|exact (managed_elt k olds o Hm Hin)|exact Hon].
Qed.

Lemma canonize_canon_tree : forall o, managed o = true -> canonize o = canon_tree (eval o).
Proof.
  fix IH 1. intros [z c|i z|k l] Hm; [reflexivity|discriminate|].
  cbn [canonize eval canon_tree]. f_equal. rewrite map_map. cbn [managed] in Hm.
  induction l as [|x r IHl]; [reflexivity|]. cbn [forallb] in Hm. apply andb_prop in Hm. destruct Hm as [Hx Hr].
  cbn [map]. rewrite (IH x Hx), (IHl Hr). reflexivity.
Qed.

Lemma managed_canon_tree : forall v, managed (canon_tree v) = true.
Proof.
  induction v as [z|k l IH] using val_induction; [reflexivity|]. cbn [canon_tree managed]. rewrite forallb_forall. intros t Ht.
  apply in_map_iff in Ht. destruct Ht as [x [<- Hx]]. rewrite Forall_forall in IH. apply IH. exact Hx.
Qed.
Lemma managed_to_tree_walk : forall asg F s os ns, Forall (fun o => managed o = true) os ->
  (forall o n, In o os -> managed (to_tree (asg o n)) = true) ->
  Forall (fun t => managed t = true) (map to_tree (walk asg F s os ns)).
Proof.
  intros asg F s. induction s as [|d s IH]; intros os ns Hos Ha; [constructor|].
  destruct d; cbn [walk]; try constructor.
  - destruct os as [|o' os']; [constructor|]. inversion Hos as [|? ? Ho Hos']; subst. rewrite map_app. apply Forall_app. split.
    + destruct (f_fix F); cbn [map]; [constructor|constructor; [exact Ho|constructor]].
    + apply IH; [exact Hos'|]. intros; apply Ha; right; assumption.
  - destruct ns as [|n' ns']; [constructor|]. rewrite map_app. apply Forall_app. split.
    + destruct (f_fix F); cbn [map to_tree]; [constructor; [apply managed_canon_tree|constructor]|constructor].
    + apply IH; assumption.
  - destruct os as [|o' os']; [constructor|]. destruct ns as [|n' ns']; [constructor|]. inversion Hos as [|? ? Ho Hos']; subst.
    cbn [map]. constructor; [apply Ha; left; reflexivity|]. apply IH; [exact Hos'|]. intros; apply Ha; right; assumption.
  - destruct os as [|o' os']; [constructor|]. destruct ns as [|n' ns']; [constructor|]. inversion Hos as [|? ? Ho Hos']; subst.
    cbn [map]. constructor; [apply Ha; left; reflexivity|]. apply IH; [exact Hos'|]. intros; apply Ha; right; assumption.
Qed.
Theorem managed_to_tree_assign : forall f F o n, managed o = true -> managed (to_tree (assign f F o n)) = true.
Proof.
  induction f as [|f IH]; intros F o n Hm; [exact Hm|]. rewrite assign_S.
  assert (Hv : managed (to_tree (value_assign F o n)) = true).
  { unfold value_assign. destruct (is_unm o); [exact Hm|].
    destruct (negb (val_eqb (eval o) n)); [destruct (f_fix F)|destruct (negb (canonical o) && f_update F)]; cbn [to_tree]; try exact Hm; apply managed_canon_tree. }
  destruct o as [z c|i z|k olds]; destruct n as [m|k' news]; try exact Hv.
  destruct (skind_eqb k k'); [|exact Hv]. cbn [to_tree managed]. rewrite forallb_forall. apply Forall_forall.
  apply managed_to_tree_walk.
  - apply Forall_forall. intros o Hin. exact (managed_elt k olds o Hm Hin).
  - intros o n Hin. apply IH. exact (managed_elt k olds o Hm Hin).
Qed.

(* ------------------------------------------------------------------------- two runs, the first one without fix *)
Lemma walk_nofix_eval : forall asg F s os ns, valid tree val elt_eqb s os ns -> f_fix F = false ->
  (forall o n, In o os -> eval_r (asg o n) = eval o) ->
  map eval (map to_tree (walk asg F s os ns)) = map eval os.
Proof.
  intros asg F s os ns H HF Ha. rewrite map_map.
  rewrite (map_ext (fun r => eval (to_tree r)) eval_r eval_to_tree). apply walk_nofix_value; assumption.
Qed.

(* second run with fix on the result of a first run without fix *)
Lemma joint_walk_fix : forall asg1 asg2 F1 F2 g s os ns, valid tree val elt_eqb s os ns -> f_fix F1 = false -> f_fix F2 = true ->
  Forall (fun t => depth t < g) (map to_tree (walk asg1 F1 s os ns)) ->
  (forall o n, In o os -> depth (to_tree (asg1 o n)) < g -> to_tree (asg2 (to_tree (asg1 o n)) n) = canon_tree n) ->
  map to_tree (walk asg2 F2 s (map to_tree (walk asg1 F1 s os ns)) ns) = map canon_tree ns.
Proof.
  intros asg1 asg2 F1 F2 g s os ns H H1 H2.
  induction H as [|s o n os ns He H IH|s o os ns H IH|s n os ns H IH|s o n os ns H IH]; intros Hd Ha; cbn [walk]; try rewrite H1; cbn [app map walk].
  - reflexivity.
  - cbn [walk map] in Hd. inversion Hd as [|? ? Hd1 Hd2]; subst. rewrite Ha; [|left; reflexivity|exact Hd1].
    rewrite IH; [reflexivity|exact Hd2|]. intros; apply Ha; [right; assumption|assumption].
  - cbn [walk] in Hd. rewrite H1 in Hd. cbn [app map to_tree] in Hd. inversion Hd as [|? ? Hd1 Hd2]; subst.
    cbn [to_tree]. rewrite H2. cbn [app]. apply IH; [exact Hd2|]. intros; apply Ha; [right; assumption|assumption].
  - cbn [walk] in Hd. rewrite H1 in Hd. cbn [app] in Hd. rewrite H2. cbn [app map to_tree]. rewrite IH; [reflexivity|exact Hd|exact Ha].
  - cbn [walk map] in Hd. inversion Hd as [|? ? Hd1 Hd2]; subst. rewrite Ha; [|left; reflexivity|exact Hd1].
    rewrite IH; [reflexivity|exact Hd2|]. intros; apply Ha; [right; assumption|assumption].
Qed.

(* second run without fix on the result of a first run without fix *)
Lemma joint_walk_nofix : forall asg1 asg2 F1 F2 g s os ns, valid tree val elt_eqb s os ns -> f_fix F1 = false -> f_fix F2 = false ->
  Forall (fun t => depth t < g) (map to_tree (walk asg1 F1 s os ns)) ->
  (forall o n, In o os -> depth (to_tree (asg1 o n)) < g -> to_tree (asg2 (to_tree (asg1 o n)) n) = to_tree (asg1 o n)) ->
  map to_tree (walk asg2 F2 s (map to_tree (walk asg1 F1 s os ns)) ns) = map to_tree (walk asg1 F1 s os ns).
Proof.
  intros asg1 asg2 F1 F2 g s os ns H H1 H2.
  induction H as [|s o n os ns He H IH|s o os ns H IH|s n os ns H IH|s o n os ns H IH]; intros Hd Ha; cbn [walk]; try rewrite H1; cbn [app map walk].
  - reflexivity.
  - cbn [walk map] in Hd. inversion Hd as [|? ? Hd1 Hd2]; subst. rewrite Ha; [|left; reflexivity|exact Hd1].
    rewrite IH; [reflexivity|exact Hd2|]. intros; apply Ha; [right; assumption|assumption].
  - cbn [walk] in Hd. rewrite H1 in Hd. cbn [app map to_tree] in Hd. inversion Hd as [|? ? Hd1 Hd2]; subst.
    cbn [to_tree]. rewrite H2. cbn [app map to_tree]. rewrite IH; [reflexivity|exact Hd2|]. intros; apply Ha; [right; assumption|assumption].
  - cbn [walk] in Hd. rewrite H1 in Hd. cbn [app] in Hd. rewrite H2. cbn [app]. apply IH; [exact Hd|exact Ha].
  - cbn [walk map] in Hd. inversion Hd as [|? ? Hd1 Hd2]; subst. rewrite Ha; [|left; reflexivity|exact Hd1].
    rewrite IH; [reflexivity|exact Hd2|]. intros; apply Ha; [right; assumption|assumption].
Qed.

Lemma depth_items : forall k l g, depth (TSeq k l) < S g -> Forall (fun t => depth t < g) l.
Proof. intros k l g H. apply Forall_forall. intros t Ht. exact (depth_elt k l t g H Ht). Qed.

Lemma script_after_nofix_run : forall f F olds news, f_fix F = false ->
  script (map to_tree (walk (assign f F) F (script olds news) olds news)) news = script olds news.
Proof.
  intros f F olds news HF. apply script_ext. apply walk_nofix_eval; [apply script_valid|exact HF|].
  intros o n _. apply assign_nofix_value. exact HF.
Qed.

(* what a run without fix does to a leaf *)
Lemma leaf_nofix_run : forall F z c m, f_fix F = false ->
  to_tree (value_assign F (TLeaf z c) (VAtom m)) =
  if (z =? m)%Z then (if f_update F then TLeaf z true else TLeaf z c) else TLeaf z c.
Proof.
  intros F z c m HF. unfold value_assign. cbn [is_unm eval val_eqb canonical]. rewrite HF.
  destruct (z =? m)%Z eqn:E; cbn [negb]; [|reflexivity]. apply Z.eqb_eq in E. subst m.
  destruct c; cbn [negb andb]; destruct (f_update F); reflexivity.
Qed.
Lemma value_assign_keep_unequal : forall F o n, f_fix F = false -> val_eqb (eval o) n = false -> value_assign F o n = RKeep o.
Proof. intros F o n HF E. unfold value_assign. destruct (is_unm o); [reflexivity|]. rewrite E, HF. reflexivity. Qed.
Lemma value_assign_gen_unequal : forall F o n, managed o = true -> f_fix F = true -> val_eqb (eval o) n = false -> value_assign F o n = RGen n.
Proof. intros F o n Hm HF E. unfold value_assign. rewrite (managed_not_unm o Hm), E, HF. reflexivity. Qed.

(* update first, then fix: everything ends up canonical *)
Theorem update_then_fix_canon : forall f1 f2 F1 F2 o n, managed o = true ->
  f_fix F1 = false -> f_update F1 = true -> f_fix F2 = true ->
  depth o < f1 -> depth (to_tree (assign f1 F1 o n)) < f2 ->
  to_tree (assign f2 F2 (to_tree (assign f1 F1 o n)) n) = canon_tree n.
Proof.
  induction f1 as [|f1 IH]; intros f2 F1 F2 o n Hm H1 U1 H2 Hd1 Hd2; [lia|].
  destruct f2 as [|f2]; [lia|]. rewrite (assign_S f1 F1) in *.
  destruct o as [z c|i z|k olds]; destruct n as [m|k' news]; try discriminate.
  - (* leaf / atom *)
    rewrite (leaf_nofix_run F1 z c m H1) in *. rewrite U1 in *. rewrite assign_S.
    destruct (z =? m)%Z eqn:E.
    + apply Z.eqb_eq in E. subst m. unfold value_assign. cbn [is_unm eval val_eqb canonical]. rewrite Z.eqb_refl. reflexivity.
    + rewrite value_assign_gen_unequal; [reflexivity|reflexivity|exact H2|cbn [eval val_eqb]; exact E].
  - (* leaf / sequence *)
    rewrite (value_assign_keep_unequal F1 (TLeaf z c) (VSeq k' news) H1 eq_refl) in *. cbn [to_tree]. rewrite assign_S.
    rewrite value_assign_gen_unequal; [reflexivity|reflexivity|exact H2|reflexivity].
  - (* sequence / atom *)
    rewrite (value_assign_keep_unequal F1 (TSeq k olds) (VAtom m) H1 eq_refl) in *. cbn [to_tree]. rewrite assign_S.
    rewrite value_assign_gen_unequal; [reflexivity|exact Hm|exact H2|reflexivity].
  - destruct (skind_eqb k k') eqn:Ek.
    + (* the same kind of sequence *)
      apply skind_eqb_eq in Ek. subst k'. cbn [to_tree] in *. rewrite assign_S. rewrite (proj2 (skind_eqb_eq k k) eq_refl).
      cbn [to_tree canon_tree]. f_equal. rewrite script_after_nofix_run by exact H1.
      apply (joint_walk_fix (assign f1 F1) (assign f2 F2) F1 F2 f2); [apply script_valid|exact H1|exact H2|exact (depth_items k _ f2 Hd2)|].
      intros o n Hin Hdo. apply IH; [exact (managed_elt k olds o Hm Hin)|exact H1|exact U1|exact H2|exact (depth_elt k olds o f1 Hd1 Hin)|exact Hdo].
    + (* list vs tuple *)
      assert (E : val_eqb (eval (TSeq k olds)) (VSeq k' news) = false) by (cbn [eval]; rewrite val_eqb_seq, Ek; reflexivity).
      rewrite (value_assign_keep_unequal F1 _ _ H1 E) in *. cbn [to_tree]. rewrite assign_S. rewrite Ek.
      rewrite value_assign_gen_unequal; [reflexivity|exact Hm|exact H2|exact E].
Qed.

(* a second run without fix after a run with update (and without fix) changes nothing *)
Theorem update_run_idempotent : forall f1 f2 F1 F2 o n, managed o = true ->
  f_fix F1 = false -> f_update F1 = true -> f_fix F2 = false ->
  depth o < f1 -> depth (to_tree (assign f1 F1 o n)) < f2 ->
  to_tree (assign f2 F2 (to_tree (assign f1 F1 o n)) n) = to_tree (assign f1 F1 o n).
Proof.
  induction f1 as [|f1 IH]; intros f2 F1 F2 o n Hm H1 U1 H2 Hd1 Hd2; [lia|].
  destruct f2 as [|f2]; [lia|]. rewrite (assign_S f1 F1) in *.
  destruct o as [z c|i z|k olds]; destruct n as [m|k' news]; try discriminate.
  - rewrite (leaf_nofix_run F1 z c m H1) in *. rewrite U1 in *. rewrite assign_S.
    destruct (z =? m)%Z eqn:E.
    + rewrite (leaf_nofix_run F2 z true m H2). rewrite E. destruct (f_update F2); reflexivity.
    + rewrite (leaf_nofix_run F2 z c m H2). rewrite E. reflexivity.
  - rewrite (value_assign_keep_unequal F1 (TLeaf z c) (VSeq k' news) H1 eq_refl) in *. cbn [to_tree]. rewrite assign_S.
    rewrite (value_assign_keep_unequal F2 (TLeaf z c) (VSeq k' news) H2 eq_refl). reflexivity.
  - rewrite (value_assign_keep_unequal F1 (TSeq k olds) (VAtom m) H1 eq_refl) in *. cbn [to_tree]. rewrite assign_S.
    rewrite (value_assign_keep_unequal F2 (TSeq k olds) (VAtom m) H2 eq_refl). reflexivity.
  - destruct (skind_eqb k k') eqn:Ek.
    + apply skind_eqb_eq in Ek. subst k'. cbn [to_tree] in *. rewrite assign_S. rewrite (proj2 (skind_eqb_eq k k) eq_refl).
      cbn [to_tree]. f_equal. rewrite script_after_nofix_run by exact H1.
      apply (joint_walk_nofix (assign f1 F1) (assign f2 F2) F1 F2 f2); [apply script_valid|exact H1|exact H2|exact (depth_items k _ f2 Hd2)|].
      intros o n Hin Hdo. apply IH; [exact (managed_elt k olds o Hm Hin)|exact H1|exact U1|exact H2|exact (depth_elt k olds o f1 Hd1 Hin)|exact Hdo].
    + assert (E : val_eqb (eval (TSeq k olds)) (VSeq k' news) = false) by (cbn [eval]; rewrite val_eqb_seq, Ek; reflexivity).
      rewrite (value_assign_keep_unequal F1 _ _ H1 E) in *. cbn [to_tree]. rewrite assign_S. rewrite Ek.
      rewrite (value_assign_keep_unequal F2 _ _ H2 E). reflexivity.
Qed.

(* ------------------------------------------------------------------------- the composition law *)
Definition funion (F1 F2 : flags) : flags :=
  {| f_create := f_create F1 || f_create F2; f_fix := f_fix F1 || f_fix F2; f_trim := f_trim F1 || f_trim F2; f_update := f_update F1 || f_update F2 |}.

(* C09 for nested containers: running with F1 and then, on the text that run wrote, with F2 gives the same text as one run with
   F1 and F2 together - for ALL flag sets, hence for every order of single-category runs *)
Theorem tree_two_runs_compose : forall F1 F2 o n, managed o = true ->
  to_tree (assign_tree F2 (to_tree (assign_tree F1 o n)) n) = to_tree (assign_tree (funion F1 F2) o n).
Proof.
  intros F1 F2 o n Hm. unfold assign_tree.
  set (f1 := S (depth o)). set (t1 := to_tree (assign f1 F1 o n)). set (f2 := S (depth t1)).
  assert (Hd1 : depth o < f1) by (unfold f1; lia). assert (Hd2 : depth t1 < f2) by (unfold f2; lia).
  assert (Hm1 : managed t1 = true) by (apply managed_to_tree_assign; exact Hm).
  destruct (f_fix F1) eqn:X1.
  - (* the first run fixes: afterwards the tree has the observed value *)
    assert (He : elt_eqb t1 n = true).
    { unfold elt_eqb, t1. rewrite eval_to_tree. rewrite (assign_fix_value f1 F1 o n Hd1 Hm X1). apply val_eqb_refl. }
    rewrite (assign_equal_run f2 F2 t1 n Hd2 Hm1 He).
    destruct (f_update F2) eqn:U2.
    + rewrite (canonize_canon_tree t1 Hm1). unfold t1 at 1. rewrite eval_to_tree, (assign_fix_value f1 F1 o n Hd1 Hm X1).
      symmetry. apply assign_fix_update_canon; [exact Hd1|exact Hm|cbn; rewrite X1; reflexivity|cbn; rewrite U2; apply orb_true_r].
    + unfold t1. f_equal. apply assign_flags_ext; cbn; [rewrite X1; reflexivity|rewrite U2, orb_false_r; reflexivity].
  - destruct (f_update F1) eqn:U1.
    + destruct (f_fix F2) eqn:X2.
      * pose proof (update_then_fix_canon f1 f2 F1 F2 o n Hm X1 U1 X2 Hd1 Hd2) as E. fold t1 in E. rewrite E.
        symmetry. apply assign_fix_update_canon; [exact Hd1|exact Hm|cbn; rewrite X2; apply orb_true_r|cbn; rewrite U1; reflexivity].
      * pose proof (update_run_idempotent f1 f2 F1 F2 o n Hm X1 U1 X2 Hd1 Hd2) as E. fold t1 in E. rewrite E.
        unfold t1. f_equal. apply assign_flags_ext; cbn; [rewrite X1, X2; reflexivity|rewrite U1; reflexivity].
    + (* the first run changes nothing *)
      assert (E : t1 = o) by (apply verbatim_to_tree; apply assign_noflags_identity; assumption).
      rewrite E in *. unfold f2. rewrite E. fold f1.
      f_equal. apply assign_flags_ext; cbn; [rewrite X1; reflexivity|rewrite U1; reflexivity].
Qed.

(* corollary: the two orders of approving fix and update one at a time agree with each other and with approving both at once *)
Corollary tree_fix_update_orders_agree : forall o n, managed o = true ->
  let Ff := {| f_create := false; f_fix := true; f_trim := false; f_update := false |} in
  let Fu := {| f_create := false; f_fix := false; f_trim := false; f_update := true |} in
  to_tree (assign_tree Fu (to_tree (assign_tree Ff o n)) n) = to_tree (assign_tree Ff (to_tree (assign_tree Fu o n)) n).
Proof.
  intros o n Hm Ff Fu. rewrite (tree_two_runs_compose Ff Fu o n Hm), (tree_two_runs_compose Fu Ff o n Hm). reflexivity.
Qed.

Example compose_example :
  let Ff := {| f_create := false; f_fix := true; f_trim := false; f_update := false |} in
  let Fu := {| f_create := false; f_fix := false; f_trim := false; f_update := true |} in
  let o := TSeq KList [TSeq KList [TLeaf 1 false; TLeaf 2 true]; TSeq KTuple [TLeaf 3 false; TLeaf 4 true]; TLeaf 5 false] in
  let n := VSeq KList [VSeq KList [VAtom 1; VAtom 2; VAtom 9]; VSeq KTuple [VAtom 3; VAtom 4]; VAtom 6] in
  managed o = true /\
  to_tree (assign_tree Ff (to_tree (assign_tree Fu o n)) n) = canon_tree n /\
  to_tree (assign_tree Ff o n) <> canon_tree n.
Proof. split; [reflexivity|]. split; [vm_compute; reflexivity|]. vm_compute. discriminate. Qed.

(* ------------------------------------------------------------------------- C11 at every nesting level: the equal common prefix *)
Lemma twalk_m_prefix : forall asg F, (forall o n, elt_eqb o n = true -> verbatim (asg o n) = Some o) ->
  forall c t os ns, c <= length os -> c <= length ns ->
  Forall2 (fun o n => elt_eqb o n = true) (firstn c os) (firstn c ns) ->
  exists rest, walk asg F (repeat Dm c ++ t) os ns = rest /\ verbatim_list (firstn c rest) = Some (firstn c os) /\ c <= length rest.
Proof.
  intros asg F Ha. induction c as [|c IH]; intros t os ns Ho Hn HF.
  - eexists. split; [reflexivity|]. split; [reflexivity|lia].
  - destruct os as [|o os]; [cbn in Ho; lia|]. destruct ns as [|n ns]; [cbn in Hn; lia|].
    cbn [firstn] in HF. inversion HF as [|? ? ? ? Hon HF']; subst. cbn [length] in Ho, Hn.
    destruct (IH t os ns ltac:(lia) ltac:(lia) HF') as [rest [E [Hv Hl]]].
    eexists. split; [reflexivity|]. cbn [repeat app walk]. rewrite E. cbn [firstn verbatim_list length].
    rewrite (Ha o n Hon), Hv. split; [reflexivity|lia].
Qed.

Lemma tscript_m_prefix : forall olds news, exists t,
  script olds news = repeat Dm (common_prefix tree val elt_eqb olds news) ++ t.
Proof.
  intros olds news. unfold script. rewrite align_unfold. unfold align_start.
  set (c := common_prefix tree val elt_eqb olds news).
  exists (skipn c (add_x (repeat Dm c ++ nw_align tree val elt_eqb (align_mid_a tree val elt_eqb olds news) (align_mid_b tree val elt_eqb olds news)
                                   ++ repeat Dm (align_end tree val elt_eqb olds news)))).
  rewrite <- (add_x_keeps_m_prefix c) at 2. rewrite firstn_skipn. reflexivity.
Qed.

(* the elements of the common prefix (by ==) of an edited list / tuple keep their whole source text, nested containers and
   hand-written leaves included, whatever happens behind them - as long as update is not approved *)
Theorem tree_prefix_verbatim : forall f F k olds news, f_update F = false ->
  let c := common_prefix tree val elt_eqb olds news in
  exists items, assign (S f) F (TSeq k olds) (VSeq k news) = RSeq k items /\ verbatim_list (firstn c items) = Some (firstn c olds).
Proof.
  intros f F k olds news HU c. rewrite assign_S. rewrite (proj2 (skind_eqb_eq k k) eq_refl).
  destruct (tscript_m_prefix olds news) as [t Ht]. fold c in Ht. rewrite Ht.
  destruct (twalk_m_prefix (assign f F) F (fun o n He => assign_equal_keeps_text f F o n HU He) c t olds news
              (cp_le_l _ _ _ olds news) (cp_le_r _ _ _ olds news) (cp_F2 _ _ _ olds news)) as [rest [E [Hv _]]].
  exists rest. split; [rewrite E; reflexivity|exact Hv].
Qed.
