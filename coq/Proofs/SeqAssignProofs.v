(* Proofs about Model/SeqAssign.v : repairing a flat sequence of integer leaves.
   Stdlib only; no axioms (see the Print Assumptions at the end of the file). *)
From Coq Require Import List Arith ZArith Bool Lia.
Import ListNotations.
From V Require Import Model.Align Model.SnapOps Model.SeqAssign Proofs.AlignValid Proofs.AlignProofs.
Open Scope nat_scope.

(* ------------------------------------------------------------------ *)
(* add_x keeps a trailing run of m                                      *)
(* ------------------------------------------------------------------ *)
(* appending e copies of m at the level of run-length groups *)
Fixpoint gsnoc (g : list (dir * nat)) (e : nat) : list (dir * nat) :=
  match g with
  | [] => [(Dm, e)]
  | (c, n) :: g' =>
      match g' with
      | [] => if dir_eqb c Dm then [(Dm, n + e)] else [(c, n); (Dm, e)]
      | _ :: _ => (c, n) :: gsnoc g' e
      end
  end.

Lemma rle_repeat_m e : rle (repeat Dm (S e)) = [(Dm, S e)].
Proof. induction e as [|e IH]; [reflexivity|].
  change (repeat Dm (S (S e))) with (Dm :: repeat Dm (S e)). cbn [rle]. rewrite IH. reflexivity. Qed.

Lemma rle_snoc_m s e : rle (s ++ repeat Dm (S e)) = gsnoc (rle s) (S e).
Proof. induction s as [|c r IH].
  - cbn [app]. rewrite rle_repeat_m. reflexivity.
  - change ((c :: r) ++ repeat Dm (S e)) with (c :: (r ++ repeat Dm (S e))). cbn [rle]. rewrite IH.
    destruct (rle r) as [|[c' m] [|x g'']].
    + destruct c; reflexivity.
    + destruct c, c'; reflexivity.
    + change (gsnoc ((c', m) :: x :: g'') (S e)) with ((c', m) :: gsnoc (x :: g'') (S e)).
      cbv iota beta. destruct (dir_eqb c c'); reflexivity.
Qed.

Lemma gsnoc_not_m c n g e : c <> Dm -> gsnoc ((c, n) :: g) e = (c, n) :: gsnoc g e.
Proof. intros Hc. destruct g as [|x g]; [|reflexivity]. destruct c; try reflexivity. congruence. Qed.

Lemma gsnoc_head c n g e : exists n' g', gsnoc ((c, n) :: g) e = (c, n') :: g' /\ (c = Dm \/ n' = n).
Proof. destruct g as [|x g].
  - cbn [gsnoc]. destruct (dir_eqb c Dm) eqn:E.
    + apply dir_eqb_eq in E. subst c. eexists _, _. split; [reflexivity | left; reflexivity].
    + eexists _, _. split; [reflexivity | right; reflexivity].
  - eexists _, _. split; [reflexivity | right; reflexivity].
Qed.

Lemma axg_gsnoc g e : add_x_groups (gsnoc g e) = add_x_groups g ++ repeat Dm e.
Proof. pattern g. apply add_x_groups_ind; clear g.
  - simpl. reflexivity.
  - intros c n. destruct c; try reflexivity. cbn [gsnoc dir_eqb add_x_groups]. apply repeat_app.
  - intros n r2 IH. rewrite gsnoc_not_m by discriminate. rewrite gsnoc_not_m by discriminate.
    rewrite !axg_merge, IH, app_assoc. reflexivity.
  - intros c n c2 n2 r2 E IH.
    change (gsnoc ((c, n) :: (c2, n2) :: r2) e) with ((c, n) :: gsnoc ((c2, n2) :: r2) e).
    destruct (gsnoc_head c2 n2 r2 e) as [n' [g' [Hg Hor]]].
    rewrite (axg_keep c n c2 n2 r2 E), <- app_assoc, <- IH, Hg.
    apply axg_keep. destruct Hor as [Hc|Hn].
    + subst c2. rewrite andb_false_r. reflexivity.
    + subst n'. exact E.
Qed.

Lemma add_x_snoc_m s e : add_x (s ++ repeat Dm e) = add_x s ++ repeat Dm e.
Proof. destruct e as [|e]; [simpl; rewrite !app_nil_r; reflexivity|].
  unfold add_x. rewrite rle_snoc_m, axg_gsnoc. reflexivity. Qed.

Lemma add_x_all_m n : add_x (repeat Dm n) = repeat Dm n.
Proof. exact (add_x_snoc_m [] n). Qed.

(* ------------------------------------------------------------------ *)
(* generic inversion of a valid script that ends with m^e              *)
(* ------------------------------------------------------------------ *)
Section G.
Variables (A B : Type) (eqb : A -> B -> bool).
Notation valid := (valid A B eqb).
Notation EQ := (fun (a : A) (b : B) => eqb a b = true).

Lemma valid_all_m_inv e : forall a b, valid (repeat Dm e) a b -> Forall2 EQ a b /\ length a = e.
Proof. induction e as [|e IH]; intros a b H; simpl in H.
  - inversion H; subst. split; [constructor | reflexivity].
  - inversion H as [|s0 a0 b0 as0 bs0 He H'| | |]; subst. destruct (IH _ _ H') as [HF Hl].
    split; [constructor; assumption | simpl; lia].
Qed.

Lemma valid_snoc_m_inv s : forall e a b, valid (s ++ repeat Dm e) a b ->
  exists a1 a2 b1 b2, a = a1 ++ a2 /\ b = b1 ++ b2 /\ valid s a1 b1 /\ Forall2 EQ a2 b2 /\ length a2 = e.
Proof. induction s as [|c s IH]; intros e a b H.
  - simpl in H. destruct (valid_all_m_inv e a b H) as [HF Hl].
    exists [], a, [], b. repeat split; auto. apply v_nil.
  - simpl in H.
    inversion H as [|s0 a0 b0 as0 bs0 He H'|s0 a0 as0 bs0 H'|s0 b0 as0 bs0 H'|s0 a0 b0 as0 bs0 H']; subst;
      destruct (IH _ _ _ H') as [a1 [a2 [b1 [b2 [Ea [Eb [Hv [HF Hl]]]]]]]]; subst.
    + exists (a0 :: a1), a2, (b0 :: b1), b2. repeat split; auto. apply v_m; assumption.
    + exists (a0 :: a1), a2, b1, b2. repeat split; auto. apply v_d; assumption.
    + exists a1, a2, (b0 :: b1), b2. repeat split; auto. apply v_i; assumption.
    + exists (a0 :: a1), a2, (b0 :: b1), b2. repeat split; auto. apply v_x; assumption.
Qed.
End G.

(* ------------------------------------------------------------------ *)
(* SeqAssign                                                           *)
(* ------------------------------------------------------------------ *)
Notation V := (valid leaf Z leaf_eqb).
Notation LEQ := (fun (o : leaf) (n : Z) => leaf_eqb o n = true).

Definition is_keep (i : item) : bool := match i with Keep _ => true | Gen _ => false end.
(* number of old elements whose source text survives verbatim *)
Definition kept (l : list item) : nat := length (filter is_keep l).

Fixpoint list_eqb {X} (e : X -> X -> bool) (l1 l2 : list X) : bool :=
  match l1, l2 with
  | [], [] => true
  | x :: r1, y :: r2 => e x y && list_eqb e r1 r2
  | _, _ => false
  end.

Lemma list_eqb_Z l1 : forall l2, list_eqb Z.eqb l1 l2 = true <-> l1 = l2.
Proof. induction l1 as [|x l1 IH]; intros [|y l2]; simpl; split; intros H; try congruence.
  - apply andb_true_iff in H. destruct H as [H1 H2]. apply Z.eqb_eq in H1. apply IH in H2. congruence.
  - inversion H; subst. rewrite Z.eqb_refl. simpl. apply IH. reflexivity.
Qed.

Lemma kept_app l1 l2 : kept (l1 ++ l2) = kept l1 + kept l2.
Proof. unfold kept. rewrite filter_app, app_length. reflexivity. Qed.

Lemma kept_map_Keep l : kept (map Keep l) = length l.
Proof. unfold kept. induction l as [|x l IH]; simpl; auto. Qed.

Lemma leaf_eqb_eq o n : leaf_eqb o n = true <-> l_val o = n.
Proof. unfold leaf_eqb. apply Z.eqb_eq. Qed.

Lemma LEQ_map old new : Forall2 LEQ old new <-> map l_val old = new.
Proof. split.
  - intros H. induction H as [|o n old new Hon H IH]; simpl; [reflexivity|].
    apply leaf_eqb_eq in Hon. congruence.
  - intros H. subst new. induction old as [|o old IH]; simpl; constructor; auto.
    apply leaf_eqb_eq. reflexivity.
Qed.

Lemma script_valid old new : V (script old new) old new.
Proof. unfold script. apply add_x_valid, align_valid. Qed.

(* ---- assign_leaf ---- *)
Lemma assign_leaf_val_fix F o n : f_fix F = true -> item_val (assign_leaf F o n) = n.
Proof. intros HF. unfold assign_leaf. rewrite HF. destruct (l_val o =? n)%Z eqn:E; simpl; [|reflexivity].
  destruct (negb (l_canon o) && f_update F); simpl; [reflexivity|]. apply Z.eqb_eq. exact E. Qed.

Lemma assign_leaf_val_nofix F o n : f_fix F = false -> item_val (assign_leaf F o n) = l_val o.
Proof. intros HF. unfold assign_leaf. rewrite HF. destruct (l_val o =? n)%Z eqn:E; simpl; [|reflexivity].
  destruct (negb (l_canon o) && f_update F); simpl; [|reflexivity]. symmetry. apply Z.eqb_eq. exact E. Qed.

Lemma assign_leaf_keep_eq F o n : f_update F = false -> leaf_eqb o n = true -> assign_leaf F o n = Keep o.
Proof. intros HU E. unfold assign_leaf. unfold leaf_eqb in E. rewrite E, HU, andb_false_r. reflexivity. Qed.

Lemma assign_leaf_keep_noflags F o n : f_fix F = false -> f_update F = false -> assign_leaf F o n = Keep o.
Proof. intros HF HU. unfold assign_leaf. rewrite HF, HU, andb_false_r. destruct (negb (l_val o =? n)%Z); reflexivity. Qed.

(* ---- S1 / S2 / S3 : general lemmas over any valid script ---- *)
Lemma walk_fix_value F s old new : V s old new -> f_fix F = true ->
  map item_val (walk F s old new) = new.
Proof. intros H HF. induction H as [|s o n old new He H IH|s o old new H IH|s n old new H IH|s o n old new H IH];
    cbn [walk]; try rewrite HF; cbn [app map].
  - reflexivity.
  - rewrite assign_leaf_val_fix by exact HF. rewrite IH. reflexivity.
  - exact IH.
  - rewrite IH. reflexivity.
  - rewrite assign_leaf_val_fix by exact HF. rewrite IH. reflexivity.
Qed.

Lemma walk_nofix_value F s old new : V s old new -> f_fix F = false ->
  map item_val (walk F s old new) = map l_val old.
Proof. intros H HF. induction H as [|s o n old new He H IH|s o old new H IH|s n old new H IH|s o n old new H IH];
    cbn [walk]; try rewrite HF; cbn [app map].
  - reflexivity.
  - rewrite assign_leaf_val_nofix by exact HF. rewrite IH. reflexivity.
  - rewrite IH. reflexivity.
  - exact IH.
  - rewrite assign_leaf_val_nofix by exact HF. rewrite IH. reflexivity.
Qed.

Lemma walk_noflags F s old new : V s old new -> f_fix F = false -> f_update F = false ->
  walk F s old new = map Keep old.
Proof. intros H HF HU. induction H as [|s o n old new He H IH|s o old new H IH|s n old new H IH|s o n old new H IH];
    cbn [walk]; try rewrite HF; cbn [app map].
  - reflexivity.
  - rewrite assign_leaf_keep_noflags by assumption. rewrite IH. reflexivity.
  - rewrite IH. reflexivity.
  - exact IH.
  - rewrite assign_leaf_keep_noflags by assumption. rewrite IH. reflexivity.
Qed.

Theorem seq_fix_value F old new : f_fix F = true -> map item_val (seq_result F old new) = new.
Proof. apply walk_fix_value, script_valid. Qed.

Theorem seq_nofix_value F old new : f_fix F = false -> map item_val (seq_result F old new) = map l_val old.
Proof. apply walk_nofix_value, script_valid. Qed.

(* only f_fix and f_update matter for a flat sequence *)
Lemma seq_nofix_noupdate_identity F old new : f_fix F = false -> f_update F = false ->
  seq_result F old new = map Keep old.
Proof. apply walk_noflags, script_valid. Qed.

Theorem seq_noflags_identity F old new :
  f_create F = false -> f_fix F = false -> f_trim F = false -> f_update F = false ->
  seq_result F old new = map Keep old.
Proof. intros _ HF _ HU. apply seq_nofix_noupdate_identity; assumption. Qed.

(* ---- S4 : without update, m positions keep their old element verbatim ---- *)
Lemma walk_kept_ge_m F s old new : V s old new -> f_update F = false ->
  count_occ dir_eq_dec s Dm <= kept (walk F s old new).
Proof. intros H HU. induction H as [|s o n old new He H IH|s o old new H IH|s n old new H IH|s o n old new H IH];
    cbn [walk].
  - simpl. lia.
  - rewrite (assign_leaf_keep_eq F o n HU He). rewrite cnt_cons. cbn [dir_eqb].
    change (kept (Keep o :: walk F s old new)) with (S (kept (walk F s old new))). lia.
  - rewrite cnt_cons, kept_app. cbn [dir_eqb]. lia.
  - rewrite cnt_cons, kept_app. cbn [dir_eqb]. lia.
  - rewrite cnt_cons. cbn [dir_eqb]. change (assign_leaf F o n :: walk F s old new)
      with ([assign_leaf F o n] ++ walk F s old new). rewrite kept_app. lia.
Qed.

Theorem seq_kept_ge_m F old new : f_update F = false ->
  count_occ dir_eq_dec (script old new) Dm <= kept (seq_result F old new).
Proof. apply walk_kept_ge_m, script_valid. Qed.

(* a run of m over pairwise-equal elements keeps them all *)
Lemma walk_m_prefix F : f_update F = false -> forall n t old new,
  n <= length old -> n <= length new -> Forall2 LEQ (firstn n old) (firstn n new) ->
  walk F (repeat Dm n ++ t) old new = map Keep (firstn n old) ++ walk F t (skipn n old) (skipn n new).
Proof. intros HU. induction n as [|n IH]; intros t old new Ho Hn HF; [reflexivity|].
  destruct old as [|o old]; [simpl in Ho; lia|]. destruct new as [|x new]; [simpl in Hn; lia|].
  simpl in Ho, Hn, HF. inversion HF as [|? ? ? ? Hox HF']; subst.
  cbn [repeat app walk firstn skipn map]. rewrite (assign_leaf_keep_eq F o x HU Hox).
  rewrite IH by (try lia; assumption). reflexivity.
Qed.

Lemma walk_all_m F old new : f_update F = false -> Forall2 LEQ old new ->
  walk F (repeat Dm (length old)) old new = map Keep old.
Proof. intros HU HF. induction HF as [|o n old new Hon HF IH]; [reflexivity|].
  cbn [length repeat walk map]. rewrite (assign_leaf_keep_eq F o n HU Hon), IH. reflexivity. Qed.

Lemma walk_app F s1 a1 b1 : V s1 a1 b1 -> forall s2 a2 b2,
  walk F (s1 ++ s2) (a1 ++ a2) (b1 ++ b2) = walk F s1 a1 b1 ++ walk F s2 a2 b2.
Proof. intros H. induction H as [|s o n old new He H IH|s o old new H IH|s n old new H IH|s o n old new H IH];
    intros s2 a2 b2; cbn [app walk].
  - reflexivity.
  - rewrite IH. reflexivity.
  - rewrite IH, app_assoc. reflexivity.
  - rewrite IH, app_assoc. reflexivity.
  - rewrite IH. reflexivity.
Qed.

Lemma script_m_prefix old new : exists t,
  script old new = repeat Dm (common_prefix leaf Z leaf_eqb old new) ++ t.
Proof. unfold script. rewrite align_unfold. unfold align_start.
  set (n := common_prefix leaf Z leaf_eqb old new).
  exists (skipn n (add_x (repeat Dm n ++ nw_align leaf Z leaf_eqb (align_mid_a leaf Z leaf_eqb old new)
                                   (align_mid_b leaf Z leaf_eqb old new)
                            ++ repeat Dm (align_end leaf Z leaf_eqb old new)))).
  rewrite <- (add_x_keeps_m_prefix n) at 2. rewrite firstn_skipn. reflexivity. Qed.

Theorem seq_prefix_verbatim F old new : f_update F = false ->
  firstn (common_prefix leaf Z leaf_eqb old new) (seq_result F old new)
  = map Keep (firstn (common_prefix leaf Z leaf_eqb old new) old).
Proof. intros HU. unfold seq_result. destruct (script_m_prefix old new) as [t Ht]. rewrite Ht.
  set (n := common_prefix leaf Z leaf_eqb old new).
  rewrite (walk_m_prefix F HU n t old new (cp_le_l _ _ _ old new) (cp_le_r _ _ _ old new) (cp_F2 _ _ _ old new)).
  rewrite firstn_app.
  assert (Hl : length (map Keep (firstn n old)) = n).
  { rewrite map_length. apply firstn_length_le. apply cp_le_l. }
  rewrite Hl, Nat.sub_diag. cbn [firstn]. rewrite app_nil_r.
  rewrite <- Hl at 1. apply firstn_all. Qed.

Lemma script_m_suffix old new :
  script old new = add_x (repeat Dm (align_start leaf Z leaf_eqb old new)
                          ++ nw_align leaf Z leaf_eqb (align_mid_a leaf Z leaf_eqb old new)
                                                      (align_mid_b leaf Z leaf_eqb old new))
                   ++ repeat Dm (align_end leaf Z leaf_eqb old new).
Proof. unfold script. rewrite align_unfold, app_assoc. apply add_x_snoc_m. Qed.

(* general form: a valid script ending in m^e keeps the last e old elements verbatim *)
Lemma walk_m_suffix F s e old new : f_update F = false -> V (s ++ repeat Dm e) old new ->
  exists p, walk F (s ++ repeat Dm e) old new = p ++ map Keep (skipn (length old - e) old).
Proof. intros HU H. destruct (valid_snoc_m_inv _ _ _ s e old new H) as [a1 [a2 [b1 [b2 [Ea [Eb [Hv [HF Hl]]]]]]]].
  subst old new e. exists (walk F s a1 b1). rewrite (walk_app F s a1 b1 Hv).
  rewrite (walk_all_m F a2 b2 HU HF). rewrite app_length.
  replace (length a1 + length a2 - length a2) with (length a1) by lia.
  rewrite skipn_app, skipn_all, Nat.sub_diag. reflexivity. Qed.

Theorem seq_suffix_verbatim F old new : f_update F = false ->
  exists p, seq_result F old new
            = p ++ map Keep (skipn (length old - align_end leaf Z leaf_eqb old new) old).
Proof. intros HU. unfold seq_result. pose proof (script_valid old new) as Hv.
  rewrite script_m_suffix in *. apply walk_m_suffix; assumption. Qed.

(* ---- S5 : the number of kept elements is at least start + LCS(middle) + end ---- *)
Lemma script_count_m old new :
  count_occ dir_eq_dec (script old new) Dm
  = align_start leaf Z leaf_eqb old new
    + count_occ dir_eq_dec (nw_align leaf Z leaf_eqb (align_mid_a leaf Z leaf_eqb old new)
                                                     (align_mid_b leaf Z leaf_eqb old new)) Dm
    + align_end leaf Z leaf_eqb old new.
Proof. unfold script. rewrite add_x_count_m, align_unfold, !count_occ_app, !cnt_repeat. cbn [dir_eqb]. lia. Qed.

(* f_fix F = true is not needed: without fix every old element is kept anyway *)
Theorem seq_kept_optimal F old new s : f_update F = false ->
  V s (align_mid_a leaf Z leaf_eqb old new) (align_mid_b leaf Z leaf_eqb old new) -> ~ In Dx s ->
  align_start leaf Z leaf_eqb old new + count_occ dir_eq_dec s Dm + align_end leaf Z leaf_eqb old new
  <= kept (seq_result F old new).
Proof. intros HU Hv Hx. pose proof (seq_kept_ge_m F old new HU) as H. rewrite script_count_m in H.
  pose proof (nw_optimal leaf Z leaf_eqb _ _ s Hv Hx) as Ho. lia. Qed.

(* ---- S6 : reported categories ---- *)
Lemma has_cat_app c l1 l2 : has_cat c (l1 ++ l2) = has_cat c l1 || has_cat c l2.
Proof. apply existsb_app. Qed.

Lemma leaf_cats_fix o n : has_cat Fix (leaf_cats o n) = negb (l_val o =? n)%Z.
Proof. unfold leaf_cats. destruct (l_val o =? n)%Z; simpl; [|reflexivity].
  destruct (l_canon o); reflexivity. Qed.

Lemma walk_cats_nofix_eq s old new : V s old new ->
  has_cat Fix (walk_cats s old new) = false -> map l_val old = new.
Proof. intros H. induction H as [|s o n old new He H IH|s o old new H IH|s n old new H IH|s o n old new H IH];
    cbn [walk_cats]; intros Hc.
  - reflexivity.
  - rewrite has_cat_app in Hc. apply orb_false_iff in Hc. destruct Hc as [_ Hc].
    apply leaf_eqb_eq in He. simpl. rewrite (IH Hc), He. reflexivity.
  - simpl in Hc. discriminate.
  - simpl in Hc. discriminate.
  - rewrite has_cat_app in Hc. apply orb_false_iff in Hc. destruct Hc as [Hl Hc].
    rewrite leaf_cats_fix in Hl. apply negb_false_iff, Z.eqb_eq in Hl. simpl. rewrite (IH Hc), Hl. reflexivity.
Qed.

Lemma walk_cats_all_m old new : Forall2 LEQ old new ->
  has_cat Fix (walk_cats (repeat Dm (length old)) old new) = false.
Proof. intros HF. induction HF as [|o n old new Hon HF IH]; [reflexivity|].
  cbn [length repeat walk_cats]. rewrite has_cat_app, IH, leaf_cats_fix.
  unfold leaf_eqb in Hon. rewrite Hon. reflexivity. Qed.

Lemma script_equal old new : Forall2 LEQ old new -> script old new = repeat Dm (length old).
Proof. intros HF. unfold script. rewrite (align_refl_all_m leaf Z leaf_eqb old new HF). apply add_x_all_m. Qed.

Theorem seq_cats_fix_iff old new :
  has_cat Fix (seq_cats old new) = negb (list_eqb Z.eqb (map l_val old) new).
Proof. unfold seq_cats. destruct (list_eqb Z.eqb (map l_val old) new) eqn:E; cbn [negb].
  - apply list_eqb_Z in E. apply LEQ_map in E. rewrite (script_equal old new E).
    apply walk_cats_all_m. exact E.
  - destruct (has_cat Fix (walk_cats (script old new) old new)) eqn:Hc; [reflexivity|].
    apply (walk_cats_nofix_eq _ _ _ (script_valid old new)) in Hc.
    apply list_eqb_Z in Hc. congruence.
Qed.

Lemma leaf_cats_update o n : has_cat Update (leaf_cats o n) = true -> l_canon o = false /\ l_val o = n.
Proof. unfold leaf_cats. destruct (l_val o =? n)%Z eqn:E; simpl; [|discriminate].
  apply Z.eqb_eq in E. destruct (l_canon o); simpl; [discriminate | auto]. Qed.

(* holds for any script, valid or not *)
Lemma walk_cats_update s : forall old new, has_cat Update (walk_cats s old new) = true ->
  exists l, In l old /\ l_canon l = false /\ In (l_val l) new.
Proof. induction s as [|c s IH]; intros old new H; [discriminate|].
  destruct c; cbn [walk_cats] in H; try discriminate.
  - destruct old as [|o old]; [discriminate|]. simpl in H.
    destruct (IH _ _ H) as [l [Hin [Hc Hv]]]. exists l. simpl. auto.
  - destruct new as [|n new]; [discriminate|]. simpl in H.
    destruct (IH _ _ H) as [l [Hin [Hc Hv]]]. exists l. simpl. auto.
  - destruct old as [|o old]; [discriminate|]. destruct new as [|n new]; [discriminate|].
    rewrite has_cat_app in H. apply orb_true_iff in H. destruct H as [H|H].
    + apply leaf_cats_update in H. destruct H as [Hc Hv]. exists o. simpl. auto.
    + destruct (IH _ _ H) as [l [Hin [Hc Hv]]]. exists l. simpl. auto.
  - destruct old as [|o old]; [discriminate|]. destruct new as [|n new]; [discriminate|].
    rewrite has_cat_app in H. apply orb_true_iff in H. destruct H as [H|H].
    + apply leaf_cats_update in H. destruct H as [Hc Hv]. exists o. simpl. auto.
    + destruct (IH _ _ H) as [l [Hin [Hc Hv]]]. exists l. simpl. auto.
Qed.

Theorem seq_cats_update_noncanon old new : has_cat Update (seq_cats old new) = true ->
  exists l, In l old /\ l_canon l = false.
Proof. intros H. destruct (walk_cats_update _ _ _ H) as [l [Hin [Hc _]]]. eauto. Qed.

(* ---- S7 ---- *)
Theorem seq_equal_all_keep F old new : map l_val old = new -> f_update F = false ->
  seq_result F old new = map Keep old.
Proof. intros E HU. apply LEQ_map in E. unfold seq_result. rewrite (script_equal old new E).
  apply walk_all_m; assumption. Qed.

(* ------------------------------------------------------------------ *)
(* Concrete instances                                                  *)
(* ------------------------------------------------------------------ *)
Module SeqExamples.
Local Open Scope Z_scope.
Definition L v c := {| l_val := v; l_canon := c |}.
Definition Fl f u := {| f_create := false; f_fix := f; f_trim := false; f_update := u |}.
Definition old1 := [L 1 false; L 2 true; L 3 true].
Definition new1 := [1; 3; 4].
Definition old2 := [L 1 false; L 2 true; L 3 true; L 7 false; L 8 true].
Definition new2 := [1; 5; 6; 7; 8].
Definition old3 := [L 1 true; L 2 true; L 3 false; L 4 true; L 9 true].
Definition new3 := [1; 3; 5; 4; 9].

Example ex_script1 : script old1 new1 = [Dm; Dd; Dm; Di].
Proof. vm_compute. reflexivity. Qed.
Example ex_script2 : script old2 new2 = [Dm; Dx; Dx; Dm; Dm].
Proof. vm_compute. reflexivity. Qed.

(* S1 *)
Example ex_fix_update : seq_result (Fl true true) old1 new1 = [Gen 1; Keep (L 3 true); Gen 4].
Proof. vm_compute. reflexivity. Qed.
Example ex_fix_value : map item_val (seq_result (Fl true true) old1 new1) = [1; 3; 4].
Proof. exact (seq_fix_value (Fl true true) old1 new1 eq_refl). Qed.
(* S2 : update alone regenerates the non-canonical `1` but never changes the value *)
Example ex_update_only : seq_result (Fl false true) old1 new1 = [Gen 1; Keep (L 2 true); Keep (L 3 true)].
Proof. vm_compute. reflexivity. Qed.
Example ex_nofix_value : map item_val (seq_result (Fl false true) old1 new1) = [1; 2; 3].
Proof. exact (seq_nofix_value (Fl false true) old1 new1 eq_refl). Qed.
(* S3 *)
Example ex_noflags : seq_result (Fl false false) old1 new1 = map Keep old1.
Proof. exact (seq_noflags_identity (Fl false false) old1 new1 eq_refl eq_refl eq_refl eq_refl). Qed.
(* S4 *)
Example ex_fix_only : seq_result (Fl true false) old2 new2
                      = [Keep (L 1 false); Gen 5; Gen 6; Keep (L 7 false); Keep (L 8 true)].
Proof. vm_compute. reflexivity. Qed.
Example ex_kept_ge_m : (count_occ dir_eq_dec (script old2 new2) Dm = 3 /\ kept (seq_result (Fl true false) old2 new2) = 3)%nat.
Proof. vm_compute. split; reflexivity. Qed.
Example ex_prefix : common_prefix leaf Z leaf_eqb old2 new2 = 1%nat /\
  firstn 1 (seq_result (Fl true false) old2 new2) = [Keep (L 1 false)].
Proof. split; [vm_compute; reflexivity | exact (seq_prefix_verbatim (Fl true false) old2 new2 eq_refl)]. Qed.
Example ex_suffix : align_end leaf Z leaf_eqb old2 new2 = 2%nat /\
  seq_result (Fl true false) old2 new2 = [Keep (L 1 false); Gen 5; Gen 6] ++ map Keep (skipn (5 - 2) old2).
Proof. vm_compute. split; reflexivity. Qed.
(* S5 : start = 1, end = 2, and the middle [2;3] vs [3;5] has the x-free valid script d m i *)
Example ex_kept_optimal :
  (align_mid_a leaf Z leaf_eqb old3 new3 = [L 2 true; L 3 false] /\ align_mid_b leaf Z leaf_eqb old3 new3 = [3; 5]%Z /\
   1 + count_occ dir_eq_dec [Dd; Dm; Di] Dm + 2 <= kept (seq_result (Fl true false) old3 new3))%nat.
Proof. split; [vm_compute; reflexivity|]. split; [vm_compute; reflexivity|].
  apply (seq_kept_optimal (Fl true false) old3 new3 [Dd; Dm; Di] eq_refl).
  - vm_compute. repeat constructor.
  - simpl. intuition discriminate.
Qed.
(* S6 *)
Example ex_cats : seq_cats old1 new1 = [Update; Fix; Fix] /\ seq_cats old1 [1; 2; 3] = [Update].
Proof. vm_compute. split; reflexivity. Qed.
Example ex_cats_fix : has_cat Fix (seq_cats old1 new1) = true /\ has_cat Fix (seq_cats old1 [1; 2; 3]) = false.
Proof. rewrite !seq_cats_fix_iff. vm_compute. split; reflexivity. Qed.
Example ex_cats_update : exists l, In l old1 /\ l_canon l = false.
Proof. apply (seq_cats_update_noncanon old1 new1). vm_compute. reflexivity. Qed.
(* S7 : equal values, fix approved but not update: nothing is touched, not even the non-canonical `1` *)
Example ex_equal : seq_result (Fl true false) old1 [1; 2; 3] = map Keep old1.
Proof. exact (seq_equal_all_keep (Fl true false) old1 [1; 2; 3] eq_refl eq_refl). Qed.
End SeqExamples.

Print Assumptions seq_fix_value.
Print Assumptions seq_nofix_value.
Print Assumptions seq_noflags_identity.
Print Assumptions seq_kept_ge_m.
Print Assumptions seq_prefix_verbatim.
Print Assumptions seq_suffix_verbatim.
Print Assumptions seq_kept_optimal.
Print Assumptions seq_cats_fix_iff.
Print Assumptions seq_cats_update_noncanon.
Print Assumptions seq_equal_all_keep.
