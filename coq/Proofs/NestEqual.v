(* Proofs about Model/Nest.v, part 4: the theorem of C11 for arbitrarily nested values - a part whose value did not change keeps
   its source text verbatim (hand-written leaves like `0+1` included), whatever else is approved except update.
   Stdlib only; no axioms. *)
From Coq Require Import List Arith ZArith Bool Lia Permutation.
Import ListNotations.
From V Require Import Model.Align Model.SnapOps Model.TreeAssign Model.Nest Proofs.AlignValid Proofs.AlignProofs Proofs.SeqAssignProofs Proofs.UnmanagedProofs Proofs.NestProofs Proofs.NestValue Proofs.NestFix.
Open Scope nat_scope.

Section WithClasses.
Variable ct : ctab.

(* source trees within the scope of the theorem: a call has no positional argument (finding F-41: the shipped adapters turn
   those into keyword arguments), repeats no keyword, names only fields of its class and gives every field that has no
   default (otherwise Python could not have evaluated the hand-written call) *)
Definition call_ok (c : Z) (pos : list ntree) (kws : list (Z * ntree)) : bool :=
  match pos with [] => true | _ => false end &&
  nodupb (map fst kws) &&
  forallb (fun kt => zmemb (fst kt) (map fst (ct c))) kws &&
  forallb (fun fd => match snd fd with None => zmemb (fst fd) (map fst kws) | Some _ => true end) (ct c).
Fixpoint okc (t : ntree) : bool :=
  match t with
  | NLeaf _ _ => true
  | NUnm _ _ => true
  | NLst _ l => forallb okc l
  | NDct l => (fix go (l : list (Z * ntree)) : bool := match l with [] => true | (_, x) :: r => okc x && go r end) l
  | NCall c pos kws =>
      call_ok c pos kws &&
      (fix go (l : list (Z * ntree)) : bool := match l with [] => true | (_, x) :: r => okc x && go r end) kws
  end.
Definition okc_entries (l : list (Z * ntree)) : bool := forallb (fun kt => okc (snd kt)) l.
Lemma okc_dct : forall l, okc (NDct l) = okc_entries l.
Proof. intros. cbn [okc]. induction l as [|[k x] r IH]; [reflexivity|]. cbn [okc_entries forallb snd]. rewrite IH. reflexivity. Qed.
Lemma okc_call : forall c pos kws, okc (NCall c pos kws) = call_ok c pos kws && okc_entries kws.
Proof. intros. cbn [okc]. f_equal. induction kws as [|[k x] r IH]; [reflexivity|]. cbn [okc_entries forallb snd]. rewrite IH. reflexivity. Qed.
Lemma okc_entries_in : forall l k t, okc_entries l = true -> In (k, t) l -> okc t = true.
Proof. intros l k t H Hin. unfold okc_entries in H. rewrite forallb_forall in H. exact (H (k, t) Hin). Qed.

Notation NV := (valid ntree nval (elt_eqb ct)).

(* ------------------------------------------------------------------------- lists and tuples: a script of matches only *)
Lemma walk_all_m : forall asg F os ns, Forall2 (fun o n => elt_eqb ct o n = true) os ns ->
  (forall o n, In o os -> In n ns -> elt_eqb ct o n = true -> verbatim (asg o n) = Some o) ->
  verbatim_list (walk asg F (repeat Dm (length os)) os ns) = Some os.
Proof.
  intros asg F os ns H Ha. induction H as [|o n os ns He H IH]; [reflexivity|].
  cbn [length repeat walk verbatim_list]. rewrite Ha; [|left; reflexivity|left; reflexivity|exact He].
  rewrite IH; [reflexivity|]. intros; apply Ha; [right; assumption|right; assumption|assumption].
Qed.

(* ------------------------------------------------------------------------- dict displays: nothing inserted, nothing deleted *)
Lemma dinserts_none : forall olds news pos, (forall k v, In (k, v) news -> alookup k olds <> None) -> dinserts olds news [] pos = [].
Proof.
  intros olds news. induction news as [|[k v] r IH]; intros pos H; cbn [dinserts]; [reflexivity|].
  destruct (alookup k olds) eqn:E; [|exfalso; apply (H k v); [left; reflexivity|exact E]].
  cbn [flush app]. apply IH. intros k' v' Hin. apply (H k' v'). right. exact Hin.
Qed.
Lemma dplace_noins : forall asg F news olds i,
  dplace asg F [] news i olds = flat_map (fun e => dassign_entry asg F e news) olds.
Proof.
  intros asg F news olds. induction olds as [|e r IH]; intros i; cbn [dplace flat_map]; unfold dinserted_at; cbn [flat_map]; [destruct (f_fix F); reflexivity|].
  rewrite (IH (S i)). destruct (f_fix F); reflexivity.
Qed.
Lemma entries_all_kept : forall asg F news olds,
  (forall k o, In (k, o) olds -> exists v, alookup k news = Some v /\ verbatim (asg o v) = Some o) ->
  verbatim_entries (flat_map (fun e => dassign_entry asg F e news) olds) = Some olds.
Proof.
  intros asg F news olds. induction olds as [|[k o] r IH]; intros H; [reflexivity|]. cbn [flat_map].
  destruct (H k o (or_introl eq_refl)) as [v [E1 E2]]. unfold dassign_entry at 1. cbn [fst snd]. rewrite E1. cbn [app verbatim_entries]. rewrite E2.
  rewrite IH; [reflexivity|]. intros k' o' Hin. apply H. right. exact Hin.
Qed.

(* ------------------------------------------------------------------------- constructor calls *)
Lemma cinserts_none : forall c p kws fs pos,
  (forall name v, In (name, v) fs -> is_default ct c name v = false -> kw_index name kws <> None) ->
  cinserts ct c p kws fs [] pos = [].
Proof.
  intros c p kws fs. induction fs as [|[name v] r IH]; intros pos H; cbn [cinserts]; [reflexivity|].
  destruct (is_default ct c name v) eqn:Ed; [apply IH; intros name' v' Hin; apply H; right; exact Hin|].
  destruct (kw_index name kws) as [i|] eqn:Ei; [|exfalso; apply (H name v); [left; reflexivity|exact Ed|exact Ei]].
  cbn [flush app]. apply IH. intros name' v' Hin. apply H. right. exact Hin.
Qed.
Lemma cplace_noins : forall asg F c fs els i,
  cplace ct asg F c [] fs i els = flat_map (cassign_el ct asg F c fs) els.
Proof.
  intros asg F c fs els. induction els as [|e r IH]; intros i; cbn [cplace flat_map]; unfold cinserted_at; cbn [flat_map]; [destruct (f_fix F); reflexivity|].
  rewrite (IH (S i)). destruct (f_fix F); reflexivity.
Qed.
Lemma kws_all_kept : forall asg F c fs kws, f_update F = false ->
  (forall k t, In (k, t) kws -> exists v, alookup k fs = Some v /\ val_eqb (eval ct t) v = true /\ verbatim (asg t v) = Some t) ->
  verbatim_args (flat_map (cassign_el ct asg F c fs) (map inr kws)) = Some ([], kws).
Proof.
  intros asg F c fs kws HU. induction kws as [|[k t] r IH]; intros H; [reflexivity|]. cbn [map flat_map cassign_el].
  destruct (H k t (or_introl eq_refl)) as [v [E1 [E2 E3]]]. unfold cassign_kw at 1. rewrite E1, E2, HU.
  assert (Hr : verbatim_args (flat_map (cassign_el ct asg F c fs) (map inr r)) = Some ([], r)) by (apply IH; intros k' t' Hin; apply H; right; exact Hin).
  destruct (is_default ct c k v).
  - destruct (has_unm t); cbn [app verbatim_args verbatim]; rewrite Hr; reflexivity.
  - cbn [app verbatim_args]. rewrite E3, Hr. reflexivity.
Qed.

(* what `fill` produces, read backwards *)
Lemma fill_fields_inv : forall fields fs i kws, fields_eqb (fill i fields [] kws) fs = true ->
  map fst fs = map fst fields /\
  (forall name d, In (name, d) fields -> exists v, In (name, v) fs /\
     val_eqb (match alookup name kws with Some w => w | None => match d with Some w => w | None => NAtom 0 end end) v = true).
Proof.
  induction fields as [|[name d] r IH]; intros fs i kws H; destruct fs as [|[name' v] fs']; cbn [fill fields_eqb] in H; try discriminate.
  - split; [reflexivity|intros ? ? []].
  - apply andb_true_iff in H. destruct H as [H H3]. apply andb_true_iff in H. destruct H as [H1 H2]. apply Z.eqb_eq in H1. subst name'.
    assert (E : nth_error (@nil nval) i = None) by (destruct i; reflexivity). rewrite E in H2.
    destruct (IH fs' (S i) kws H3) as [I1 I2]. split; [cbn [map fst]; rewrite I1; reflexivity|].
    intros name0 d0 [E0|Hin].
    + injection E0 as <- <-. exists v. split; [left; reflexivity|exact H2].
    + destruct (I2 name0 d0 Hin) as [v0 [Hv0 He0]]. exists v0. split; [right; exact Hv0|exact He0].
Qed.

Definition ev_kt (kt : Z * ntree) : Z * nval := match kt with (k, t') => (k, eval ct t') end.
Lemma ev_kt_keys : forall l, map fst (map ev_kt l) = map fst l.
Proof. intros l. rewrite map_map. apply map_ext. intros [k r]. reflexivity. Qed.
Lemma alookup_ev_kt : forall l k t, NoDup (map fst l) -> In (k, t) l -> alookup k (map ev_kt l) = Some (eval ct t).
Proof. intros l k t Hnd Hin. apply alookup_nodup; [rewrite ev_kt_keys; exact Hnd|]. apply in_map_iff. exists (k, t). split; [reflexivity|exact Hin]. Qed.

(* ------------------------------------------------------------------------- the theorem *)
(* C11 for nested values: a hand-written expression whose value is == the observed one keeps its source text verbatim at every
   depth - below lists, tuples, dict displays (matched by key, whatever the order of the observed dict) and constructor calls
   (matched by keyword, also when a keyword spells out the default of its field) - whatever is approved except update *)
Theorem nest_equal_keeps_text : forall f F o n, ct_ok ct -> depth o < f -> okc o = true -> okv ct n = true ->
  f_update F = false -> elt_eqb ct o n = true -> verbatim (assign ct f F o n) = Some o.
Proof.
  induction f as [|f IH]; intros F o n Hct Hd Ho Hn HU He; [lia|]. rewrite assign_S.
  destruct o as [z c|i z|k olds|olds|c pos kws]; destruct n as [m|k' news|news|c' fs]; try (rewrite value_assign_keep_eq by assumption; reflexivity).
  - (* list / tuple *)
    destruct (skind_eqb k k') eqn:Ek; [|rewrite value_assign_keep_eq by assumption; reflexivity].
    unfold elt_eqb in He. cbn [eval] in He. rewrite val_eqb_seq, Ek in He. cbn [andb] in He. apply vlist_eqb_F2 in He.
    assert (HF2 : Forall2 (fun o n => elt_eqb ct o n = true) olds news).
    { clear -He. remember (map (eval ct) olds) as evs eqn:Eev. revert olds Eev. induction He as [|x y l m Hxy He IHe]; intros [|o olds] Eev; cbn [map] in Eev; try discriminate; constructor.
      - injection Eev as -> _. exact Hxy.
      - injection Eev as _ Eev. apply IHe. exact Eev. }
    rewrite verbatim_seq. unfold script.
    rewrite (align_refl_all_m ntree nval (elt_eqb ct) olds news HF2). rewrite add_x_all_m.
    rewrite (walk_all_m (assign ct f F) F olds news HF2); [reflexivity|].
    intros o n Hin Hinn Hon. apply IH; [exact Hct|eapply depth_lst; [exact Hd|exact Hin]|cbn [okc] in Ho; exact (forallb_in _ _ _ _ Ho Hin)|cbn [okv] in Hn; exact (forallb_in _ _ _ _ Hn Hinn)|exact HU|exact Hon].
  - (* dict display *)
    destruct (nodupb (map fst olds)) eqn:End; [|rewrite value_assign_keep_eq by assumption; reflexivity].
    apply nodupb_NoDup in End. rewrite okc_dct in Ho. rewrite okv_dict in Hn. apply andb_true_iff in Hn. destruct Hn as [Hn1 Hn2]. apply nodupb_NoDup in Hn1.
    unfold elt_eqb in He. cbn [eval] in He. fold ev_kt in He. rewrite mkdict_nodup in He by (rewrite ev_kt_keys; exact End).
    rewrite val_eqb_dict in He. apply andb_true_iff in He. destruct He as [Hlen Hsub]. apply Nat.eqb_eq in Hlen. rewrite map_length in Hlen.
    (* every old key is still there, with an equal value *)
    assert (Hold : forall k o, In (k, o) olds -> exists v, alookup k news = Some v /\ val_eqb (eval ct o) v = true).
    { intros k o Hin. apply (dsub_elim _ _ k (eval ct o) Hsub). apply in_map_iff. exists (k, o). split; [reflexivity|exact Hin]. }
    (* no new key: both key lists are duplicate-free and equally long *)
    assert (Hnew : forall k v, In (k, v) news -> alookup k olds <> None).
    { intros k v Hin E. apply alookup_none in E. apply E.
      assert (Hincl : incl (map fst olds) (map fst news)).
      { intros k0 Hk0. apply in_map_iff in Hk0. destruct Hk0 as [[k1 o1] [E1 Hin1]]. cbn [fst] in E1. subst k1.
        destruct (Hold k0 o1 Hin1) as [v1 [Hv1 _]]. apply alookup_in in Hv1. apply in_map_iff. exists (k0, v1). split; [reflexivity|exact Hv1]. }
      apply (NoDup_length_incl (l := map fst olds) (l' := map fst news) End); [rewrite !map_length; lia|exact Hincl|]. apply in_map_iff. exists (k, v). split; [reflexivity|exact Hin]. }
    rewrite verbatim_dict. unfold dict_result. rewrite (dinserts_none olds news 0 Hnew), dplace_noins.
    rewrite entries_all_kept; [reflexivity|]. intros k o Hin. destruct (Hold k o Hin) as [v [Hv Hev]]. exists v. split; [exact Hv|].
    apply IH; [exact Hct|eapply depth_dct; [exact Hd|exact Hin]|exact (okc_entries_in _ _ _ Ho Hin)|apply alookup_in in Hv; exact (okv_entries_in ct _ _ _ Hn2 Hv)|exact HU|exact Hev].
  - (* constructor call *)
    unfold elt_eqb in He. cbn [eval] in He. fold ev_kt in He. rewrite val_eqb_obj in He. apply andb_true_iff in He. destruct He as [Ec He].
    rewrite Ec. apply Z.eqb_eq in Ec. subst c'.
    rewrite okc_call in Ho. apply andb_true_iff in Ho. destruct Ho as [Hc Ho]. unfold call_ok in Hc.
    apply andb_true_iff in Hc. destruct Hc as [Hc Hc4]. apply andb_true_iff in Hc. destruct Hc as [Hc Hc3]. apply andb_true_iff in Hc. destruct Hc as [Hc1 Hc2].
    destruct pos as [|p0 pos]; [|discriminate]. apply nodupb_NoDup in Hc2.
    rewrite okv_obj in Hn. apply andb_true_iff in Hn. destruct Hn as [Hn1 Hn2]. apply zlist_eqb_eq in Hn1.
    assert (Hnf : NoDup (map fst fs)) by (rewrite Hn1; apply Hct).
    cbn [map] in He. destruct (fill_fields_inv _ _ _ _ He) as [_ Hfill].
    (* every old keyword names a field whose value is == the value of the keyword *)
    assert (Hkw : forall k t, In (k, t) kws -> exists v, alookup k fs = Some v /\ val_eqb (eval ct t) v = true).
    { intros k t Hin. rewrite forallb_forall in Hc3. specialize (Hc3 (k, t) Hin). cbn [fst] in Hc3. apply zmemb_In in Hc3.
      apply in_map_iff in Hc3. destruct Hc3 as [[k0 d] [E0 Hf]]. cbn [fst] in E0. subst k0.
      destruct (Hfill k d Hf) as [v [Hv Hev]]. rewrite (alookup_ev_kt kws k t Hc2 Hin) in Hev.
      exists v. split; [apply alookup_nodup; assumption|exact Hev]. }
    (* no field has to be added *)
    assert (Hnone : forall name v, In (name, v) fs -> is_default ct c name v = false -> kw_index name kws <> None).
    { intros name v Hv Hdf E. apply kw_index_none in E.
      assert (Hname : In name (map fst (ct c))) by (rewrite <- Hn1; apply in_map_iff; exists (name, v); split; [reflexivity|exact Hv]).
      apply in_map_iff in Hname. destruct Hname as [[name0 d] [E0 Hf]]. cbn [fst] in E0. subst name0.
      destruct (Hfill name d Hf) as [v' [Hv' Hev]].
      assert (v' = v) by (pose proof (alookup_nodup _ name v fs Hnf Hv) as E1; pose proof (alookup_nodup _ name v' fs Hnf Hv') as E2; congruence). subst v'.
      assert (El : alookup name (map ev_kt kws) = None) by (apply alookup_none; rewrite ev_kt_keys; exact E). rewrite El in Hev.
      destruct d as [d|].
      - unfold is_default in Hdf. rewrite (alookup_nodup _ name (Some d) (ct c) (Hct c) Hf) in Hdf. congruence.
      - rewrite forallb_forall in Hc4. specialize (Hc4 (name, None) Hf). cbn [fst snd] in Hc4. apply zmemb_In in Hc4. contradiction. }
    rewrite verbatim_call. unfold call_result. cbn [length]. rewrite (cinserts_none c 0 kws fs 0 Hnone), cplace_noins.
    unfold elements. cbn [map app]. rewrite (kws_all_kept (assign ct f F) F c fs kws HU); [reflexivity|].
    intros k t Hin. destruct (Hkw k t Hin) as [v [Hv Hev]]. exists v. split; [exact Hv|split; [exact Hev|]].
    apply IH; [exact Hct|eapply depth_call_kw; [exact Hd|exact Hin]|exact (okc_entries_in _ _ _ Ho Hin)|apply alookup_in in Hv; exact (okv_entries_in ct _ _ _ Hn2 Hv)|exact HU|exact Hev].
Qed.

Theorem nest_equal_keeps_text_top : forall F o n, ct_ok ct -> okc o = true -> okv ct n = true ->
  f_update F = false -> val_eqb (eval ct o) n = true -> verbatim (assign_nest ct F o n) = Some o.
Proof. intros F o n Hct Ho Hn HU He. unfold assign_nest. apply nest_equal_keeps_text; [exact Hct|lia|exact Ho|exact Hn|exact HU|exact He]. Qed.

End WithClasses.

(* ------------------------------------------------------------------------- the premises are satisfiable by non-trivial inputs *)
Definition ex_ct : ctab := fun c =>
  if Z.eqb c 0 then [(0%Z, None); (1%Z, Some (NAtom 0)); (2%Z, Some (NSeq KList []))]
  else if Z.eqb c 1 then [(3%Z, Some (NAtom 1)); (4%Z, Some (NSeq KTuple [NAtom 2]))] else [].
Lemma ex_ct_ok : ct_ok ex_ct.
Proof.
  intros c. unfold ex_ct. destruct (Z.eqb c 0); [|destruct (Z.eqb c 1)]; cbn [map fst]; repeat constructor; cbn [In]; intuition discriminate.
Qed.
(* {5: [A(f0=2+3, f1=0), (1,)], 6: B(f4=(2,))}  observed as  {6: B(f3=1, f4=(2,)), 5: [A(f0=5, f1=0, f2=[]), (1,)]} *)
Definition ex_old : ntree :=
  NDct [(5%Z, NLst KList [NCall 0 [] [(0%Z, NLeaf 5 false); (1%Z, NLeaf 0 true)]; NLst KTuple [NLeaf 1 true]]);
        (6%Z, NCall 1 [] [(4%Z, NLst KTuple [NLeaf 2 true])])].
Definition ex_new : nval :=
  NDict [(6%Z, NObj 1 [(3%Z, NAtom 1); (4%Z, NSeq KTuple [NAtom 2])]);
         (5%Z, NSeq KList [NObj 0 [(0%Z, NAtom 5); (1%Z, NAtom 0); (2%Z, NSeq KList [])]; NSeq KTuple [NAtom 1]])].
Example nest_equal_premises_hold :
  okc ex_ct ex_old = true /\ okt ex_old = true /\ okv ex_ct ex_new = true /\ val_eqb (eval ex_ct ex_old) ex_new = true.
Proof. vm_compute. repeat split. Qed.
(* ... and a changed observation {5: [A(f0=7, f1=0, f2=[3])], 7: 1} is repaired by fix *)
Definition ex_new2 : nval :=
  NDict [(5%Z, NSeq KList [NObj 0 [(0%Z, NAtom 7); (1%Z, NAtom 0); (2%Z, NSeq KList [NAtom 3])]]); (7%Z, NAtom 1)].
Example nest_fix_premises_hold :
  okv ex_ct ex_new2 = true /\ val_eqb (eval ex_ct ex_old) ex_new2 = false /\
  val_eqb (eval_r ex_ct (assign_nest ex_ct {| f_create := false; f_fix := true; f_trim := false; f_update := false |} ex_old ex_new2)) ex_new2 = true.
Proof. vm_compute. repeat split. Qed.
