(* Proofs about Model/Undecided.v: what `update` does to a snapshot that is never compared - lists / tuples, dict displays and constructor calls nested
   in each other at any depth, with user-controlled parts anywhere.  Stdlib only; no axioms. *)
From Coq Require Import List Arith ZArith Bool Lia.
Import ListNotations.
From V Require Import Model.Align Model.SnapOps Model.TreeAssign Model.Nest Model.Undecided Proofs.NestProofs Proofs.NestSettle.
Open Scope nat_scope.

(* induction over nested source trees *)
Section Ind.
Variable P : ntree -> Prop.
Hypothesis Hleaf : forall z c, P (NLeaf z c).
Hypothesis Hunm : forall i z, P (NUnm i z).
Hypothesis Hlst : forall k l, Forall P l -> P (NLst k l).
Hypothesis Hdct : forall l, Forall (fun kt : Z * ntree => P (snd kt)) l -> P (NDct l).
Hypothesis Hcall : forall c pos kws, Forall P pos -> Forall (fun kt : Z * ntree => P (snd kt)) kws -> P (NCall c pos kws).
Fixpoint ntree_ind2 (t : ntree) : P t :=
  match t with
  | NLeaf z c => Hleaf z c
  | NUnm i z => Hunm i z
  | NLst k l => Hlst k l ((fix go (l : list ntree) : Forall P l := match l with [] => Forall_nil _ | x :: r => Forall_cons _ (ntree_ind2 x) (go r) end) l)
  | NDct l => Hdct l ((fix go (l : list (Z * ntree)) : Forall (fun kt : Z * ntree => P (snd kt)) l :=
                         match l with [] => Forall_nil _ | (k, x) :: r => Forall_cons (k, x) (ntree_ind2 x) (go r) end) l)
  | NCall c pos kws =>
      Hcall c pos kws
        ((fix go (l : list ntree) : Forall P l := match l with [] => Forall_nil _ | x :: r => Forall_cons _ (ntree_ind2 x) (go r) end) pos)
        ((fix go (l : list (Z * ntree)) : Forall (fun kt : Z * ntree => P (snd kt)) l :=
            match l with [] => Forall_nil _ | (k, x) :: r => Forall_cons (k, x) (ntree_ind2 x) (go r) end) kws)
  end.
End Ind.

Definition und_kt (upd : bool) (kt : Z * ntree) : Z * nres := match kt with (k, t') => (k, undecided upd t') end.
Definition und_kw (upd : bool) (kt : Z * ntree) : option Z * nres := match kt with (k, t') => (Some k, undecided upd t') end.
Definition keep_pos (p : ntree) : option Z * nres := (None, QKeep p).

Lemma undecided_dct : forall upd l, undecided upd (NDct l) = if nodupb (map fst l) then QDict (map (und_kt upd) l) else QKeep (NDct l).
Proof. reflexivity. Qed.
Lemma undecided_call : forall upd c pos kws, undecided upd (NCall c pos kws) = QCall c (map keep_pos pos ++ map (und_kw upd) kws).
Proof. reflexivity. Qed.

(* the two projections of the children of an edited call *)
Definition pos_of {X} (f : nres -> X) (l : list (option Z * nres)) : list X :=
  flat_map (fun ar : option Z * nres => match ar with (None, r') => [f r'] | (Some _, _) => [] end) l.
Definition kws_of {X} (f : nres -> X) (l : list (option Z * nres)) : list (Z * X) :=
  flat_map (fun ar : option Z * nres => match ar with (Some k, r') => [(k, f r')] | (None, _) => [] end) l.
Lemma pos_of_app : forall X (f : nres -> X) a b, pos_of f (a ++ b) = pos_of f a ++ pos_of f b.
Proof. intros. unfold pos_of. apply flat_map_app. Qed.
Lemma kws_of_app : forall X (f : nres -> X) a b, kws_of f (a ++ b) = kws_of f a ++ kws_of f b.
Proof. intros. unfold kws_of. apply flat_map_app. Qed.
Lemma pos_of_keep : forall X (f : nres -> X) pos, pos_of f (map keep_pos pos) = map (fun p => f (QKeep p)) pos.
Proof. intros X f pos. induction pos as [|p r IH]; [reflexivity|]. cbn [map pos_of flat_map keep_pos app]. unfold pos_of in IH. rewrite IH. reflexivity. Qed.
Lemma kws_of_keep : forall X (f : nres -> X) pos, kws_of f (map keep_pos pos) = [].
Proof. intros X f pos. induction pos as [|p r IH]; [reflexivity|]. cbn [map kws_of flat_map keep_pos app]. exact IH. Qed.
Lemma pos_of_kw : forall X (f : nres -> X) upd kws, pos_of f (map (und_kw upd) kws) = [].
Proof. intros X f upd kws. induction kws as [|[k t] r IH]; [reflexivity|]. cbn [map pos_of flat_map und_kw app]. exact IH. Qed.
Lemma kws_of_kw : forall X (f : nres -> X) upd kws, kws_of f (map (und_kw upd) kws) = map (fun kt : Z * ntree => match kt with (k, t') => (k, f (undecided upd t')) end) kws.
Proof. intros X f upd kws. induction kws as [|[k t] r IH]; [reflexivity|]. cbn [map kws_of flat_map und_kw app]. unfold kws_of in IH. rewrite IH. reflexivity. Qed.

Lemma map_ext_Forall_kt : forall X (f g : ntree -> X) (l : list (Z * ntree)),
  Forall (fun kt : Z * ntree => f (snd kt) = g (snd kt)) l ->
  map (fun kt : Z * ntree => match kt with (k, t') => (k, f t') end) l = map (fun kt : Z * ntree => match kt with (k, t') => (k, g t') end) l.
Proof. intros X f g l H. induction H as [|[k t] r Hx H IH]; [reflexivity|]. cbn [map snd] in *. rewrite Hx, IH. reflexivity. Qed.
Lemma map_ext_Forall : forall X (f g : ntree -> X) (l : list ntree), Forall (fun t => f t = g t) l -> map f l = map g l.
Proof. intros X f g l H. induction H as [|t r Hx H IH]; [reflexivity|]. cbn [map]. rewrite Hx, IH. reflexivity. Qed.

Section WithClasses.
Variable ct : ctab.

(* C05: update on a never-compared snapshot keeps the value - exactly, not only up to == *)
Theorem undecided_value : forall upd t, eval_r ct (undecided upd t) = eval ct t.
Proof.
  intros upd. induction t as [z c|i z|k l IH|l IH|c pos kws IHp IHk] using ntree_ind2.
  - cbn [undecided]. destruct (upd && negb c); reflexivity.
  - reflexivity.
  - cbn [undecided eval_r eval]. rewrite map_map. f_equal. apply map_ext_Forall. exact IH.
  - rewrite undecided_dct. destruct (nodupb (map fst l)); [|reflexivity]. cbn [eval_r eval]. f_equal. f_equal. rewrite map_map.
    transitivity (map (fun kt : Z * ntree => match kt with (k, t') => (k, eval_r ct (undecided upd t')) end) l).
    + apply map_ext. intros [k t]. reflexivity.
    + apply (map_ext_Forall_kt nval (fun t => eval_r ct (undecided upd t)) (eval ct)). exact IH.
  - rewrite undecided_call. cbn [eval_r eval]. f_equal.
    fold (pos_of (eval_r ct) (map keep_pos pos ++ map (und_kw upd) kws)). fold (kws_of (eval_r ct) (map keep_pos pos ++ map (und_kw upd) kws)).
    rewrite pos_of_app, kws_of_app, pos_of_keep, kws_of_keep, pos_of_kw, kws_of_kw, app_nil_r. cbn [app eval_r]. f_equal.
    apply (map_ext_Forall_kt nval (fun t => eval_r ct (undecided upd t)) (eval ct)). exact IHk.
Qed.

(* without update nothing is generated: the text stays verbatim (C04) *)
Lemma verbatim_list_map : forall (f : ntree -> nres) l, Forall (fun t => verbatim (f t) = Some t) l -> verbatim_list (map f l) = Some l.
Proof. intros f l H. induction H as [|t r Hx H IH]; [reflexivity|]. cbn [map verbatim_list]. rewrite Hx, IH. reflexivity. Qed.
Lemma verbatim_entries_map : forall upd l, Forall (fun kt : Z * ntree => verbatim (undecided upd (snd kt)) = Some (snd kt)) l -> verbatim_entries (map (und_kt upd) l) = Some l.
Proof. intros upd l H. induction H as [|[k t] r Hx H IH]; [reflexivity|]. cbn [map verbatim_entries und_kt snd] in *. rewrite Hx, IH. reflexivity. Qed.
Lemma verbatim_args_kws : forall upd kws, Forall (fun kt : Z * ntree => verbatim (undecided upd (snd kt)) = Some (snd kt)) kws ->
  verbatim_args (map (und_kw upd) kws) = Some ([], kws).
Proof. intros upd kws H. induction H as [|[k t] r Hx H IH]; [reflexivity|]. cbn [map verbatim_args und_kw snd] in *. rewrite Hx, IH. reflexivity. Qed.
Lemma verbatim_args_pos : forall pos rest ks, verbatim_args rest = Some ([], ks) -> verbatim_args (map keep_pos pos ++ rest) = Some (pos, ks).
Proof. intros pos rest ks H. induction pos as [|p r IH]; [exact H|]. cbn [map app verbatim_args keep_pos verbatim]. rewrite IH. reflexivity. Qed.

Definition all_keep (upd : bool) (t : ntree) : Prop := verbatim (undecided upd t) = Some t.
Theorem undecided_noupdate_identity : forall t, all_keep false t.
Proof.
  unfold all_keep. induction t as [z c|i z|k l IH|l IH|c pos kws IHp IHk] using ntree_ind2.
  - reflexivity.
  - reflexivity.
  - cbn [undecided]. rewrite verbatim_seq, (verbatim_list_map (undecided false) l IH). reflexivity.
  - rewrite undecided_dct. destruct (nodupb (map fst l)); [|reflexivity]. rewrite verbatim_dict, (verbatim_entries_map false l IH). reflexivity.
  - rewrite undecided_call, verbatim_call. rewrite (verbatim_args_pos pos _ kws (verbatim_args_kws false kws IHk)). reflexivity.
Qed.

(* C10: the user-controlled parts of a never-compared snapshot are kept, all of them, in their order - whatever is approved *)
Theorem undecided_unms : forall upd t, unms_r (undecided upd t) = unms t.
Proof.
  intros upd. induction t as [z c|i z|k l IH|l IH|c pos kws IHp IHk] using ntree_ind2.
  - cbn [undecided]. destruct (upd && negb c); reflexivity.
  - reflexivity.
  - cbn [undecided unms_r unms]. rewrite flat_map_concat_map, map_map, <- flat_map_concat_map.
    induction IH as [|t r Hx H IHl]; [reflexivity|]. cbn [flat_map]. rewrite Hx, IHl. reflexivity.
  - rewrite undecided_dct. destruct (nodupb (map fst l)); [|reflexivity]. cbn [unms_r unms].
    induction IH as [|[k t] r Hx H IHl]; [reflexivity|]. cbn [map flat_map und_kt snd] in *. rewrite Hx, IHl. reflexivity.
  - rewrite undecided_call. cbn [unms_r unms]. rewrite flat_map_app. f_equal.
    + clear IHp IHk. induction pos as [|p r IHl]; [reflexivity|]. cbn [map flat_map keep_pos unms_r]. rewrite IHl. reflexivity.
    + induction IHk as [|[k t] r Hx H IHl]; [reflexivity|]. cbn [map flat_map und_kw snd] in *. rewrite Hx, IHl. reflexivity.
Qed.

(* C08: after an update run nothing is left to update: a second run (whatever is approved) keeps the text verbatim *)
Section Idem.
Variable upd2 : bool.
Let stable (t : ntree) : Prop := verbatim (undecided upd2 (to_tree ct (undecided true t))) = Some (to_tree ct (undecided true t)).
Lemma idem_list : forall l, Forall stable l ->
  verbatim_list (map (undecided upd2) (map (to_tree ct) (map (undecided true) l))) = Some (map (to_tree ct) (map (undecided true) l)).
Proof. intros l H. induction H as [|t r Hx H IH]; [reflexivity|]. cbn [map verbatim_list]. unfold stable in Hx. rewrite Hx, IH. reflexivity. Qed.
Definition tt_kr (kr : Z * nres) : Z * ntree := match kr with (k, r') => (k, to_tree ct r') end.
Lemma idem_entries : forall l, Forall (fun kt : Z * ntree => stable (snd kt)) l ->
  verbatim_entries (map (und_kt upd2) (map tt_kr (map (und_kt true) l))) = Some (map tt_kr (map (und_kt true) l)).
Proof. intros l H. induction H as [|[k t] r Hx H IH]; [reflexivity|]. cbn [map verbatim_entries und_kt tt_kr snd] in *. unfold stable in Hx. rewrite Hx, IH. reflexivity. Qed.
Lemma idem_kws : forall l, Forall (fun kt : Z * ntree => stable (snd kt)) l ->
  verbatim_args (map (und_kw upd2) (map (fun kt : Z * ntree => match kt with (k, t') => (k, to_tree ct (undecided true t')) end) l))
  = Some ([], map (fun kt : Z * ntree => match kt with (k, t') => (k, to_tree ct (undecided true t')) end) l).
Proof. intros l H. induction H as [|[k t] r Hx H IH]; [reflexivity|]. cbn [map verbatim_args und_kw snd] in *. unfold stable in Hx. rewrite Hx, IH. reflexivity. Qed.
Lemma keys_tt : forall l, map fst (map tt_kr (map (und_kt true) l)) = map fst l.
Proof. intros l. rewrite !map_map. apply map_ext. intros [k t]. reflexivity. Qed.

Theorem undecided_idempotent : forall t, all_keep upd2 (to_tree ct (undecided true t)).
Proof.
  unfold all_keep. induction t as [z c|i z|k l IH|l IH|c pos kws IHp IHk] using ntree_ind2.
  - cbn [undecided andb]. destruct c; cbn [negb to_tree canon_tree undecided]; rewrite andb_false_r; reflexivity.
  - reflexivity.
  - cbn [undecided to_tree]. rewrite verbatim_seq, (idem_list l IH). reflexivity.
  - rewrite undecided_dct. destruct (nodupb (map fst l)) eqn:En.
    + cbn [to_tree]. fold tt_kr. rewrite undecided_dct, keys_tt, En, verbatim_dict, (idem_entries l IH). reflexivity.
    + cbn [to_tree]. rewrite undecided_dct, En. reflexivity.
  - rewrite undecided_call. cbn [to_tree].
    fold (pos_of (to_tree ct) (map keep_pos pos ++ map (und_kw true) kws)). fold (kws_of (to_tree ct) (map keep_pos pos ++ map (und_kw true) kws)).
    rewrite pos_of_app, kws_of_app, pos_of_keep, kws_of_keep, pos_of_kw, kws_of_kw, app_nil_r. cbn [app to_tree]. rewrite map_id.
    rewrite undecided_call, verbatim_call, (verbatim_args_pos pos _ _ (idem_kws kws IHk)). reflexivity.
Qed.
End Idem.
End WithClasses.

(* non-vacuity: a list holding a non-canonical leaf, a user-controlled part, a dict with a repeated key and a call with a positional argument *)
Definition ex_ct : ctab := fun c => if Z.eqb c 0 then [(0%Z, None); (1%Z, Some (NAtom 0))] else [].
Definition ex_t : ntree :=
  NLst KList [NLeaf 5 false; NUnm 0 3; NDct [(1%Z, NLeaf 2 false); (1%Z, NLeaf 3 false)]; NCall 0 [NLeaf 7 false] [(1%Z, NLeaf 0 false)]; NDct [(4%Z, NLeaf 1 false)]].
Example undecided_example :
  undecided true ex_t =
    QSeq KList [QGen (NAtom 5); QKeep (NUnm 0 3); QKeep (NDct [(1%Z, NLeaf 2 false); (1%Z, NLeaf 3 false)]);
                QCall 0 [(None, QKeep (NLeaf 7 false)); (Some 1%Z, QGen (NAtom 0))]; QDict [(4%Z, QGen (NAtom 1))]]
  /\ eval_r ex_ct (undecided true ex_t) = eval ex_ct ex_t /\ unms_r (undecided true ex_t) = [0].
Proof. repeat split; vm_compute; reflexivity. Qed.
