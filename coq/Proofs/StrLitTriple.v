(* The repaired triple_quote (atom-level model) is read back by the lexer; the pinned one is not. *)
From Coq Require Import List NArith Arith Bool Lia.
Import ListNotations.
From V Require Import Model.StrLit Proofs.StrLitRepr Proofs.StrLitScan.
Open Scope N_scope.

(* ---------- C: the pinned triple_quote is wrong ---------- *)
Definition pr (c : cp) : bool := (32 <=? c) && (c <? 127).

Theorem triple_quote_pinned_refuted : exists s, decode_literal (triple_quote pr false s) <> Done s [].
Proof. exists [39; 39; 39; 34; 34; 34]. vm_compute. discriminate. Qed.

Example triple_quote_pinned_witness :
  decode_literal (triple_quote pr false [39; 39; 39; 34; 34; 34]) = Done [39; 39; 39; 34; 34; 92; 34] [].
Proof. vm_compute. reflexivity. Qed.

Example triple_quote_fixed_witness :
  decode_literal (triple_quote pr true [39; 39; 39; 34; 34; 34]) = Done [39; 39; 39; 34; 34; 34] [].
Proof. vm_compute. reflexivity. Qed.

(* ---------- F: when value_to_token uses the triple-quoted form ---------- *)
Lemma last_cp_spec (s : str) : last_cp s = match s with [] => None | _ => Some (last s 0) end.
Proof. unfold last_cp. induction s as [|a s IH]; [reflexivity|].
  cbn [map]. destruct s as [|b s]; [reflexivity|]. cbn [map last] in *. exact IH. Qed.

Lemma memb_In c s : memb c s = true <-> In c s.
Proof. unfold memb. rewrite existsb_exists. split.
  - intros [x [Hin Hx]]. apply N.eqb_eq in Hx. subst. exact Hin.
  - intros Hin. exists c. split; [exact Hin | apply N.eqb_refl]. Qed.

Theorem use_triple_spec s :
  use_triple s = true <-> (In 10 s /\ last s 0 <> 10) \/ (count 10%N s >= 2)%nat.
Proof. unfold use_triple. rewrite orb_true_iff, andb_true_iff, negb_true_iff, memb_In, last_cp_spec.
  assert (HL : Nat.ltb 1 (count 10 s) = true <-> (count 10%N s >= 2)%nat).
  { rewrite Nat.ltb_lt. lia. }
  rewrite HL. destruct s as [|a s].
  - cbn [In]. tauto.
  - rewrite N.eqb_neq. tauto.
Qed.

Example use_triple_ex :
  use_triple [97; 10; 98] = true /\ use_triple [97; 10] = false /\ use_triple [10; 97; 10] = true /\ use_triple [97] = false.
Proof. repeat split. Qed.

(* ---------- a three-quotes-in-a-row automaton equivalent to `contains (q3 q)` ---------- *)
Fixpoint noq3 (q : cp) (k : nat) (l : str) : bool :=
  match l with
  | [] => true
  | x :: r => if x =? q then (match k with 2%nat => false | _ => noq3 q (S k) r end) else noq3 q 0 r
  end.

Lemma contains_noq3 q : forall l k, (k <= 2)%nat ->
  contains (q3 q) (repeat q k ++ l) = negb (noq3 q k l).
Proof. induction l as [|a l IH]; intros k Hk.
  - destruct k as [|[|[|k]]]; try lia; cbn [repeat app noq3 contains prefixb q3 negb];
      rewrite ?N.eqb_refl; reflexivity.
  - destruct (a =? q) eqn:E.
    + apply N.eqb_eq in E; subst a. cbn [noq3]. rewrite N.eqb_refl.
      destruct k as [|[|[|k]]]; try lia.
      * rewrite <- (IH 1%nat) by lia. reflexivity.
      * rewrite <- (IH 2%nat) by lia. reflexivity.
      * cbn [repeat app contains prefixb q3 negb]. rewrite !N.eqb_refl. reflexivity.
    + cbn [noq3]. rewrite E. rewrite <- (IH 0%nat) by lia.
      assert (E' : (q =? a) = false) by (rewrite N.eqb_sym; exact E).
      destruct k as [|[|[|k]]]; try lia; cbn [repeat app contains prefixb q3];
        rewrite ?N.eqb_refl, ?E'; cbn [andb orb]; rewrite ?andb_false_r; reflexivity.
Qed.

Lemma contains_noq3_0 q l : contains (q3 q) l = negb (noq3 q 0 l).
Proof. apply (contains_noq3 q l 0). lia. Qed.

Lemma noq3_mono q : forall l k k', (k' <= k)%nat -> (k <= 2)%nat -> noq3 q k l = true -> noq3 q k' l = true.
Proof. induction l as [|x l IH]; intros k k' Hkk Hk H; [reflexivity|].
  cbn [noq3] in *. destruct (x =? q).
  - destruct k as [|[|[|k]]]; try lia; try discriminate.
    + assert (k' = 0)%nat by lia. subst. exact H.
    + destruct k' as [|[|k']]; try lia; [apply (IH 2%nat); auto; lia | exact H].
  - exact H.
Qed.

Lemma noq3_drop q l : forall p k, (k <= 2)%nat -> noq3 q k (p ++ l) = true -> noq3 q 0 l = true.
Proof. induction p as [|x p IH]; intros k Hk H.
  - apply (noq3_mono q l k 0%nat); auto; lia.
  - cbn [app noq3] in H. destruct (x =? q).
    + destruct k as [|[|[|k]]]; try lia; try discriminate; eapply IH; try exact H; lia.
    + eapply IH; try exact H; lia.
Qed.

Lemma noq3_free q l : forall p k, (k <= 2)%nat -> Forall (fun x => x <> q) p ->
  noq3 q k l = true -> noq3 q k (p ++ l) = true.
Proof. induction p as [|y p IH]; intros k Hk Hp H; [exact H|].
  inversion Hp as [|y' p' Hy Hp']; subst.
  cbn [app noq3]. destruct (y =? q) eqn:E; [apply N.eqb_eq in E; congruence|].
  apply IH; [lia | exact Hp' | apply (noq3_mono q l k 0%nat); auto; lia].
Qed.

Lemma noq3_free_ne q l p k : p <> [] -> Forall (fun x => x <> q) p ->
  noq3 q 0 l = true -> noq3 q k (p ++ l) = true.
Proof. intros Hne Hp H. destruct p as [|y p]; [congruence|].
  inversion Hp as [|y' p' Hy Hp']; subst.
  cbn [app noq3]. destruct (y =? q) eqn:E; [apply N.eqb_eq in E; congruence|].
  apply noq3_free; [lia | exact Hp' | exact H].
Qed.

(* ---------- escape texts ---------- *)
Definition noquote (c : cp) : Prop := c <> 39 /\ c <> 34.

Lemma hexdigit_ge n : 48 <= hexdigit n.
Proof. unfold hexdigit. destruct (n <? 10); lia. Qed.

Lemma hex_fixed_noquote d : forall n, Forall noquote (hex_fixed d n).
Proof. induction d as [|d IH]; intros n; cbn [hex_fixed]; [constructor|].
  apply Forall_app. split; [apply IH|]. constructor; [|constructor].
  pose proof (hexdigit_ge (n mod 16)) as H. unfold noquote. lia. Qed.

Lemma unicode_escape_noquote c : Forall noquote (unicode_escape c).
Proof. unfold unicode_escape.
  repeat match goal with |- context [if ?b then _ else _] => destruct b end; cbn [app];
  repeat (apply Forall_cons; [unfold noquote; lia|]); try apply Forall_nil; apply hex_fixed_noquote.
Qed.

Lemma run_unicode_escape q c : (q = 39 \/ q = 34) -> c <= 1114111 ->
  exists t, unicode_escape c = 92 :: t /\
    forall r acc, run q true SEsc (t ++ r) acc = run q true SNorm r (c :: acc).
Proof. intros Hq Hc. unfold unicode_escape.
  destruct (c =? 92) eqn:E1. { apply N.eqb_eq in E1; subst. exists [92]. split; reflexivity. }
  destruct (c =? 9) eqn:E2. { apply N.eqb_eq in E2; subst. exists [116]. split; reflexivity. }
  destruct (c =? 10) eqn:E3. { apply N.eqb_eq in E3; subst. exists [110]. split; reflexivity. }
  destruct (c =? 13) eqn:E4. { apply N.eqb_eq in E4; subst. exists [114]. split; reflexivity. }
  destruct (c <? 256) eqn:E5.
  { apply N.ltb_lt in E5. exists (120 :: hex_fixed 2 c). split; [reflexivity|]. intros r acc.
    transitivity (run q true (SHex 2 0) (hex_fixed 2 c ++ r) acc); [reflexivity|].
    apply run_hex; [simpl; lia | exact Hc]. }
  destruct (c <? 65536) eqn:E6.
  { apply N.ltb_lt in E6. exists (117 :: hex_fixed 4 c). split; [reflexivity|]. intros r acc.
    transitivity (run q true (SHex 4 0) (hex_fixed 4 c ++ r) acc); [reflexivity|].
    apply run_hex; [simpl; lia | exact Hc]. }
  exists (85 :: hex_fixed 8 c). split; [reflexivity|]. intros r acc.
  transitivity (run q true (SHex 8 0) (hex_fixed 8 c ++ r) acc); [reflexivity|].
  apply run_hex; [simpl; lia | exact Hc].
Qed.

Section A.
Variable printable : cp -> bool.
Variable extra : option cp.
Hypothesis Hextra : forall e, extra = Some e -> e = 39 \/ e = 34.

Lemma escape_char_cases c :
  (escape_char printable extra c = [c] /\ c <> 92 /\ extra <> Some c) \/
  escape_char printable extra c = unicode_escape c \/
  (extra = Some c /\ escape_char printable extra c = [92; c]).
Proof. unfold escape_char.
  destruct ((c =? 10) || (c =? 9)) eqn:E1.
  { left. split; [reflexivity|]. apply orb_prop in E1.
    assert (Hc : c = 10 \/ c = 9) by (destruct E1 as [E|E]; apply N.eqb_eq in E; auto).
    split; [lia|]. intros He. apply Hextra in He. lia. }
  destruct ((c =? 92) || negb (printable c)) eqn:E2; [right; left; reflexivity|].
  apply orb_false_elim in E2. destruct E2 as [E2 _]. apply N.eqb_neq in E2.
  destruct extra as [e|].
  - destruct (c =? e) eqn:E3.
    + apply N.eqb_eq in E3; subst e. right; right. split; reflexivity.
    + apply N.eqb_neq in E3. left. repeat split; [exact E2 | congruence].
  - left. repeat split; [exact E2 | discriminate].
Qed.

Lemma unicode_escape_len c : exists a b t, unicode_escape c = a :: b :: t.
Proof. unfold unicode_escape.
  repeat match goal with |- context [if ?b then _ else _] => destruct b end; cbn [app]; eauto. Qed.

Lemma escape_char_single c x : escape_char printable extra c = [x] -> x = c.
Proof. intros H. destruct (escape_char_cases c) as [[E _]|[E|[_ E]]]; rewrite E in H.
  - inversion H; reflexivity.
  - destruct (unicode_escape_len c) as [a [b [t Ht]]]. rewrite Ht in H. discriminate.
  - discriminate.
Qed.

Variable q : cp.
Hypothesis Hq : q = 39 \/ q = 34.

(* the atom emitted for one character *)
Definition enc_atom (prev_sp : bool) (c : cp) (lastb : bool) : atom :=
  let base := escape_char printable extra c in
  if (c =? 10) && prev_sp then ([92; 110; 92; 10], [10])
  else if lastb && eqs base [q] && (match extra with None => true | Some _ => false end)
       then ([92; q], [q])
  else (base, [c]).

Lemma enc_chars_cons p c r :
  enc_chars printable extra q p (c :: r) =
  enc_atom p c (match r with [] => true | _ => false end)
    :: enc_chars printable extra q (eqs (escape_char printable extra c) [32] || eqs (escape_char printable extra c) [9]) r.
Proof. reflexivity. Qed.

Lemma enc_atom_snd p c lb : snd (enc_atom p c lb) = [c].
Proof. unfold enc_atom.
  destruct ((c =? 10) && p) eqn:E1.
  { apply andb_prop in E1. destruct E1 as [E1 _]. apply N.eqb_eq in E1. subst. reflexivity. }
  destruct (lb && eqs (escape_char printable extra c) [q] && _) eqn:E2; [|reflexivity].
  apply andb_prop in E2. destruct E2 as [E2 _]. apply andb_prop in E2. destruct E2 as [_ E2].
  apply eqs_true in E2. apply escape_char_single in E2. subst. reflexivity.
Qed.

Lemma enc_atom_rawq p c lb : is_rawq q (enc_atom p c lb) = true -> escape_char printable extra c = [q].
Proof. unfold is_rawq, enc_atom. intros H.
  destruct ((c =? 10) && p). { apply eqs_true in H. discriminate. }
  destruct (lb && eqs (escape_char printable extra c) [q] && _). { apply eqs_true in H. discriminate. }
  apply eqs_true in H. exact H.
Qed.

Lemma enc_atom_ok p c lb : c <= 1114111 -> atom_ok q (enc_atom p c lb).
Proof. intros Hc. unfold enc_atom.
  destruct ((c =? 10) && p).
  { right. exists [110; 92; 10]. split; [reflexivity|]. intros r acc. reflexivity. }
  destruct (lb && eqs (escape_char printable extra c) [q] && _).
  { right. exists [q]. split; [reflexivity|]. intros r acc. destruct Hq as [-> | ->]; reflexivity. }
  destruct (escape_char_cases c) as [[E [Hbs _]]|[E|[He E]]]; rewrite E.
  - left. exists c. split; [reflexivity | exact Hbs].
  - right. destruct (run_unicode_escape q c Hq Hc) as [t [Ht Hrun]]. exists t. split; [exact Ht | exact Hrun].
  - right. exists [c]. split; [reflexivity|]. intros r acc. apply Hextra in He. destruct He as [-> | ->]; reflexivity.
Qed.

Lemma enc_chars_ok : forall s p, Forall (fun c => c <= 1114111) s ->
  Forall (atom_ok q) (enc_chars printable extra q p s).
Proof. induction s as [|c r IH]; intros p Hs; [constructor|].
  inversion Hs as [|c' r' Hc Hr]; subst. rewrite enc_chars_cons. constructor; [apply enc_atom_ok; exact Hc | apply IH; exact Hr].
Qed.

Lemma enc_chars_rawq : forall s p,
  Forall (fun a => is_rawq q a = true -> snd a = [q]) (enc_chars printable extra q p s).
Proof. induction s as [|c r IH]; intros p; [constructor|].
  rewrite enc_chars_cons. constructor; [|apply IH].
  intros H. apply enc_atom_rawq in H. apply escape_char_single in H. rewrite enc_atom_snd. congruence.
Qed.

Lemma enc_chars_dec : forall s p, dec (enc_chars printable extra q p s) = s.
Proof. induction s as [|c r IH]; intros p; [reflexivity|].
  rewrite enc_chars_cons. unfold dec in *. cbn [map concat]. rewrite enc_atom_snd, IH. reflexivity.
Qed.

(* no three raw quote atoms in a row, provided q3 q does not occur in the escaped text *)
Lemma scank_enc : forall s k p, (k <= 2)%nat ->
  noq3 q k (concat (map (escape_char printable extra) s)) = true ->
  exists k', scank q k (enc_chars printable extra q p s) = Some k'.
Proof. induction s as [|c r IH]; intros k p Hk H; [exists k; reflexivity|].
  rewrite enc_chars_cons. cbn [scank]. unfold stepk. cbn [map concat] in H.
  destruct (is_rawq q (enc_atom p c _)) eqn:R.
  - apply enc_atom_rawq in R. rewrite R in H. cbn [app noq3] in H. rewrite N.eqb_refl in H.
    destruct k as [|[|[|k]]]; try lia; try discriminate; apply IH; auto; lia.
  - apply IH; [lia|]. eapply noq3_drop; [|exact H]. exact Hk.
Qed.
End A.

Section A2.
Variable printable : cp -> bool.

Lemma extra_of_cases s e : extra_of s = Some e -> e = 39 \/ e = 34.
Proof. unfold extra_of. destruct (contains (q3 39) s && contains (q3 34) s); [|discriminate].
  destruct (Nat.leb _ _); intros H; inversion H; auto. Qed.

Lemma noquote_neq q p : (q = 39 \/ q = 34) -> Forall noquote p -> Forall (fun x => x <> q) p.
Proof. intros Hq Hp. eapply Forall_impl; [|exact Hp]. unfold noquote. intros a Ha. cbn beta in *. lia. Qed.

(* escaping (without an extra escaped quote) never creates a run of three quotes *)
Lemma escaped_noq3_None q : (q = 39 \/ q = 34) -> forall s k, (k <= 2)%nat ->
  noq3 q k s = true -> noq3 q k (concat (map (escape_char printable None) s)) = true.
Proof. intros Hq. induction s as [|c r IH]; intros k Hk H; [reflexivity|].
  cbn [map concat].
  destruct (escape_char_cases printable None ltac:(discriminate) c) as [[E _]|[E|[He _]]]; [| |discriminate]; rewrite E.
  - cbn [app noq3] in *. destruct (c =? q).
    + destruct k as [|[|[|k]]]; try lia; try discriminate; apply IH; auto; lia.
    + apply IH; auto; lia.
  - apply noq3_free_ne.
    + destruct (unicode_escape_len c) as [a [b [t Ht]]]. rewrite Ht. discriminate.
    + apply noquote_neq; [exact Hq | apply unicode_escape_noquote].
    + apply (IH 0%nat); [lia|]. apply (noq3_drop q r [c] k Hk). exact H.
Qed.

(* with an extra escaped quote e, every e is preceded by a backslash or hex-escaped *)
Lemma escaped_noq3_Some (e : cp) : (e = 39 \/ e = 34) -> forall s k, (k <= 1)%nat ->
  noq3 e k (concat (map (escape_char printable (Some e)) s)) = true.
Proof. intros He. induction s as [|c r IH]; intros k Hk; [reflexivity|].
  cbn [map concat].
  assert (Hx : forall e0, Some e = Some e0 -> e0 = 39 \/ e0 = 34) by (intros e0 H0; inversion H0; subst; exact He).
  destruct (escape_char_cases printable (Some e) Hx c) as [[E [_ Hne]]|[E|[Hc E]]]; rewrite E.
  - apply noq3_free; [lia | | apply IH; exact Hk]. constructor; [intros Hce; apply Hne; subst; reflexivity | constructor].
  - apply noq3_free; [lia | | apply IH; exact Hk].
    apply noquote_neq; [exact He | apply unicode_escape_noquote].
  - inversion Hc; subst c. cbn [app noq3]. rewrite N.eqb_refl.
    destruct (92 =? e) eqn:E92; [apply N.eqb_eq in E92; lia|]. apply IH. lia.
Qed.

Lemma possible_exists s :
  exists q0, (q0 = 39 \/ q0 = 34) /\
    contains (q3 q0) (concat (map (escape_char printable (extra_of s)) s)) = false.
Proof. destruct (extra_of s) as [e|] eqn:Ex.
  - exists e. pose proof (extra_of_cases s e Ex) as He. split; [exact He|].
    rewrite contains_noq3_0, (escaped_noq3_Some e He s 0%nat) by lia. reflexivity.
  - unfold extra_of in Ex.
    destruct (contains (q3 39) s) eqn:C1; [destruct (contains (q3 34) s) eqn:C2; [discriminate|]|].
    + exists 34. split; [auto|]. rewrite contains_noq3_0 in *.
      rewrite (escaped_noq3_None 34 ltac:(auto) s 0%nat); [reflexivity | lia |].
      destruct (noq3 34 0 s); [reflexivity | discriminate].
    + exists 39. split; [auto|]. rewrite contains_noq3_0 in *.
      rewrite (escaped_noq3_None 39 ltac:(auto) s 0%nat); [reflexivity | lia |].
      destruct (noq3 39 0 s); [reflexivity | discriminate].
Qed.

Lemma choose_q_spec extra s :
  (exists q0, (q0 = 39 \/ q0 = 34) /\ contains (q3 q0) (concat (map (escape_char printable extra) s)) = false) ->
  (choose_q printable extra s = 39 \/ choose_q printable extra s = 34) /\
  contains (q3 (choose_q printable extra s)) (concat (map (escape_char printable extra) s)) = false.
Proof. intros [q0 [Hq0 Hc0]]. unfold choose_q.
  set (escaped := concat (map (escape_char printable extra) s)) in *.
  cbn [filter].
  destruct (contains (q3 34) escaped) eqn:C34; destruct (contains (q3 39) escaped) eqn:C39; cbn [negb].
  - destruct Hq0 as [-> | ->]; congruence.
  - destruct (last_cp escaped) as [l|]; cbn [filter app hd]; [destruct (39 =? l); cbn [negb app hd]|]; auto.
  - destruct (last_cp escaped) as [l|]; cbn [filter app hd]; [destruct (34 =? l); cbn [negb app hd]|]; auto.
  - destruct (last_cp escaped) as [l|]; cbn [filter app hd]; [destruct (34 =? l); destruct (39 =? l); cbn [negb app hd]|]; auto.
Qed.

(* ---------- the end of the body ---------- *)
Lemma last_app_ne (a b : str) d : b <> [] -> last (a ++ b) d = last b d.
Proof. intros Hb. induction a as [|x a IH]; [reflexivity|].
  cbn [app last]. destruct (a ++ b) as [|y l] eqn:E; [|exact IH].
  apply app_eq_nil in E. destruct E as [_ E]. congruence. Qed.

Lemma last_cp_app_ne (a b : str) : b <> [] -> last_cp (a ++ b) = last_cp b.
Proof. intros Hb. rewrite !last_cp_spec. rewrite (last_app_ne a b 0 Hb).
  destruct (a ++ b) as [|y l] eqn:E.
  - apply app_eq_nil in E. destruct E as [_ E]. congruence.
  - destruct b; [congruence | reflexivity]. Qed.

Lemma scank_app q : forall l1 l2 k,
  scank q k (l1 ++ l2) = match scank q k l1 with Some k1 => scank q k1 l2 | None => None end.
Proof. induction l1 as [|a l1 IH]; intros l2 k; [reflexivity|].
  cbn [app scank]. destruct (stepk q k a); [apply IH | reflexivity]. Qed.

(* pending raw quotes at the end of an atom list: the text ends in q *)
Lemma scank_pending q : forall l k k', scank q k l = Some k' -> (k' > 0)%nat ->
  (l = [] /\ k' = k) \/ last_cp (flat l) = Some q.
Proof. induction l as [|a l IH]; intros k k' H Hpos.
  - left. cbn [scank] in H. inversion H. auto.
  - right. cbn [scank] in H. destruct (stepk q k a) as [k1|] eqn:E; [|discriminate].
    unfold flat. cbn [map concat]. fold (flat l).
    destruct (IH k1 k' H Hpos) as [[-> ->]|HL].
    + unfold stepk in E. destruct (is_rawq q a) eqn:R; [|inversion E; lia].
      apply eqs_true in R. rewrite R. reflexivity.
    + rewrite last_cp_app_ne; [exact HL|]. intros Hnil. rewrite Hnil in HL. discriminate.
Qed.

Lemma is_rawq_cont q : is_rawq q cont = false.
Proof. unfold is_rawq, eqs. destruct (list_eq_dec N.eq_dec (fst cont) [q]) as [E|E]; [discriminate E | reflexivity]. Qed.

Lemma cont_ok q : atom_ok q cont.
Proof. right. exists [10]. split; [reflexivity|]. intros r acc. reflexivity. Qed.

Lemma dec_app (a b : list atom) : dec (a ++ b) = dec a ++ dec b.
Proof. unfold dec. rewrite map_app, concat_app. reflexivity. Qed.

Lemma decode_triple q rest : (q = 39 \/ q = 34) -> decode_literal (q3 q ++ rest) = run q true SNorm rest [].
Proof. intros [-> | ->]; reflexivity. Qed.

(* A *)
Theorem triple_quote_a_roundtrip s : Forall (fun c => c <= 1114111) s ->
  decode_literal (triple_quote_a printable s) = Done s [].
Proof. intros Hs. unfold triple_quote_a, triple_atoms.
  destruct (choose_q_spec (extra_of s) s (possible_exists s)) as [Hq Hc].
  set (extra := extra_of s) in *. set (q := choose_q printable extra s) in *.
  assert (Hextra : forall e, extra = Some e -> e = 39 \/ e = 34) by (intros e; apply extra_of_cases).
  set (enc := enc_chars printable extra q false s).
  set (body := cont :: enc).
  set (atoms := if ends_nl body then body else body ++ [cont]).
  rewrite decode_triple by exact Hq.
  (* the counter of pending quotes *)
  assert (Hn : noq3 q 0 (concat (map (escape_char printable extra) s)) = true).
  { rewrite contains_noq3_0 in Hc. destruct (noq3 q 0 _); [reflexivity | discriminate]. }
  destruct (scank_enc printable extra q Hq s 0%nat false ltac:(lia) Hn) as [k' Hk']. fold enc in Hk'.
  assert (Hbody : scank q 0 body = Some k').
  { unfold body. cbn [scank]. unfold stepk. rewrite is_rawq_cont. exact Hk'. }
  assert (Hsc : scank q 0 atoms = Some 0%nat).
  { unfold atoms. destruct (ends_nl body) eqn:En.
    - destruct k' as [|k']; [exact Hbody|]. exfalso.
      destruct (scank_pending q body 0%nat (S k') Hbody ltac:(lia)) as [[Hb _]|HL]; [discriminate Hb|].
      unfold ends_nl in En. rewrite HL in En. apply N.eqb_eq in En. lia.
    - rewrite scank_app, Hbody. cbn [scank]. unfold stepk. rewrite is_rawq_cont. reflexivity. }
  assert (Hok : Forall (atom_ok q) atoms).
  { assert (Hb : Forall (atom_ok q) body).
    { constructor; [apply cont_ok | apply enc_chars_ok; auto]. }
    unfold atoms. destruct (ends_nl body); [exact Hb|].
    apply Forall_app. split; [exact Hb|]. constructor; [apply cont_ok | constructor]. }
  assert (Hrq : Forall (fun a => is_rawq q a = true -> snd a = [q]) atoms).
  { assert (Hb : Forall (fun a => is_rawq q a = true -> snd a = [q]) body).
    { constructor; [rewrite is_rawq_cont; discriminate | apply enc_chars_rawq; auto]. }
    unfold atoms. destruct (ends_nl body); [exact Hb|].
    apply Forall_app. split; [exact Hb|]. constructor; [rewrite is_rawq_cont; discriminate | constructor]. }
  assert (Hdec : dec atoms = s).
  { assert (Hb : dec body = s).
    { unfold body. change (cont :: enc) with ([cont] ++ enc). rewrite dec_app. unfold enc.
      rewrite (enc_chars_dec printable extra Hextra q Hq). reflexivity. }
    unfold atoms. destruct (ends_nl body); [exact Hb|]. rewrite dec_app, Hb. apply app_nil_r. }
  pose proof (scan_atoms_done q Hq atoms [] Hok Hrq Hsc) as H.
  rewrite Hdec in H. rewrite <- H. rewrite app_nil_r. reflexivity.
Qed.

(* E *)
Theorem str_literal_a_roundtrip s : Forall (fun c => c <= 1114111) s ->
  decode_literal (str_literal_a printable s) = Done s [].
Proof. intros Hs. unfold str_literal_a. destruct (use_triple s).
  - apply triple_quote_a_roundtrip; exact Hs.
  - apply py_repr_roundtrip; exact Hs.
Qed.
End A2.

(* ---------- B: the flat transcription equals the atom-level model ---------- *)
(* replace_sp_nl with a flag "the previous character was a raw space" *)
Definition rsn (p : bool) (t : str) : str :=
  if p then match t with
            | c :: r => if c =? 10 then [92; 110; 92; 10] ++ replace_sp_nl r else replace_sp_nl t
            | [] => replace_sp_nl t
            end
  else replace_sp_nl t.

Lemma replace_sp_nl_eq x b r :
  replace_sp_nl (x :: b :: r) =
  if blank x && (b =? 10) then [x; 92; 110; 92; 10] ++ replace_sp_nl r else x :: replace_sp_nl (b :: r).
Proof. reflexivity. Qed.

Lemma replace_sp_nl_cons x t : replace_sp_nl (x :: t) = x :: rsn (blank x) t.
Proof. destruct t as [|b r].
  - unfold rsn. destruct (blank x); reflexivity.
  - rewrite replace_sp_nl_eq. unfold rsn. destruct (blank x) eqn:E; cbn [andb]; [|reflexivity].
    destruct (b =? 10); reflexivity.
Qed.

Lemma blank_false x : x <> 32 -> x <> 9 -> blank x = false.
Proof. intros H1 H2. unfold blank. apply N.eqb_neq in H1. apply N.eqb_neq in H2. rewrite H1, H2. reflexivity. Qed.

Lemma rsn_not_nl p x t : x <> 10 -> rsn p (x :: t) = x :: rsn (blank x) t.
Proof. intros Hx. unfold rsn at 1. destruct (x =? 10) eqn:E; [apply N.eqb_eq in E; congruence|].
  destruct p; apply replace_sp_nl_cons. Qed.

Lemma rsn_free t : forall w p, Forall (fun x => x <> 32 /\ x <> 9 /\ x <> 10) w -> (w = [] -> p = false) ->
  rsn p (w ++ t) = w ++ rsn false t.
Proof. induction w as [|x w IH]; intros p Hw Hp.
  - rewrite Hp by reflexivity. reflexivity.
  - inversion Hw as [|x' w' [Hx1 [Hx9 Hx2]] Hw']; subst. cbn [app]. rewrite rsn_not_nl by exact Hx2.
    rewrite (blank_false x Hx1 Hx9). rewrite IH; auto.
Qed.

Lemma unicode_escape_ge c : Forall (fun x => 48 <= x) (unicode_escape c).
Proof. unfold unicode_escape.
  assert (H : forall d n, Forall (fun x => 48 <= x) (hex_fixed d n)).
  { induction d as [|d IH]; intros n; cbn [hex_fixed]; [constructor|].
    apply Forall_app. split; [apply IH|]. constructor; [apply hexdigit_ge | constructor]. }
  repeat match goal with |- context [if ?b then _ else _] => destruct b end; cbn [app];
  repeat (apply Forall_cons; [lia|]); try apply Forall_nil; apply H.
Qed.

Lemma last_cp_Forall (P : cp -> Prop) : forall t l, Forall P t -> last_cp t = Some l -> P l.
Proof. intros t l Ht H. rewrite last_cp_spec in H. destruct t as [|a t]; [discriminate|].
  inversion H as [H1]. clear H. revert a Ht H1. induction t as [|b t IH]; intros a Ht H1.
  - cbn [last] in H1. subst. inversion Ht; auto.
  - inversion Ht as [|a' t' Ha Ht']; subst. apply (IH b Ht'). reflexivity.
Qed.

Lemma eqs_single a b : eqs [a] [b] = (a =? b).
Proof. unfold eqs. destruct (list_eq_dec N.eq_dec [a] [b]) as [E|E].
  - inversion E; subst. symmetry. apply N.eqb_refl.
  - symmetry. apply N.eqb_neq. congruence. Qed.

Lemma eqs_len2 a b t x : eqs (a :: b :: t) [x] = false.
Proof. unfold eqs. destruct (list_eq_dec N.eq_dec (a :: b :: t) [x]) as [E|E]; [discriminate E | reflexivity]. Qed.

Section B.
Variable printable : cp -> bool.
Variable extra : option cp.
Hypothesis Hextra : forall e, extra = Some e -> e = 39 \/ e = 34.
Variable q : cp.
Hypothesis Hq : q = 39 \/ q = 34.

Definition extra_none : bool := match extra with None => true | Some _ => false end.

(* the piece for the last character *)
Definition last_piece (c : cp) : str :=
  if eqs (escape_char printable extra c) [q] && extra_none then [92; q] else escape_char printable extra c.

(* pieces with the last-character rule but without the space-newline rule *)
Fixpoint enc0 (s : str) : list str :=
  match s with
  | [] => []
  | c :: r => (if (match r with [] => true | _ => false end) then last_piece c else escape_char printable extra c) :: enc0 r
  end.

Lemma enc0_snoc : forall r c, enc0 (r ++ [c]) = map (escape_char printable extra) r ++ [last_piece c].
Proof. induction r as [|a r IH]; intros c; [reflexivity|].
  cbn [app enc0 map]. rewrite IH. destruct (r ++ [c]) as [|y l] eqn:E; [|reflexivity].
  apply app_eq_nil in E. destruct E as [_ E]. discriminate. Qed.

Lemma enc_atom_fst_last p c :
  (c =? 10) && p = false -> fst (enc_atom printable extra q p c true) = last_piece c.
Proof. intros H. unfold enc_atom, last_piece, extra_none. rewrite H. cbn [andb].
  destruct (eqs (escape_char printable extra c) [q] && _); reflexivity. Qed.

Lemma enc_atom_fst_mid p c :
  (c =? 10) && p = false -> fst (enc_atom printable extra q p c false) = escape_char printable extra c.
Proof. intros H. unfold enc_atom. rewrite H. reflexivity. Qed.

Lemma escape_char_nl : escape_char printable extra 10 = [10].
Proof. reflexivity. Qed.

(* what one piece does to the space-newline replacement *)
Lemma rsn_piece p c w t :
  (w = escape_char printable extra c \/ w = last_piece c) -> (c =? 10) && p = false ->
  rsn p (w ++ t) = w ++ rsn (eqs (escape_char printable extra c) [32] || eqs (escape_char printable extra c) [9]) t.
Proof. intros Hw Hp.
  assert (Hesc : forall v, (v = [92; q] \/ v = unicode_escape c \/ v = [92; c] /\ extra = Some c) ->
            rsn p (v ++ t) = v ++ rsn false t).
  { intros v Hv. apply rsn_free.
    - destruct Hv as [-> | [-> | [-> He]]].
      + repeat constructor; lia.
      + eapply Forall_impl; [|apply unicode_escape_ge]. intros a Ha. cbn beta in Ha. lia.
      + apply Hextra in He. repeat constructor; lia.
    - destruct Hv as [-> | [-> | [-> He]]]; try discriminate.
      destruct (unicode_escape_len c) as [a [b [u Hu]]]. rewrite Hu. discriminate. }
  destruct (escape_char_cases printable extra Hextra c) as [[E [Hbs Hne]]|[E|[He E]]].
  - (* raw character *)
    rewrite E, !eqs_single. fold (blank c). unfold last_piece in Hw. rewrite E, eqs_single in Hw.
    destruct ((c =? q) && extra_none) eqn:Eq.
    + destruct Hw as [-> | ->].
      * apply andb_prop in Eq. destruct Eq as [Eq _]. apply N.eqb_eq in Eq. subst c.
        cbn [app]. rewrite rsn_not_nl by lia. reflexivity.
      * apply andb_prop in Eq. destruct Eq as [Eq _]. apply N.eqb_eq in Eq. subst c.
        rewrite Hesc by auto. rewrite blank_false by lia. reflexivity.
    + assert (Hw' : w = [c]) by (destruct Hw; auto). subst w. cbn [app].
      destruct p.
      * rewrite andb_true_r in Hp. apply N.eqb_neq in Hp. apply rsn_not_nl. exact Hp.
      * unfold rsn at 1. apply replace_sp_nl_cons.
  - assert (Hw' : w = unicode_escape c).
    { destruct Hw as [-> | ->]; [exact E|]. unfold last_piece. rewrite E.
      destruct (unicode_escape_len c) as [a [b [u Hu]]]. rewrite Hu, eqs_len2. reflexivity. }
    rewrite E. assert (H32 : forall x, eqs (unicode_escape c) [x] = false).
    { intros x. destruct (unicode_escape_len c) as [a [b [u Hu]]]. rewrite Hu. apply eqs_len2. }
    rewrite !H32. subst w. apply Hesc. auto.
  - assert (Hw' : w = [92; c]).
    { destruct Hw as [-> | ->]; [exact E|]. unfold last_piece. rewrite E, eqs_len2. reflexivity. }
    rewrite E, !eqs_len2. subst w. apply Hesc. auto.
Qed.

Lemma flat_enc_chars : forall s p,
  flat (enc_chars printable extra q p s) = rsn p (concat (enc0 s)).
Proof. induction s as [|c r IH]; intros p; [destruct p; reflexivity|].
  rewrite enc_chars_cons. unfold flat. cbn [map concat enc0]. fold (flat (enc_chars printable extra q (eqs (escape_char printable extra c) [32] || eqs (escape_char printable extra c) [9]) r)).
  rewrite IH.
  destruct ((c =? 10) && p) eqn:E1.
  - (* space-newline *)
    apply andb_prop in E1. destruct E1 as [E1 ->]. apply N.eqb_eq in E1. subst c.
    assert (Hpiece : (if (match r with [] => true | _ => false end) then last_piece 10 else escape_char printable extra 10) = [10]).
    { destruct r; [|reflexivity]. unfold last_piece. rewrite escape_char_nl, eqs_single.
      destruct (10 =? q) eqn:E; [apply N.eqb_eq in E; lia | reflexivity]. }
    rewrite Hpiece. unfold enc_atom. rewrite escape_char_nl, eqs_single. reflexivity.
  - destruct r as [|c2 r].
    + rewrite enc_atom_fst_last by exact E1. symmetry. apply rsn_piece; auto.
    + rewrite enc_atom_fst_mid by exact E1. symmetry. apply rsn_piece; auto.
Qed.

Lemma last_cp_snoc (t : str) c : last_cp (t ++ [c]) = Some c.
Proof. rewrite last_cp_app_ne by discriminate. reflexivity. Qed.

(* the last-character rule of triple_quote, piecewise *)
Lemma escaped_last_rule s :
  let escaped := concat (map (escape_char printable extra) s) in
  match last_cp escaped with
  | Some l => if (q =? l) && negb (true && match extra with Some _ => true | None => false end)
              then removelast escaped ++ [92; l] else escaped
  | None => escaped
  end = concat (enc0 s).
Proof. cbv zeta. destruct s as [|c0 r0]; [reflexivity|].
  destruct (@exists_last _ (c0 :: r0) ltac:(discriminate)) as [r [c Hs]]. rewrite Hs. clear Hs c0 r0.
  rewrite enc0_snoc, map_app, !concat_app. cbn [map concat]. rewrite !app_nil_r.
  set (Er := concat (map (escape_char printable extra) r)).
  destruct (escape_char_cases printable extra Hextra c) as [[E [Hbs Hne]]|[E|[He E]]].
  - unfold last_piece. rewrite E, last_cp_snoc, eqs_single, (N.eqb_sym q c). unfold extra_none.
    destruct (c =? q) eqn:Ecq; cbn [andb]; [|reflexivity].
    apply N.eqb_eq in Ecq. subst c.
    destruct extra; cbn [andb negb]; [reflexivity|]. rewrite removelast_last. reflexivity.
  - assert (HL : last_piece c = unicode_escape c).
    { unfold last_piece. rewrite E. destruct (unicode_escape_len c) as [a [b [u Hu]]]. rewrite Hu, eqs_len2. reflexivity. }
    rewrite HL, E. destruct (last_cp (Er ++ unicode_escape c)) as [l|] eqn:EL; [|reflexivity].
    rewrite last_cp_app_ne in EL
      by (destruct (unicode_escape_len c) as [a [b [u Hu]]]; rewrite Hu; discriminate).
    apply (last_cp_Forall _ _ _ (unicode_escape_ge c)) in EL.
    destruct (q =? l) eqn:Eql; [apply N.eqb_eq in Eql; lia | reflexivity].
  - unfold last_piece, extra_none. rewrite E, He, andb_false_r.
    change (Er ++ [92; c]) with (Er ++ [92] ++ [c]). rewrite app_assoc, last_cp_snoc.
    cbn [andb negb]. rewrite andb_false_r. reflexivity.
Qed.
End B.

(* B *)
Theorem triple_quote_eq_atoms (printable : cp -> bool) s :
  triple_quote printable true s = triple_quote_a printable s.
Proof. unfold triple_quote, triple_quote_a, triple_atoms.
  destruct (choose_q_spec printable (extra_of s) s (possible_exists printable s)) as [Hq _].
  unfold choose_q in *. cbv zeta in *.
  set (extra := extra_of s) in *.
  assert (Hextra : forall e, extra = Some e -> e = 39 \/ e = 34) by (intros e; apply extra_of_cases).
  set (q := hd 34 _) in *.
  rewrite (escaped_last_rule printable extra Hextra q Hq s).
  change (replace_sp_nl (concat (enc0 printable extra q s))) with (rsn false (concat (enc0 printable extra q s))).
  rewrite <- (flat_enc_chars printable extra Hextra q Hq s false).
  set (enc := enc_chars printable extra q false s).
  f_equal. f_equal. unfold ends_nl.
  change (flat (cont :: enc)) with ([92; 10] ++ flat enc).
  destruct (last_cp ([92; 10] ++ flat enc)) as [l|] eqn:EL.
  - destruct (l =? 10); [reflexivity|]. unfold flat. rewrite map_app, concat_app. cbn [map concat fst cont app]. reflexivity.
  - rewrite last_cp_spec in EL. discriminate EL.
Qed.

(* consequences for the literal transcription of the repaired code *)
Corollary triple_quote_fixed_roundtrip (printable : cp -> bool) s : Forall (fun c => c <= 1114111) s ->
  decode_literal (triple_quote printable true s) = Done s [].
Proof. intros Hs. rewrite triple_quote_eq_atoms. apply triple_quote_a_roundtrip; exact Hs. Qed.

Corollary str_literal_fixed_roundtrip (printable : cp -> bool) s : Forall (fun c => c <= 1114111) s ->
  decode_literal (str_literal printable true s) = Done s [].
Proof. intros Hs. unfold str_literal. destruct (use_triple s).
  - apply triple_quote_fixed_roundtrip; exact Hs.
  - apply py_repr_roundtrip; exact Hs.
Qed.

(* ---------- examples ---------- *)
(* a, space, newline, three single quotes, three double quotes, backslash, e-acute, U+1F600, newline, tab, double quote *)
Definition ex_s : str := [97; 32; 10; 39; 39; 39; 34; 34; 34; 92; 233; 128512; 10; 9; 34].

Example triple_quote_a_ex :
  triple_quote_a pr ex_s =
    [39; 39; 39; 92; 10; 97; 32; 92; 110; 92; 10; 92; 39; 92; 39; 92; 39; 34; 34; 34; 92; 92;
     92; 120; 101; 57; 92; 85; 48; 48; 48; 49; 102; 54; 48; 48; 10; 9; 34; 92; 10; 39; 39; 39]
  /\ decode_literal (triple_quote_a pr ex_s) = Done ex_s [].
Proof. split; vm_compute; reflexivity. Qed.

Example triple_quote_eq_atoms_ex : triple_quote pr true ex_s = triple_quote_a pr ex_s.
Proof. vm_compute. reflexivity. Qed.

(* without an extra escaped quote the last-character rule fires: a, newline, ''', double quote *)
Example triple_quote_a_ex2 :
  triple_quote_a pr [97; 10; 39; 39; 39; 34] = [34; 34; 34; 92; 10; 97; 10; 39; 39; 39; 92; 34; 92; 10; 34; 34; 34]
  /\ decode_literal (triple_quote_a pr [97; 10; 39; 39; 39; 34]) = Done [97; 10; 39; 39; 39; 34] [].
Proof. split; vm_compute; reflexivity. Qed.

Example str_literal_a_ex :
  decode_literal (str_literal_a pr ex_s) = Done ex_s []
  /\ str_literal_a pr [97; 39; 10] = [34; 97; 39; 92; 110; 34]
  /\ decode_literal (str_literal_a pr [97; 39; 10]) = Done [97; 39; 10] [].
Proof. repeat split; vm_compute; reflexivity. Qed.

Print Assumptions triple_quote_a_roundtrip.
Print Assumptions triple_quote_eq_atoms.
Print Assumptions triple_quote_pinned_refuted.
Print Assumptions str_literal_a_roundtrip.
Print Assumptions use_triple_spec.
Print Assumptions triple_quote_fixed_roundtrip.
Print Assumptions str_literal_fixed_roundtrip.
