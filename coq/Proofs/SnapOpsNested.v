(* Proofs about Model/SnapOps.v, part 2: dict nesting.  T2, T10, T11, T16.
   Stdlib only, no axioms. *)
From Coq Require Import List ZArith Bool Lia.
From V Require Import Model.SnapOps Proofs.SnapOpsFlat.
Import ListNotations.
Open Scope Z_scope.

(* ------------------------------------------------------------------ induction principles
   [src] and [site] are nested through [list (Z * _)]: the generated principles give no
   hypothesis for the elements of the list. *)

Section SrcInd.
  Variable P : src -> Prop.
  Hypothesis Hatom : forall z cn, P (SAtom z cn).
  Hypothesis Hlist : forall l, P (SList l).
  Hypothesis Hdict : forall kvs, Forall (fun kv => P (snd kv)) kvs -> P (SDict kvs).
  Fixpoint src_nested_ind (s : src) : P s :=
    match s with
    | SAtom z cn => Hatom z cn
    | SList l => Hlist l
    | SDict kvs =>
        Hdict kvs ((fix go (l : list (Z * src)) : Forall (fun kv => P (snd kv)) l :=
                      match l with
                      | [] => Forall_nil _
                      | kv :: r => Forall_cons kv (src_nested_ind (snd kv)) (go r)
                      end) kvs)
    end.
End SrcInd.

Section SiteInd.
  Variable P : site -> Prop.
  Hypothesis Hsite : forall k old nv coll ch, Forall (fun kc => P (snd kc)) ch -> P (Site k old nv coll ch).
  Fixpoint site_nested_ind (s : site) : P s :=
    match s with
    | Site k old nv coll ch =>
        Hsite k old nv coll ch
          ((fix go (l : list (Z * site)) : Forall (fun kc => P (snd kc)) l :=
              match l with
              | [] => Forall_nil _
              | kc :: r => Forall_cons kc (site_nested_ind (snd kc)) (go r)
              end) ch)
    end.
End SiteInd.

(* ------------------------------------------------------------------ association lists *)

Lemma assoc_In {X} key (l : list (Z * X)) v : assoc key l = Some v -> In (key, v) l.
Proof.
  induction l as [|[k' v'] l IH]; cbn [assoc]; [discriminate|].
  destruct (Z.eqb_spec key k') as [E|E]; intros H.
  - inversion H; subst. left; reflexivity.
  - right. apply IH, H.
Qed.

Lemma assoc_zmem {X} key (l : list (Z * X)) :
  zmem key (map fst l) = match assoc key l with Some _ => true | None => false end.
Proof.
  induction l as [|[k' v'] l IH]; cbn [assoc map fst zmem]; [reflexivity|].
  destruct (key =? k'); [reflexivity|exact IH].
Qed.

Lemma assoc_map {X Y} (f : X -> Y) key (l : list (Z * X)) :
  assoc key (map (fun kv => (fst kv, f (snd kv))) l) = option_map f (assoc key l).
Proof.
  induction l as [|[k' v'] l IH]; cbn [assoc map fst snd]; [reflexivity|].
  destruct (key =? k'); [reflexivity|exact IH].
Qed.

Lemma assoc_set_keys {X} key (v : X) l :
  assoc key l <> None -> map fst (assoc_set key v l) = map fst l.
Proof.
  induction l as [|[k' v'] l IH]; cbn [assoc assoc_set]; [congruence|].
  destruct (Z.eqb_spec key k') as [E|E]; intros H; cbn [map fst]; [subst; reflexivity|].
  f_equal. apply IH, H.
Qed.

Lemma assoc_set_same {X} key (v : X) l : assoc key (assoc_set key v l) = Some v.
Proof.
  induction l as [|[k' v'] l IH]; cbn [assoc assoc_set].
  - rewrite Z.eqb_refl. reflexivity.
  - destruct (Z.eqb_spec key k') as [E|E]; cbn [assoc].
    + rewrite Z.eqb_refl. reflexivity.
    + destruct (Z.eqb_spec key k') as [E'|_]; [contradiction|exact IH].
Qed.

Lemma assoc_set_other {X} key key2 (v : X) l : key2 <> key -> assoc key2 (assoc_set key v l) = assoc key2 l.
Proof.
  intros Hne. induction l as [|[k' v'] l IH]; cbn [assoc assoc_set].
  - destruct (Z.eqb_spec key2 key) as [E|_]; [contradiction|reflexivity].
  - destruct (Z.eqb_spec key k') as [E|E]; cbn [assoc].
    + subst k'. destruct (Z.eqb_spec key2 key) as [E'|_]; [contradiction|reflexivity].
    + rewrite IH. reflexivity.
Qed.

Lemma assoc_app {X} key (a b : list (Z * X)) :
  assoc key (a ++ b) = match assoc key a with Some v => Some v | None => assoc key b end.
Proof.
  induction a as [|[k' v'] a IH]; cbn [assoc app]; [reflexivity|].
  destruct (key =? k'); [reflexivity|exact IH].
Qed.

Lemma Forall_assoc_set {X} (P : Z * X -> Prop) key v l :
  Forall P l -> P (key, v) -> Forall P (assoc_set key v l).
Proof.
  intros Hl Hv. induction Hl as [|[k' v'] l Hk Hl IH]; cbn [assoc_set].
  - constructor; [exact Hv|constructor].
  - destruct (key =? k'); constructor; assumption.
Qed.

(* ------------------------------------------------------------------ unfolding the local fixpoints *)

Lemma src_val_dict kvs :
  src_val (SDict kvs) = PDict (map (fun kv => (fst kv, src_val (snd kv))) kvs).
Proof.
  cbn [src_val]. f_equal. induction kvs as [|[k v] r IH]; [reflexivity|].
  cbn [map fst snd]. f_equal. exact IH.
Qed.

(* the step on a [k] operation, with the recursive calls folded *)
Definition dict_kvs (old : option src) : list (Z * src) :=
  match old with Some (SDict kvs) => kvs | _ => [] end.
Definition child_old (old : option src) (key : Z) : option src := assoc key (dict_kvs old).
Definition dictish (old : option src) : bool :=
  match old with None | Some (SDict _) => true | _ => false end.

Lemma step_OGet fixed F k old nv coll ch key o' c :
  step fixed F (Site k old nv coll ch) (OGet key o') c =
  if negb (kind_eqb k KUndecided) && negb (kind_eqb k KDict) then (Site k old nv coll ch, RTypeError, c)
  else if dictish old then
    match assoc key ch with
    | Some child =>
        let '(child', r, c2) := step fixed F child o' c in
        (Site KDict old nv coll (assoc_set key child' ch), r, c2)
    | None =>
        let '(child', r, c2) := step fixed F (fresh (child_old old key)) o'
                                  (match old with Some _ => c | None => inc_missing c end) in
        (Site KDict old nv coll (ch ++ [(key, child')]), r, c2)
    end
  else (Site k old nv coll ch, ROther, c).
Proof. destruct old as [[z cn|l|kvs]|]; reflexivity. Qed.

(* ------------------------------------------------------------------ well-shaped sites *)

(* the kind of a decided site agrees with the shape of its old value *)
Definition kind_ok (k : kind) (old : option src) : bool :=
  match k, old with
  | KUndecided, _ => true
  | _, None => true
  | (KEq | KMin | KMax), Some (SAtom _ _) => true
  | KColl, Some (SList _) => true
  | KDict, Some (SDict _) => true
  | _, _ => false
  end.

(* structural invariant of the sites reachable from [fresh old]: the kind fits the old value and
   every sub-snapshot stored under key [key] has as old value what the old dict stores under [key]
   (nothing if the key is new or the parent has no old value) *)
Fixpoint wshape (s : site) : Prop :=
  match s with
  | Site k old nv coll ch =>
      kind_ok k old = true /\
      (fix go (l : list (Z * site)) : Prop :=
         match l with
         | [] => True
         | kc :: r => (s_old (snd kc) = child_old old (fst kc) /\ wshape (snd kc)) /\ go r
         end) ch
  end.

Lemma wshape_unfold k old nv coll ch :
  wshape (Site k old nv coll ch) <->
  kind_ok k old = true /\
  Forall (fun kc => s_old (snd kc) = child_old old (fst kc) /\ wshape (snd kc)) ch.
Proof.
  cbn [wshape]. apply and_iff_compat_l.
  induction ch as [|kc r IH]; [split; [constructor|trivial]|].
  split.
  - intros [Hkc Hr]. constructor; [exact Hkc|apply IH, Hr].
  - intros H. inversion H as [|kc' r' Hkc Hr]; subst. split; [exact Hkc|apply IH, Hr].
Qed.

Lemma wshape_fresh old : wshape (fresh old).
Proof. apply wshape_unfold. split; [reflexivity|constructor]. Qed.

(* [step] never changes the old value of a site *)
Lemma step_old fixed F o s c : s_old (fst (fst (step fixed F s o c))) = s_old s.
Proof.
  destruct s as [k old nv coll ch]. destruct o as [x|x|x|x|key o'].
  5: { rewrite step_OGet.
       destruct (negb (kind_eqb k KUndecided) && negb (kind_eqb k KDict)); [reflexivity|].
       destruct (dictish old); [|reflexivity].
       destruct (assoc key ch) as [child|].
       - destruct (step fixed F child o' c) as [[child' r] c2]. reflexivity.
       - destruct (step fixed F (fresh (child_old old key)) o' _) as [[child' r] c2]. reflexivity. }
  all: cbn; unfold ret;
    repeat match goal with
    | |- context [match ?x with Some _ => _ | None => _ end] => is_var x; destruct x
    | |- context [match ?x with SAtom _ _ => _ | SList _ => _ | SDict _ => _ end] => is_var x; destruct x
    | |- context [if ?b then _ else _] => destruct b
    end; reflexivity.
Qed.

Definition is_leaf (o : op) : bool := match o with OGet _ _ => false | _ => true end.

(* a leaf operation only touches kind / newv / coll, and decides the kind only if the old value fits *)
Lemma step_leaf_site fixed F o k old nv coll ch c :
  is_leaf o = true ->
  exists k' nv' coll',
    fst (fst (step fixed F (Site k old nv coll ch) o c)) = Site k' old nv' coll' ch /\
    (k' = k \/ (k' = op_kind o /\ kind_ok (op_kind o) old = true)).
Proof.
  intros Hl. destruct o as [x|x|x|x|key o']; try discriminate Hl.
  all: cbn; unfold ret;
    repeat match goal with
    | |- context [match ?x with Some _ => _ | None => _ end] => is_var x; destruct x
    | |- context [match ?x with SAtom _ _ => _ | SList _ => _ | SDict _ => _ end] => is_var x; destruct x
    | |- context [if ?b then _ else _] => destruct b
    end; do 3 eexists; (split; [reflexivity|]); auto.
Qed.

Theorem step_wshape fixed F : forall o s c, wshape s -> wshape (fst (fst (step fixed F s o c))).
Proof.
  induction o as [x|x|x|x|key o' IH]; intros s c Hw; destruct s as [k old nv coll ch].
  1-4: match goal with |- context [step ?fx ?FF (Site ?k ?old ?nv ?coll ?ch) ?o ?c] =>
         destruct (step_leaf_site fx FF o k old nv coll ch c eq_refl) as [k' [nv' [coll' [Hs Hk]]]] end;
       rewrite Hs; apply wshape_unfold in Hw; destruct Hw as [Hko Hch]; apply wshape_unfold;
       (split; [destruct Hk as [Hk|[Hk Hk2]]; subst k'; assumption|exact Hch]).
  rewrite step_OGet.
  destruct (negb (kind_eqb k KUndecided) && negb (kind_eqb k KDict)); [exact Hw|].
  destruct (dictish old) eqn:Hd; [|exact Hw].
  apply wshape_unfold in Hw. destruct Hw as [Hko Hch].
  assert (Hkd : kind_ok KDict old = true) by (destruct old as [[z cn|l|kvs]|]; try discriminate Hd; reflexivity).
  destruct (assoc key ch) as [child|] eqn:Hc.
  - pose proof (IH child c) as IHc. pose proof (step_old fixed F o' child c) as Hold.
    destruct (step fixed F child o' c) as [[child' r] c2]. cbn [fst snd] in *.
    apply wshape_unfold. split; [exact Hkd|].
    apply Forall_assoc_set; [exact Hch|]. cbn [fst snd].
    apply assoc_In in Hc. rewrite Forall_forall in Hch. destruct (Hch _ Hc) as [H1 H2]. cbn [fst snd] in *.
    split; [congruence|apply IHc, H2].
  - match goal with |- context [step fixed F ?s0 o' ?c0] =>
      pose proof (IH s0 c0 (wshape_fresh _)) as IHc; pose proof (step_old fixed F o' s0 c0) as Hold;
      destruct (step fixed F s0 o' c0) as [[child' r] c2] end. cbn [fst snd] in *.
    apply wshape_unfold. split; [exact Hkd|].
    apply Forall_app. split; [exact Hch|]. constructor; [|constructor]. cbn [fst snd].
    split; [exact Hold|exact IHc].
Qed.

Theorem run_wshape fixed F : forall ops s c, wshape s -> wshape (r_site (run fixed F s ops c)).
Proof.
  induction ops as [|o r IH]; intros s c Hw; [exact Hw|].
  rewrite run_cons. unfold r_site at 1. cbn [fst]. apply IH. apply step_wshape. exact Hw.
Qed.

Lemma run_old fixed F : forall ops s c, s_old (r_site (run fixed F s ops c)) = s_old s.
Proof.
  induction ops as [|o r IH]; intros s c; [reflexivity|].
  rewrite run_cons. unfold r_site at 1. cbn [fst]. rewrite IH. apply step_old.
Qed.

(* every site reachable from a fresh one is well-shaped and keeps its old value *)
Corollary reachable_wshape fixed F old ops c :
  wshape (r_site (run fixed F (fresh old) ops c)) /\ s_old (r_site (run fixed F (fresh old) ops c)) = old.
Proof. split; [apply run_wshape, wshape_fresh|apply run_old]. Qed.

(* ------------------------------------------------------------------ value_after / cats on a dict site *)

Definition chvals (F : flags) : list (Z * site) -> list (Z * option pv) :=
  fix gc (l : list (Z * site)) : list (Z * option pv) :=
    match l with [] => [] | (key, child) :: r => (key, value_after F child) :: gc r end.

Definition dict_kept (F : flags) (chv : list (Z * option pv)) : list (Z * src) -> list (Z * pv) :=
  fix go (l : list (Z * src)) : list (Z * pv) :=
    match l with
    | [] => []
    | (key, v) :: r =>
        match assoc key chv with
        | Some (Some w) => (key, w) :: go r
        | Some None => (key, src_val v) :: go r
        | None => if f_trim F then go r else (key, src_val v) :: go r
        end
    end.

Definition dict_added (kvs : list (Z * src)) : list (Z * site) -> list (Z * pv) :=
  fix go (l : list (Z * site)) : list (Z * pv) :=
    match l with
    | [] => []
    | (key, child) :: r =>
        match assoc key kvs, new_value child with
        | None, Some w => (key, w) :: go r
        | _, _ => go r
        end
    end.

Lemma value_after_dict F kvs nv coll ch :
  value_after F (Site KDict (Some (SDict kvs)) nv coll ch) =
  Some (PDict (dict_kept F (chvals F ch) kvs ++ (if f_create F then dict_added kvs ch else []))).
Proof. reflexivity. Qed.

Lemma assoc_chvals F key ch : assoc key (chvals F ch) = option_map (value_after F) (assoc key ch).
Proof.
  induction ch as [|[k' c'] ch IH]; cbn [assoc chvals]; [reflexivity|].
  destruct (key =? k'); [reflexivity|exact IH].
Qed.

Definition chcats : list (Z * site) -> list (Z * list cat) :=
  fix gc (l : list (Z * site)) : list (Z * list cat) :=
    match l with [] => [] | (key, child) :: r => (key, cats child) :: gc r end.

Definition dict_cats (chc : list (Z * list cat)) : list (Z * src) -> list cat :=
  fix go (l : list (Z * src)) : list cat :=
    match l with
    | [] => []
    | (key, v) :: r =>
        match assoc key chc with
        | Some cs => cs ++ go r
        | None => Trim :: go r
        end
    end.

Definition is_new_child (kvs : list (Z * src)) (e : Z * site) : bool :=
  negb (match assoc (fst e) kvs with Some _ => true | None => false end) && decided (snd e).

Lemma cats_dict kvs nv coll ch :
  cats (Site KDict (Some (SDict kvs)) nv coll ch) =
  dict_cats (chcats ch) kvs ++ (match filter (is_new_child kvs) ch with [] => [] | _ => [Create] end).
Proof. reflexivity. Qed.

Lemma assoc_chcats key ch : assoc key (chcats ch) = option_map cats (assoc key ch).
Proof.
  induction ch as [|[k' c'] ch IH]; cbn [assoc chcats]; [reflexivity|].
  destruct (key =? k'); [reflexivity|exact IH].
Qed.

(* ------------------------------------------------------------------ T10 *)

(* no dict of the old value has a repeated key (always so for a Python dict display that was evaluated) *)
Fixpoint nodupb (l : list Z) : bool :=
  match l with [] => true | x :: r => negb (zmem x r) && nodupb r end.

Fixpoint src_nodup (o : src) : bool :=
  match o with
  | SDict kvs =>
      nodupb (map fst kvs) &&
      (fix go (l : list (Z * src)) : bool :=
         match l with [] => true | kv :: r => src_nodup (snd kv) && go r end) kvs
  | _ => true
  end.

Lemma src_nodup_dict kvs :
  src_nodup (SDict kvs) = true <->
  nodupb (map fst kvs) = true /\ Forall (fun kv => src_nodup (snd kv) = true) kvs.
Proof.
  cbn [src_nodup]. rewrite andb_true_iff. apply and_iff_compat_l.
  induction kvs as [|kv r IH]; [split; [constructor|reflexivity]|].
  rewrite andb_true_iff, IH. split.
  - intros [H1 H2]. constructor; assumption.
  - intros H. inversion H; subst. split; assumption.
Qed.

Lemma nodupb_assoc {X} (kvs : list (Z * X)) key v :
  nodupb (map fst kvs) = true -> In (key, v) kvs -> assoc key kvs = Some v.
Proof.
  induction kvs as [|[k' v'] r IH]; intros Hn Hin; [destruct Hin|].
  cbn [map fst nodupb] in Hn. apply andb_true_iff in Hn. destruct Hn as [Hk Hr].
  cbn [assoc]. destruct Hin as [Hin|Hin].
  - inversion Hin; subst. rewrite Z.eqb_refl. reflexivity.
  - destruct (Z.eqb_spec key k') as [E|E]; [|apply IH; assumption].
    subst k'. apply negb_true_iff in Hk.
    assert (Hm : zmem key (map fst r) = true) by (apply zmem_In; apply (in_map fst) in Hin; exact Hin).
    congruence.
Qed.

Lemma dict_kept_preserving F ch kvs :
  f_trim F = false ->
  (forall key c v, assoc key ch = Some c -> assoc key kvs = Some v -> value_after F c = Some (src_val v)) ->
  forall l, (forall key v, In (key, v) l -> assoc key kvs = Some v) ->
  dict_kept F (chvals F ch) l = map (fun kv => (fst kv, src_val (snd kv))) l.
Proof.
  intros Htrim Hch l; induction l as [|[key v] r IH]; intros Hl; [reflexivity|].
  cbn [dict_kept map fst snd]. fold (dict_kept F (chvals F ch)).
  rewrite IH by (intros key' v' H'; apply Hl; right; exact H').
  rewrite assoc_chvals. destruct (assoc key ch) as [c|] eqn:Hc; cbn [option_map].
  - rewrite (Hch key c v Hc) by (apply Hl; left; reflexivity). reflexivity.
  - rewrite Htrim. reflexivity.
Qed.

Theorem update_value_preserving : forall F s o,
  f_create F = false -> f_fix F = false -> f_trim F = false ->
  s_old s = Some o -> wshape s -> src_nodup o = true ->
  value_after F s = Some (src_val o).
Proof.
  intros F s. induction s as [k old nv coll ch IH] using site_nested_ind.
  intros o Hcreate Hfix Htrim Hold Hw Hnd. cbn [s_old] in Hold. subst old.
  destruct o as [z cn|l|kvs].
  - destruct k; cbn [value_after]; try reflexivity; destruct nv as [n|]; try reflexivity;
      rewrite ?Hfix, ?Htrim, ?andb_false_r;
      repeat match goal with |- context [if ?b then _ else _] => destruct b end; reflexivity.
  - destruct k; cbn [value_after]; try reflexivity.
    rewrite Hfix, Htrim, app_nil_r. reflexivity.
  - destruct k; try reflexivity.
    rewrite value_after_dict, Hcreate, app_nil_r, src_val_dict. do 2 f_equal.
    apply wshape_unfold in Hw. destruct Hw as [_ Hch].
    apply src_nodup_dict in Hnd. destruct Hnd as [Hnk Hnv].
    apply (dict_kept_preserving F ch kvs); [exact Htrim| |intros key v Hin; apply nodupb_assoc; assumption].
    intros key c v Hc Hv. apply assoc_In in Hc.
    rewrite Forall_forall in IH, Hch, Hnv.
    destruct (Hch _ Hc) as [Hco Hcw]. cbn [fst snd] in *.
    apply (IH _ Hc); cbn [fst snd]; try assumption.
    + rewrite Hco. unfold child_old. cbn [dict_kvs]. exact Hv.
    + apply (Hnv (key, v)). apply assoc_In, Hv.
Qed.

Corollary update_value_preserving_run : forall fixed F o ops c,
  f_create F = false -> f_fix F = false -> f_trim F = false -> src_nodup o = true ->
  value_after F (r_site (run fixed F (fresh (Some o)) ops c)) = Some (src_val o).
Proof.
  intros fixed F o ops c Hc Hf Ht Hn.
  destruct (reachable_wshape fixed F (Some o) ops c) as [Hw Ho].
  apply update_value_preserving; assumption.
Qed.

Definition update_only : flags := {| f_create := false; f_fix := false; f_trim := false; f_update := true |}.

Example update_value_preserving_ex :
  let o := SDict [(1, SAtom 5 false); (2, SDict [(7, SList [(1, false); (2, true)]); (8, SAtom 0 false)])] in
  let ops := [OGet 1 (OEq 6); OGet 2 (OGet 7 (OIn 9)); OGet 3 (OMin 4); OGet 2 (OGet 9 (OEq 1)); OGet 2 (OGet 8 (OMax 0))] in
  let s := r_site (run true update_only (fresh (Some o)) ops zero) in
  src_nodup o = true /\ has_cat Update (cats s) = true /\ has_cat Fix (cats s) = true /\
  has_cat Create (cats s) = true /\
  value_after update_only s = Some (src_val o).
Proof. vm_compute. repeat split; reflexivity. Qed.

(* the premise [src_nodup] is needed: [src] allows dict displays with a repeated key, and then
   [value_after] writes the first binding's value at every position of the key *)
Theorem update_value_preserving_dupkeys_refuted :
  exists F s o,
    f_create F = false /\ f_fix F = false /\ f_trim F = false /\
    s_old s = Some o /\ wshape s /\ value_after F s <> Some (src_val o).
Proof.
  exists noflags,
         (r_site (run true noflags (fresh (Some (SDict [(1, SAtom 5 true); (1, SAtom 6 true)]))) [OGet 1 (OEq 5)] zero)),
         (SDict [(1, SAtom 5 true); (1, SAtom 6 true)]).
  do 4 (split; [reflexivity|]). split.
  - apply run_wshape, wshape_fresh.
  - vm_compute. discriminate.
Qed.

(* ------------------------------------------------------------------ T11 *)

Lemma has_cat_In c l : has_cat c l = true <-> In c l.
Proof.
  unfold has_cat. rewrite existsb_exists. split.
  - intros [x [Hx Hc]]. destruct c, x; try discriminate Hc; exact Hx.
  - intros H. exists c. split; [exact H|destruct c; reflexivity].
Qed.

Lemma src_updates_only_update : forall o c, In c (src_updates o) -> c = Update.
Proof.
  induction o as [z cn|l|kvs IH] using src_nested_ind; intros c Hc; cbn [src_updates] in Hc.
  - destruct cn; [destruct Hc|]. destruct Hc as [Hc|[]]. congruence.
  - apply in_map_iff in Hc. destruct Hc as [e [He _]]. congruence.
  - induction IH as [|[k v] r Hv Hr IHr]; [destruct Hc|].
    apply in_app_or in Hc. destruct Hc as [Hc|Hc]; [apply (Hv c Hc)|apply IHr, Hc].
Qed.

Lemma In_assoc_some {X} key (v : X) l : In (key, v) l -> exists v', assoc key l = Some v'.
Proof.
  induction l as [|[k' w] l IH]; intros Hin; [destruct Hin|]. cbn [assoc].
  destruct (Z.eqb_spec key k') as [E|E]; [eauto|].
  destruct Hin as [Hin|Hin]; [inversion Hin; congruence|apply IH, Hin].
Qed.

(* somewhere below [s] a dict sub-snapshot received a (decided) child under a key its old dict lacks *)
Inductive new_key_site : site -> Prop :=
| NK_here : forall kvs nv coll ch key c,
    In (key, c) ch -> assoc key kvs = None -> decided c = true ->
    new_key_site (Site KDict (Some (SDict kvs)) nv coll ch)
| NK_deeper : forall kvs nv coll ch key c v,
    In (key, c) ch -> assoc key kvs = Some v -> new_key_site c ->
    new_key_site (Site KDict (Some (SDict kvs)) nv coll ch).

Lemma dict_cats_create ch : forall l,
  has_cat Create (dict_cats (chcats ch) l) = true ->
  exists key v c, In (key, v) l /\ assoc key ch = Some c /\ has_cat Create (cats c) = true.
Proof.
  induction l as [|[key v] r IH]; intros H; [discriminate H|].
  cbn [dict_cats] in H. fold (dict_cats (chcats ch)) in H. rewrite assoc_chcats in H.
  destruct (assoc key ch) as [c|] eqn:Hc; cbn [option_map] in H.
  - rewrite has_cat_app in H. apply orb_true_iff in H. destruct H as [H|H].
    + exists key, v, c. split; [left; reflexivity|]. split; assumption.
    + destruct (IH H) as [key' [v' [c' [H1 H2]]]]. exists key', v', c'. split; [right; exact H1|exact H2].
  - cbn in H. destruct (IH H) as [key' [v' [c' [H1 H2]]]]. exists key', v', c'. split; [right; exact H1|exact H2].
Qed.

Theorem create_only_missing : forall s,
  wshape s -> has_cat Create (cats s) = true -> s_old s = None \/ new_key_site s.
Proof.
  induction s as [k old nv coll ch IH] using site_nested_ind. intros Hw H.
  destruct old as [o|]; [right|left; reflexivity].
  destruct k, o as [z cn|l|kvs].
  18: { (* KDict over a dict *)
    rewrite cats_dict, has_cat_app in H.
    apply wshape_unfold in Hw. destruct Hw as [_ Hch]. rewrite Forall_forall in IH, Hch.
    apply orb_true_iff in H. destruct H as [H|H].
    + apply dict_cats_create in H. destruct H as [key [v [c [Hkv [Hc Hcr]]]]].
      apply assoc_In in Hc. destruct (Hch _ Hc) as [Hco Hcw]. cbn [fst snd] in *.
      destruct (In_assoc_some _ _ _ Hkv) as [v' Hv'].
      destruct (IH _ Hc Hcw Hcr) as [Hn|Hn]; cbn [snd] in Hn.
      * rewrite Hco in Hn. unfold child_old in Hn. cbn [dict_kvs] in Hn. congruence.
      * eapply NK_deeper; eassumption.
    + destruct (filter (is_new_child kvs) ch) as [|[key c] r] eqn:Hf; [discriminate H|].
      assert (Hin : In (key, c) (filter (is_new_child kvs) ch)) by (rewrite Hf; left; reflexivity).
      apply filter_In in Hin. destruct Hin as [Hin Hnew]. unfold is_new_child in Hnew. cbn [fst snd] in Hnew.
      apply andb_true_iff in Hnew. destruct Hnew as [Hk Hd].
      destruct (assoc key kvs) eqn:Hka; [discriminate Hk|].
      eapply NK_here; eassumption. }
  14: { (* KColl over a list *)
    cbn [cats] in H. rewrite has_cat_app in H. apply orb_true_iff in H. destruct H as [H|H].
    + apply has_cat_In, in_flat_map in H. destruct H as [e [_ He]].
      repeat match type of He with context [if ?b then _ else _] => destruct b end;
        cbn in He; intuition discriminate.
    + destruct (filter _ coll); cbn in H; discriminate H. }
  all: cbn [cats] in H;
    try discriminate H;
    try (apply has_cat_In, src_updates_only_update in H; discriminate H);
    try (destruct nv as [n|]; [|discriminate H];
         repeat match type of H with context [if ?b then _ else _] => destruct b end; discriminate H).
Qed.

(* the statement for one level: if no child is itself a dict sub-snapshot, the create comes from
   a new key of this very site *)
Definition depth1 (s : site) : bool :=
  forallb (fun kc => negb (kind_eqb (s_kind (snd kc)) KDict)) (s_children s).

Corollary create_only_missing_depth1 : forall s,
  wshape s -> depth1 s = true -> has_cat Create (cats s) = true ->
  s_old s = None \/
  (s_kind s = KDict /\ exists key c, In (key, c) (s_children s) /\ child_old (s_old s) key = None).
Proof.
  intros s Hw Hd H. destruct (create_only_missing s Hw H) as [Hn|Hn]; [left; exact Hn|right].
  destruct Hn as [kvs nv coll ch key c Hin Hk Hdec | kvs nv coll ch key c v Hin Hk Hc].
  - split; [reflexivity|]. exists key, c. split; [exact Hin|exact Hk].
  - exfalso. unfold depth1 in Hd. cbn [s_children] in Hd. rewrite forallb_forall in Hd.
    specialize (Hd _ Hin). cbn [snd] in Hd. destruct Hc; discriminate Hd.
Qed.

Definition create_only : flags := {| f_create := true; f_fix := false; f_trim := false; f_update := false |}.

Example create_only_missing_ex :
  let s := r_site (run true create_only (fresh (Some (SDict [(1, SAtom 5 true)]))) [OGet 1 (OEq 5); OGet 2 (OEq 7)] zero) in
  depth1 s = true /\ has_cat Create (cats s) = true /\ s_kind s = KDict /\
  child_old (s_old s) 2 = None /\ assoc 2 (s_children s) <> None.
Proof. vm_compute. repeat split; try reflexivity. discriminate. Qed.

(* for nested dicts the one-level statement fails: the new key can sit in a sub-dict *)
Theorem create_only_missing_nested_refuted :
  exists s, wshape s /\ has_cat Create (cats s) = true /\ s_old s <> None /\
            forall key c, In (key, c) (s_children s) -> child_old (s_old s) key <> None.
Proof.
  exists (r_site (run true noflags (fresh (Some (SDict [(1, SDict [(2, SAtom 5 true)])]))) [OGet 1 (OGet 3 (OEq 7))] zero)).
  split; [apply run_wshape, wshape_fresh|]. split; [vm_compute; reflexivity|]. split; [vm_compute; discriminate|].
  vm_compute. intros key c [H|[]]. inversion H; subst. discriminate.
Qed.

(* ------------------------------------------------------------------ T11, second half *)

Section PvInd.
  Variable P : pv -> Prop.
  Hypothesis Hatom : forall z, P (PAtom z).
  Hypothesis Hlist : forall l, P (PList l).
  Hypothesis Hdict : forall kvs, Forall (fun kv => P (snd kv)) kvs -> P (PDict kvs).
  Fixpoint pv_nested_ind (v : pv) : P v :=
    match v with
    | PAtom z => Hatom z
    | PList l => Hlist l
    | PDict kvs =>
        Hdict kvs ((fix go (l : list (Z * pv)) : Forall (fun kv => P (snd kv)) l :=
                      match l with
                      | [] => Forall_nil _
                      | kv :: r => Forall_cons kv (pv_nested_ind (snd kv)) (go r)
                      end) kvs)
    end.
End PvInd.

(* [w] extends [v]: same atoms and lists; a dict keeps its entries in place, each value extended,
   and may get entries under genuinely new keys appended *)
Inductive pv_ext : pv -> pv -> Prop :=
| PE_atom : forall z, pv_ext (PAtom z) (PAtom z)
| PE_list : forall l, pv_ext (PList l) (PList l)
| PE_dict : forall kvs kvs' added,
    Forall2 (fun a b => fst a = fst b /\ pv_ext (snd a) (snd b)) kvs kvs' ->
    Forall (fun e => assoc (fst e) kvs = None) added ->
    pv_ext (PDict kvs) (PDict (kvs' ++ added)).

Lemma pv_ext_refl : forall v, pv_ext v v.
Proof.
  induction v as [z|l|kvs IH] using pv_nested_ind; [constructor|constructor|].
  rewrite <- (app_nil_r kvs) at 2. constructor; [|constructor].
  induction IH as [|kv r Hkv Hr IHr]; constructor; [split; [reflexivity|exact Hkv]|exact IHr].
Qed.

Lemma pv_ext_leaf v w : pv_ext v w -> (forall kvs, v <> PDict kvs) -> w = v.
Proof. intros H Hv. destruct H; try reflexivity. exfalso. eapply Hv. reflexivity. Qed.

Lemma Forall2_assoc {X Y} (R : X -> Y -> Prop) (l : list (Z * X)) (l' : list (Z * Y)) key v :
  Forall2 (fun a b => fst a = fst b /\ R (snd a) (snd b)) l l' ->
  assoc key l = Some v -> exists v', assoc key l' = Some v' /\ R v v'.
Proof.
  induction 1 as [|[k1 v1] [k2 v2] l l' [Hk Hv] Hr IH]; cbn [assoc]; [discriminate|].
  cbn [fst snd] in Hk, Hv. subst k2. destruct (key =? k1); [|exact IH].
  intros E. inversion E; subst. eauto.
Qed.

(* every old key is still there, bound to an extension of its old value *)
Lemma pv_ext_dict_assoc kvs w key v :
  pv_ext (PDict kvs) w -> assoc key kvs = Some v ->
  exists kvs2 v', w = PDict kvs2 /\ assoc key kvs2 = Some v' /\ pv_ext v v'.
Proof.
  intros H Hk. inversion H as [| |kvs0 kvs' added Hf Ha]; subst.
  destruct (Forall2_assoc pv_ext kvs kvs' key v Hf Hk) as [v' [Hv' He]].
  exists (kvs' ++ added), v'. split; [reflexivity|]. split; [|exact He].
  rewrite assoc_app, Hv'. reflexivity.
Qed.

Lemma dict_added_new kvs : forall ch,
  Forall (fun e => assoc (fst e) (map (fun kv : Z * src => (fst kv, src_val (snd kv))) kvs) = None) (dict_added kvs ch).
Proof.
  induction ch as [|[key c] r IH]; [constructor|].
  cbn [dict_added]. fold (dict_added kvs).
  destruct (assoc key kvs) eqn:Hk; [exact IH|].
  destruct (new_value c); [|exact IH].
  constructor; [|exact IH]. cbn [fst]. rewrite assoc_map, Hk. reflexivity.
Qed.

Lemma dict_kept_ext F ch kvs :
  f_trim F = false ->
  (forall key c v, assoc key ch = Some c -> assoc key kvs = Some v ->
                   exists w, value_after F c = Some w /\ pv_ext (src_val v) w) ->
  forall l, (forall key v, In (key, v) l -> assoc key kvs = Some v) ->
  Forall2 (fun a b => fst a = fst b /\ pv_ext (snd a) (snd b))
          (map (fun kv => (fst kv, src_val (snd kv))) l) (dict_kept F (chvals F ch) l).
Proof.
  intros Htrim Hch l; induction l as [|[key v] r IH]; intros Hl; [constructor|].
  cbn [dict_kept map fst snd]. fold (dict_kept F (chvals F ch)).
  assert (IHr := IH (fun key' v' H' => Hl key' v' (or_intror H'))).
  rewrite assoc_chvals. destruct (assoc key ch) as [c|] eqn:Hc; cbn [option_map].
  - destruct (Hch key c v Hc (Hl key v (or_introl eq_refl))) as [w [Hw He]]. rewrite Hw.
    constructor; [split; [reflexivity|exact He]|exact IHr].
  - rewrite Htrim. constructor; [split; [reflexivity|apply pv_ext_refl]|exact IHr].
Qed.

Theorem create_never_alters_existing : forall F s o,
  f_fix F = false -> f_trim F = false ->
  s_old s = Some o -> wshape s -> src_nodup o = true ->
  exists w, value_after F s = Some w /\ pv_ext (src_val o) w.
Proof.
  intros F s. induction s as [k old nv coll ch IH] using site_nested_ind.
  intros o Hfix Htrim Hold Hw Hnd. cbn [s_old] in Hold. subst old.
  destruct o as [z cn|l|kvs].
  - exists (PAtom z). split; [|constructor].
    destruct k; cbn [value_after]; try reflexivity; destruct nv as [n|]; try reflexivity;
      rewrite ?Hfix, ?Htrim, ?andb_false_r;
      repeat match goal with |- context [if ?b then _ else _] => destruct b end; reflexivity.
  - exists (PList (map fst l)). split; [|constructor].
    destruct k; cbn [value_after]; try reflexivity.
    rewrite Hfix, Htrim, app_nil_r. reflexivity.
  - destruct k; try (eexists; split; [reflexivity|apply pv_ext_refl]).
    rewrite value_after_dict, src_val_dict. eexists. split; [reflexivity|].
    apply wshape_unfold in Hw. destruct Hw as [_ Hch].
    apply src_nodup_dict in Hnd. destruct Hnd as [Hnk Hnv].
    constructor.
    + apply (dict_kept_ext F ch kvs); [exact Htrim| |intros key v Hin; apply nodupb_assoc; assumption].
      intros key c v Hc Hv. apply assoc_In in Hc.
      rewrite Forall_forall in IH, Hch, Hnv.
      destruct (Hch _ Hc) as [Hco Hcw]. cbn [fst snd] in *.
      apply (IH _ Hc); cbn [fst snd]; try assumption.
      * rewrite Hco. unfold child_old. cbn [dict_kvs]. exact Hv.
      * apply (Hnv (key, v)). apply assoc_In, Hv.
    + destruct (f_create F); [apply dict_added_new|constructor].
Qed.

Definition is_dict (o : src) : bool := match o with SDict _ => true | _ => false end.

(* atoms and lists: the value is untouched (no shape premise needed) *)
Corollary create_never_alters_existing_leaf : forall F s o,
  f_fix F = false -> f_trim F = false -> s_old s = Some o -> is_dict o = false ->
  value_after F s = Some (src_val o).
Proof.
  intros F [k old nv coll ch] o Hfix Htrim Hold Hd. cbn [s_old] in Hold. subst old.
  destruct o as [z cn|l|kvs]; [| |discriminate Hd].
  - destruct k; cbn [value_after]; try reflexivity; destruct nv as [n|]; try reflexivity;
      rewrite ?Hfix, ?Htrim, ?andb_false_r;
      repeat match goal with |- context [if ?b then _ else _] => destruct b end; reflexivity.
  - destruct k; cbn [value_after]; try reflexivity.
    rewrite Hfix, Htrim, app_nil_r. reflexivity.
Qed.

(* dicts: every old key is kept, bound to an extension of its old value -- to the old value itself
   when that is an atom or a list *)
Corollary create_never_alters_existing_dict : forall F s kvs key v,
  f_fix F = false -> f_trim F = false ->
  s_old s = Some (SDict kvs) -> wshape s -> src_nodup (SDict kvs) = true ->
  assoc key kvs = Some v ->
  exists kvs2 v', value_after F s = Some (PDict kvs2) /\ assoc key kvs2 = Some v' /\
                  pv_ext (src_val v) v' /\ (is_dict v = false -> v' = src_val v).
Proof.
  intros F s kvs key v Hfix Htrim Hold Hw Hnd Hk.
  destruct (create_never_alters_existing F s (SDict kvs) Hfix Htrim Hold Hw Hnd) as [w [Hv He]].
  rewrite src_val_dict in He.
  assert (Hk' : assoc key (map (fun kv : Z * src => (fst kv, src_val (snd kv))) kvs) = Some (src_val v))
    by (rewrite assoc_map, Hk; reflexivity).
  destruct (pv_ext_dict_assoc _ _ _ _ He Hk') as [kvs2 [v' [Hw2 [Hk2 He2]]]]. subst w.
  exists kvs2, v'. repeat split; try assumption.
  intros Hd. apply pv_ext_leaf; [exact He2|]. destruct v; try discriminate Hd; cbn; discriminate.
Qed.

Example create_never_alters_existing_ex :
  let o := SDict [(1, SAtom 5 false); (2, SDict [(7, SAtom 0 true)])] in
  let s := r_site (run true create_only (fresh (Some o)) [OGet 1 (OEq 6); OGet 3 (OEq 4); OGet 2 (OGet 9 (OEq 1))] zero) in
  src_nodup o = true /\
  value_after create_only s
  = Some (PDict [(1, PAtom 5); (2, PDict [(7, PAtom 0); (9, PAtom 1)]); (3, PAtom 4)]).
Proof. vm_compute. split; reflexivity. Qed.

(* "every old key keeps its old value" read literally fails when the old value is itself a dict *)
Theorem create_never_alters_existing_literal_refuted :
  exists F s kvs key v kvs2,
    f_fix F = false /\ f_trim F = false /\ f_update F = false /\
    s_old s = Some (SDict kvs) /\ wshape s /\ src_nodup (SDict kvs) = true /\
    assoc key kvs = Some v /\ value_after F s = Some (PDict kvs2) /\ assoc key kvs2 <> Some (src_val v).
Proof.
  exists create_only,
    (r_site (run true create_only (fresh (Some (SDict [(1, SDict [(2, SAtom 5 true)])]))) [OGet 1 (OGet 3 (OEq 7))] zero)),
    [(1, SDict [(2, SAtom 5 true)])], 1, (SDict [(2, SAtom 5 true)]),
    [(1, PDict [(2, PAtom 5); (3, PAtom 7)])].
  do 4 (split; [reflexivity|]). split; [apply run_wshape, wshape_fresh|].
  do 3 (split; [vm_compute; reflexivity|]). vm_compute. discriminate.
Qed.

(* ------------------------------------------------------------------ T16 *)

Definition is_get (o : op) : bool := match o with OGet _ _ => true | _ => false end.
Definition get_key (o : op) : Z := match o with OGet k _ => k | _ => 0 end.

Lemma step_get_keys fixed F k0 old nv coll ch key o' c :
  (k0 = KUndecided \/ k0 = KDict) -> dictish old = true ->
  exists ch',
    fst (fst (step fixed F (Site k0 old nv coll ch) (OGet key o') c)) = Site KDict old nv coll ch' /\
    map fst ch' = add_new (map fst ch) key.
Proof.
  intros Hk0 Hold. rewrite step_OGet, Hold.
  replace (negb (kind_eqb k0 KUndecided) && negb (kind_eqb k0 KDict)) with false
    by (destruct Hk0; subst k0; reflexivity).
  unfold add_new. rewrite assoc_zmem.
  destruct (assoc key ch) as [child|] eqn:Hc.
  - destruct (step fixed F child o' c) as [[child' r] c2]. cbn [fst].
    eexists. split; [reflexivity|]. apply assoc_set_keys. congruence.
  - destruct (step fixed F (fresh (child_old old key)) o' _) as [[child' r] c2]. cbn [fst].
    eexists. split; [reflexivity|]. rewrite map_app. reflexivity.
Qed.

Lemma run_get_keys fixed F old nv coll :
  dictish old = true ->
  forall ops k0 ch c, (k0 = KUndecided \/ k0 = KDict) -> forallb is_get ops = true ->
  map fst (s_children (r_site (run fixed F (Site k0 old nv coll ch) ops c))) =
  fold_left add_new (map get_key ops) (map fst ch).
Proof.
  intros Hold ops; induction ops as [|o r IH]; intros k0 ch c Hk0 Hops; [reflexivity|].
  cbn [forallb] in Hops. apply andb_true_iff in Hops. destruct Hops as [Ho Hr].
  destruct o as [x|x|x|x|key o']; try discriminate Ho.
  rewrite run_cons. unfold r_site at 1. cbn [fst map get_key fold_left].
  destruct (step_get_keys fixed F k0 old nv coll ch key o' c Hk0 Hold) as [ch' [Hs Hk]].
  rewrite Hs, <- Hk. apply IH; [right; reflexivity|exact Hr].
Qed.

(* any script of [k] operations (whatever is done with the items): the children are keyed by the
   requested keys, without repetition, in first-seen order *)
Theorem dict_keys_first_seen_gen : forall fixed F old ops c,
  dictish old = true -> forallb is_get ops = true ->
  map fst (s_children (r_site (run fixed F (fresh old) ops c))) = dedup (map get_key ops).
Proof.
  intros fixed F old ops c Hold Hops. unfold fresh.
  rewrite run_get_keys by auto. apply fold_add_new_nil.
Qed.

Theorem dict_keys_first_seen : forall fixed F old (kxs : list (Z * Z)) c,
  dictish old = true ->
  map fst (s_children (r_site (run fixed F (fresh old) (map (fun kx => OGet (fst kx) (OEq (snd kx))) kxs) c)))
  = dedup (map fst kxs).
Proof.
  intros fixed F old kxs c Hold. rewrite dict_keys_first_seen_gen; [|exact Hold|].
  - rewrite map_map. reflexivity.
  - rewrite forallb_forall. intros o Ho. apply in_map_iff in Ho. destruct Ho as [kx [E _]]. subst o. reflexivity.
Qed.

Example dict_keys_first_seen_ex :
  map fst (s_children (r_site (run true noflags (fresh (Some (SDict [(1, SAtom 0 true); (4, SAtom 0 true)])))
                                   (map (fun kx => OGet (fst kx) (OEq (snd kx))) [(4, 0); (7, 1); (4, 2); (1, 0); (7, 7)]) zero)))
  = [4; 7; 1].
Proof. vm_compute. reflexivity. Qed.

Theorem dict_keys_first_seen_any_old_refuted :
  exists fixed F old kxs c,
    map fst (s_children (r_site (run fixed F (fresh old) (map (fun kx : Z * Z => OGet (fst kx) (OEq (snd kx))) kxs) c)))
    <> dedup (map fst kxs).
Proof. exists true, noflags, (Some (SAtom 1 true)), [(1, 1)], zero. vm_compute. discriminate. Qed.

(* ------------------------------------------------------------------ T2 *)

(* two operations never use one (sub-)site with different kinds *)
Fixpoint compat (o1 o2 : op) {struct o1} : bool :=
  match o1, o2 with
  | OGet k1 a, OGet k2 b => if k1 =? k2 then compat a b else true
  | _, _ => kind_eqb (op_kind o1) (op_kind o2)
  end.

Fixpoint wf_ops (ops : list op) : bool :=
  match ops with [] => true | o :: r => forallb (compat o) r && wf_ops r end.

(* operation [o] can run on site [s] without meeting a site decided for another kind *)
Fixpoint site_compat (s : site) (o : op) {struct o} : bool :=
  match s with
  | Site k _ _ _ ch =>
      (kind_eqb k KUndecided || kind_eqb k (op_kind o)) &&
      match o with
      | OGet key o' => match assoc key ch with Some c => site_compat c o' | None => true end
      | _ => true
      end
  end.

Definition child_compat (ch : list (Z * site)) (o : op) : bool :=
  match o with
  | OGet key o' => match assoc key ch with Some c => site_compat c o' | None => true end
  | _ => true
  end.

Lemma site_compat_unfold k old nv coll ch o :
  site_compat (Site k old nv coll ch) o =
  (kind_eqb k KUndecided || kind_eqb k (op_kind o)) && child_compat ch o.
Proof. destruct o; reflexivity. Qed.

Lemma site_compat_fresh old o : site_compat (fresh old) o = true.
Proof. unfold fresh. rewrite site_compat_unfold. destruct o; reflexivity. Qed.

Lemma kind_eqb_eq a b : kind_eqb a b = true <-> a = b.
Proof. destruct a, b; cbn; split; intros H; try reflexivity; try discriminate H. Qed.

Lemma kind_ok_guard k K :
  kind_eqb k KUndecided || kind_eqb k K = true -> k = KUndecided \/ k = K.
Proof. intros H. apply orb_true_iff in H. destruct H as [H|H]; apply kind_eqb_eq in H; auto. Qed.

Lemma step_noflags_result fixed : forall o s src c b,
  s_old s = Some src -> wshape s -> site_compat s o = true ->
  plain_op o (src_val src) = Some b ->
  snd (fst (step fixed noflags s o c)) = RBool b.
Proof.
  induction o as [x|x|x|x|key o' IH]; intros [k old nv coll ch] src c b Hold Hw Hsc Hp;
    cbn [s_old] in Hold; subst old; rewrite site_compat_unfold in Hsc;
    apply andb_true_iff in Hsc; destruct Hsc as [Hk Hcc]; apply kind_ok_guard in Hk.
  - destruct src as [z cn|l|kvs]; try discriminate Hp.
    pose proof (step_flat_noflags_result fixed KEq k (SAtom z cn) nv coll ch x c eq_refl Hk) as Hr.
    cbn [kop] in Hr. rewrite Hr, Hp. reflexivity.
  - destruct src as [z cn|l|kvs]; try discriminate Hp.
    pose proof (step_flat_noflags_result fixed KMin k (SAtom z cn) nv coll ch x c eq_refl Hk) as Hr.
    cbn [kop] in Hr. rewrite Hr, Hp. reflexivity.
  - destruct src as [z cn|l|kvs]; try discriminate Hp.
    pose proof (step_flat_noflags_result fixed KMax k (SAtom z cn) nv coll ch x c eq_refl Hk) as Hr.
    cbn [kop] in Hr. rewrite Hr, Hp. reflexivity.
  - destruct src as [z cn|l|kvs]; try discriminate Hp.
    pose proof (step_flat_noflags_result fixed KColl k (SList l) nv coll ch x c eq_refl Hk) as Hr.
    cbn [kop] in Hr. rewrite Hr, Hp. reflexivity.
  - destruct src as [z cn|l|kvs]; try discriminate Hp.
    rewrite src_val_dict in Hp. cbn [plain_op] in Hp. rewrite assoc_map in Hp.
    destruct (assoc key kvs) as [v|] eqn:Hv; [|discriminate Hp]. cbn [option_map] in Hp.
    rewrite step_OGet.
    replace (negb (kind_eqb k KUndecided) && negb (kind_eqb k KDict)) with false
      by (destruct Hk; subst k; reflexivity).
    cbn [dictish]. apply wshape_unfold in Hw. destruct Hw as [_ Hch].
    cbn [child_compat] in Hcc.
    destruct (assoc key ch) as [child|] eqn:Hc.
    + apply assoc_In in Hc. rewrite Forall_forall in Hch. destruct (Hch _ Hc) as [Hco Hcw]. cbn [fst snd] in *.
      assert (Hco' : s_old child = Some v) by (rewrite Hco; unfold child_old; cbn [dict_kvs]; exact Hv).
      pose proof (IH child v c b Hco' Hcw Hcc Hp) as Hr.
      destruct (step fixed noflags child o' c) as [[child' r] c2]. exact Hr.
    + unfold child_old. cbn [dict_kvs]. rewrite Hv.
      pose proof (IH (fresh (Some v)) v c b eq_refl (wshape_fresh _) (site_compat_fresh _ _) Hp) as Hr.
      destruct (step fixed noflags (fresh (Some v)) o' c) as [[child' r] c2]. exact Hr.
Qed.

Lemma compat_leaf o o2 : is_leaf o = true -> compat o o2 = kind_eqb (op_kind o) (op_kind o2).
Proof. destruct o; intros H; try discriminate H; destruct o2; reflexivity. Qed.

(* running [o] keeps the site usable for every operation compatible with [o] (any flags) *)
Lemma step_site_compat fixed F : forall o o2 s c,
  compat o o2 = true -> site_compat s o2 = true ->
  site_compat (fst (fst (step fixed F s o c))) o2 = true.
Proof.
  induction o as [x|x|x|x|key o' IH]; intros o2 [k old nv coll ch] c Hcp Hsc.
  1-4: match goal with |- context [step ?fx ?FF (Site ?k ?old ?nv ?coll ?ch) ?o ?c] =>
         destruct (step_leaf_site fx FF o k old nv coll ch c eq_refl) as [k' [nv' [coll' [Hs Hk']]]];
         rewrite (compat_leaf o o2 eq_refl) in Hcp end;
       rewrite Hs; rewrite site_compat_unfold in *;
       apply andb_true_iff in Hsc; destruct Hsc as [Hk Hcc]; rewrite Hcc, andb_true_r;
       (destruct Hk' as [Hk'|[Hk' _]]; subst k'; [exact Hk|]);
       cbn [op_kind] in *; rewrite Hcp; apply orb_true_r.
  rewrite step_OGet.
  destruct (negb (kind_eqb k KUndecided) && negb (kind_eqb k KDict)); [exact Hsc|].
  destruct (dictish old); [|exact Hsc].
  destruct o2 as [x|x|x|x|key2 o2']; try discriminate Hcp.
  cbn [compat] in Hcp. rewrite site_compat_unfold in Hsc.
  apply andb_true_iff in Hsc. destruct Hsc as [_ Hcc]. cbn [child_compat] in Hcc.
  destruct (assoc key ch) as [child|] eqn:Hc.
  - pose proof (IH o2' child c) as IHc.
    destruct (step fixed F child o' c) as [[child' r] c2]. cbn [fst snd] in *.
    rewrite site_compat_unfold. cbn [op_kind kind_eqb child_compat]. rewrite orb_true_r, andb_true_l.
    destruct (Z.eqb_spec key key2) as [E|E].
    + subst key2. rewrite assoc_set_same. rewrite Hc in Hcc. apply IHc; assumption.
    + rewrite assoc_set_other by congruence. exact Hcc.
  - match goal with |- context [step fixed F ?s0 o' ?c0] =>
      pose proof (IH o2' s0 c0) as IHc; destruct (step fixed F s0 o' c0) as [[child' r] c2] end.
    cbn [fst snd] in *.
    rewrite site_compat_unfold. cbn [op_kind kind_eqb child_compat]. rewrite orb_true_r, andb_true_l.
    rewrite assoc_app. destruct (Z.eqb_spec key key2) as [E|E].
    + subst key2. rewrite Hc. cbn [assoc]. rewrite Z.eqb_refl. apply IHc; [exact Hcp|apply site_compat_fresh].
    + destruct (assoc key2 ch) as [c2'|]; [exact Hcc|]. cbn [assoc].
      destruct (Z.eqb_spec key2 key) as [E'|_]; [congruence|reflexivity].
Qed.

Lemma run_noflags_transparent fixed src : forall ops s c,
  s_old s = Some src -> wshape s ->
  Forall (fun o => site_compat s o = true) ops ->
  wf_ops ops = true ->
  Forall (fun o => plain_op o (src_val src) <> None) ops ->
  r_results (run fixed noflags s ops c) = map (fun o => opt_result (plain_op o (src_val src))) ops.
Proof.
  induction ops as [|o r IH]; intros s c Hold Hw Hsc Hwf Hdef; [reflexivity|].
  inversion Hsc as [|o1 r1 Hsco Hscr]; subst o1 r1.
  inversion Hdef as [|o1 r1 Hdo Hdr]; subst o1 r1.
  cbn [wf_ops] in Hwf. apply andb_true_iff in Hwf. destruct Hwf as [Hcp Hwfr].
  rewrite run_cons. unfold r_results at 1. cbn [fst snd map].
  destruct (plain_op o (src_val src)) as [b|] eqn:Hp; [|congruence].
  rewrite (step_noflags_result fixed o s src c b Hold Hw Hsco Hp). cbn [opt_result]. f_equal.
  apply IH; try assumption.
  - rewrite step_old. exact Hold.
  - apply step_wshape. exact Hw.
  - rewrite forallb_forall in Hcp. rewrite Forall_forall in *. intros o2 Ho2.
    apply step_site_compat; [apply Hcp, Ho2|apply Hscr, Ho2].
Qed.

Theorem noflags_transparent : forall fixed src ops c,
  wf_ops ops = true ->
  Forall (fun o => plain_op o (src_val src) <> None) ops ->
  r_results (run fixed noflags (fresh (Some src)) ops c) =
  map (fun o => opt_result (plain_op o (src_val src))) ops.
Proof.
  intros fixed src ops c Hwf Hdef. apply run_noflags_transparent; try assumption.
  - reflexivity.
  - apply wshape_fresh.
  - rewrite Forall_forall. intros o _. apply site_compat_fresh.
Qed.

Example noflags_transparent_ex :
  let src := SDict [(1, SAtom 5 false); (2, SDict [(7, SList [(1, false); (2, true)]); (8, SAtom 0 false)])] in
  let ops := [OGet 1 (OEq 6); OGet 2 (OGet 7 (OIn 2)); OGet 1 (OEq 5); OGet 2 (OGet 8 (OMax 3)); OGet 2 (OGet 7 (OIn 9));
              OGet 2 (OGet 8 (OMax (-1)))] in
  wf_ops ops = true /\
  forallb (fun o => match plain_op o (src_val src) with Some _ => true | None => false end) ops = true /\
  r_results (run false noflags (fresh (Some src)) ops zero)
  = [RBool false; RBool true; RBool true; RBool false; RBool false; RBool true].
Proof. vm_compute. repeat split; reflexivity. Qed.

(* without the well-formedness premise a second kind on the same site raises instead *)
Theorem noflags_transparent_mixed_refuted :
  exists fixed src ops c,
    Forall (fun o => plain_op o (src_val src) <> None) ops /\
    r_results (run fixed noflags (fresh (Some src)) ops c) <>
    map (fun o => opt_result (plain_op o (src_val src))) ops.
Proof.
  exists true, (SAtom 5 true), [OEq 5; OMin 7], zero. split.
  - repeat constructor; cbn; discriminate.
  - vm_compute. discriminate.
Qed.

(* ------------------------------------------------------------------ T11 for reachable sites *)

Corollary create_only_missing_run : forall fixed F o ops c,
  let s := r_site (run fixed F (fresh (Some o)) ops c) in
  has_cat Create (cats s) = true -> new_key_site s.
Proof.
  intros fixed F o ops c s H. subst s.
  destruct (reachable_wshape fixed F (Some o) ops c) as [Hw Ho].
  destruct (create_only_missing _ Hw H) as [Hn|Hn]; [congruence|exact Hn].
Qed.

Corollary create_never_alters_existing_run : forall fixed F o ops c,
  f_fix F = false -> f_trim F = false -> src_nodup o = true ->
  exists w, value_after F (r_site (run fixed F (fresh (Some o)) ops c)) = Some w /\ pv_ext (src_val o) w.
Proof.
  intros fixed F o ops c Hf Ht Hn.
  destruct (reachable_wshape fixed F (Some o) ops c) as [Hw Ho].
  apply create_never_alters_existing; assumption.
Qed.

(* the invariant on a concrete reachable site, by computation; and a site that violates it *)
Example wshape_ex :
  wshape (r_site (run false fix_only (fresh (Some (SDict [(1, SAtom 5 false); (2, SDict [(7, SAtom 0 true)])])))
                      [OGet 1 (OEq 6); OGet 3 (OEq 4); OGet 2 (OGet 9 (OIn 1)); OGet 2 (OEq 0)] zero)).
Proof. vm_compute. repeat split; reflexivity. Qed.

Example not_wshape_ex :
  ~ wshape (Site KDict (Some (SDict [(1, SAtom 5 true)])) None [] [(1, Site KEq (Some (SAtom 6 true)) (Some 6) [] [])]).
Proof. vm_compute. intros [_ [[H _] _]]. discriminate H. Qed.
