From Coq Require Import List NArith Bool Lia.
Import ListNotations.
From V Require Import Model.StrLit.
Open Scope N_scope.

Lemma hexval_hexdigit n : n < 16 -> hexval (hexdigit n) = Some n.
Proof. intros H.
  assert (n = 0 \/ n = 1 \/ n = 2 \/ n = 3 \/ n = 4 \/ n = 5 \/ n = 6 \/ n = 7 \/ n = 8 \/ n = 9 \/
          n = 10 \/ n = 11 \/ n = 12 \/ n = 13 \/ n = 14 \/ n = 15) as E by lia.
  repeat (destruct E as [E|E]; [subst; reflexivity|]). subst; reflexivity. Qed.

Section P.
Variables (q : cp) (triple : bool).

Lemma run_hex_gen : forall d m a n r acc, n < 16 ^ (N.of_nat d) ->
  run q triple (SHex (d + S m) a) (hex_fixed d n ++ r) acc = run q triple (SHex (S m) (a * 16 ^ (N.of_nat d) + n)) r acc.
Proof. induction d as [|d IH]; intros m a n r acc Hn.
  - simpl in *. assert (n = 0) by lia. subst. f_equal. f_equal. lia.
  - cbn [hex_fixed]. rewrite <- app_assoc. cbn [app].
    replace (S d + S m)%nat with (d + S (S m))%nat by lia.
    assert (Hd : n / 16 < 16 ^ N.of_nat d).
    { apply N.div_lt_upper_bound; [lia|]. rewrite Nat2N.inj_succ, N.pow_succ_r' in Hn. lia. }
    rewrite (IH (S m) a (n / 16) _ acc Hd).
    cbn [run]. rewrite hexval_hexdigit by (apply N.mod_lt; lia).
    f_equal. f_equal. rewrite Nat2N.inj_succ, N.pow_succ_r'.
    pose proof (N.div_mod n 16 ltac:(lia)). lia.
Qed.

Lemma run_hex : forall d c r acc, c < 16 ^ (N.of_nat (S d)) -> c <= 1114111 ->
  run q triple (SHex (S d) 0) (hex_fixed (S d) c ++ r) acc = run q triple SNorm r (c :: acc).
Proof. intros d c r acc Hc Hmax. cbn [hex_fixed]. rewrite <- app_assoc. cbn [app].
  replace (S d) with (d + 1)%nat at 1 by lia.
  assert (Hd : c / 16 < 16 ^ N.of_nat d).
  { apply N.div_lt_upper_bound; [lia|]. rewrite Nat2N.inj_succ, N.pow_succ_r' in Hc. lia. }
  rewrite (run_hex_gen d 0 0 (c / 16) _ acc Hd).
  cbn [run]. rewrite hexval_hexdigit by (apply N.mod_lt; lia).
  replace ((0 * 16 ^ N.of_nat d + c / 16) * 16 + c mod 16) with c
    by (pose proof (N.div_mod c 16 ltac:(lia)); lia).
  destruct (c <=? 1114111) eqn:E; [reflexivity | apply N.leb_gt in E; lia].
Qed.
End P.

Section RT.
Variable printable : cp -> bool.

Lemma run_repr_char q c r acc : (q = 39 \/ q = 34) -> c <= 1114111 ->
  run q false SNorm (repr_char printable q c ++ r) acc = run q false SNorm r (c :: acc).
Proof. intros Hq Hc. unfold repr_char.
  destruct ((c =? q) || (c =? 92)) eqn:E1.
  { apply orb_prop in E1. cbn [app run]. rewrite N.eqb_refl.
    destruct E1 as [E|E]; apply N.eqb_eq in E; subst c.
    - destruct Hq; subst q; reflexivity.
    - reflexivity. }
  apply orb_false_elim in E1. destruct E1 as [Eq Ebs]. apply N.eqb_neq in Eq, Ebs.
  destruct (c =? 9) eqn:E2. { apply N.eqb_eq in E2; subst. reflexivity. }
  destruct (c =? 10) eqn:E3. { apply N.eqb_eq in E3; subst. reflexivity. }
  destruct (c =? 13) eqn:E4. { apply N.eqb_eq in E4; subst. reflexivity. }
  apply N.eqb_neq in E2, E3, E4.
  assert (Hraw : run q false SNorm ([c] ++ r) acc = run q false SNorm r (c :: acc)).
  { cbn [app run]. destruct (c =? 92) eqn:X; [apply N.eqb_eq in X; lia|].
    destruct (c =? q) eqn:Y; [apply N.eqb_eq in Y; lia|].
    destruct (c =? 10) eqn:Z; [apply N.eqb_eq in Z; lia|]. reflexivity. }
  assert (Hx : forall d e, c < 16 ^ N.of_nat (S d) ->
      (e = 120 /\ d = 1%nat \/ e = 117 /\ d = 3%nat \/ e = 85 /\ d = 7%nat) ->
      run q false SNorm (([92; e] ++ hex_fixed (S d) c) ++ r) acc = run q false SNorm r (c :: acc)).
  { intros d e Hd He. rewrite <- app_assoc. cbn [app]. cbn [run]. rewrite N.eqb_refl.
    destruct He as [[-> ->]|[[-> ->]|[-> ->]]]; cbn [run N.eqb Pos.eqb orb andb N.leb N.compare Pos.compare Pos.compare_cont];
      apply run_hex; auto. }
  destruct ((c <? 32) || (c =? 127)) eqn:E5.
  { apply (Hx 1%nat 120); [|auto]. apply orb_prop in E5. destruct E5 as [E|E]; [apply N.ltb_lt in E | apply N.eqb_eq in E]; simpl; lia. }
  destruct (c <? 127) eqn:E6; [exact Hraw|].
  destruct (printable c); [exact Hraw|].
  destruct (c <? 256) eqn:E7. { apply (Hx 1%nat 120); [|auto]. apply N.ltb_lt in E7. simpl; lia. }
  destruct (c <? 65536) eqn:E8. { apply (Hx 3%nat 117); [|auto]. apply N.ltb_lt in E8. simpl; lia. }
  apply (Hx 7%nat 85); [|auto]. simpl. lia.
Qed.

Lemma run_repr_chars q : (q = 39 \/ q = 34) -> forall s r acc, Forall (fun c => c <= 1114111) s ->
  run q false SNorm (concat (map (repr_char printable q) s) ++ r) acc = run q false SNorm r (rev s ++ acc).
Proof. intros Hq. induction s as [|c s IH]; intros r acc Hs; [reflexivity|].
  inversion Hs; subst. cbn [map concat]. rewrite <- app_assoc. rewrite run_repr_char by auto.
  rewrite IH by auto. cbn [rev]. rewrite <- app_assoc. reflexivity. Qed.

Lemma pick_q_cases s : pick_q s = 39 \/ pick_q s = 34.
Proof. unfold pick_q. destruct (memb 39 s && negb (memb 34 s)); auto. Qed.

Lemma repr_char_not_q q c : (q = 39 \/ q = 34) -> forall x, In x (repr_char printable q c) -> x = q -> hd 0 (repr_char printable q c) = 92.
Proof. Abort.

(* the literal alone: opening quote, body, closing quote *)
Theorem py_repr_roundtrip s : Forall (fun c => c <= 1114111) s ->
  decode_literal (py_repr printable s) = Done s [].
Proof. intros Hs. unfold py_repr. set (q := pick_q s). pose proof (pick_q_cases s) as Hq. fold q in Hq.
  cbn [app decode_literal].
  assert (Hq' : (q =? 39) || (q =? 34) = true) by (destruct Hq as [-> | ->]; reflexivity). rewrite Hq'.
  (* not triple: second char is never q followed by q ... *)
  destruct (concat (map (repr_char printable q) s) ++ [q]) as [|c2 [|c3 r']] eqn:E.
  - destruct (concat _); discriminate.
  - (* body empty, literal is qq *)
    destruct s as [|c s]. { simpl in E. inversion E; subst. cbn [run]. rewrite N.eqb_refl. reflexivity. }
    exfalso. cbn [map concat] in E. unfold repr_char in E.
    repeat match type of E with context [if ?b then _ else _] => destruct b end; cbn in E; try discriminate;
    destruct (concat _); discriminate.
  - assert (Hn : (c2 =? q) && (c3 =? q) = false).
    { destruct s as [|c s]. { simpl in E. discriminate. }
      cbn [map concat] in E. rewrite <- app_assoc in E. unfold repr_char in E at 1.
      destruct ((c =? q) || (c =? 92)) eqn:E1.
      { cbn in E. inversion E; subst. destruct Hq as [-> | ->]; reflexivity. }
      apply orb_false_elim in E1. destruct E1 as [Eq Ebs].
      repeat match type of E with context [if ?b then _ else _] => destruct b end; cbn in E; inversion E; subst;
        try (destruct Hq as [-> | ->]; reflexivity); rewrite Eq; reflexivity. }
    rewrite Hn. rewrite <- E. rewrite run_repr_chars by auto. rewrite app_nil_r.
    cbn [run]. rewrite N.eqb_refl. rewrite rev_involutive.
    destruct Hq as [Eq | Eq]; rewrite Eq; reflexivity.
Qed.
End RT.
