(* Proofs about Model/Heap.v: a recorded deep copy is immune to every later mutation the test can perform.
   No bound on heap size, nesting depth (beyond "deepcopy returned"), number of observations or mutations. *)
From Coq Require Import List ZArith Bool Arith Lia.
Import ListNotations.
From V Require Import Model.Heap.

(* ------------------------------------------------------------------------- unfolding the nested fixpoints *)
Definition read_list (rd : hval -> option pure) : list hval -> option (list pure) :=
  fix go (l : list hval) : option (list pure) :=
    match l with
    | [] => Some []
    | x :: r => match rd x, go r with
                | Some p, Some ps => Some (p :: ps)
                | _, _ => None
                end
    end.

Lemma read_S : forall f h a,
  read (S f) h (HRef a) =
  match nth_error h a with
  | None => None
  | Some cell => match read_list (read f h) cell with Some ps => Some (PList ps) | None => None end
  end.
Proof. reflexivity. Qed.
Lemma read_int : forall f h z, read f h (HInt z) = Some (PInt z).
Proof. destruct f; reflexivity. Qed.
Lemma read_0 : forall h a, read 0 h (HRef a) = None.
Proof. reflexivity. Qed.

Definition copy_list (dc : heap -> hval -> option (heap * hval)) : heap -> list hval -> option (heap * list hval) :=
  fix go (hh : heap) (l : list hval) : option (heap * list hval) :=
    match l with
    | [] => Some (hh, [])
    | x :: r =>
        match dc hh x with
        | None => None
        | Some (h1, x') =>
            match go h1 r with
            | None => None
            | Some (h2, r') => Some (h2, x' :: r')
            end
        end
    end.

Lemma deepcopy_S : forall f h a,
  deepcopy (S f) h (HRef a) =
  match nth_error h a with
  | None => None
  | Some cell => match copy_list (deepcopy f) h cell with
                 | None => None
                 | Some (h', cell') => Some (h' ++ [cell'], HRef (length h'))
                 end
  end.
Proof. reflexivity. Qed.
Lemma deepcopy_int : forall f h z, deepcopy f h (HInt z) = Some (h, HInt z).
Proof. destruct f; reflexivity. Qed.

Lemma read_list_ext : forall rd1 rd2 l,
  (forall x, In x l -> rd1 x = rd2 x) -> read_list rd1 l = read_list rd2 l.
Proof.
  intros rd1 rd2 l. induction l as [|x r IH]; intros H; cbn [read_list]; [reflexivity|].
  rewrite (H x (or_introl eq_refl)). rewrite IH; [reflexivity|]. intros y Hy. apply H. right. exact Hy.
Qed.

(* ------------------------------------------------------------------------- scoped heaps, frames *)
(* no dangling references: every reference stored in a cell points into the heap *)
Definition scoped (h : heap) : Prop := forall cell, In cell h -> forallb (val_below (length h)) cell = true.

(* two heaps agree on the cells selected by P *)
Definition agree (P : nat -> Prop) (h1 h2 : heap) : Prop := forall a, P a -> nth_error h1 a = nth_error h2 a.
(* the cells selected by P only refer to cells selected by P *)
Definition closed (P : nat -> Prop) (h : heap) : Prop :=
  forall a cell, P a -> nth_error h a = Some cell -> forall b, In (HRef b) cell -> P b.
Definition vsel (P : nat -> Prop) (v : hval) : Prop := match v with HInt _ => True | HRef a => P a end.

(* reading a value whose reachable cells all lie in an area on which two heaps agree gives the same result *)
Lemma read_frame : forall P h1 h2, agree P h1 h2 -> closed P h1 ->
  forall f v, vsel P v -> read f h1 v = read f h2 v.
Proof.
  intros P h1 h2 Hag Hcl f. induction f as [|f IH]; intros v Hv.
  - destruct v; reflexivity.
  - destruct v as [z|a]; [reflexivity|]. cbn [vsel] in Hv. rewrite !read_S. rewrite <- (Hag a Hv).
    destruct (nth_error h1 a) as [cell|] eqn:E; [|reflexivity].
    rewrite (read_list_ext (read f h1) (read f h2) cell); [reflexivity|].
    intros x Hx. apply IH. destruct x as [z|b]; [exact I|]. cbn [vsel]. exact (Hcl a cell Hv E b Hx).
Qed.

Lemma nth_error_app_l : forall (X : Type) (l e : list X) a, a < length l -> nth_error (l ++ e) a = nth_error l a.
Proof. intros. apply nth_error_app1. assumption. Qed.

Lemma scoped_closed : forall h, scoped h -> closed (fun a => a < length h) h.
Proof.
  intros h Hs a cell Ha E b Hb. apply nth_error_In in E. specialize (Hs cell E).
  rewrite forallb_forall in Hs. specialize (Hs (HRef b) Hb). cbn [val_below] in Hs. apply Nat.ltb_lt in Hs. exact Hs.
Qed.

(* appending cells does not change what a value of the old heap reads as *)
Lemma read_app : forall h e, scoped h -> forall f v, val_below (length h) v = true -> read f (h ++ e) v = read f h v.
Proof.
  intros h e Hs f v Hv. symmetry. apply (read_frame (fun a => a < length h)).
  - intros a Ha. symmetry. apply nth_error_app_l. exact Ha.
  - apply scoped_closed. exact Hs.
  - destruct v as [z|a]; [exact I|]. cbn [vsel]. cbn [val_below] in Hv. apply Nat.ltb_lt. exact Hv.
Qed.

Lemma val_below_mono : forall n m v, n <= m -> val_below n v = true -> val_below m v = true.
Proof. intros n m [z|a] Hnm H; [reflexivity|]. cbn [val_below] in *. apply Nat.ltb_lt in H. apply Nat.ltb_lt. lia. Qed.

Lemma forallb_below_mono : forall n m l, n <= m -> forallb (val_below n) l = true -> forallb (val_below m) l = true.
Proof.
  intros n m l Hnm H. rewrite forallb_forall in *. intros x Hx. apply (val_below_mono n m); [exact Hnm|]. apply H. exact Hx.
Qed.

Lemma scoped_app : forall h e, scoped h -> (forall cell, In cell e -> forallb (val_below (length h + length e)) cell = true) ->
  scoped (h ++ e).
Proof.
  intros h e Hs He cell Hin. rewrite app_length. apply in_app_or in Hin. destruct Hin as [Hin|Hin].
  - apply (forallb_below_mono (length h)); [lia|]. apply Hs. exact Hin.
  - apply He. exact Hin.
Qed.

(* ------------------------------------------------------------------------- deepcopy *)
(* the value lives in the cells [lo, hi) *)
Definition vin (lo hi : nat) (v : hval) : Prop := match v with HInt _ => True | HRef a => lo <= a < hi end.

(* specification of one deepcopy: the heap is extended, the new cells are scoped and only refer to new cells,
   the copy lives in the new cells, and original and copy read as the same plain value in the new heap *)
Definition dc_spec (f : nat) (h : heap) (v : hval) (h' : heap) (v' : hval) : Prop :=
  exists e, h' = h ++ e
    /\ (forall cell, In cell e -> Forall (vin (length h) (length h')) cell)
    /\ vin (length h) (length h') v'
    /\ exists p, read f h v = Some p /\ read f h' v' = Some p.

Lemma vin_below : forall lo hi v, vin lo hi v -> val_below hi v = true.
Proof. intros lo hi [z|a] H; [reflexivity|]. cbn [vin] in H. cbn [val_below]. apply Nat.ltb_lt. lia. Qed.
Lemma vin_mono : forall lo hi lo' hi' v, lo' <= lo -> hi <= hi' -> vin lo hi v -> vin lo' hi' v.
Proof. intros lo hi lo' hi' [z|a] H1 H2 H; [exact I|]. cbn [vin] in *. lia. Qed.

Lemma new_cells_scoped : forall h e, scoped h ->
  (forall cell, In cell e -> Forall (vin (length h) (length (h ++ e))) cell) -> scoped (h ++ e).
Proof.
  intros h e Hs He. apply scoped_app; [exact Hs|]. intros cell Hin. specialize (He cell Hin).
  rewrite app_length in He. rewrite forallb_forall. intros x Hx. rewrite Forall_forall in He.
  apply (vin_below (length h)). apply He. exact Hx.
Qed.

(* the new cells [length h, length (h++e)) are closed and only they are selected *)
Lemma new_cells_closed : forall h e,
  (forall cell, In cell e -> Forall (vin (length h) (length (h ++ e))) cell) ->
  closed (fun a => length h <= a < length (h ++ e)) (h ++ e).
Proof.
  intros h e He a cell [Ha1 Ha2] E b Hb.
  rewrite nth_error_app2 in E by exact Ha1. apply nth_error_In in E. specialize (He cell E).
  rewrite Forall_forall in He. specialize (He (HRef b) Hb). exact He.
Qed.

(* a copy keeps reading the same when more cells are appended *)
Lemma read_copy_app : forall h e e2 f v,
  (forall cell, In cell e -> Forall (vin (length h) (length (h ++ e))) cell) ->
  vin (length h) (length (h ++ e)) v -> read f ((h ++ e) ++ e2) v = read f (h ++ e) v.
Proof.
  intros h e e2 f v He Hv. symmetry. apply (read_frame (fun a => length h <= a < length (h ++ e))).
  - intros a [_ Ha]. symmetry. apply nth_error_app_l. exact Ha.
  - apply new_cells_closed. exact He.
  - destruct v; [exact I | exact Hv].
Qed.

Lemma read_list_some : forall rd l ps, read_list rd l = Some ps -> Forall2 (fun x p => rd x = Some p) l ps.
Proof.
  intros rd l. induction l as [|x r IH]; intros ps H; cbn [read_list] in H.
  - injection H as <-. constructor.
  - destruct (rd x) as [p|] eqn:E; [|discriminate]. destruct (read_list rd r) as [qs|] eqn:E2; [|discriminate].
    injection H as <-. constructor; [exact E | apply IH; reflexivity].
Qed.
Lemma read_list_of_Forall2 : forall rd l ps, Forall2 (fun x p => rd x = Some p) l ps -> read_list rd l = Some ps.
Proof.
  intros rd l ps H. induction H as [|x p l ps Hx _ IH]; cbn [read_list]; [reflexivity|]. rewrite Hx, IH. reflexivity.
Qed.

Lemma read_all_copy_app : forall f h e e2 l ps,
  (forall cell, In cell e -> Forall (vin (length h) (length (h ++ e))) cell) ->
  Forall (vin (length h) (length (h ++ e))) l ->
  Forall2 (fun x p => read f (h ++ e) x = Some p) l ps ->
  Forall2 (fun x p => read f ((h ++ e) ++ e2) x = Some p) l ps.
Proof.
  intros f h e e2 l ps He Hl H. induction H as [|x p l ps0 Hx _ IH]; [constructor|].
  inversion Hl as [|? ? Hvx Hvl]; subst. constructor; [|apply IH; exact Hvl].
  rewrite read_copy_app; [exact Hx|exact He|exact Hvx].
Qed.

Theorem deepcopy_spec : forall f h v h' v', scoped h -> val_below (length h) v = true ->
  deepcopy f h v = Some (h', v') -> dc_spec f h v h' v'.
Proof.
  induction f as [|f IH]; intros h v h' v' Hs Hv H.
  - destruct v as [z|a]; [|discriminate]. cbn in H. injection H as <- <-. exists []. rewrite app_nil_r.
    repeat split; [intros c []| exists (PInt z); split; reflexivity].
  - destruct v as [z|a].
    { rewrite deepcopy_int in H. injection H as <- <-. exists []. rewrite app_nil_r.
      repeat split; [intros c []| exists (PInt z); split; reflexivity]. }
    rewrite deepcopy_S in H. destruct (nth_error h a) as [cell|] eqn:Ea; [|discriminate].
    destruct (copy_list (deepcopy f) h cell) as [[h1 cell']|] eqn:Ec; [|discriminate]. injection H as <- <-.
    (* the loop: invariant over the heap reached so far *)
    assert (L : forall l hh, scoped hh -> (exists e0, hh = h ++ e0) ->
                forallb (val_below (length h)) l = true ->
                forall h2 l', copy_list (deepcopy f) hh l = Some (h2, l') ->
                exists e, h2 = hh ++ e
                  /\ (forall c, In c e -> Forall (vin (length hh) (length h2)) c)
                  /\ Forall (vin (length hh) (length h2)) l'
                  /\ exists ps, read_list (read f h) l = Some ps /\ read_list (read f h2) l' = Some ps).
    { induction l as [|x r IHr]; intros hh Hsh [e0 He0] Hl h2 l' Hc; cbn [copy_list] in Hc.
      - injection Hc as <- <-. exists []. rewrite app_nil_r. repeat split; [intros c []|constructor|].
        exists []. split; reflexivity.
      - cbn [forallb] in Hl. apply andb_prop in Hl. destruct Hl as [Hx Hr].
        destruct (deepcopy f hh x) as [[h1' x']|] eqn:Ex; [|discriminate].
        destruct (copy_list (deepcopy f) h1' r) as [[h2' r']|] eqn:Er; [|discriminate]. injection Hc as <- <-.
        assert (Hxb : val_below (length hh) x = true).
        { apply (val_below_mono (length h)); [subst hh; rewrite app_length; lia|exact Hx]. }
        destruct (IH hh x h1' x' Hsh Hxb Ex) as [e1 [Hh1 [Hc1 [Hv1 [p [Hp1 Hp2]]]]]].
        assert (Hs1 : scoped h1'). { subst h1'. apply new_cells_scoped; [exact Hsh|exact Hc1]. }
        assert (Hex : exists e0', h1' = h ++ e0') by (exists (e0 ++ e1); subst h1' hh; rewrite app_assoc; reflexivity).
        destruct (IHr h1' Hs1 Hex Hr h2' r' Er) as [e2 [Hh2 [Hc2 [Hv2 [ps [Hps1 Hps2]]]]]].
        exists (e1 ++ e2). split; [subst h2' h1'; rewrite app_assoc; reflexivity|].
        assert (Hlen1 : length hh <= length h1') by (subst h1'; rewrite app_length; lia).
        assert (Hlen2 : length h1' <= length h2') by (subst h2'; rewrite app_length; lia).
        split; [|split].
        + intros c Hin. apply in_app_or in Hin. destruct Hin as [Hin|Hin].
          * eapply Forall_impl; [|apply (Hc1 c Hin)]. intros y Hy. apply (vin_mono (length hh) (length h1')); [lia|lia|exact Hy].
          * eapply Forall_impl; [|apply (Hc2 c Hin)]. intros y Hy. apply (vin_mono (length h1') (length h2')); [lia|lia|exact Hy].
        + constructor.
          * apply (vin_mono (length hh) (length h1')); [lia|lia|exact Hv1].
          * eapply Forall_impl; [|exact Hv2]. intros y Hy. apply (vin_mono (length h1') (length h2')); [lia|lia|exact Hy].
        + exists (p :: ps). split.
          * cbn [read_list]. rewrite <- (read_app h e0) by assumption. rewrite <- He0. rewrite Hp1, Hps1. reflexivity.
          * cbn [read_list]. rewrite Hps2.
            assert (E : read f h2' x' = Some p).
            { rewrite Hh2. rewrite Hh1. rewrite read_copy_app; [rewrite <- Hh1; exact Hp2| rewrite <- Hh1; exact Hc1 | rewrite <- Hh1; exact Hv1]. }
            rewrite E. reflexivity. }
    assert (Hcell : forallb (val_below (length h)) cell = true) by (apply Hs; eapply nth_error_In; exact Ea).
    destruct (L cell h Hs (ex_intro _ [] (eq_sym (app_nil_r h))) Hcell h1 cell' Ec) as [e [Hh1 [Hc1 [Hv1 [ps [Hps1 Hps2]]]]]].
    exists (e ++ [cell']). rewrite app_assoc, <- Hh1. rewrite app_length. cbn [length].
    assert (Hlen : length h <= length h1) by (subst h1; rewrite app_length; lia).
    split; [reflexivity|]. split; [|split].
    + intros c Hin. apply in_app_or in Hin. destruct Hin as [Hin|[<-|[]]].
      * eapply Forall_impl; [|apply (Hc1 c Hin)]. intros y Hy. apply (vin_mono (length h) (length h1)); [lia|lia|exact Hy].
      * eapply Forall_impl; [|exact Hv1]. intros y Hy. apply (vin_mono (length h) (length h1)); [lia|lia|exact Hy].
    + cbn [vin]. lia.
    + exists (PList ps). split.
      * rewrite read_S, Ea, Hps1. reflexivity.
      * rewrite read_S. rewrite nth_error_app2 by lia. rewrite Nat.sub_diag. cbn [nth_error].
        assert (E : read_list (read f (h1 ++ [cell'])) cell' = Some ps).
        { apply read_list_of_Forall2. apply read_list_some in Hps2. rewrite Hh1.
          apply read_all_copy_app; [rewrite <- Hh1; exact Hc1|rewrite <- Hh1; exact Hv1|rewrite <- Hh1; exact Hps2]. }
        rewrite E. reflexivity.
Qed.

(* ------------------------------------------------------------------------- the recorder: observations interleaved
   with everything the test can do to the objects it holds *)
Definition rinv (s : rstate) : Prop :=
  length (r_own s) = length (r_heap s)
  /\ scoped (r_heap s)
  /\ closed (fun a => owned s a = true) (r_heap s)
  /\ Forall (vsel (fun a => owned s a = true)) (r_recs s).

(* one step keeps the owned cells as they are *)
Definition keeps (s s' : rstate) : Prop :=
  (forall a, owned s a = true -> owned s' a = true)
  /\ agree (fun a => owned s a = true) (r_heap s) (r_heap s').

Lemma length_set_nth : forall X i (x : X) l, length (set_nth i x l) = length l.
Proof. intros X i x l. revert i. induction l as [|y r IH]; intros [|i]; cbn; try reflexivity. rewrite IH. reflexivity. Qed.
Lemma nth_error_set_nth_other : forall X i j (x : X) l, i <> j -> nth_error (set_nth i x l) j = nth_error l j.
Proof.
  intros X i j x l. revert i j. induction l as [|y r IH]; intros [|i] [|j] H; cbn; try reflexivity; try congruence.
  apply IH. congruence.
Qed.
Lemma in_set_nth : forall X i (x : X) l y, In y (set_nth i x l) -> y = x \/ In y l.
Proof.
  intros X i x l. revert i. induction l as [|z r IH]; intros [|i] y H; cbn in *; try tauto.
  - destruct H as [<-|H]; tauto.
  - destruct H as [<-|H]; [tauto|]. destruct (IH i y H); tauto.
Qed.
Lemma length_upd_cell : forall h a g, length (upd_cell h a g) = length h.
Proof. intros h a g. unfold upd_cell. destruct (nth_error h a); [apply length_set_nth|reflexivity]. Qed.
Lemma length_apply_mut : forall h m, length (apply_mut h m) = length h.
Proof. intros h [a v|a|a i v|a]; apply length_upd_cell. Qed.
Lemma nth_error_upd_other : forall h a g b, a <> b -> nth_error (upd_cell h a g) b = nth_error h b.
Proof. intros h a g b H. unfold upd_cell. destruct (nth_error h a); [apply nth_error_set_nth_other; exact H|reflexivity]. Qed.
Lemma nth_error_apply_mut_other : forall h m b, mut_addr m <> b -> nth_error (apply_mut h m) b = nth_error h b.
Proof. intros h [a v|a|a i v|a] b H; cbn [mut_addr] in H; apply nth_error_upd_other; exact H. Qed.

Lemma in_removelast : forall X (l : list X) x, In x (removelast l) -> In x l.
Proof.
  intros X l. induction l as [|y r IH]; intros x H; [exact H|]. cbn [removelast] in H. destruct r as [|z r']; [destruct H|].
  destruct H as [<-|H]; [left; reflexivity|right; apply IH; exact H].
Qed.

(* the cell written by a mutation only holds what the old cell held plus the stored value *)
Lemma apply_mut_cells : forall h m cell, In cell (apply_mut h m) ->
  In cell h \/ exists old, In old h /\ forall x, In x cell -> In x old \/ mut_val m = Some x.
Proof.
  intros h m cell H.
  assert (G : forall a g, In cell (upd_cell h a g) -> In cell h \/ exists old, In old h /\ cell = g old).
  { intros a g Hin. unfold upd_cell in Hin. destruct (nth_error h a) as [c|] eqn:E; [|left; exact Hin].
    apply in_set_nth in Hin. destruct Hin as [->|Hin]; [right; exists c; split; [eapply nth_error_In; exact E|reflexivity]|left; exact Hin]. }
  destruct m as [a v|a|a i v|a]; cbn [apply_mut] in H; apply G in H; destruct H as [H|[old [Ho ->]]]; try (left; exact H); right; exists old; split; try exact Ho; cbn [mut_val].
  - intros x Hx. apply in_app_or in Hx. destruct Hx as [Hx|[<-|[]]]; [left; exact Hx|right; reflexivity].
  - intros x Hx. left. apply in_removelast. exact Hx.
  - intros x Hx. apply in_set_nth in Hx. destruct Hx as [->|Hx]; [right; reflexivity|left; exact Hx].
  - intros x [].
Qed.

Lemma owned_lt : forall s a, length (r_own s) = length (r_heap s) -> owned s a = true -> a < length (r_heap s).
Proof.
  intros s a Hl Ho. unfold owned in Ho. destruct (Nat.lt_ge_cases a (length (r_own s))) as [H|H]; [lia|].
  rewrite nth_overflow in Ho by exact H. discriminate.
Qed.

Lemma visible_below : forall s v, visible s v = true -> val_below (length (r_heap s)) v = true.
Proof. intros s [z|a] H; [reflexivity|]. cbn [visible] in H. apply andb_prop in H. destruct H as [H _]. exact H. Qed.
Lemma visible_not_owned : forall s a, visible s (HRef a) = true -> owned s a = false.
Proof. intros s a H. cbn [visible] in H. apply andb_prop in H. destruct H as [_ H]. apply negb_true_iff in H. exact H. Qed.

Lemma nth_repeat_lt : forall (X : Type) (x d : X) n a, a < n -> nth a (repeat x n) d = x.
Proof. intros X x d n a H. apply nth_error_nth. apply nth_error_repeat. exact H. Qed.

Lemma nth_app_repeat_true : forall l n a, nth a (l ++ repeat true n) false = true <-> nth a l false = true \/ length l <= a < length l + n.
Proof.
  intros l n a. destruct (Nat.lt_ge_cases a (length l)) as [H|H].
  - rewrite app_nth1 by exact H. split; [tauto|intros [H1|H1]; [exact H1|lia]].
  - rewrite app_nth2 by exact H. rewrite (nth_overflow l) by exact H. split.
    + intros Hn. right. destruct (Nat.lt_ge_cases (a - length l) n) as [H2|H2]; [lia|].
      rewrite nth_overflow in Hn by (rewrite repeat_length; exact H2). discriminate.
    + intros [H1|H1]; [discriminate|]. apply nth_repeat_lt. lia.
Qed.

Theorem rstep_inv : forall fuel s e, rinv s -> rinv (rstep fuel s e) /\ keeps s (rstep fuel s e).
Proof.
  intros fuel s e [Hlen [Hsc [Hcl Hrec]]].
  assert (Hrefl : keeps s s) by (split; [tauto|intros a _; reflexivity]).
  assert (Hinv : rinv s) by (repeat split; assumption).
  destruct e as [v|m|cell]; cbn [rstep].
  - (* observe *)
    destruct (visible s v) eqn:Hvis; [|split; assumption].
    destruct (deepcopy fuel (r_heap s) v) as [[h' v']|] eqn:Edc; [|split; assumption].
    destruct (deepcopy_spec fuel (r_heap s) v h' v' Hsc (visible_below s v Hvis) Edc) as [e [Hh' [Hce [Hv' _]]]].
    assert (Hdiff : length h' - length (r_heap s) = length e) by (subst h'; rewrite app_length; lia).
    assert (Hown' : forall a, nth a (r_own s ++ repeat true (length h' - length (r_heap s))) false = true <->
                              owned s a = true \/ length (r_heap s) <= a < length h').
    { intros a. rewrite nth_app_repeat_true. rewrite Hlen, Hdiff. subst h'. rewrite app_length. unfold owned. tauto. }
    split; [repeat split|split]; cbn [r_heap r_recs r_own]; unfold owned; cbn [r_own].
    + rewrite app_length, repeat_length, Hlen. subst h'. rewrite app_length. lia.
    + subst h'. apply new_cells_scoped; [exact Hsc|exact Hce].
    + intros a c Ha Ec b Hb. apply Hown' in Ha. apply Hown'. destruct Ha as [Ha|Ha].
      * left. subst h'. rewrite nth_error_app_l in Ec by (apply owned_lt; assumption). exact (Hcl a c Ha Ec b Hb).
      * right. subst h'. exact (new_cells_closed (r_heap s) e Hce a c Ha Ec b Hb).
    + apply Forall_app. split.
      * eapply Forall_impl; [|exact Hrec]. intros [z|a] Ha; [exact I|]. cbn [vsel] in *. apply Hown'. left. exact Ha.
      * constructor; [|constructor]. destruct v' as [z|a]; [exact I|]. cbn [vsel]. apply Hown'. right. exact Hv'.
    + intros a Ha. apply Hown'. left. exact Ha.
    + intros a Ha. subst h'. symmetry. apply nth_error_app_l. apply owned_lt; assumption.
  - (* mutate *)
    destruct (visible s (HRef (mut_addr m)) && match mut_val m with Some v => visible s v | None => true end) eqn:G; [|split; assumption].
    apply andb_prop in G. destruct G as [Ga Gv].
    assert (Hna : owned s (mut_addr m) = false) by (apply visible_not_owned; exact Ga).
    split; [repeat split|split]; cbn [r_heap r_recs r_own]; unfold owned; cbn [r_own].
    + rewrite length_apply_mut. exact Hlen.
    + intros c Hin. rewrite length_apply_mut. apply apply_mut_cells in Hin. destruct Hin as [Hin|[old [Ho Hx]]]; [apply Hsc; exact Hin|].
      rewrite forallb_forall. intros x Hin. destruct (Hx x Hin) as [H1|H1].
      * specialize (Hsc old Ho). rewrite forallb_forall in Hsc. apply Hsc. exact H1.
      * rewrite H1 in Gv. apply visible_below. exact Gv.
    + intros a c Ha Ec b Hb. rewrite nth_error_apply_mut_other in Ec by (intros E; subst a; unfold owned in Hna; congruence).
      exact (Hcl a c Ha Ec b Hb).
    + exact Hrec.
    + tauto.
    + intros a Ha. symmetry. apply nth_error_apply_mut_other. intros E. subst a. unfold owned in Hna. congruence.
  - (* alloc *)
    destruct (forallb (visible s) cell) eqn:G; [|split; assumption].
    assert (Hown' : forall a, nth a (r_own s ++ [false]) false = true <-> owned s a = true).
    { intros a. unfold owned. destruct (Nat.lt_ge_cases a (length (r_own s))) as [H|H].
      - rewrite app_nth1 by exact H. tauto.
      - rewrite app_nth2 by exact H. rewrite (nth_overflow (r_own s)) by exact H.
        destruct (a - length (r_own s)) as [|[|k]]; cbn; split; discriminate. }
    split; [repeat split|split]; cbn [r_heap r_recs r_own]; unfold owned; cbn [r_own].
    + rewrite !app_length. cbn. lia.
    + apply scoped_app; [exact Hsc|]. intros c [<-|[]]. cbn [length]. rewrite forallb_forall in *. intros x Hx.
      apply (val_below_mono (length (r_heap s))); [lia|]. apply visible_below. apply G. exact Hx.
    + intros a c Ha Ec b Hb. apply Hown' in Ha. apply Hown'.
      rewrite nth_error_app_l in Ec by (apply owned_lt; assumption). exact (Hcl a c Ha Ec b Hb).
    + eapply Forall_impl; [|exact Hrec]. intros [z|a] Ha; [exact I|]. cbn [vsel] in *. apply Hown'. exact Ha.
    + intros a Ha. apply Hown'. exact Ha.
    + intros a Ha. symmetry. apply nth_error_app_l. apply owned_lt; assumption.
Qed.


Lemma rstep_recs_prefix : forall fuel s e, exists t, r_recs (rstep fuel s e) = r_recs s ++ t.
Proof.
  intros fuel s [v|m|cell]; cbn [rstep].
  - destruct (visible s v); [|exists []; rewrite app_nil_r; reflexivity].
    destruct (deepcopy fuel (r_heap s) v) as [[h' v']|]; [exists [v']; reflexivity|exists []; rewrite app_nil_r; reflexivity].
  - destruct (_ && _); exists []; rewrite app_nil_r; reflexivity.
  - destruct (forallb _ _); exists []; rewrite app_nil_r; reflexivity.
Qed.

(* every recorded value keeps reading as the same plain value, whatever happens afterwards *)
Theorem recorded_values_stable : forall fuel evs s, rinv s ->
  rinv (rrun fuel evs s) /\
  forall i r, nth_error (r_recs s) i = Some r ->
    nth_error (r_recs (rrun fuel evs s)) i = Some r /\
    forall f, read f (r_heap (rrun fuel evs s)) r = read f (r_heap s) r.
Proof.
  intros fuel evs. induction evs as [|e evs IH]; intros s Hinv; cbn [rrun fold_left].
  - split; [exact Hinv|]. intros i r Hi. split; [exact Hi|reflexivity].
  - destruct (rstep_inv fuel s e Hinv) as [Hinv' [Hk1 Hk2]].
    destruct (IH (rstep fuel s e) Hinv') as [Hfin Hrest]. split; [exact Hfin|].
    intros i r Hi. destruct (rstep_recs_prefix fuel s e) as [t Ht].
    assert (Hi' : nth_error (r_recs (rstep fuel s e)) i = Some r).
    { rewrite Ht. rewrite nth_error_app1; [exact Hi|]. apply nth_error_Some. congruence. }
    destruct (Hrest i r Hi') as [H1 H2]. split; [exact H1|]. intros f. unfold rrun in H2. rewrite H2.
    destruct Hinv as [_ [_ [Hcl Hrec]]]. symmetry.
    apply (read_frame (fun a => owned s a = true)); [exact Hk2|exact Hcl|].
    rewrite Forall_forall in Hrec. apply Hrec. eapply nth_error_In. exact Hi.
Qed.

(* C17: what is recorded at a comparison is the plain value the compared object had AT THAT TIME, and it still reads
   as that value after any later sequence of observations, mutations and allocations *)
Theorem recorded_value_is_value_at_comparison : forall fuel s v h' v' later,
  rinv s -> visible s v = true -> deepcopy fuel (r_heap s) v = Some (h', v') ->
  exists p, read fuel (r_heap s) v = Some p /\
    let s' := rrun fuel (EObserve v :: later) s in
    nth_error (r_recs s') (length (r_recs s)) = Some v' /\ read fuel (r_heap s') v' = Some p.
Proof.
  intros fuel s v h' v' later Hinv Hvis Hdc.
  destruct Hinv as [Hlen [Hsc [Hcl Hrec]]].
  destruct (deepcopy_spec fuel (r_heap s) v h' v' Hsc (visible_below s v Hvis) Hdc) as [e [Hh' [Hce [Hv' [p [Hp1 Hp2]]]]]].
  exists p. split; [exact Hp1|]. cbn zeta. cbn [rrun fold_left].
  assert (Hinv : rinv s) by (repeat split; assumption).
  destruct (rstep_inv fuel s (EObserve v) Hinv) as [Hinv1 _].
  assert (E1 : rstep fuel s (EObserve v) = {| r_heap := h'; r_recs := r_recs s ++ [v'];
                 r_own := r_own s ++ repeat true (length h' - length (r_heap s)) |}).
  { cbn [rstep]. rewrite Hvis, Hdc. reflexivity. }
  destruct (recorded_values_stable fuel later _ Hinv1) as [_ Hst].
  destruct (Hst (length (r_recs s)) v') as [H1 H2].
  { rewrite E1. cbn [r_recs]. rewrite nth_error_app2 by lia. rewrite Nat.sub_diag. reflexivity. }
  split; [exact H1|]. unfold rrun in H2. rewrite H2. rewrite E1. cbn [r_heap]. exact Hp2.
Qed.

(* the initial state: only objects of the test, nothing recorded *)
Lemma rinit_inv : forall h, scoped h -> rinv (rinit h).
Proof.
  intros h Hs. unfold rinit. repeat split; cbn [r_heap r_recs r_own].
  - apply repeat_length.
  - exact Hs.
  - intros a c Ha. unfold owned in Ha. cbn [r_own] in Ha. exfalso.
    destruct (Nat.lt_ge_cases a (length h)) as [H|H].
    + rewrite nth_repeat_lt in Ha by exact H. discriminate.
    + rewrite nth_overflow in Ha by (rewrite repeat_length; exact H). discriminate.
  - constructor.
Qed.

(* the original object does change - so the theorem is not vacuous: a concrete run in which the recorded copy and the
   original differ afterwards *)
Example mutation_visible_in_original_only :
  let h := [[HInt 1; HInt 2]; [HRef 0; HInt 3]] in
  let s := rrun 5 [EObserve (HRef 1); EMutate (MAppend 0 (HInt 9)); EMutate (MSet 1 1 (HInt 7))] (rinit h) in
  read 5 (r_heap s) (HRef 1) = Some (PList [PList [PInt 1; PInt 2; PInt 9]; PInt 7]) /\
  map (read 5 (r_heap s)) (r_recs s) = [Some (PList [PList [PInt 1; PInt 2]; PInt 3])].
Proof. vm_compute. split; reflexivity. Qed.

(* ------------------------------------------------------------------------- clone = deepcopy + equality check *)
Section CloneP.
Variable X : Type.
Variable cp : X -> X.
Variable eqb : X -> X -> bool.

Theorem bad_copy_rejected : forall S upd s v, eqb (cp v) v = false -> record X cp eqb S upd s v = (s, false).
Proof. intros S upd s v H. unfold record, clone. rewrite H. reflexivity. Qed.
Theorem recorded_copy_equal : forall S upd s v s', record X cp eqb S upd s v = (s', true) -> exists c, c = cp v /\ eqb c v = true /\ s' = upd s c.
Proof.
  intros S upd s v s' H. unfold record, clone in H. destruct (eqb (cp v) v) eqn:E; [|inversion H].
  injection H as <-. exists (cp v). repeat split. exact E.
Qed.
End CloneP.
