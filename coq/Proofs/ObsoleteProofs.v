(* Proofs about Model/Obsolete.v: after the filter no remaining change lies inside (or on) a node that another remaining
   change deletes or replaces - for any list of changes and any tree shape. *)
From Coq Require Import List Bool Arith Lia.
Import ListNotations.
From V Require Import Model.Obsolete.

Lemma removed_from_in : forall l k j m, In (j, m) (removed_from k l) <->
  exists d, k <= j /\ nth_error l (j - k) = Some d /\ c_removes d = true /\ c_node d = Some m.
Proof.
  induction l as [|c r IH]; intros k j m; cbn [removed_from].
  - split; [intros []|]. intros [d [_ [H _]]]. destruct (j - k); discriminate.
  - assert (Hrest : In (j, m) (removed_from (S k) r) <->
                    exists d, S k <= j /\ nth_error (c :: r) (j - k) = Some d /\ c_removes d = true /\ c_node d = Some m).
    { rewrite IH. split; intros [d [H1 [H2 H3]]]; exists d; (split; [exact H1|split; [|exact H3]]).
      - replace (j - k) with (S (j - S k)) by lia. exact H2.
      - replace (j - k) with (S (j - S k)) in H2 by lia. exact H2. }
    destruct (c_removes c) eqn:Er; [destruct (c_node c) as [n|] eqn:En|].
    + cbn [In]. rewrite Hrest. split.
      * intros [H|[d [H1 H2]]]; [injection H as <- <-; exists c; rewrite Nat.sub_diag; repeat split; [lia|exact Er|exact En]|exists d; split; [lia|exact H2]].
      * intros [d [H1 [H2 [H3 H4]]]]. destruct (Nat.eq_dec j k) as [->|Hne].
        -- rewrite Nat.sub_diag in H2. cbn in H2. injection H2 as <-. left. congruence.
        -- right. exists d. split; [lia|]. repeat split; assumption.
    + rewrite Hrest. split; [intros [d [H1 H2]]; exists d; split; [lia|exact H2]|].
      intros [d [H1 [H2 [H3 H4]]]]. destruct (Nat.eq_dec j k) as [->|Hne].
      * rewrite Nat.sub_diag in H2. cbn in H2. injection H2 as <-. congruence.
      * exists d. split; [lia|]. repeat split; assumption.
    + rewrite Hrest. split; [intros [d [H1 H2]]; exists d; split; [lia|exact H2]|].
      intros [d [H1 [H2 [H3 H4]]]]. destruct (Nat.eq_dec j k) as [->|Hne].
      * rewrite Nat.sub_diag in H2. cbn in H2. injection H2 as <-. congruence.
      * exists d. split; [lia|]. repeat split; assumption.
Qed.

Lemma filter_from_in : forall rem l k j d, In (j, d) (filter_from rem k l) ->
  k <= j /\ nth_error l (j - k) = Some d /\ is_obsolete rem j d = false.
Proof.
  intros rem. induction l as [|c r IH]; intros k j d H; cbn [filter_from] in H; [destruct H|].
  destruct (is_obsolete rem k c) eqn:E.
  - destruct (IH (S k) j d H) as [H1 [H2 H3]]. split; [lia|]. split; [|exact H3].
    replace (j - k) with (S (j - S k)) by lia. exact H2.
  - destruct H as [H|H].
    + injection H as <- <-. rewrite Nat.sub_diag. repeat split; [lia|exact E].
    + destruct (IH (S k) j d H) as [H1 [H2 H3]]. split; [lia|]. split; [|exact H3].
      replace (j - k) with (S (j - S k)) by lia. exact H2.
Qed.

(* C18: two different changes that both survive the filter: if one of them deletes or replaces the node m, the other one
   is neither a change of m nor of anything inside m.  (Node ranges of a syntax tree are nested exactly along the ancestor
   relation, so the text edits of the survivors cannot overlap a removed node.) *)
Theorem no_change_inside_removed_node : forall l i c j d m,
  In (i, c) (without_obsolete l) -> In (j, d) (without_obsolete l) -> i <> j ->
  c_removes d = true -> c_node d = Some m -> ~ In m (c_chain c).
Proof.
  intros l i c j d m Hc Hd Hij Hr Hn Hin. unfold without_obsolete in *.
  destruct (filter_from_in _ _ _ _ _ Hc) as [_ [_ Hoc]].
  destruct (filter_from_in _ _ _ _ _ Hd) as [Hj [Hnth _]].
  assert (Hrem : In (j, m) (removed_nodes l)).
  { unfold removed_nodes. apply removed_from_in. exists d. repeat split; assumption. }
  unfold is_obsolete in Hoc. rewrite <- not_true_iff_false in Hoc. apply Hoc.
  apply existsb_exists. exists m. split; [exact Hin|]. apply existsb_exists. exists (j, m). split; [exact Hrem|].
  cbn [fst snd]. rewrite Nat.eqb_refl. cbn [andb]. apply negb_true_iff. apply Nat.eqb_neq. lia.
Qed.

(* what is dropped is dropped for a reason: a dropped change lies inside (or on) a node that another change removes *)
Theorem dropped_only_inside_removed_node : forall l i c, nth_error l i = Some c -> ~ In (i, c) (without_obsolete l) ->
  exists j d m, j <> i /\ nth_error l j = Some d /\ c_removes d = true /\ c_node d = Some m /\ In m (c_chain c).
Proof.
  intros l i c Hnth Hnot. unfold without_obsolete in Hnot.
  assert (G : forall rem l k, nth_error l (i - k) = Some c -> k <= i -> ~ In (i, c) (filter_from rem k l) -> is_obsolete rem i c = true).
  { intros rem l0. induction l0 as [|x r IH]; intros k Hn Hk Hni; [destruct (i - k); discriminate|].
    cbn [filter_from] in Hni. destruct (Nat.eq_dec i k) as [->|Hne].
    - rewrite Nat.sub_diag in Hn. cbn in Hn. injection Hn as ->. destruct (is_obsolete rem k c) eqn:E; [reflexivity|]. exfalso. apply Hni. left. reflexivity.
    - apply (IH (S k)); [replace (i - k) with (S (i - S k)) in Hn by lia; exact Hn|lia|].
      destruct (is_obsolete rem k x); [exact Hni|]. intros H. apply Hni. right. exact H. }
  specialize (G (removed_nodes l) l 0). rewrite Nat.sub_0_r in G. specialize (G Hnth (Nat.le_0_l i) Hnot).
  unfold is_obsolete in G. apply existsb_exists in G. destruct G as [m [Hm G]]. apply existsb_exists in G. destruct G as [[j m'] [Hr G]].
  cbn [fst snd] in G. apply andb_prop in G. destruct G as [G1 G2]. apply Nat.eqb_eq in G1. subst m'. apply negb_true_iff in G2. apply Nat.eqb_neq in G2.
  unfold removed_nodes in Hr. apply removed_from_in in Hr. destruct Hr as [d [_ [Hd [Hrm Hnd]]]]. rewrite Nat.sub_0_r in Hd.
  exists j, d, m. repeat split; assumption.
Qed.

(* non-vacuity: an inner snapshot (node 7 inside element 3 of list 1) whose holder 3 is deleted: its fix is dropped, the
   deletion and an unrelated insert survive; and two changes of the SAME node drop each other *)
Example obsolete_example :
  without_obsolete [ {| c_removes := true; c_chain := [7; 3; 1] |}; {| c_removes := true; c_chain := [3; 1] |}; {| c_removes := false; c_chain := [1] |} ]
  = [ (1, {| c_removes := true; c_chain := [3; 1] |}); (2, {| c_removes := false; c_chain := [1] |}) ]
  /\ without_obsolete [ {| c_removes := true; c_chain := [4; 1] |}; {| c_removes := true; c_chain := [4; 1] |} ] = [].
Proof. split; reflexivity. Qed.
