(* Proofs about Model/SnapOps.v, part 3: re-running a site after the approved changes were applied.
   W1 second run is a no-op, W2 same flags twice are stable, W3 categories applied over successive
   runs compose (confluence), W4 a created value satisfies the script, W5 and passes with no flags.
   Stdlib only, no axioms. *)
From Coq Require Import List ZArith Bool Lia.
From V Require Import Model.SnapOps Proofs.SnapOpsFlat Proofs.SnapOpsNested.
Import ListNotations.
Open Scope Z_scope.

(* ------------------------------------------------------------------ sources written by the tool *)

Definition allF : flags := {| f_create := true; f_fix := true; f_trim := true; f_update := true |}.
Definition trim_only : flags := {| f_create := false; f_fix := false; f_trim := true; f_update := false |}.
Definition funion (F1 F2 : flags) : flags :=
  {| f_create := f_create F1 || f_create F2; f_fix := f_fix F1 || f_fix F2;
     f_trim := f_trim F1 || f_trim F2; f_update := f_update F1 || f_update F2 |}.

Lemma funion_diag F : funion F F = F.
Proof. destruct F; unfold funion; cbn. rewrite !orb_diag. reflexivity. Qed.

(* the source inline-snapshot generates for a value: every leaf canonical *)
Fixpoint canon_src (v : pv) : src :=
  match v with
  | PAtom z => SAtom z true
  | PList l => SList (map (fun z => (z, true)) l)
  | PDict kvs =>
      SDict ((fix go (l : list (Z * pv)) : list (Z * src) :=
                match l with [] => [] | (k, w) :: r => (k, canon_src w) :: go r end) kvs)
  end.

Lemma canon_src_dict kvs :
  canon_src (PDict kvs) = SDict (map (fun kv => (fst kv, canon_src (snd kv))) kvs).
Proof.
  cbn [canon_src]. f_equal. induction kvs as [|[k v] r IH]; [reflexivity|].
  cbn [map fst snd]. f_equal. exact IH.
Qed.

Lemma map_fst_canon l : map fst (map (fun z : Z => (z, true)) l) = l.
Proof. rewrite map_map. cbn [fst]. apply map_id. Qed.

Theorem src_val_canon : forall v, src_val (canon_src v) = v.
Proof.
  induction v as [z|l|kvs IH] using pv_nested_ind.
  - reflexivity.
  - cbn [canon_src src_val]. rewrite map_fst_canon. reflexivity.
  - rewrite canon_src_dict, src_val_dict, map_map. cbn [fst snd]. f_equal.
    induction IH as [|[k v] r Hv Hr IHr]; [reflexivity|]. cbn [map fst snd] in *. rewrite Hv, IHr. reflexivity.
Qed.

Theorem canon_src_no_updates : forall v, src_updates (canon_src v) = [].
Proof.
  induction v as [z|l|kvs IH] using pv_nested_ind.
  - reflexivity.
  - cbn [canon_src src_updates]. induction l as [|a l IHl]; [reflexivity|exact IHl].
  - rewrite canon_src_dict. cbn [src_updates].
    induction IH as [|[k v] r Hv Hr IHr]; [reflexivity|]. cbn [map fst snd] in *. rewrite Hv. exact IHr.
Qed.

(* a recorded list entry after the run: tested entries lose a pending update when it is approved *)
Definition upd_entry (u : bool) (coll : list Z) (e : Z * bool) : Z * bool :=
  if zmem (fst e) coll then (fst e, snd e || u) else e.

(* the source between the parentheses after the approved categories have been applied: leaves that
   are rewritten (a reported category is approved) become canonical, the others keep their flag *)
Fixpoint src_after (F : flags) (s : site) : option src :=
  match s with
  | Site k old nv coll ch =>
    match old with
    | None => option_map canon_src (value_after F s)
    | Some o =>
      match k, o with
      | KUndecided, _ => Some (if f_update F then canon_src (src_val o) else o)
      | KEq, SAtom z cn =>
          match nv with
          | Some n => if negb (z =? n) then Some (if f_fix F then SAtom n true else o)
                      else Some (SAtom z (cn || f_update F))
          | None => Some o
          end
      | (KMin | KMax), SAtom z cn =>
          match nv with
          | Some n => if negb (cmp_of k z n) then Some (if f_fix F then SAtom n true else o)
                      else if negb (cmp_of k n z) then Some (if f_trim F then SAtom n true else o)
                      else Some (SAtom z (cn || f_update F))
          | None => Some o
          end
      | KColl, SList l =>
          let kept := map (upd_entry (f_update F) coll)
                          (if f_trim F then filter (fun e => zmem (fst e) coll) l else l) in
          let added := if f_fix F
                       then map (fun v => (v, true)) (filter (fun v => negb (zmem v (map fst l))) coll)
                       else [] in
          Some (SList (kept ++ added))
      | KDict, SDict kvs =>
          let chsrc := (fix gc (l : list (Z * site)) : list (Z * option src) :=
                          match l with [] => [] | (key, child) :: r => (key, src_after F child) :: gc r end) ch in
          let kept :=
            (fix go (l : list (Z * src)) : list (Z * src) :=
               match l with
               | [] => []
               | (key, v) :: r =>
                   match assoc key chsrc with
                   | Some (Some w) => (key, w) :: go r
                   | Some None => (key, v) :: go r
                   | None => if f_trim F then go r else (key, v) :: go r
                   end
               end) kvs in
          let added :=
            if f_create F then
              (fix go (l : list (Z * site)) : list (Z * src) :=
                 match l with
                 | [] => []
                 | (key, child) :: r =>
                     match assoc key kvs, new_value child with
                     | None, Some w => (key, canon_src w) :: go r
                     | _, _ => go r
                     end
                 end) ch
            else [] in
          Some (SDict (kept ++ added))
      | _, _ => Some o
      end
    end
  end.

(* ------------------------------------------------------------------ the site reached by a flat script *)

Definition old_ok (K : kind) (old : option src) : bool :=
  flat_kind K && match old with None => true | Some o => old_matches K o end.

Definition flat_site (K : kind) (old : option src) (x : Z) (r : list Z) : site :=
  match K with
  | KEq => Site KEq old (Some x) [] []
  | KMin | KMax => Site K old (Some (list_ext K x r)) [] []
  | _ => Site KColl old None (dedup (x :: r)) []
  end.

Lemma step_eq_site fixed F k0 old nv coll ch x c :
  (k0 = KUndecided \/ k0 = KEq) -> atomish old = true ->
  fst (fst (step fixed F (Site k0 old nv coll ch) (OEq x) c)) =
  Site KEq old (Some (match nv with None => x | Some n => n end)) coll ch.
Proof.
  intros Hk0 Hold. destruct Hk0 as [Hk0|Hk0]; subst k0;
    (destruct old as [[z cn|l|kvs]|]; try discriminate Hold);
    destruct nv as [n|]; cbn; unfold ret; reflexivity.
Qed.

Lemma run_eq_site fixed F old coll ch :
  atomish old = true ->
  forall xs n c, r_site (run fixed F (Site KEq old (Some n) coll ch) (map OEq xs) c) = Site KEq old (Some n) coll ch.
Proof.
  intros Hold xs; induction xs as [|x r IH]; intros n c; [reflexivity|].
  cbn [map]. rewrite run_cons. unfold r_site at 1. cbn [fst].
  rewrite step_eq_site by auto. apply IH.
Qed.

Lemma old_ok_inv K old :
  old_ok K old = true ->
  (K = KEq /\ atomish old = true) \/ (is_bound K = true /\ atomish old = true) \/ (K = KColl /\ collish old = true).
Proof.
  unfold old_ok. intros H. apply andb_true_iff in H. destruct H as [HK Ho].
  destruct K; try discriminate HK; destruct old as [[z cn|l|kvs]|]; try discriminate Ho; auto.
Qed.

Theorem run_flat_site : forall fixed F K old x r c,
  old_ok K old = true ->
  r_site (run fixed F (fresh old) (map (kop K) (x :: r)) c) = flat_site K old x r.
Proof.
  intros fixed F K old x r c Hok.
  destruct (old_ok_inv K old Hok) as [[HK Ho]|[[HK Ho]|[HK Ho]]].
  - subst K. cbn [map kop flat_site]. rewrite run_cons. unfold r_site at 1. cbn [fst]. unfold fresh.
    rewrite step_eq_site by auto. apply (run_eq_site fixed F old [] [] Ho r x).
  - rewrite run_bound_site_fresh by assumption. destruct K; try discriminate HK; reflexivity.
  - subst K. apply (coll_new_is_dedup fixed F old (x :: r) c Ho). discriminate.
Qed.

(* ------------------------------------------------------------------ scripts that hold against the old value *)

(* turn boolean integer comparisons in the context into propositions *)
Ltac z_props :=
  repeat match goal with
  | H : (_ <=? _) = true |- _ => apply Z.leb_le in H
  | H : (_ <=? _) = false |- _ => apply Z.leb_gt in H
  | H : (_ =? _) = true |- _ => apply Z.eqb_eq in H
  | H : (_ =? _) = false |- _ => apply Z.eqb_neq in H
  end.

(* for ==, the recorded value (if any) is the old value *)
Definition nv_ok (K : kind) (o : src) (nv : option Z) : bool :=
  match K, o, nv with
  | KEq, SAtom z _, Some n => n =? z
  | _, _, _ => true
  end.

Lemma step_flat_good_result fixed F K k0 o nv coll ch x c :
  old_matches K o = true -> (k0 = KUndecided \/ k0 = K) ->
  holds K o x = true -> nv_ok K o nv = true ->
  snd (fst (step fixed F (Site k0 (Some o) nv coll ch) (kop K x) c)) = RBool true.
Proof.
  intros Hm Hk0 Hh Hnv.
  destruct K, o as [z cn|l|kvs]; try discriminate Hm; destruct Hk0 as [Hk0|Hk0]; subst k0;
    destruct nv as [n|]; destruct fixed; cbn; unfold ret, holds in *; cbn in Hh, Hnv |- *;
    unfold ignore_old, ignore_old_value, cmp_of, ext.
  all: repeat match goal with |- context [if ?b then _ else _] => destruct b eqn:? end;
       try reflexivity; try congruence; try (exfalso; z_props; lia);
       f_equal; first [apply Z.eqb_eq | apply Z.leb_le]; z_props; lia.
Qed.

Lemma step_flat_good_site fixed F K k0 o nv coll ch x c :
  old_matches K o = true -> (k0 = KUndecided \/ k0 = K) ->
  holds K o x = true -> nv_ok K o nv = true ->
  exists nv' coll',
    fst (fst (step fixed F (Site k0 (Some o) nv coll ch) (kop K x) c)) = Site K (Some o) nv' coll' ch /\
    nv_ok K o nv' = true.
Proof.
  intros Hm Hk0 Hh Hnv.
  destruct (step_flat_site fixed F K k0 o nv coll ch x c Hm Hk0) as [nv' [coll' Hs]].
  destruct K; try discriminate Hm.
  2-4: exists nv', coll'; split; [exact Hs|destruct o; reflexivity].
  destruct o as [z cn|l|kvs]; try discriminate Hm.
  cbn [kop]. rewrite step_eq_site by auto. do 2 eexists. split; [reflexivity|].
  cbn [nv_ok]. destruct nv as [n|]; [exact Hnv|]. unfold holds in Hh. cbn in Hh. exact Hh.
Qed.

(* any flags, both trees: a script whose comparisons all hold against the old value passes and
   leaves the counters alone *)
Lemma run_flat_good_gen fixed F K o ch :
  old_matches K o = true ->
  forall xs k0 nv coll c, (k0 = KUndecided \/ k0 = K) -> nv_ok K o nv = true ->
  Forall (fun x => holds K o x = true) xs ->
  r_results (run fixed F (Site k0 (Some o) nv coll ch) (map (kop K) xs) c) = map (fun _ => RBool true) xs /\
  r_counters (run fixed F (Site k0 (Some o) nv coll ch) (map (kop K) xs) c) = c.
Proof.
  intros Hm xs; induction xs as [|x r IH]; intros k0 nv coll c Hk0 Hnv Hall; [split; reflexivity|].
  inversion Hall as [|x' r' Hx Hr]; subst x' r'.
  cbn [map]. rewrite run_cons. unfold r_results at 1, r_counters at 1. cbn [fst snd].
  rewrite step_flat_good_result by assumption.
  rewrite step_flat_counters by assumption. rewrite Hx.
  destruct (step_flat_good_site fixed F K k0 o nv coll ch x c Hm Hk0 Hx Hnv) as [nv' [coll' [Hs Hnv']]].
  rewrite Hs. destruct (IH (K) nv' coll' c (or_intror eq_refl) Hnv' Hr) as [IH1 IH2].
  rewrite IH1, IH2. split; reflexivity.
Qed.

Theorem good_script_passes : forall fixed F K o xs c,
  old_matches K o = true -> Forall (fun x => holds K o x = true) xs ->
  r_results (run fixed F (fresh (Some o)) (map (kop K) xs) c) = map (fun _ => RBool true) xs /\
  r_counters (run fixed F (fresh (Some o)) (map (kop K) xs) c) = c.
Proof.
  intros fixed F K o xs c Hm Hall. apply run_flat_good_gen; auto. destruct K, o; reflexivity.
Qed.

(* ------------------------------------------------------------------ list lemmas *)

Lemma zmem_filter (p : Z -> bool) y l : zmem y (filter p l) = zmem y l && p y.
Proof.
  induction l as [|a l IH]; [reflexivity|]. cbn [filter zmem].
  destruct (p a) eqn:Hpa; cbn [zmem]; rewrite IH; destruct (Z.eqb_spec y a) as [E|E]; cbn [orb]; try reflexivity.
  - subst a. rewrite Hpa. reflexivity.
  - subst a. rewrite Hpa, andb_false_r. reflexivity.
Qed.

Lemma filter_nil {A} (p : A -> bool) l : (forall a, In a l -> p a = false) -> filter p l = [].
Proof.
  induction l as [|a l IH]; intros H; [reflexivity|]. cbn [filter].
  rewrite (H a) by (left; reflexivity). apply IH. intros b Hb. apply H. right; exact Hb.
Qed.

Lemma filter_all {A} (p : A -> bool) l : (forall a, In a l -> p a = true) -> filter p l = l.
Proof.
  induction l as [|a l IH]; intros H; [reflexivity|]. cbn [filter].
  rewrite (H a) by (left; reflexivity). f_equal. apply IH. intros b Hb. apply H. right; exact Hb.
Qed.

Lemma flat_map_nil {A B} (f : A -> list B) l : (forall a, In a l -> f a = []) -> flat_map f l = [].
Proof.
  induction l as [|a l IH]; intros H; [reflexivity|]. cbn [flat_map].
  rewrite (H a) by (left; reflexivity). apply IH. intros b Hb. apply H. right; exact Hb.
Qed.

Lemma map_id_in {A} (f : A -> A) l : (forall a, In a l -> f a = a) -> map f l = l.
Proof.
  induction l as [|a l IH]; intros H; [reflexivity|]. cbn [map].
  rewrite (H a) by (left; reflexivity). f_equal. apply IH. intros b Hb. apply H. right; exact Hb.
Qed.

(* the value of an `in` snapshot after one run: old members [ol], tested values [coll],
   t = trim approved, f = fix approved *)
Definition stage (t f : bool) (ol coll : list Z) : list Z :=
  (if t then filter (fun v => zmem v coll) ol else ol) ++
  (if f then filter (fun v => negb (zmem v ol)) coll else []).

Lemma zmem_stage t f ol coll y :
  zmem y (stage t f ol coll) =
  (zmem y ol && (negb t || zmem y coll)) || (f && zmem y coll && negb (zmem y ol)).
Proof.
  unfold stage. rewrite zmem_app. destruct t, f; rewrite ?zmem_filter; cbn [zmem];
    destruct (zmem y ol), (zmem y coll); reflexivity.
Qed.

Lemma stage_tt_mem ol coll y : zmem y (stage true true ol coll) = zmem y coll.
Proof. rewrite zmem_stage. destruct (zmem y ol), (zmem y coll); reflexivity. Qed.

(* ------------------------------------------------------------------ the settled source *)

Definition consistent (K : kind) (xs : list Z) : bool :=
  match K, xs with KEq, x :: r => forallb (Z.eqb x) r | _, _ => true end.

Definition old_members (old : option src) : list Z :=
  match old with Some (SList l) => map fst l | _ => [] end.

(* what stands between the parentheses once every category has been applied *)
Definition settled_src (K : kind) (old : option src) (x : Z) (r : list Z) : src :=
  match K with
  | KEq => SAtom x true
  | KMin | KMax => SAtom (list_ext K x r) true
  | _ => SList (map (fun v => (v, true)) (stage true true (old_members old) (dedup (x :: r))))
  end.

Lemma kept_allF_canon coll l :
  map (upd_entry true coll) (filter (fun e : Z * bool => zmem (fst e) coll) l)
  = map (fun v => (v, true)) (filter (fun v => zmem v coll) (map fst l)).
Proof.
  induction l as [|[v cn] l IH]; [reflexivity|]. cbn [filter map fst].
  destruct (zmem v coll) eqn:Hv; [|exact IH]. cbn [map fst]. rewrite <- IH.
  unfold upd_entry at 1. cbn [fst snd]. rewrite Hv, orb_true_r. reflexivity.
Qed.

Lemma src_after_allF K old x r :
  old_ok K old = true ->
  src_after allF (flat_site K old x r) = Some (settled_src K old x r).
Proof.
  intros Hok. unfold old_ok in Hok. apply andb_true_iff in Hok. destruct Hok as [HK Ho].
  destruct K; try discriminate HK; destruct old as [[z cn|l|kvs]|]; try discriminate Ho;
    cbn [flat_site settled_src src_after allF f_fix f_trim f_update f_create old_members].
  - (* Eq over an atom *)
    destruct (Z.eqb_spec z x) as [E|E]; cbn [negb]; [subst z; rewrite orb_true_r|]; reflexivity.
  - reflexivity.
  - (* Min *)
    destruct (cmp_of KMin z (list_ext KMin x r)) eqn:H1; cbn [negb]; [|reflexivity].
    destruct (cmp_of KMin (list_ext KMin x r) z) eqn:H2; cbn [negb]; [|reflexivity].
    rewrite (cmp_antisym KMin _ _ H1 H2), orb_true_r. reflexivity.
  - reflexivity.
  - (* Max *)
    destruct (cmp_of KMax z (list_ext KMax x r)) eqn:H1; cbn [negb]; [|reflexivity].
    destruct (cmp_of KMax (list_ext KMax x r) z) eqn:H2; cbn [negb]; [|reflexivity].
    rewrite (cmp_antisym KMax _ _ H1 H2), orb_true_r. reflexivity.
  - reflexivity.
  - (* In over a list *)
    rewrite kept_allF_canon, <- map_app. reflexivity.
  - (* In, nothing before *)
    cbn [dedup value_after cats new_value f_create allF option_map canon_src stage zmem negb filter app].
    rewrite (filter_all (fun _ => true)) by reflexivity. reflexivity.
Qed.

Lemma settled_matches K old x r : flat_kind K = true -> old_matches K (settled_src K old x r) = true.
Proof. destruct K; intros H; try discriminate H; reflexivity. Qed.

Lemma settled_holds K old x r :
  flat_kind K = true -> consistent K (x :: r) = true ->
  Forall (fun y => holds K (settled_src K old x r) y = true) (x :: r).
Proof.
  intros HK Hc. rewrite Forall_forall. intros y Hy. unfold holds.
  destruct K; try discriminate HK; cbn [settled_src kop src_val plain_op].
  - cbn [consistent] in Hc. rewrite forallb_forall in Hc.
    destruct Hy as [Hy|Hy]; [subst y; apply Z.eqb_refl|].
    specialize (Hc y Hy). apply Z.eqb_eq in Hc. subst y. apply Z.eqb_refl.
  - apply (proj2 (list_ext_spec KMin r x) y Hy).
  - apply (proj2 (list_ext_spec KMax r x) y Hy).
  - rewrite map_fst_canon, stage_tt_mem, zmem_dedup. apply zmem_In. exact Hy.
Qed.

(* the settled source is a fixed point: whatever is approved, a further run reports nothing and
   rewrites nothing *)
Lemma settled_fixpoint F K old x r :
  flat_kind K = true ->
  let o1 := settled_src K old x r in
  cats (flat_site K (Some o1) x r) = [] /\
  value_after F (flat_site K (Some o1) x r) = Some (src_val o1) /\
  src_after F (flat_site K (Some o1) x r) = Some o1.
Proof.
  intros HK o1. subst o1.
  destruct K; try discriminate HK; cbn [settled_src flat_site].
  - cbn [cats value_after src_after]. rewrite Z.eqb_refl. cbn. repeat split; reflexivity.
  - cbn [cats value_after src_after]. rewrite !cmp_refl. cbn. repeat split; reflexivity.
  - cbn [cats value_after src_after]. rewrite !cmp_refl. cbn. repeat split; reflexivity.
  - set (coll := dedup (x :: r)). set (L := stage true true (old_members old) coll).
    assert (HL : forall v, zmem v L = zmem v coll) by (intros v; apply stage_tt_mem).
    assert (HLin : forall v, In v L -> zmem v coll = true) by (intros v Hv; rewrite <- HL; apply zmem_In, Hv).
    assert (Hcin : forall v, In v coll -> negb (zmem v L) = false)
      by (intros v Hv; rewrite HL; apply zmem_In in Hv; rewrite Hv; reflexivity).
    cbn [cats value_after src_after]. rewrite !map_fst_canon.
    rewrite (filter_nil (fun v => negb (zmem v L)) coll Hcin).
    split; [|split].
    + rewrite app_nil_r. apply flat_map_nil. intros e He. apply in_map_iff in He.
      destruct He as [v [E Hv]]. subst e. cbn [fst snd]. rewrite (HLin v Hv). reflexivity.
    + rewrite (filter_all (fun v => zmem v coll) L HLin). cbn [src_val]. rewrite map_fst_canon.
      destruct (f_trim F), (f_fix F); rewrite app_nil_r; reflexivity.
    + rewrite (filter_all (fun e : Z * bool => zmem (fst e) coll)).
      2: { intros e He. apply in_map_iff in He. destruct He as [v [E Hv]]. subst e. apply (HLin v Hv). }
      assert (Hm : map (upd_entry (f_update F) coll) (map (fun v => (v, true)) L) = map (fun v => (v, true)) L).
      { apply map_id_in. intros e He. apply in_map_iff in He. destruct He as [v [E Hv]]. subst e.
        unfold upd_entry. cbn [fst snd]. rewrite (HLin v Hv). reflexivity. }
      destruct (f_trim F), (f_fix F); cbn [map]; rewrite Hm, app_nil_r; reflexivity.
Qed.

Lemma filter_map_fst (p : Z -> bool) (l : list (Z * bool)) :
  map fst (filter (fun e => p (fst e)) l) = filter p (map fst l).
Proof.
  induction l as [|[v cn] l IH]; [reflexivity|]. cbn [filter map fst].
  destruct (p v); cbn [map fst]; rewrite IH; reflexivity.
Qed.

Lemma map_fst_upd u coll l : map fst (map (upd_entry u coll) l) = map fst l.
Proof.
  rewrite map_map. apply map_ext. intros e. unfold upd_entry. destruct (zmem (fst e) coll); reflexivity.
Qed.

(* [src_after] is a source of [value_after] *)
Theorem src_after_val_flat : forall F K old x r,
  old_ok K old = true ->
  option_map src_val (src_after F (flat_site K old x r)) = value_after F (flat_site K old x r).
Proof.
  intros F K old x r Hok. unfold old_ok in Hok. apply andb_true_iff in Hok. destruct Hok as [HK Ho].
  destruct old as [o|].
  2: { destruct K; try discriminate HK; cbn [flat_site src_after];
       destruct (value_after F _) as [v|]; cbn [option_map]; rewrite ?src_val_canon; reflexivity. }
  destruct K; try discriminate HK; destruct o as [z cn|l|kvs]; try discriminate Ho;
    cbn [flat_site src_after value_after].
  - destruct (negb (z =? x)); cbn [andb]; [destruct (f_fix F)|]; reflexivity.
  - destruct (negb (cmp_of KMin z _)); [destruct (f_fix F); reflexivity|].
    destruct (negb (cmp_of KMin _ z)); [destruct (f_trim F)|]; reflexivity.
  - destruct (negb (cmp_of KMax z _)); [destruct (f_fix F); reflexivity|].
    destruct (negb (cmp_of KMax _ z)); [destruct (f_trim F)|]; reflexivity.
  - cbn [option_map src_val]. rewrite map_app, map_fst_upd. do 3 f_equal.
    + destruct (f_trim F); [apply (filter_map_fst (fun v => zmem v (dedup (x :: r))))|reflexivity].
    + destruct (f_fix F); [apply map_fst_canon|reflexivity].
Qed.

Lemma holds_plain K o y : holds K o y = true -> plain_op (kop K y) (src_val o) = Some true.
Proof. unfold holds. destruct (plain_op (kop K y) (src_val o)) as [[|]|]; intros H; try discriminate H; reflexivity. Qed.

Lemma old_ok_settled K old x r : flat_kind K = true -> old_ok K (Some (settled_src K old x r)) = true.
Proof. intros HK. unfold old_ok. rewrite HK, settled_matches by exact HK. reflexivity. Qed.

(* ------------------------------------------------------------------ W1 *)

Theorem second_run_noop_flat : forall fixed1 fixed2 F2 K old x r c1 c2,
  old_ok K old = true -> consistent K (x :: r) = true ->
  let xs := x :: r in
  let s1 := r_site (run fixed1 allF (fresh old) (map (kop K) xs) c1) in
  let run2 := run fixed2 F2 (fresh (src_after allF s1)) (map (kop K) xs) c2 in
  cats (r_site run2) = [] /\
  r_results run2 = map (fun _ => RBool true) xs /\
  r_counters run2 = c2 /\
  value_after F2 (r_site run2) = value_after allF s1 /\
  src_after F2 (r_site run2) = src_after allF s1.
Proof.
  intros fixed1 fixed2 F2 K old x r c1 c2 Hok Hc xs s1 run2. subst xs s1 run2.
  assert (HK : flat_kind K = true) by (unfold old_ok in Hok; apply andb_true_iff in Hok; tauto).
  rewrite (run_flat_site fixed1 allF K old x r c1 Hok).
  rewrite <- (src_after_val_flat allF K old x r Hok).
  rewrite (src_after_allF K old x r Hok). cbn [option_map].
  rewrite (run_flat_site fixed2 F2 K _ x r c2 (old_ok_settled K old x r HK)).
  destruct (settled_fixpoint F2 K old x r HK) as [H1 [H2 H3]].
  destruct (good_script_passes fixed2 F2 K (settled_src K old x r) (x :: r) c2
              (settled_matches K old x r HK) (settled_holds K old x r HK Hc)) as [H4 H5].
  repeat split; assumption.
Qed.

Example second_run_noop_flat_ex :
  let xs := [3; 5; 1; 5; 4] in
  let s1 := r_site (run false allF (fresh (Some (SList [(1, true); (2, true); (3, false)]))) (map (kop KColl) xs) zero) in
  src_after allF s1 = Some (SList [(1, true); (3, true); (5, true); (4, true)]) /\
  let run2 := run false allF (fresh (src_after allF s1)) (map (kop KColl) xs) zero in
  cats (r_site run2) = [] /\ r_results run2 = map (fun _ => RBool true) xs /\ r_counters run2 = zero.
Proof. vm_compute. repeat split; reflexivity. Qed.

(* for == the script must be consistent: with two different values the second run still fails *)
Theorem second_run_noop_inconsistent_eq_refuted :
  exists fixed x r,
    let xs := x :: r in
    let s1 := r_site (run fixed allF (fresh (Some (SAtom 0 true))) (map (kop KEq) xs) zero) in
    r_results (run fixed noflags (fresh (src_after allF s1)) (map (kop KEq) xs) zero)
    <> map (fun _ => RBool true) xs.
Proof. exists true, 1, [2]. vm_compute. discriminate. Qed.

(* ------------------------------------------------------------------ W4 / W5 (flat) *)

Theorem create_satisfies_op_flat : forall fixed F K x r c,
  flat_kind K = true -> consistent K (x :: r) = true -> f_create F = true ->
  let xs := x :: r in
  let s1 := r_site (run fixed F (fresh None) (map (kop K) xs) c) in
  exists v, value_after F s1 = Some v /\ new_value s1 = Some v /\
            src_after F s1 = Some (canon_src v) /\
            Forall (fun y => plain_op (kop K y) v = Some true) xs.
Proof.
  intros fixed F K x r c HK Hc Hcr xs s1. subst xs s1.
  assert (Hok : old_ok K None = true) by (unfold old_ok; rewrite HK; reflexivity).
  rewrite (run_flat_site fixed F K None x r c Hok).
  exists (src_val (settled_src K None x r)).
  assert (Hv : value_after F (flat_site K None x r) = Some (src_val (settled_src K None x r)) /\
               new_value (flat_site K None x r) = Some (src_val (settled_src K None x r))).
  { destruct K; try discriminate HK; cbn [flat_site settled_src value_after cats new_value src_val dedup];
      rewrite Hcr; try (split; reflexivity).
    cbn [old_members stage zmem negb filter app]. rewrite map_fst_canon.
    rewrite (filter_all (fun _ : Z => true)) by reflexivity. split; reflexivity. }
  destruct Hv as [Hv Hn]. split; [exact Hv|]. split; [exact Hn|]. split.
  - destruct K; try discriminate HK; cbn [flat_site src_after] in *; rewrite Hv; reflexivity.
  - eapply Forall_impl; [|apply (settled_holds K None x r HK Hc)]. intros y Hy. apply holds_plain, Hy.
Qed.

Lemma canon_settled K x r : flat_kind K = true ->
  canon_src (src_val (settled_src K None x r)) = settled_src K None x r.
Proof.
  destruct K; intros HK; try discriminate HK; cbn [settled_src src_val canon_src]; try reflexivity.
  rewrite map_fst_canon. reflexivity.
Qed.

Theorem created_snapshot_second_run_passes : forall fixed1 fixed2 F F2 K x r c1 c2,
  flat_kind K = true -> consistent K (x :: r) = true -> f_create F = true ->
  let xs := x :: r in
  let s1 := r_site (run fixed1 F (fresh None) (map (kop K) xs) c1) in
  forall v, value_after F s1 = Some v ->
  r_results (run fixed2 F2 (fresh (Some (canon_src v))) (map (kop K) xs) c2) = map (fun _ => RBool true) xs /\
  r_counters (run fixed2 F2 (fresh (Some (canon_src v))) (map (kop K) xs) c2) = c2.
Proof.
  intros fixed1 fixed2 F F2 K x r c1 c2 HK Hc Hcr xs s1 v Hv. subst xs s1.
  destruct (create_satisfies_op_flat fixed1 F K x r c1 HK Hc Hcr) as [v' [Hv' _]]. cbv zeta in Hv'.
  assert (Hok : old_ok K None = true) by (unfold old_ok; rewrite HK; reflexivity).
  rewrite (run_flat_site fixed1 F K None x r c1 Hok) in Hv, Hv'.
  assert (E : v = src_val (settled_src K None x r)).
  { destruct K; try discriminate HK; cbn [flat_site settled_src value_after cats new_value src_val dedup] in Hv |- *;
      rewrite Hcr in Hv; inversion Hv; try reflexivity.
    cbn [old_members stage zmem negb filter app]. rewrite map_fst_canon.
    rewrite (filter_all (fun _ : Z => true)) by reflexivity. reflexivity. }
  subst v. rewrite canon_settled by exact HK.
  apply good_script_passes; [apply settled_matches, HK|apply settled_holds; assumption].
Qed.

Example create_then_pass_ex :
  let xs := [7; 3; 9] in
  let s1 := r_site (run true create_only (fresh None) (map (kop KMax) xs) zero) in
  value_after create_only s1 = Some (PAtom 9) /\
  r_results (run true noflags (fresh (Some (canon_src (PAtom 9)))) (map (kop KMax) xs) zero)
  = [RBool true; RBool true; RBool true] /\
  r_counters (run true noflags (fresh (Some (canon_src (PAtom 9)))) (map (kop KMax) xs) zero) = zero.
Proof. vm_compute. repeat split; reflexivity. Qed.

(* ------------------------------------------------------------------ two runs compose: `in` snapshots *)

Lemma filter_notin_stage t f ol coll :
  filter (fun v => negb (zmem v (stage t f ol coll))) coll =
  if f then [] else filter (fun v => negb (zmem v ol)) coll.
Proof.
  destruct f.
  - apply filter_nil. intros v Hv. apply zmem_In in Hv. rewrite zmem_stage, Hv.
    destruct t, (zmem v ol); reflexivity.
  - apply filter_ext_in. intros v Hv. apply zmem_In in Hv. rewrite zmem_stage, Hv.
    destruct t, (zmem v ol); reflexivity.
Qed.

Lemma filter_in_added ol coll :
  filter (fun v => zmem v coll) (filter (fun v => negb (zmem v ol)) coll) = filter (fun v => negb (zmem v ol)) coll.
Proof. apply filter_all. intros v Hv. apply filter_In in Hv. apply zmem_In, Hv. Qed.

Lemma filter_in_idem (ol coll : list Z) :
  filter (fun v => zmem v coll) (filter (fun v => zmem v coll) ol) = filter (fun v => zmem v coll) ol.
Proof. apply filter_all. intros v Hv. apply filter_In in Hv. apply Hv. Qed.

Theorem stage_compose : forall t1 f1 t2 f2 ol coll,
  stage t2 f2 (stage t1 f1 ol coll) coll = stage (t1 || t2) (f1 || f2) ol coll.
Proof.
  intros t1 f1 t2 f2 ol coll. unfold stage at 1. rewrite filter_notin_stage.
  unfold stage. rewrite filter_app.
  assert (H1 : filter (fun v => zmem v coll) (if t1 then filter (fun v => zmem v coll) ol else ol)
               = filter (fun v => zmem v coll) ol) by (destruct t1; [apply filter_in_idem|reflexivity]).
  assert (H2 : filter (fun v => zmem v coll) (if f1 then filter (fun v => negb (zmem v ol)) coll else [])
               = if f1 then filter (fun v => negb (zmem v ol)) coll else []) by (destruct f1; [apply filter_in_added|reflexivity]).
  rewrite H1, H2.
  destruct t1, t2, f1, f2; cbn [orb]; rewrite <- ?app_assoc, ?app_nil_r; reflexivity.
Qed.

(* the same on the entries (with their canonical flags); u = update approved *)
Definition lstage (t f u : bool) (l : list (Z * bool)) (coll : list Z) : list (Z * bool) :=
  map (upd_entry u coll) (if t then filter (fun e => zmem (fst e) coll) l else l) ++
  (if f then map (fun v => (v, true)) (filter (fun v => negb (zmem v (map fst l))) coll) else []).

Lemma map_fst_lstage t f u l coll : map fst (lstage t f u l coll) = stage t f (map fst l) coll.
Proof.
  unfold lstage, stage. rewrite map_app, map_fst_upd. f_equal.
  - destruct t; [apply (filter_map_fst (fun v => zmem v coll))|reflexivity].
  - destruct f; [apply map_fst_canon|reflexivity].
Qed.

Lemma src_after_coll_site F l coll :
  src_after F (coll_site l coll) = Some (SList (lstage (f_trim F) (f_fix F) (f_update F) l coll)).
Proof. reflexivity. Qed.

Lemma value_after_coll_stage F l coll :
  value_after F (coll_site l coll) = Some (PList (stage (f_trim F) (f_fix F) (map fst l) coll)).
Proof. reflexivity. Qed.

Lemma upd_entry_compose u1 u2 coll e :
  upd_entry u2 coll (upd_entry u1 coll e) = upd_entry (u1 || u2) coll e.
Proof.
  unfold upd_entry. destruct (zmem (fst e) coll) eqn:He; cbn [fst snd]; rewrite He; [|reflexivity].
  rewrite orb_assoc. reflexivity.
Qed.

Lemma upd_entry_canon u coll v : upd_entry u coll (v, true) = (v, true).
Proof. unfold upd_entry. cbn [fst snd]. destruct (zmem v coll); reflexivity. Qed.

Lemma filter_upd u coll (l : list (Z * bool)) :
  filter (fun e => zmem (fst e) coll) (map (upd_entry u coll) l)
  = map (upd_entry u coll) (filter (fun e => zmem (fst e) coll) l).
Proof.
  induction l as [|e l IH]; [reflexivity|]. cbn [map filter].
  assert (E : fst (upd_entry u coll e) = fst e) by (unfold upd_entry; destruct (zmem (fst e) coll); reflexivity).
  rewrite E. destruct (zmem (fst e) coll); cbn [map]; rewrite IH; reflexivity.
Qed.

Theorem lstage_compose : forall t1 f1 u1 t2 f2 u2 l coll,
  lstage t2 f2 u2 (lstage t1 f1 u1 l coll) coll = lstage (t1 || t2) (f1 || f2) (u1 || u2) l coll.
Proof.
  intros t1 f1 u1 t2 f2 u2 l coll. unfold lstage at 1.
  rewrite map_fst_lstage, filter_notin_stage. unfold lstage.
  set (fe := fun e : Z * bool => zmem (fst e) coll).
  set (A := map (fun v => (v, true)) (filter (fun v => negb (zmem v (map fst l))) coll)).
  set (Q1 := if f1 then A else []).
  assert (HQ1 : filter fe Q1 = Q1).
  { subst Q1 A fe. destruct f1; [|reflexivity]. apply filter_all. intros e He. apply in_map_iff in He.
    destruct He as [v [E Hv]]. subst e. cbn [fst]. apply filter_In in Hv. apply zmem_In, Hv. }
  assert (HQ2 : map (upd_entry u2 coll) Q1 = Q1).
  { subst Q1 A. destruct f1; [|reflexivity]. apply map_id_in. intros e He. apply in_map_iff in He.
    destruct He as [v [E Hv]]. subst e. apply upd_entry_canon. }
  assert (HP : filter fe (if t1 then filter fe l else l) = filter fe l).
  { destruct t1; [|reflexivity]. apply filter_all. intros e He. apply filter_In in He. apply He. }
  assert (Hpart1 : map (upd_entry u2 coll)
                     (if t2 then filter fe (map (upd_entry u1 coll) (if t1 then filter fe l else l) ++ Q1)
                      else map (upd_entry u1 coll) (if t1 then filter fe l else l) ++ Q1)
                   = map (upd_entry (u1 || u2) coll) (if t1 || t2 then filter fe l else l) ++ Q1).
  { destruct t2.
    - rewrite filter_app, HQ1. unfold fe at 1. rewrite filter_upd. fold fe. rewrite HP, orb_true_r.
      rewrite map_app, HQ2, map_map. f_equal. apply map_ext. intros e. apply upd_entry_compose.
    - rewrite orb_false_r, map_app, HQ2, map_map. f_equal. apply map_ext. intros e. apply upd_entry_compose. }
  rewrite Hpart1, <- app_assoc. f_equal.
  subst Q1. destruct f1, f2; cbn [orb map]; rewrite ?app_nil_r; reflexivity.
Qed.

(* ------------------------------------------------------------------ two runs compose: all flat kinds *)

Lemma none_flat F K x r :
  flat_kind K = true ->
  value_after F (flat_site K None x r) = (if f_create F then Some (src_val (settled_src K None x r)) else None) /\
  src_after F (flat_site K None x r) = (if f_create F then Some (settled_src K None x r) else None).
Proof.
  intros HK.
  assert (Hv : value_after F (flat_site K None x r) = if f_create F then Some (src_val (settled_src K None x r)) else None).
  { destruct K; try discriminate HK; cbn [flat_site settled_src value_after cats new_value src_val dedup];
      destruct (f_create F); try reflexivity.
    cbn [old_members stage zmem negb filter app]. rewrite map_fst_canon.
    rewrite (filter_all (fun _ : Z => true)) by reflexivity. reflexivity. }
  split; [exact Hv|].
  assert (Hs : src_after F (flat_site K None x r) = option_map canon_src (value_after F (flat_site K None x r)))
    by (destruct K; try discriminate HK; reflexivity).
  rewrite Hs, Hv. destruct (f_create F); [|reflexivity]. cbn [option_map]. rewrite canon_settled by exact HK. reflexivity.
Qed.

Lemma two_runs_atom_eq F1 F2 z cn n :
  let S := fun o => Site KEq (Some o) (Some n) [] [] in
  exists o1, src_after F1 (S (SAtom z cn)) = Some o1 /\ old_matches KEq o1 = true /\
    value_after F2 (S o1) = value_after (funion F1 F2) (S (SAtom z cn)) /\
    src_after F2 (S o1) = src_after (funion F1 F2) (S (SAtom z cn)).
Proof.
  intros S. subst S. cbn [src_after value_after funion f_fix f_trim f_update f_create].
  destruct (Z.eqb_spec z n) as [E|E]; cbn [negb andb].
  - eexists. split; [reflexivity|]. split; [reflexivity|].
    cbn [src_after value_after]. destruct (Z.eqb_spec z n) as [_|E']; [|contradiction]. cbn [negb andb].
    rewrite orb_assoc. split; reflexivity.
  - destruct (f_fix F1); cbn [orb].
    + eexists. split; [reflexivity|]. split; [reflexivity|].
      cbn [src_after value_after]. rewrite Z.eqb_refl. cbn [negb andb orb]. split; reflexivity.
    + eexists. split; [reflexivity|]. split; [reflexivity|].
      cbn [src_after value_after]. destruct (Z.eqb_spec z n) as [E'|_]; [contradiction|]. cbn [negb andb].
      split; reflexivity.
Qed.

Lemma two_runs_atom_bound F1 F2 K z cn n :
  is_bound K = true ->
  let S := fun o => Site K (Some o) (Some n) [] [] in
  exists o1, src_after F1 (S (SAtom z cn)) = Some o1 /\ old_matches K o1 = true /\
    value_after F2 (S o1) = value_after (funion F1 F2) (S (SAtom z cn)) /\
    src_after F2 (S o1) = src_after (funion F1 F2) (S (SAtom z cn)).
Proof.
  intros HK S. subst S.
  destruct K; try discriminate HK; cbn [src_after value_after funion f_fix f_trim f_update f_create].
  all: destruct (cmp_of _ z n) eqn:Ha; cbn [negb];
    [ destruct (cmp_of _ n z) eqn:Hb; cbn [negb];
      [ eexists; split; [reflexivity|]; split; [reflexivity|];
        cbn [src_after value_after]; rewrite Ha, Hb; cbn [negb]; rewrite orb_assoc; split; reflexivity
      | destruct (f_trim F1); cbn [orb];
        eexists; (split; [reflexivity|]); (split; [reflexivity|]);
        cbn [src_after value_after]; rewrite ?cmp_refl, ?Ha, ?Hb; cbn [negb orb]; split; reflexivity ]
    | destruct (f_fix F1); cbn [orb];
      eexists; (split; [reflexivity|]); (split; [reflexivity|]);
      cbn [src_after value_after]; rewrite ?cmp_refl, ?Ha; cbn [negb orb]; split; reflexivity ].
Qed.

Lemma two_runs_flat_site F1 F2 K old x r :
  old_ok K old = true ->
  let s1 := flat_site K old x r in
  old_ok K (src_after F1 s1) = true /\
  value_after F2 (flat_site K (src_after F1 s1) x r) = value_after (funion F1 F2) s1 /\
  src_after F2 (flat_site K (src_after F1 s1) x r) = src_after (funion F1 F2) s1.
Proof.
  intros Hok s1. subst s1.
  assert (HK : flat_kind K = true) by (unfold old_ok in Hok; apply andb_true_iff in Hok; tauto).
  destruct old as [o|].
  2: { (* nothing between the parentheses *)
    destruct (none_flat F1 K x r HK) as [_ Hs1]. destruct (none_flat (funion F1 F2) K x r HK) as [Hv12 Hs12].
    rewrite Hs1, Hv12, Hs12. cbn [funion f_create]. destruct (f_create F1); cbn [orb].
    - destruct (settled_fixpoint F2 K None x r HK) as [_ [H2 H3]].
      split; [apply old_ok_settled, HK|]. split; assumption.
    - destruct (none_flat F2 K x r HK) as [Hv2 Hs2]. rewrite Hv2, Hs2.
      split; [exact Hok|]. split; reflexivity. }
  unfold old_ok in Hok. rewrite HK in Hok. cbn [andb] in Hok.
  destruct K; try discriminate HK; destruct o as [z cn|l|kvs]; try discriminate Hok; cbn [flat_site].
  - destruct (two_runs_atom_eq F1 F2 z cn x) as [o1 [H1 [H2 [H3 H4]]]]. cbv beta zeta in *.
    rewrite H1. unfold old_ok. rewrite H2. repeat split; assumption.
  - destruct (two_runs_atom_bound F1 F2 KMin z cn (list_ext KMin x r) eq_refl) as [o1 [H1 [H2 [H3 H4]]]]. cbv beta zeta in *.
    rewrite H1. unfold old_ok. rewrite H2. repeat split; assumption.
  - destruct (two_runs_atom_bound F1 F2 KMax z cn (list_ext KMax x r) eq_refl) as [o1 [H1 [H2 [H3 H4]]]]. cbv beta zeta in *.
    rewrite H1. unfold old_ok. rewrite H2. repeat split; assumption.
  - fold (coll_site l (dedup (x :: r))). rewrite !src_after_coll_site. split; [reflexivity|].
    fold (coll_site (lstage (f_trim F1) (f_fix F1) (f_update F1) l (dedup (x :: r))) (dedup (x :: r))).
    rewrite !src_after_coll_site, !value_after_coll_stage, map_fst_lstage, stage_compose, lstage_compose.
    split; reflexivity.
Qed.

(* running twice, with F1 then with F2 approved, writes what one run with both approved writes *)
Theorem two_runs_compose_flat : forall fixed1 fixed2 F1 F2 K old x r c1 c2,
  old_ok K old = true ->
  let xs := x :: r in
  let s1 := r_site (run fixed1 F1 (fresh old) (map (kop K) xs) c1) in
  let s2 := r_site (run fixed2 F2 (fresh (src_after F1 s1)) (map (kop K) xs) c2) in
  value_after F2 s2 = value_after (funion F1 F2) s1 /\
  src_after F2 s2 = src_after (funion F1 F2) s1.
Proof.
  intros fixed1 fixed2 F1 F2 K old x r c1 c2 Hok xs s1 s2. subst xs s1 s2.
  rewrite (run_flat_site fixed1 F1 K old x r c1 Hok).
  destruct (two_runs_flat_site F1 F2 K old x r Hok) as [Hok1 H].
  rewrite (run_flat_site fixed2 F2 K _ x r c2 Hok1). exact H.
Qed.

(* ------------------------------------------------------------------ W2 *)

Theorem rerun_same_flags_stable_flat : forall fixed1 fixed2 F K old x r c1 c2,
  old_ok K old = true ->
  let xs := x :: r in
  let s1 := r_site (run fixed1 F (fresh old) (map (kop K) xs) c1) in
  let s2 := r_site (run fixed2 F (fresh (src_after F s1)) (map (kop K) xs) c2) in
  value_after F s2 = value_after F s1 /\ src_after F s2 = src_after F s1.
Proof.
  intros fixed1 fixed2 F K old x r c1 c2 Hok.
  pose proof (two_runs_compose_flat fixed1 fixed2 F F K old x r c1 c2 Hok) as H.
  rewrite funion_diag in H. exact H.
Qed.

Example rerun_same_flags_stable_flat_ex :
  let xs := [3; 5; 1; 5; 4] in
  let old := Some (SList [(1, false); (2, true); (3, false)]) in
  let s1 := r_site (run true fix_only (fresh old) (map (kop KColl) xs) zero) in
  src_after fix_only s1 = Some (SList [(1, false); (2, true); (3, false); (5, true); (4, true)]) /\
  let s2 := r_site (run true fix_only (fresh (src_after fix_only s1)) (map (kop KColl) xs) zero) in
  src_after fix_only s2 = src_after fix_only s1 /\ cats s2 = [Update; Trim; Update].
Proof. vm_compute. repeat split; reflexivity. Qed.

(* ------------------------------------------------------------------ W3: any sequence of runs *)

Definition funion_all (Fs : list flags) : flags := fold_right funion noflags Fs.

Lemma funion_noflags_r F : funion F noflags = F.
Proof. destruct F; unfold funion; cbn. rewrite !orb_false_r. reflexivity. Qed.

(* the source after running the script once per element of Fs, each time with that set approved *)
Fixpoint rerun_chain (fixed : bool) (K : kind) (xs : list Z) (old : option src) (Fs : list flags) : option src :=
  match Fs with
  | [] => old
  | F :: rest =>
      rerun_chain fixed K xs (src_after F (r_site (run fixed F (fresh old) (map (kop K) xs) zero))) rest
  end.

Theorem runs_confluent_flat : forall fixed K x r Fs old,
  old_ok K old = true -> Fs <> [] ->
  rerun_chain fixed K (x :: r) old Fs = src_after (funion_all Fs) (flat_site K old x r) /\
  option_map src_val (rerun_chain fixed K (x :: r) old Fs) = value_after (funion_all Fs) (flat_site K old x r).
Proof.
  intros fixed K x r Fs.
  assert (Hsrc : forall old, old_ok K old = true -> Fs <> [] ->
            rerun_chain fixed K (x :: r) old Fs = src_after (funion_all Fs) (flat_site K old x r)).
  { induction Fs as [|F rest IH]; intros old Hok Hne; [congruence|].
    cbn [rerun_chain]. rewrite (run_flat_site fixed F K old x r zero Hok).
    destruct rest as [|G rest'].
    - cbn [rerun_chain funion_all fold_right]. rewrite funion_noflags_r. reflexivity.
    - destruct (two_runs_flat_site F (funion_all (G :: rest')) K old x r Hok) as [Hok1 [_ Hs]].
      rewrite (IH _ Hok1) by discriminate. exact Hs. }
  intros old Hok Hne. split; [apply Hsrc; assumption|].
  rewrite Hsrc by assumption. apply src_after_val_flat, Hok.
Qed.

(* only the union of what was approved matters: any order, any grouping *)
Corollary runs_order_irrelevant_flat : forall fixed K x r Fs Gs old,
  old_ok K old = true -> Fs <> [] -> Gs <> [] -> funion_all Fs = funion_all Gs ->
  rerun_chain fixed K (x :: r) old Fs = rerun_chain fixed K (x :: r) old Gs.
Proof.
  intros fixed K x r Fs Gs old Hok HF HG E.
  rewrite (proj1 (runs_confluent_flat fixed K x r Fs old Hok HF)),
          (proj1 (runs_confluent_flat fixed K x r Gs old Hok HG)), E. reflexivity.
Qed.

(* the statement for `in`: trim then fix = fix then trim = both at once, as lists (order included);
   an update run anywhere does not change the value *)
Theorem single_category_runs_confluent_flat : forall fixed1 fixed2 l x r c1 c2,
  let xs := x :: r in
  let run1 := fun F => r_site (run fixed1 F (fresh (Some (SList l))) (ops_in xs) c1) in
  let rerun := fun F1 F2 => r_site (run fixed2 F2 (fresh (src_after F1 (run1 F1))) (ops_in xs) c2) in
  value_after fix_only (rerun trim_only fix_only) = value_after fix_trim (run1 fix_trim) /\
  value_after trim_only (rerun fix_only trim_only) = value_after fix_trim (run1 fix_trim) /\
  src_after fix_only (rerun trim_only fix_only) = src_after fix_trim (run1 fix_trim) /\
  src_after trim_only (rerun fix_only trim_only) = src_after fix_trim (run1 fix_trim) /\
  (forall F, value_after F (rerun update_only F) = value_after F (run1 F)).
Proof.
  intros fixed1 fixed2 l x r c1 c2 xs run1 rerun. subst xs run1 rerun. cbv beta.
  assert (Hok : old_ok KColl (Some (SList l)) = true) by reflexivity.
  change (ops_in (x :: r)) with (map (kop KColl) (x :: r)).
  assert (Hs : forall F, r_site (run fixed1 F (fresh (Some (SList l))) (map (kop KColl) (x :: r)) c1)
                         = flat_site KColl (Some (SList l)) x r)
    by (intros F; apply run_flat_site, Hok).
  destruct (two_runs_compose_flat fixed1 fixed2 trim_only fix_only KColl _ x r c1 c2 Hok) as [A1 A2].
  destruct (two_runs_compose_flat fixed1 fixed2 fix_only trim_only KColl _ x r c1 c2 Hok) as [B1 B2].
  cbv zeta in A1, A2, B1, B2. rewrite A1, A2, B1, B2, !Hs.
  repeat split; try reflexivity.
  intros F. destruct (two_runs_compose_flat fixed1 fixed2 update_only F KColl _ x r c1 c2 Hok) as [C1 _].
  cbv zeta in C1. rewrite !Hs in C1. rewrite ?Hs. rewrite C1. cbn [flat_site]. fold (coll_site l (dedup (x :: r))). rewrite !value_after_coll_stage. reflexivity.
Qed.

Example single_category_runs_confluent_flat_ex :
  let old := Some (SList [(1, false); (2, true); (3, false)]) in
  let xs := [3; 5; 1; 5; 4] in
  let upd := update_only in
  rerun_chain true KColl xs old [trim_only; fix_only] = Some (SList [(1, false); (3, false); (5, true); (4, true)]) /\
  rerun_chain true KColl xs old [fix_only; trim_only] = Some (SList [(1, false); (3, false); (5, true); (4, true)]) /\
  rerun_chain true KColl xs old [fix_trim] = Some (SList [(1, false); (3, false); (5, true); (4, true)]) /\
  rerun_chain true KColl xs old [upd; trim_only; fix_only] = Some (SList [(1, true); (3, true); (5, true); (4, true)]) /\
  rerun_chain true KColl xs old [fix_only; upd; trim_only] = Some (SList [(1, true); (3, true); (5, true); (4, true)]) /\
  rerun_chain true KColl xs old [trim_only; fix_only; upd] = Some (SList [(1, true); (3, true); (5, true); (4, true)]) /\
  funion_all [upd; trim_only; fix_only] = funion_all [trim_only; fix_only; upd].
Proof. vm_compute. repeat split; reflexivity. Qed.

(* bounds: at most one category is pending, so this is the same theorem *)
Example runs_confluent_bound_ex :
  rerun_chain false KMin [7; 3; 9] (Some (SAtom 5 false)) [trim_only; update_only; fix_only] = Some (SAtom 3 true) /\
  rerun_chain false KMin [7; 3; 9] (Some (SAtom 5 false)) [fix_only] = Some (SAtom 3 true) /\
  rerun_chain false KMin [7; 3; 9] (Some (SAtom 1 false)) [fix_only; update_only] = Some (SAtom 1 false) /\
  rerun_chain false KMin [7; 3; 9] (Some (SAtom 1 false)) [update_only; trim_only] = Some (SAtom 3 true).
Proof. vm_compute. repeat split; reflexivity. Qed.

(* ------------------------------------------------------------------ W4 for dicts: s[k] == x *)

Definition get_eq_ops (kxs : list (Z * Z)) : list op := map (fun kx => OGet (fst kx) (OEq (snd kx))) kxs.

(* the children recorded for the bindings acc *)
Definition eq_children (acc : list (Z * Z)) : list (Z * site) :=
  map (fun kx => (fst kx, Site KEq None (Some (snd kx)) [] [])) acc.

(* first binding of every key, in first-seen order *)
Definition add_kv (acc : list (Z * Z)) (kx : Z * Z) : list (Z * Z) :=
  match assoc (fst kx) acc with Some _ => acc | None => acc ++ [kx] end.
Definition first_bindings (kxs : list (Z * Z)) : list (Z * Z) := fold_left add_kv kxs [].

Lemma assoc_set_id {X} key (v : X) l : assoc key l = Some v -> assoc_set key v l = l.
Proof.
  induction l as [|[k' v'] l IH]; cbn [assoc assoc_set]; [discriminate|].
  destruct (Z.eqb_spec key k') as [E|E]; intros H.
  - inversion H; subst. reflexivity.
  - rewrite IH by exact H. reflexivity.
Qed.

Lemma step_get_eq_site fixed F k0 acc k x c :
  (k0 = KUndecided \/ k0 = KDict) ->
  fst (fst (step fixed F (Site k0 None None [] (eq_children acc)) (OGet k (OEq x)) c))
  = Site KDict None None [] (eq_children (add_kv acc (k, x))).
Proof.
  intros Hk0. rewrite step_OGet.
  replace (negb (kind_eqb k0 KUndecided) && negb (kind_eqb k0 KDict)) with false
    by (destruct Hk0; subst k0; reflexivity).
  cbn [dictish]. unfold eq_children at 1, add_kv. cbn [fst].
  rewrite (assoc_map (fun x0 => Site KEq None (Some x0) [] []) k acc).
  destruct (assoc k acc) as [x0|] eqn:Hk; cbn [option_map].
  - pose proof (step_eq_site fixed F KEq None (Some x0) [] [] x c (or_intror eq_refl) eq_refl) as Hs.
    destruct (step fixed F (Site KEq None (Some x0) [] []) (OEq x) c) as [[child' r2] c2].
    cbn [fst] in Hs |- *. subst child'. f_equal.
    apply assoc_set_id. unfold eq_children.
    rewrite (assoc_map (fun x0 => Site KEq None (Some x0) [] []) k acc), Hk. reflexivity.
  - unfold child_old. cbn [dict_kvs assoc].
    pose proof (step_eq_site fixed F KUndecided None None [] [] x (inc_missing c) (or_introl eq_refl) eq_refl) as Hs.
    unfold fresh.
    destruct (step fixed F (Site KUndecided None None [] []) (OEq x) (inc_missing c)) as [[child' r2] c2].
    cbn [fst] in Hs |- *. subst child'. unfold eq_children. rewrite map_app. reflexivity.
Qed.

Lemma run_get_eq_site fixed F : forall kxs k0 acc c,
  (k0 = KUndecided \/ k0 = KDict) ->
  r_site (run fixed F (Site k0 None None [] (eq_children acc)) (get_eq_ops kxs) c)
  = Site (match kxs with [] => k0 | _ => KDict end) None None [] (eq_children (fold_left add_kv kxs acc)).
Proof.
  induction kxs as [|[k x] kxs IH]; intros k0 acc c Hk0; [reflexivity|].
  unfold get_eq_ops. cbn [map fst snd]. rewrite run_cons. unfold r_site at 1. cbn [fst].
  rewrite step_get_eq_site by exact Hk0. fold (get_eq_ops kxs).
  rewrite IH by (right; reflexivity). cbn [fold_left]. destruct kxs; reflexivity.
Qed.

Definition nv_children : list (Z * site) -> list (Z * pv) :=
  fix go (l : list (Z * site)) : list (Z * pv) :=
    match l with
    | [] => []
    | (key, child) :: r =>
        match new_value child with
        | Some v => (key, v) :: go r
        | None => go r
        end
    end.

Lemma new_value_dict old nv coll ch : new_value (Site KDict old nv coll ch) = Some (PDict (nv_children ch)).
Proof. reflexivity. Qed.

Lemma nv_children_eq acc : nv_children (eq_children acc) = map (fun kx => (fst kx, PAtom (snd kx))) acc.
Proof.
  induction acc as [|[k x] acc IH]; [reflexivity|].
  unfold eq_children. cbn [map fst snd nv_children new_value]. fold nv_children. fold (eq_children acc).
  rewrite IH. reflexivity.
Qed.

Lemma map_fst_add_kv acc kx : map fst (add_kv acc kx) = add_new (map fst acc) (fst kx).
Proof.
  unfold add_kv, add_new. rewrite assoc_zmem. destruct (assoc (fst kx) acc); [reflexivity|].
  rewrite map_app. reflexivity.
Qed.

Lemma map_fst_fold_add_kv : forall kxs acc,
  map fst (fold_left add_kv kxs acc) = fold_left add_new (map fst kxs) (map fst acc).
Proof.
  induction kxs as [|kx kxs IH]; intros acc; [reflexivity|].
  cbn [fold_left map]. rewrite IH, map_fst_add_kv. reflexivity.
Qed.

Lemma first_bindings_keys kxs : map fst (first_bindings kxs) = dedup (map fst kxs).
Proof. unfold first_bindings. rewrite map_fst_fold_add_kv. apply fold_add_new_nil. Qed.

Lemma assoc_fold_add_kv k : forall kxs acc,
  assoc k (fold_left add_kv kxs acc) = match assoc k acc with Some v => Some v | None => assoc k kxs end.
Proof.
  induction kxs as [|[k1 x1] kxs IH]; intros acc; [cbn; destruct (assoc k acc); reflexivity|].
  cbn [fold_left]. rewrite IH. unfold add_kv. cbn [fst assoc].
  destruct (assoc k acc) as [v|] eqn:Hk.
  - destruct (assoc k1 acc); [rewrite Hk; reflexivity|]. rewrite assoc_app, Hk. reflexivity.
  - destruct (Z.eqb_spec k k1) as [E|E].
    + subst k1. rewrite Hk, assoc_app, Hk. cbn [assoc]. rewrite Z.eqb_refl. reflexivity.
    + destruct (assoc k1 acc); [rewrite Hk; reflexivity|]. rewrite assoc_app, Hk. cbn [assoc].
      destruct (Z.eqb_spec k k1) as [E'|_]; [contradiction|reflexivity].
Qed.

Lemma first_bindings_assoc k kxs : assoc k (first_bindings kxs) = assoc k kxs.
Proof. unfold first_bindings. rewrite assoc_fold_add_kv. reflexivity. Qed.

(* every pair of the script carries the first value requested for its key *)
Definition key_consistent (kxs : list (Z * Z)) : bool :=
  forallb (fun kx => match assoc (fst kx) kxs with Some x0 => snd kx =? x0 | None => false end) kxs.

Theorem create_satisfies_getitem : forall fixed F kxs c,
  kxs <> [] -> f_create F = true ->
  let s1 := r_site (run fixed F (fresh None) (get_eq_ops kxs) c) in
  exists kvs,
    value_after F s1 = Some (PDict kvs) /\ new_value s1 = Some (PDict kvs) /\
    src_after F s1 = Some (canon_src (PDict kvs)) /\
    map fst kvs = dedup (map fst kxs) /\
    (forall k, assoc k kvs = option_map PAtom (assoc k kxs)) /\
    (key_consistent kxs = true -> Forall (fun o => plain_op o (PDict kvs) = Some true) (get_eq_ops kxs)).
Proof.
  intros fixed F kxs c Hne Hcr s1. subst s1.
  change (fresh None) with (Site KUndecided None None [] (eq_children [])).
  rewrite run_get_eq_site by (left; reflexivity). fold (first_bindings kxs).
  destruct kxs as [|kx0 kxs0]; [congruence|]. set (kxs := kx0 :: kxs0) in *.
  set (acc := first_bindings kxs).
  exists (map (fun kx => (fst kx, PAtom (snd kx))) acc).
  assert (Hnv : new_value (Site KDict None None [] (eq_children acc)) = Some (PDict (map (fun kx => (fst kx, PAtom (snd kx))) acc)))
    by (rewrite new_value_dict, nv_children_eq; reflexivity).
  assert (Hacc : acc <> []).
  { intros E. assert (H : assoc (fst kx0) acc = assoc (fst kx0) kxs) by apply first_bindings_assoc.
    rewrite E in H. subst kxs. cbn [assoc] in H. destruct kx0 as [k0 x0]. cbn [fst] in H. rewrite Z.eqb_refl in H. discriminate H. }
  assert (Hva : value_after F (Site KDict None None [] (eq_children acc)) = Some (PDict (map (fun kx => (fst kx, PAtom (snd kx))) acc))).
  { cbn [value_after]. rewrite Hcr. cbn [cats]. rewrite Hnv.
    destruct acc as [|a acc']; [congruence|]. cbn [map]. reflexivity. }
  split; [exact Hva|]. split; [exact Hnv|]. split; [cbn [src_after]; rewrite Hva; reflexivity|].
  split; [rewrite map_map; cbn [fst]; apply first_bindings_keys|].
  assert (Hassoc : forall k, assoc k (map (fun kx : Z * Z => (fst kx, PAtom (snd kx))) acc) = option_map PAtom (assoc k kxs))
    by (intros k; rewrite (assoc_map PAtom k acc); unfold acc; rewrite first_bindings_assoc; reflexivity).
  split; [exact Hassoc|].
  intros Hcons. unfold key_consistent in Hcons. rewrite forallb_forall in Hcons.
  unfold get_eq_ops. rewrite Forall_forall. intros o Ho. apply in_map_iff in Ho. destruct Ho as [kx [E Hkx]]. subst o.
  cbn [plain_op]. rewrite Hassoc. specialize (Hcons kx Hkx).
  destruct (assoc (fst kx) kxs) as [x0|]; [|discriminate Hcons]. cbn [option_map plain_op]. rewrite Hcons. reflexivity.
Qed.

Example create_satisfies_getitem_ex :
  let kxs := [(4, 0); (7, 1); (4, 0); (1, 5); (7, 1)] in
  key_consistent kxs = true /\
  value_after create_only (r_site (run true create_only (fresh None) (get_eq_ops kxs) zero))
  = Some (PDict [(4, PAtom 0); (7, PAtom 1); (1, PAtom 5)]).
Proof. vm_compute. split; reflexivity. Qed.

(* ------------------------------------------------------------------ W5 for dicts *)

(* T12 for nested scripts: an operation that holds against the old value leaves the counters alone
   (any flags, both trees) *)
Lemma step_good_counters fixed F : forall o s src c,
  s_old s = Some src -> wshape s -> site_compat s o = true ->
  plain_op o (src_val src) = Some true ->
  snd (step fixed F s o c) = c.
Proof.
  induction o as [x|x|x|x|key o' IH]; intros [k old nv coll ch] src c Hold Hw Hsc Hp;
    cbn [s_old] in Hold; subst old; rewrite site_compat_unfold in Hsc;
    apply andb_true_iff in Hsc; destruct Hsc as [Hk Hcc]; apply kind_ok_guard in Hk.
  - destruct src as [z cn|l|kvs]; try discriminate Hp.
    pose proof (step_flat_counters fixed F KEq k (SAtom z cn) nv coll ch x c eq_refl Hk) as Hr.
    unfold holds in Hr. cbn [kop] in Hr. rewrite Hp in Hr. exact Hr.
  - destruct src as [z cn|l|kvs]; try discriminate Hp.
    pose proof (step_flat_counters fixed F KMin k (SAtom z cn) nv coll ch x c eq_refl Hk) as Hr.
    unfold holds in Hr. cbn [kop] in Hr. rewrite Hp in Hr. exact Hr.
  - destruct src as [z cn|l|kvs]; try discriminate Hp.
    pose proof (step_flat_counters fixed F KMax k (SAtom z cn) nv coll ch x c eq_refl Hk) as Hr.
    unfold holds in Hr. cbn [kop] in Hr. rewrite Hp in Hr. exact Hr.
  - destruct src as [z cn|l|kvs]; try discriminate Hp.
    pose proof (step_flat_counters fixed F KColl k (SList l) nv coll ch x c eq_refl Hk) as Hr.
    unfold holds in Hr. cbn [kop] in Hr. rewrite Hp in Hr. exact Hr.
  - destruct src as [z cn|l|kvs]; try discriminate Hp.
    rewrite src_val_dict in Hp. cbn [plain_op] in Hp. rewrite assoc_map in Hp.
    destruct (assoc key kvs) as [v|] eqn:Hv; [|discriminate Hp]. cbn [option_map] in Hp.
    rewrite step_OGet.
    replace (negb (kind_eqb k KUndecided) && negb (kind_eqb k KDict)) with false
      by (destruct Hk; subst k; reflexivity).
    cbn [dictish]. apply wshape_unfold in Hw. destruct Hw as [_ Hch].
    cbn [child_compat] in Hcc.
    destruct (assoc key ch) as [child|] eqn:Hc.
    + apply assoc_In in Hc. rewrite Forall_forall in Hch. destruct (Hch _ Hc) as [Hco Hcw]. cbn [fst snd] in *.
      assert (Hco' : s_old child = Some v) by (rewrite Hco; unfold child_old; cbn [dict_kvs]; exact Hv).
      pose proof (IH child v c Hco' Hcw Hcc Hp) as Hr.
      destruct (step fixed F child o' c) as [[child' r] c2]. exact Hr.
    + unfold child_old. cbn [dict_kvs]. rewrite Hv.
      pose proof (IH (fresh (Some v)) v c eq_refl (wshape_fresh _) (site_compat_fresh _ _) Hp) as Hr.
      destruct (step fixed F (fresh (Some v)) o' c) as [[child' r] c2]. exact Hr.
Qed.

Lemma run_good_counters fixed F src : forall ops s c,
  s_old s = Some src -> wshape s ->
  Forall (fun o => site_compat s o = true) ops -> wf_ops ops = true ->
  Forall (fun o => plain_op o (src_val src) = Some true) ops ->
  r_counters (run fixed F s ops c) = c.
Proof.
  induction ops as [|o r IH]; intros s c Hold Hw Hsc Hwf Hdef; [reflexivity|].
  inversion Hsc as [|o1 r1 Hsco Hscr]; subst o1 r1.
  inversion Hdef as [|o1 r1 Hdo Hdr]; subst o1 r1.
  cbn [wf_ops] in Hwf. apply andb_true_iff in Hwf. destruct Hwf as [Hcp Hwfr].
  rewrite run_cons. unfold r_counters at 1. cbn [snd].
  rewrite (step_good_counters fixed F o s src c Hold Hw Hsco Hdo).
  apply IH; try assumption.
  - rewrite step_old. exact Hold.
  - apply step_wshape. exact Hw.
  - rewrite forallb_forall in Hcp. rewrite Forall_forall in *. intros o2 Ho2.
    apply step_site_compat; [apply Hcp, Ho2|apply Hscr, Ho2].
Qed.

(* nested form of T12 *)
Theorem good_snapshots_never_counted_nested : forall fixed F src ops c,
  wf_ops ops = true ->
  Forall (fun o => plain_op o (src_val src) = Some true) ops ->
  r_counters (run fixed F (fresh (Some src)) ops c) = c.
Proof.
  intros fixed F src ops c Hwf Hdef. apply (run_good_counters fixed F src); try assumption.
  - reflexivity.
  - apply wshape_fresh.
  - rewrite Forall_forall. intros o _. apply site_compat_fresh.
Qed.

Lemma wf_get_eq_ops : forall kxs, wf_ops (get_eq_ops kxs) = true.
Proof.
  induction kxs as [|[k x] kxs IH]; [reflexivity|].
  unfold get_eq_ops. cbn [map wf_ops fst snd]. fold (get_eq_ops kxs). rewrite IH, andb_true_r.
  apply forallb_forall. intros o Ho. unfold get_eq_ops in Ho. apply in_map_iff in Ho.
  destruct Ho as [[k2 x2] [E _]]. subst o. cbn [compat fst snd]. destruct (k =? k2); reflexivity.
Qed.

Theorem created_dict_second_run_passes : forall fixed1 fixed2 F F2 kxs c1 c2,
  kxs <> [] -> f_create F = true -> key_consistent kxs = true ->
  let s1 := r_site (run fixed1 F (fresh None) (get_eq_ops kxs) c1) in
  forall v, value_after F s1 = Some v ->
  r_results (run fixed2 noflags (fresh (Some (canon_src v))) (get_eq_ops kxs) c2)
  = map (fun _ => RBool true) (get_eq_ops kxs) /\
  r_counters (run fixed2 F2 (fresh (Some (canon_src v))) (get_eq_ops kxs) c2) = c2.
Proof.
  intros fixed1 fixed2 F F2 kxs c1 c2 Hne Hcr Hcons s1 v Hv. subst s1.
  destruct (create_satisfies_getitem fixed1 F kxs c1 Hne Hcr) as [kvs [Hv' [_ [_ [_ [_ Hall]]]]]].
  cbv zeta in Hv'. rewrite Hv' in Hv. inversion Hv; subst v. specialize (Hall Hcons).
  assert (Hall' : Forall (fun o => plain_op o (src_val (canon_src (PDict kvs))) = Some true) (get_eq_ops kxs))
    by (rewrite src_val_canon; exact Hall).
  split.
  - rewrite noflags_transparent; [|apply wf_get_eq_ops|].
    + apply map_ext_in. intros o Ho. rewrite Forall_forall in Hall'. rewrite (Hall' o Ho). reflexivity.
    + eapply Forall_impl; [|exact Hall']. intros o Ho. rewrite Ho. discriminate.
  - apply good_snapshots_never_counted_nested; [apply wf_get_eq_ops|exact Hall'].
Qed.

Example created_dict_second_run_passes_ex :
  let kxs := [(4, 0); (7, 1); (4, 0); (1, 5); (7, 1)] in
  let v := PDict [(4, PAtom 0); (7, PAtom 1); (1, PAtom 5)] in
  r_results (run false noflags (fresh (Some (canon_src v))) (get_eq_ops kxs) zero)
  = [RBool true; RBool true; RBool true; RBool true; RBool true] /\
  r_counters (run false allF (fresh (Some (canon_src v))) (get_eq_ops kxs) zero) = zero.
Proof. vm_compute. split; reflexivity. Qed.

(* without consistency per key the created dict keeps the first value and the later comparison fails *)
Theorem create_getitem_inconsistent_refuted :
  exists kxs, key_consistent kxs = false /\
    forall v, value_after create_only (r_site (run true create_only (fresh None) (get_eq_ops kxs) zero)) = Some v ->
    r_results (run true noflags (fresh (Some (canon_src v))) (get_eq_ops kxs) zero) <> map (fun _ => RBool true) (get_eq_ops kxs).
Proof.
  exists [(1, 5); (1, 6)]. split; [reflexivity|]. intros v Hv. vm_compute in Hv. inversion Hv; subst v.
  vm_compute. discriminate.
Qed.

(* ------------------------------------------------------------------ src_after is a source of value_after (all sites) *)

Definition chsrc (F : flags) : list (Z * site) -> list (Z * option src) :=
  fix gc (l : list (Z * site)) : list (Z * option src) :=
    match l with [] => [] | (key, child) :: r => (key, src_after F child) :: gc r end.

Definition dict_kept_src (F : flags) (chs : list (Z * option src)) : list (Z * src) -> list (Z * src) :=
  fix go (l : list (Z * src)) : list (Z * src) :=
    match l with
    | [] => []
    | (key, v) :: r =>
        match assoc key chs with
        | Some (Some w) => (key, w) :: go r
        | Some None => (key, v) :: go r
        | None => if f_trim F then go r else (key, v) :: go r
        end
    end.

Definition dict_added_src (kvs : list (Z * src)) : list (Z * site) -> list (Z * src) :=
  fix go (l : list (Z * site)) : list (Z * src) :=
    match l with
    | [] => []
    | (key, child) :: r =>
        match assoc key kvs, new_value child with
        | None, Some w => (key, canon_src w) :: go r
        | _, _ => go r
        end
    end.

Lemma src_after_dict F kvs nv coll ch :
  src_after F (Site KDict (Some (SDict kvs)) nv coll ch) =
  Some (SDict (dict_kept_src F (chsrc F ch) kvs ++ (if f_create F then dict_added_src kvs ch else []))).
Proof. reflexivity. Qed.

Lemma assoc_chsrc F key ch : assoc key (chsrc F ch) = option_map (src_after F) (assoc key ch).
Proof.
  induction ch as [|[k' c'] ch IH]; cbn [assoc chsrc]; [reflexivity|].
  destruct (key =? k'); [reflexivity|exact IH].
Qed.

Definition sv_entry (kv : Z * src) : Z * pv := (fst kv, src_val (snd kv)).

Lemma dict_added_src_val kvs : forall ch, map sv_entry (dict_added_src kvs ch) = dict_added kvs ch.
Proof.
  induction ch as [|[key c] ch IH]; [reflexivity|].
  cbn [dict_added_src dict_added]. fold (dict_added_src kvs) (dict_added kvs).
  destruct (assoc key kvs); [exact IH|]. destruct (new_value c) as [w|]; [|exact IH].
  cbn [map]. unfold sv_entry at 1. cbn [fst snd]. rewrite src_val_canon, IH. reflexivity.
Qed.

Theorem src_after_val : forall F s, option_map src_val (src_after F s) = value_after F s.
Proof.
  intros F s. induction s as [k old nv coll ch IH] using site_nested_ind.
  destruct old as [o|].
  2: { cbn [src_after]. destruct (value_after F (Site k None nv coll ch)) as [v|]; cbn [option_map];
       rewrite ?src_val_canon; reflexivity. }
  destruct k, o as [z cn|l|kvs].
  18: { (* dict *)
    rewrite src_after_dict, value_after_dict. cbn [option_map]. rewrite src_val_dict. fold sv_entry.
    rewrite map_app. do 3 f_equal.
    - (* kept *)
      rewrite Forall_forall in IH. induction kvs as [|[key v] r IHr]; [reflexivity|].
      cbn [dict_kept_src dict_kept]. fold (dict_kept_src F (chsrc F ch)) (dict_kept F (chvals F ch)).
      rewrite assoc_chsrc, assoc_chvals.
      destruct (assoc key ch) as [c|] eqn:Hc; cbn [option_map].
      + apply assoc_In in Hc. specialize (IH _ Hc). cbn [snd] in IH. rewrite <- IH.
        destruct (src_after F c) as [w|]; cbn [option_map map]; rewrite IHr; reflexivity.
      + destruct (f_trim F); cbn [map]; rewrite IHr; reflexivity.
    - destruct (f_create F); [apply dict_added_src_val|reflexivity]. }
  14: { (* list *)
    cbn [src_after value_after option_map src_val]. rewrite map_app, map_fst_upd. do 3 f_equal.
    - destruct (f_trim F); [apply (filter_map_fst (fun v => zmem v coll))|reflexivity].
    - destruct (f_fix F); [apply map_fst_canon|reflexivity]. }
  all: cbn [src_after value_after option_map]; try reflexivity;
    try (destruct (f_update F); rewrite ?src_val_canon; reflexivity);
    destruct nv as [n|]; try reflexivity;
    repeat (match goal with |- context [if ?b then _ else _] => destruct b end; cbn [andb option_map]); reflexivity.
Qed.

(* ------------------------------------------------------------------ *)
Print Assumptions src_val_canon.
Print Assumptions canon_src_no_updates.
Print Assumptions src_after_val.
Print Assumptions src_after_val_flat.
Print Assumptions run_flat_site.
Print Assumptions good_script_passes.
Print Assumptions second_run_noop_flat.                       (* W1 *)
Print Assumptions second_run_noop_inconsistent_eq_refuted.
Print Assumptions rerun_same_flags_stable_flat.               (* W2 *)
Print Assumptions two_runs_compose_flat.
Print Assumptions stage_compose.
Print Assumptions lstage_compose.
Print Assumptions single_category_runs_confluent_flat.        (* W3 *)
Print Assumptions runs_confluent_flat.
Print Assumptions runs_order_irrelevant_flat.
Print Assumptions create_satisfies_op_flat.                   (* W4 *)
Print Assumptions create_satisfies_getitem.
Print Assumptions created_snapshot_second_run_passes.         (* W5 *)
Print Assumptions created_dict_second_run_passes.
Print Assumptions create_getitem_inconsistent_refuted.
Print Assumptions good_snapshots_never_counted_nested.
