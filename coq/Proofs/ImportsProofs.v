(* Proofs about Model/Imports.v: the inserted import line stands behind the docstring and every `from __future__` import of a
   well-formed module and in front of every statement that is not an import. *)
From Coq Require Import List Arith Bool Lia.
Import ListNotations.
From V Require Import Model.Imports.

Definition stmt_eq_doc (x : stmt) : {x = SDoc} + {x <> SDoc}.
Proof. destruct x; [left; reflexivity| | |]; right; discriminate. Defined.

Lemma lead_imports_le : forall l, lead_imports l <= length l.
Proof. induction l as [|s r IH]; [apply le_n|]. cbn [lead_imports length]. destruct (is_import s); lia. Qed.
Lemma insert_index_le : forall body, insert_index body <= length body.
Proof.
  intros [|s r]; [apply le_n|]. destruct s; cbn [insert_index]; try apply lead_imports_le. cbn [length]. pose proof (lead_imports_le r). lia.
Qed.

(* everything in front of the inserted line is an import - except a docstring in the very first place *)
Lemma lead_imports_prefix : forall l i s, i < lead_imports l -> nth_error l i = Some s -> is_import s = true.
Proof.
  induction l as [|x r IH]; intros i s Hi Hn; [cbn in Hi; lia|]. cbn [lead_imports] in Hi. destruct (is_import x) eqn:Ex; [|lia].
  destruct i as [|i]; cbn [nth_error] in Hn; [injection Hn as <-; exact Ex|]. apply (IH i s); [lia|exact Hn].
Qed.
Theorem before_insertion_only_imports : forall body i s, i < insert_index body -> nth_error body i = Some s ->
  is_import s = true \/ (i = 0 /\ s = SDoc).
Proof.
  intros [|x r] i s Hi Hn; [cbn in Hi; lia|].
  destruct x; cbn [insert_index] in Hi; try (left; apply (lead_imports_prefix _ i s Hi Hn)).
  destruct i as [|i]; cbn [nth_error] in Hn; [right; split; [reflexivity|injection Hn as <-; reflexivity]|].
  left. apply (lead_imports_prefix r i s); [lia|exact Hn].
Qed.

(* C01: every statement that is not an import (a module-level snapshot, a class, a test ...) comes after the inserted line, so the
   imported name is bound before any generated code that uses it runs - wherever further imports stand below *)
Lemma lead_imports_stop : forall l i, nth_error l i = Some SOther -> lead_imports l <= i.
Proof.
  induction l as [|x r IH]; intros i Hn; [destruct i; discriminate|]. cbn [lead_imports]. destruct (is_import x) eqn:Ex; [|lia].
  destruct i as [|i]; cbn [nth_error] in Hn; [injection Hn as ->; discriminate|]. specialize (IH i Hn). lia.
Qed.
Theorem code_after_insertion : forall body i, nth_error body i = Some SOther -> insert_index body <= i.
Proof.
  intros [|x r] i Hn; [destruct i; discriminate|].
  destruct x; cbn [insert_index]; try apply (lead_imports_stop _ i Hn).
  destruct i as [|i]; cbn [nth_error] in Hn; [discriminate|]. pose proof (lead_imports_stop r i Hn). lia.
Qed.
(* a docstring that is not the first statement is an ordinary expression statement: the walk stops there as well *)
Lemma lead_imports_stop_doc : forall l i, nth_error l i = Some SDoc -> lead_imports l <= i.
Proof.
  induction l as [|x r IH]; intros i Hn; [destruct i; discriminate|]. cbn [lead_imports]. destruct (is_import x) eqn:Ex; [|lia].
  destruct i as [|i]; cbn [nth_error] in Hn; [injection Hn as ->; discriminate|]. specialize (IH i Hn). lia.
Qed.

(* C03: the module stays valid with respect to Python's placement rules: the docstring stays first and no `from __future__` import
   ends up behind an ordinary statement *)
Lemma no_future_app : forall a b, no_future (a ++ b) = no_future a && no_future b.
Proof. induction a as [|x a IH]; intros b; [reflexivity|]. destruct x; cbn [app no_future andb]; try apply IH. reflexivity. Qed.
Lemma no_future_skipn : forall n l, no_future l = true -> no_future (skipn n l) = true.
Proof. induction n as [|n IH]; intros l H; [exact H|]. destruct l as [|x l]; [reflexivity|]. cbn [skipn]. apply IH. destruct x; cbn [no_future] in H; try exact H. discriminate. Qed.

Lemma futures_first_insert : forall l, futures_first l = true ->
  futures_first (firstn (lead_imports l) l ++ [SImport] ++ skipn (lead_imports l) l) = true.
Proof.
  induction l as [|x r IH]; intros H; [reflexivity|]. cbn [lead_imports]. destruct x; cbn [is_import].
  - (* SDoc: not an import, nothing consumed *) cbn [firstn skipn app futures_first no_future] in *. exact H.
  - (* SFuture *) cbn [firstn skipn app futures_first] in *. apply IH. exact H.
  - (* SImport: from here on there is no future import *)
    cbn [firstn skipn app futures_first no_future] in *. rewrite no_future_app.
    assert (Hf : no_future (firstn (lead_imports r) r) = true).
    { clear IH. revert H. generalize (lead_imports r) as n. induction r as [|y r IHr]; intros n H; [destruct n; reflexivity|].
      destruct n as [|n]; [reflexivity|]. cbn [firstn]. destruct y; cbn [no_future] in *; try (apply IHr; exact H). discriminate. }
    rewrite Hf. cbn [andb app no_future]. apply no_future_skipn. exact H.
  - cbn [firstn skipn app futures_first no_future] in *. exact H.
Qed.
Lemma wf_nodoc : forall l, hd_error l <> Some SDoc -> wf_module l = futures_first l.
Proof. intros [|x r] H; [reflexivity|]. destruct x; try reflexivity. exfalso. apply H. reflexivity. Qed.
Theorem ensure_import_wf : forall body, wf_module body = true -> wf_module (ensure_import body) = true.
Proof.
  intros [|x r] H; [reflexivity|]. unfold ensure_import.
  destruct (stmt_eq_doc x) as [->|Hx].
  - cbn [insert_index firstn skipn app wf_module]. cbn [wf_module] in H. apply futures_first_insert. exact H.
  - assert (Ei : insert_index (x :: r) = lead_imports (x :: r)) by (destruct x; try reflexivity; exfalso; apply Hx; reflexivity).
    rewrite Ei. rewrite wf_nodoc in H by (cbn; intros E; injection E as E; exact (Hx E)).
    rewrite wf_nodoc; [apply futures_first_insert; exact H|].
    cbn [lead_imports]. destruct (is_import x); cbn [firstn skipn app hd_error]; intros E; injection E as E; [exact (Hx E)|discriminate].
Qed.
(* the docstring stays the first statement *)
Theorem docstring_stays_first : forall r, hd_error (ensure_import (SDoc :: r)) = Some SDoc.
Proof. intros r. reflexivity. Qed.

(* nothing else changes: removing the inserted line gives the module back *)
Theorem ensure_import_only_inserts : forall body,
  firstn (insert_index body) (ensure_import body) = firstn (insert_index body) body /\
  skipn (S (insert_index body)) (ensure_import body) = skipn (insert_index body) body.
Proof.
  intros body. unfold ensure_import. pose proof (insert_index_le body) as Hle.
  assert (Hl : length (firstn (insert_index body) body) = insert_index body) by (apply firstn_length_le; exact Hle).
  split.
  - rewrite firstn_app, Hl, Nat.sub_diag. cbn [firstn]. rewrite app_nil_r. rewrite <- Hl at 1. apply firstn_all.
  - rewrite skipn_app, Hl. replace (S (insert_index body) - insert_index body) with 1 by lia.
    rewrite (skipn_all2 (firstn (insert_index body) body)) by (rewrite Hl; lia). reflexivity.
Qed.

(* non-vacuity: docstring, future import, two imports, a module-level snapshot, a late import, a test *)
Example imports_example :
  ensure_import [SDoc; SFuture; SImport; SImport; SOther; SImport; SOther] = [SDoc; SFuture; SImport; SImport; SImport; SOther; SImport; SOther]
  /\ wf_module [SDoc; SFuture; SImport; SImport; SOther; SImport; SOther] = true.
Proof. split; reflexivity. Qed.

(* ---- whether the line is needed ---- *)
Lemma existsb_app_mid : forall (f : estmt -> bool) a x b, f x = true -> existsb f (a ++ [x] ++ b) = true.
Proof. intros f a x b H. rewrite existsb_app. cbn [app existsb]. rewrite H. apply orb_true_r. Qed.

(* C01: after ensure_import the module has a top-level import of the name - whatever nested imports it contains *)
Theorem ensure_name_binds : forall body, contains_import (ensure_name body) = true.
Proof.
  intros body. unfold ensure_name. destruct (contains_import body) eqn:E; [exact E|].
  unfold contains_import. apply existsb_app_mid. reflexivity.
Qed.
(* the line is inserted exactly when no top-level import exists; nested ones do not count *)
Theorem ensure_name_noop_iff : forall body, ensure_name body = body <-> contains_import body = true.
Proof.
  intros body. split.
  - intros H. rewrite <- H. apply ensure_name_binds.
  - intros H. unfold ensure_name. rewrite H. reflexivity.
Qed.
(* C08: a second run inserts nothing *)
Theorem ensure_name_idempotent : forall body, ensure_name (ensure_name body) = ensure_name body.
Proof. intros body. apply ensure_name_noop_iff. apply ensure_name_binds. Qed.
(* when the line is inserted it stands in front of all code (code_after_insertion), and the rest of the module is unchanged *)
Theorem ensure_name_position : forall body, contains_import body = false ->
  map fst (ensure_name body) = ensure_import (map fst body).
Proof.
  intros body H. unfold ensure_name, ensure_import. rewrite H. rewrite !map_app, firstn_map, skipn_map. reflexivity.
Qed.
Example ensure_name_nested_example :
  ensure_name [(SImport, BNone); (SOther, BNested); (SOther, BNone)] = [(SImport, BNone); (SImport, BTop); (SOther, BNested); (SOther, BNone)]
  /\ ensure_name [(SImport, BNone); (SOther, BNone); (SImport, BTop)] = [(SImport, BNone); (SOther, BNone); (SImport, BTop)].
Proof. split; reflexivity. Qed.
