(* Proofs about Model/TreeAssign.v: repairing NESTED list / tuple snapshots of any depth and width.
   Stdlib only; no axioms. *)
From Coq Require Import List Arith ZArith Bool Lia.
Import ListNotations.
From V Require Import Model.Align Model.SnapOps Model.TreeAssign Proofs.AlignValid Proofs.AlignProofs Proofs.SeqAssignProofs Proofs.UnmanagedProofs.
Open Scope nat_scope.

Notation TV := (valid tree val elt_eqb).

(* ------------------------------------------------------------------------- the element walk as a named function *)
Fixpoint walk (asg : tree -> val -> rtree) (F : flags) (s : list dir) (os : list tree) (ns : list val) {struct s} : list rtree :=
  match s with
  | [] => []
  | (Dm | Dx) :: s' =>
      match os, ns with
      | o' :: os', n' :: ns' => asg o' n' :: walk asg F s' os' ns'
      | _, _ => []
      end
  | Di :: s' =>
      match ns with
      | n' :: ns' => (if f_fix F then [RGen n'] else []) ++ walk asg F s' os ns'
      | [] => []
      end
  | Dd :: s' =>
      match os with
      | o' :: os' => (if f_fix F then [] else [RKeep o']) ++ walk asg F s' os' ns
      | [] => []
      end
  | De :: _ => []
  end.

Lemma assign_S : forall f F o n,
  assign (S f) F o n =
  match o, n with
  | TSeq k olds, VSeq k' news =>
      if skind_eqb k k' then RSeq k (walk (assign f F) F (script olds news) olds news) else value_assign F o n
  | _, _ => value_assign F o n
  end.
Proof. intros f F o n. destruct o as [z c|i z|k olds]; destruct n as [m|k' news]; try reflexivity.
  cbn [assign]. destruct (skind_eqb k k'); [|reflexivity]. f_equal.
  generalize (script olds news) as s. intros s. revert olds news.
  induction s as [|d s IH]; intros olds news; [reflexivity|].
  destruct d; cbn [walk]; try reflexivity.
  - destruct olds as [|o' os']; [reflexivity|]. rewrite IH. reflexivity.
  - destruct news as [|n' ns']; [reflexivity|]. rewrite IH. reflexivity.
  - destruct olds as [|o' os']; [reflexivity|]. destruct news as [|n' ns']; [reflexivity|]. rewrite IH. reflexivity.
  - destruct olds as [|o' os']; [reflexivity|]. destruct news as [|n' ns']; [reflexivity|]. rewrite IH. reflexivity.
Qed.

(* ------------------------------------------------------------------------- equality of values *)
Section ValInd.
Variable P : val -> Prop.
Hypothesis HA : forall z, P (VAtom z).
Hypothesis HS : forall k l, Forall P l -> P (VSeq k l).
Fixpoint val_induction (v : val) : P v :=
  match v with
  | VAtom z => HA z
  | VSeq k l => HS k l ((fix go (l : list val) : Forall P l :=
                           match l with [] => Forall_nil _ | x :: r => Forall_cons x (val_induction x) (go r) end) l)
  end.
End ValInd.

Definition vlist_eqb : list val -> list val -> bool :=
  fix go (l m : list val) : bool :=
    match l, m with
    | [], [] => true
    | x :: l1, y :: m1 => val_eqb x y && go l1 m1
    | _, _ => false
    end.
Lemma val_eqb_seq : forall k l k' l', val_eqb (VSeq k l) (VSeq k' l') = skind_eqb k k' && vlist_eqb l l'.
Proof. reflexivity. Qed.

Lemma skind_eqb_eq : forall a b, skind_eqb a b = true <-> a = b.
Proof. intros [] []; cbn; split; intros H; try reflexivity; discriminate. Qed.

Lemma val_eqb_eq : forall a b, val_eqb a b = true <-> a = b.
Proof.
  induction a as [z|k l IH] using val_induction; intros [m|k' l'].
  - cbn [val_eqb]. rewrite Z.eqb_eq. split; congruence.
  - cbn [val_eqb]. split; discriminate.
  - cbn [val_eqb]. split; discriminate.
  - rewrite val_eqb_seq, andb_true_iff, skind_eqb_eq.
    assert (G : vlist_eqb l l' = true <-> l = l').
    { revert l'. induction IH as [|x r Hx Hr IHr]; intros [|y m]; cbn [vlist_eqb]; try (split; [reflexivity|reflexivity]); try (split; discriminate).
      rewrite andb_true_iff, Hx, IHr. split; [intros [-> ->]; reflexivity|intros H; injection H as -> ->; split; reflexivity]. }
    rewrite G. split; [intros [-> ->]; reflexivity|intros H; injection H as -> ->; split; reflexivity].
Qed.
Lemma val_eqb_refl : forall a, val_eqb a a = true.
Proof. intros a. apply val_eqb_eq. reflexivity. Qed.

(* ------------------------------------------------------------------------- value_assign *)
(* no user-controlled part anywhere inside *)
Fixpoint managed (t : tree) : bool :=
  match t with
  | TLeaf _ _ => true
  | TUnm _ _ => false
  | TSeq _ l => forallb managed l
  end.
Lemma managed_not_unm : forall o, managed o = true -> is_unm o = false.
Proof. intros [z c|i z|k l] H; try reflexivity. discriminate. Qed.
Fixpoint managed_no_unm (o : tree) : managed o = true -> has_unm o = false.
Proof.
  destruct o as [z c|i z|k l]; intros H; [reflexivity|discriminate|].
  cbn [managed has_unm] in *. induction l as [|x r IH]; [reflexivity|]. cbn [forallb existsb] in *. apply andb_true_iff in H. destruct H as [Hx Hr].
  rewrite (managed_no_unm x Hx). cbn [orb]. apply IH. exact Hr.
Qed.

Lemma value_assign_fix : forall F o n, managed o = true -> f_fix F = true -> eval_r (value_assign F o n) = n.
Proof.
  intros F o n Hm HF. unfold value_assign. rewrite (managed_not_unm o Hm). rewrite HF. destruct (val_eqb (eval o) n) eqn:E; cbn [negb]; [|reflexivity].
  destruct (negb (canonical o) && f_update F); [reflexivity|]. cbn [eval_r]. apply val_eqb_eq. exact E.
Qed.
Lemma value_assign_nofix : forall F o n, f_fix F = false -> eval_r (value_assign F o n) = eval o.
Proof.
  intros F o n HF. unfold value_assign. destruct (is_unm o); [reflexivity|]. rewrite HF. destruct (val_eqb (eval o) n) eqn:E; cbn [negb]; [|reflexivity].
  destruct (negb (canonical o) && f_update F); [|reflexivity]. cbn [eval_r]. symmetry. apply val_eqb_eq. exact E.
Qed.
Lemma value_assign_keep_eq : forall F o n, f_update F = false -> elt_eqb o n = true -> value_assign F o n = RKeep o.
Proof. intros F o n HU E. unfold value_assign. destruct (is_unm o); [reflexivity|]. unfold elt_eqb in E. rewrite E, HU, andb_false_r. reflexivity. Qed.
Lemma value_assign_keep_noflags : forall F o n, f_fix F = false -> f_update F = false -> value_assign F o n = RKeep o.
Proof. intros F o n HF HU. unfold value_assign. destruct (is_unm o); [reflexivity|]. rewrite HF, HU, andb_false_r. destruct (negb (val_eqb (eval o) n)); reflexivity. Qed.

Lemma script_valid : forall olds news, TV (script olds news) olds news.
Proof. intros. unfold script. apply add_x_valid, align_valid. Qed.

Lemma depth_elt : forall k l o f, depth (TSeq k l) < S f -> In o l -> depth o < f.
Proof.
  intros k l o f H Hin. cbn [depth] in H. apply Nat.succ_lt_mono in H.
  induction l as [|x r IH]; [destruct Hin|]. cbn [fold_right] in H. destruct Hin as [->|Hin]; [lia|]. apply IH; [lia|exact Hin].
Qed.

(* ------------------------------------------------------------------------- (1) fix repairs every nested container *)
Lemma walk_fix_value : forall asg F s os ns, TV s os ns -> f_fix F = true ->
  (forall o n, In o os -> eval_r (asg o n) = n) -> map eval_r (walk asg F s os ns) = ns.
Proof.
  intros asg F s os ns H HF Ha.
  induction H as [|s o n os ns He H IH|s o os ns H IH|s n os ns H IH|s o n os ns H IH]; cbn [walk]; try rewrite HF; cbn [app map].
  - reflexivity.
  - rewrite Ha by (left; reflexivity). rewrite IH; [reflexivity|]. intros; apply Ha; right; assumption.
  - apply IH. intros; apply Ha; right; assumption.
  - cbn [eval_r]. rewrite IH; [reflexivity|exact Ha].
  - rewrite Ha by (left; reflexivity). rewrite IH; [reflexivity|]. intros; apply Ha; right; assumption.
Qed.

Theorem assign_fix_value : forall f F o n, depth o < f -> managed o = true -> f_fix F = true -> eval_r (assign f F o n) = n.
Proof.
  induction f as [|f IH]; intros F o n Hd Hm HF; [lia|]. rewrite assign_S.
  destruct o as [z c|i z|k olds]; destruct n as [m|k' news]; try (apply value_assign_fix; assumption).
  destruct (skind_eqb k k') eqn:Ek; [|apply value_assign_fix; assumption].
  apply skind_eqb_eq in Ek. subst k'. cbn [eval_r]. f_equal.
  apply walk_fix_value; [apply script_valid|exact HF|].
  intros o n Hin. apply IH; [exact (depth_elt k olds o f Hd Hin)| |exact HF].
  cbn [managed] in Hm. rewrite forallb_forall in Hm. apply Hm. exact Hin.
Qed.

Theorem tree_fix_value : forall F o n, managed o = true -> f_fix F = true -> eval_r (assign_tree F o n) = n.
Proof. intros F o n Hm HF. unfold assign_tree. apply assign_fix_value; [lia|exact Hm|exact HF]. Qed.

(* ------------------------------------------------------------------------- (2) without fix the value never changes *)
Lemma walk_nofix_value : forall asg F s os ns, TV s os ns -> f_fix F = false ->
  (forall o n, In o os -> eval_r (asg o n) = eval o) -> map eval_r (walk asg F s os ns) = map eval os.
Proof.
  intros asg F s os ns H HF Ha.
  induction H as [|s o n os ns He H IH|s o os ns H IH|s n os ns H IH|s o n os ns H IH]; cbn [walk]; try rewrite HF; cbn [app map].
  - reflexivity.
  - rewrite Ha by (left; reflexivity). rewrite IH; [reflexivity|]. intros; apply Ha; right; assumption.
  - cbn [eval_r]. rewrite IH; [reflexivity|]. intros; apply Ha; right; assumption.
  - apply IH. exact Ha.
  - rewrite Ha by (left; reflexivity). rewrite IH; [reflexivity|]. intros; apply Ha; right; assumption.
Qed.

Theorem assign_nofix_value : forall f F o n, f_fix F = false -> eval_r (assign f F o n) = eval o.
Proof.
  induction f as [|f IH]; intros F o n HF; [reflexivity|]. rewrite assign_S.
  destruct o as [z c|i z|k olds]; destruct n as [m|k' news]; try (apply value_assign_nofix; exact HF).
  destruct (skind_eqb k k') eqn:Ek; [|apply value_assign_nofix; exact HF].
  cbn [eval_r eval]. f_equal. apply walk_nofix_value; [apply script_valid|exact HF|].
  intros o n _. apply IH. exact HF.
Qed.

(* ------------------------------------------------------------------------- (3)/(4) what survives verbatim *)
(* the source text of the result, if no code was generated anywhere inside *)
Fixpoint verbatim (r : rtree) : option tree :=
  match r with
  | RKeep t => Some t
  | RGen _ => None
  | RSeq k l =>
      match (fix go (l : list rtree) : option (list tree) :=
               match l with
               | [] => Some []
               | x :: r => match verbatim x, go r with Some t, Some ts => Some (t :: ts) | _, _ => None end
               end) l with
      | Some ts => Some (TSeq k ts)
      | None => None
      end
  end.
Fixpoint verbatim_list (l : list rtree) : option (list tree) :=
  match l with
  | [] => Some []
  | x :: r => match verbatim x, verbatim_list r with Some t, Some ts => Some (t :: ts) | _, _ => None end
  end.
Lemma verbatim_seq : forall k l, verbatim (RSeq k l) = match verbatim_list l with Some ts => Some (TSeq k ts) | None => None end.
Proof.
  intros k l. cbn [verbatim].
  assert (E : (fix go (l : list rtree) : option (list tree) :=
               match l with
               | [] => Some []
               | x :: r => match verbatim x, go r with Some t, Some ts => Some (t :: ts) | _, _ => None end
               end) l = verbatim_list l).
  { induction l as [|x r IH]; [reflexivity|]. cbn [verbatim_list]. rewrite <- IH. reflexivity. }
  rewrite E. reflexivity.
Qed.

Lemma walk_noflags : forall asg F s os ns, TV s os ns -> f_fix F = false ->
  (forall o n, In o os -> verbatim (asg o n) = Some o) -> verbatim_list (walk asg F s os ns) = Some os.
Proof.
  intros asg F s os ns H HF Ha.
  induction H as [|s o n os ns He H IH|s o os ns H IH|s n os ns H IH|s o n os ns H IH]; cbn [walk]; try rewrite HF; cbn [app verbatim_list].
  - reflexivity.
  - rewrite Ha by (left; reflexivity). rewrite IH; [reflexivity|]. intros; apply Ha; right; assumption.
  - cbn [verbatim]. rewrite IH; [reflexivity|]. intros; apply Ha; right; assumption.
  - apply IH. exact Ha.
  - rewrite Ha by (left; reflexivity). rewrite IH; [reflexivity|]. intros; apply Ha; right; assumption.
Qed.

(* with neither fix nor update approved the whole text survives, whatever was observed *)
Theorem assign_noflags_identity : forall f F o n, f_fix F = false -> f_update F = false -> verbatim (assign f F o n) = Some o.
Proof.
  induction f as [|f IH]; intros F o n HF HU; [reflexivity|]. rewrite assign_S.
  destruct o as [z c|i z|k olds]; destruct n as [m|k' news]; try (rewrite value_assign_keep_noflags by assumption; reflexivity).
  destruct (skind_eqb k k') eqn:Ek; [|rewrite value_assign_keep_noflags by assumption; reflexivity].
  rewrite verbatim_seq. rewrite (walk_noflags (assign f F) F _ olds news (script_valid olds news) HF); [reflexivity|].
  intros o n _. apply IH; assumption.
Qed.

(* a script of matches only *)
Lemma walk_all_m : forall asg F os ns, Forall2 (fun o n => elt_eqb o n = true) os ns ->
  (forall o n, In o os -> elt_eqb o n = true -> verbatim (asg o n) = Some o) ->
  verbatim_list (walk asg F (repeat Dm (length os)) os ns) = Some os.
Proof.
  intros asg F os ns H Ha. induction H as [|o n os ns He H IH]; [reflexivity|].
  cbn [length repeat walk verbatim_list]. rewrite Ha; [|left; reflexivity|exact He].
  rewrite IH; [reflexivity|]. intros; apply Ha; [right; assumption|assumption].
Qed.

Lemma eval_seq_eq_inv : forall olds news, map eval olds = news -> Forall2 (fun o n => elt_eqb o n = true) olds news.
Proof.
  intros olds news <-. induction olds as [|o r IH]; cbn [map]; constructor; [|exact IH]. unfold elt_eqb. apply val_eqb_refl.
Qed.

(* C11 for nested containers: a subtree whose value is unchanged keeps its source text verbatim - at any depth, whatever
   else is approved except update (so hand-written leaves like `0+1` survive a fix of their siblings) *)
Theorem assign_equal_keeps_text : forall f F o n, f_update F = false -> elt_eqb o n = true -> verbatim (assign f F o n) = Some o.
Proof.
  induction f as [|f IH]; intros F o n HU He; [reflexivity|]. rewrite assign_S.
  destruct o as [z c|i z|k olds]; destruct n as [m|k' news]; try (rewrite value_assign_keep_eq by assumption; reflexivity).
  destruct (skind_eqb k k') eqn:Ek; [|rewrite value_assign_keep_eq by assumption; reflexivity].
  unfold elt_eqb in He. apply val_eqb_eq in He. cbn [eval] in He. injection He as _ He.
  pose proof (eval_seq_eq_inv olds news He) as HF2.
  rewrite verbatim_seq. unfold script.
  rewrite (align_refl_all_m tree val elt_eqb olds news HF2). rewrite add_x_all_m.
  rewrite (walk_all_m (assign f F) F olds news HF2); [reflexivity|].
  intros o n _ Hon. apply IH; assumption.
Qed.

(* the elements of the common prefix (by ==) of an edited container keep their text: first step of "prefix and suffix survive" *)
Theorem tree_equal_keeps_text : forall F o n, f_update F = false -> elt_eqb o n = true -> verbatim (assign_tree F o n) = Some o.
Proof. intros. unfold assign_tree. apply assign_equal_keeps_text; assumption. Qed.
Theorem tree_nofix_value : forall F o n, f_fix F = false -> eval_r (assign_tree F o n) = eval o.
Proof. intros. unfold assign_tree. apply assign_nofix_value. assumption. Qed.
Theorem tree_noflags_identity : forall F o n, f_fix F = false -> f_update F = false -> verbatim (assign_tree F o n) = Some o.
Proof. intros. unfold assign_tree. apply assign_noflags_identity; assumption. Qed.


(* ------------------------------------------------------------------------- (5) C10 at any depth: parts the user controls *)
Fixpoint unms (t : tree) : list nat :=
  match t with
  | TLeaf _ _ => []
  | TUnm i _ => [i]
  | TSeq _ l => flat_map unms l
  end.
Fixpoint unms_r (r : rtree) : list nat :=
  match r with
  | RKeep t => unms t
  | RGen _ => []
  | RSeq _ l => flat_map unms_r l
  end.

Lemma subseq_app : forall X (a b c d : list X), subseq a b -> subseq c d -> subseq (a ++ c) (b ++ d).
Proof.
  intros X a b c d H1 H2. induction H1 as [|x l1 l2 H IH|x l1 l2 H IH]; cbn [app]; [exact H2|constructor; exact IH|constructor; exact IH].
Qed.
Lemma subseq_nil_app : forall X (a b c : list X), subseq a c -> subseq a (b ++ c).
Proof. intros X a b c H. induction b as [|x b IH]; [exact H|]. cbn [app]. constructor. exact IH. Qed.

Lemma value_assign_unms : forall F o n, subseq (unms_r (value_assign F o n)) (unms o).
Proof.
  intros F o n. unfold value_assign. destruct (is_unm o); [apply subseq_refl|].
  destruct (negb (val_eqb (eval o) n)); [destruct (f_fix F)|destruct (negb (canonical o) && f_update F)]; cbn [unms_r]; try apply subseq_refl; apply subseq_nil_l.
Qed.

Lemma walk_unms : forall asg F s os ns,
  (forall o n, In o os -> subseq (unms_r (asg o n)) (unms o)) ->
  subseq (flat_map unms_r (walk asg F s os ns)) (flat_map unms os).
Proof.
  intros asg F s. induction s as [|d s IH]; intros os ns Ha; [apply subseq_nil_l|].
  destruct d; cbn [walk]; try apply subseq_nil_l.
  - (* d *) destruct os as [|o' os']; [apply subseq_nil_l|]. cbn [flat_map]. rewrite flat_map_app.
    destruct (f_fix F); cbn [flat_map app].
    + apply subseq_nil_app. apply IH. intros; apply Ha; right; assumption.
    + rewrite app_nil_r. cbn [unms_r]. apply subseq_app; [apply subseq_refl|]. apply IH. intros; apply Ha; right; assumption.
  - (* i *) destruct ns as [|n' ns']; [apply subseq_nil_l|]. rewrite flat_map_app.
    destruct (f_fix F); cbn [flat_map unms_r app]; apply IH; exact Ha.
  - (* m *) destruct os as [|o' os']; [apply subseq_nil_l|]. destruct ns as [|n' ns']; [apply subseq_nil_l|].
    cbn [flat_map]. apply subseq_app; [apply Ha; left; reflexivity|]. apply IH. intros; apply Ha; right; assumption.
  - (* x *) destruct os as [|o' os']; [apply subseq_nil_l|]. destruct ns as [|n' ns']; [apply subseq_nil_l|].
    cbn [flat_map]. apply subseq_app; [apply Ha; left; reflexivity|]. apply IH. intros; apply Ha; right; assumption.
Qed.

(* whatever is approved and whatever is observed: no code is ever generated for a user-controlled part, none is duplicated or
   reordered; the ones that remain are a subsequence of the old ones (the others vanished together with a deleted element or
   a replaced holder) - at ANY nesting depth *)
Theorem assign_unmanaged_subsequence : forall f F o n, subseq (unms_r (assign f F o n)) (unms o).
Proof.
  induction f as [|f IH]; intros F o n; [apply subseq_refl|]. rewrite assign_S.
  destruct o as [z c|i z|k olds]; destruct n as [m|k' news]; try apply value_assign_unms.
  destruct (skind_eqb k k'); [|apply value_assign_unms].
  cbn [unms_r unms]. apply walk_unms. intros o n _. apply IH.
Qed.

(* without fix nothing the user controls can disappear *)
Lemma walk_unms_nofix : forall asg F s os ns, valid tree val elt_eqb s os ns -> f_fix F = false ->
  (forall o n, In o os -> unms_r (asg o n) = unms o) ->
  flat_map unms_r (walk asg F s os ns) = flat_map unms os.
Proof.
  intros asg F s os ns H HF Ha.
  induction H as [|s o n os ns He H IH|s o os ns H IH|s n os ns H IH|s o n os ns H IH]; cbn [walk]; try rewrite HF; cbn [app flat_map].
  - reflexivity.
  - rewrite Ha by (left; reflexivity). rewrite IH; [reflexivity|]. intros; apply Ha; right; assumption.
  - cbn [unms_r]. rewrite IH; [reflexivity|]. intros; apply Ha; right; assumption.
  - apply IH. exact Ha.
  - rewrite Ha by (left; reflexivity). rewrite IH; [reflexivity|]. intros; apply Ha; right; assumption.
Qed.
(* without fix nothing the user controls disappears, at any depth *)
Theorem assign_unmanaged_kept_nofix : forall f F o n, f_fix F = false -> unms_r (assign f F o n) = unms o.
Proof.
  induction f as [|f IH]; intros F o n HF; [reflexivity|]. rewrite assign_S.
  destruct o as [z c|i z|k olds]; destruct n as [m|k' news].
  - unfold value_assign. cbn [is_unm]. rewrite HF. destruct (negb (val_eqb (eval (TLeaf z c)) (VAtom m))); [reflexivity|].
    destruct (negb (canonical (TLeaf z c)) && f_update F); reflexivity.
  - unfold value_assign. cbn [is_unm eval val_eqb negb]. rewrite HF. reflexivity.
  - reflexivity.
  - reflexivity.
  - unfold value_assign. cbn [is_unm eval val_eqb negb]. rewrite HF. reflexivity.
  - destruct (skind_eqb k k') eqn:Ek.
    + cbn [unms_r unms]. apply walk_unms_nofix; [apply script_valid|exact HF|]. intros o n _. apply IH. exact HF.
    + unfold value_assign. cbn [is_unm eval]. rewrite val_eqb_seq, Ek. cbn [andb negb]. rewrite HF. reflexivity.
Qed.

(* the result does not depend on the fuel once it exceeds the depth *)
Lemma walk_ext : forall asg1 asg2 F s os ns, (forall o n, In o os -> asg1 o n = asg2 o n) ->
  walk asg1 F s os ns = walk asg2 F s os ns.
Proof.
  intros asg1 asg2 F s. induction s as [|d s IH]; intros os ns H; [reflexivity|].
  destruct d; cbn [walk]; try reflexivity.
  - destruct os as [|o' os']; [reflexivity|]. f_equal. apply IH. intros; apply H; right; assumption.
  - destruct ns as [|n' ns']; [reflexivity|]. f_equal. apply IH. exact H.
  - destruct os as [|o' os']; [reflexivity|]. destruct ns as [|n' ns']; [reflexivity|]. f_equal; [apply H; left; reflexivity|].
    apply IH. intros; apply H; right; assumption.
  - destruct os as [|o' os']; [reflexivity|]. destruct ns as [|n' ns']; [reflexivity|]. f_equal; [apply H; left; reflexivity|].
    apply IH. intros; apply H; right; assumption.
Qed.
Theorem assign_fuel_irrelevant : forall f1 f2 F o n, depth o < f1 -> depth o < f2 -> assign f1 F o n = assign f2 F o n.
Proof.
  induction f1 as [|f1 IH]; intros f2 F o n H1 H2; [lia|]. destruct f2 as [|f2]; [lia|]. rewrite !assign_S.
  destruct o as [z c|i z|k olds]; destruct n as [m|k' news]; try reflexivity.
  destruct (skind_eqb k k'); [|reflexivity]. f_equal. apply walk_ext.
  intros o n Hin. apply IH; [exact (depth_elt k olds o f1 H1 Hin)|exact (depth_elt k olds o f2 H2 Hin)].
Qed.

(* non-vacuity: [[0+1, 2], (3, 4), 5] observed as [[1, 2, 9], (3, 4), 6] with fix only: the inner list gets an element, the hand-written 0+1
   and the equal tuple survive, the changed leaf is regenerated *)
Example nested_fix_example :
  let F := {| f_create := false; f_fix := true; f_trim := false; f_update := false |} in
  let o := TSeq KList [TSeq KList [TLeaf 1 false; TLeaf 2 true]; TSeq KTuple [TLeaf 3 true; TLeaf 4 true]; TLeaf 5 true] in
  let n := VSeq KList [VSeq KList [VAtom 1; VAtom 2; VAtom 9]; VSeq KTuple [VAtom 3; VAtom 4]; VAtom 6] in
  assign_tree F o n =
    RSeq KList [RSeq KList [RKeep (TLeaf 1 false); RKeep (TLeaf 2 true); RGen (VAtom 9)];
                RSeq KTuple [RKeep (TLeaf 3 true); RKeep (TLeaf 4 true)]; RGen (VAtom 6)]
  /\ eval_r (assign_tree F o n) = n.
Proof. split; vm_compute; reflexivity. Qed.
