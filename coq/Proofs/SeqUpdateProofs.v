(* Proofs about Model/SeqUpdate.v (token-level model of _change.generic_sequence_update).

   U1  seq_update_ok                        : correctness (needs the extra premise [gaps_clean], see
                                              [seq_update_ok_as_stated_refuted]); also
       seq_update_ok_fun / seq_update_spec  : same for arbitrary del / ins functions, Prop form
   U2  seq_update_noop (+ _strong)          : nothing to do, >= 2 elements: output = input, verbatim
       seq_update_single_drops_tail_trivia  : 1 element : the last gap is always regenerated
       seq_update_empty_drops_trivia        : 0 elements: everything between the braces is dropped
   U3  seq_update_keeps_untouched_span / _trivia, seq_update_keeps_head_gap, seq_update_keeps_tail_gap
   U4  one_tuple_comma_refuted              : the premise [ins_before_del = false] is necessary
   Stdlib only, no axioms. *)
From Coq Require Import List Arith Bool Lia.
Import ListNotations.
From V Require Import Model.SeqUpdate.

(* ------------------------------------------------------------------------------------------ *)
(** * Extra premise: gaps hold no element tokens *)

(* The header of the model says "the gaps g hold Comma and trivia", but [wf_input] does not
   enforce it: a gap such as [Comma; Old 7; Comma] passes [wf_input].  Such a gap is copied
   verbatim when untouched, so the result has an element that [expected_all] does not know. *)
Definition gap_clean (g : list tok) : bool := forallb (fun t => negb (is_elem t)) g.
Definition gaps_clean (c : cont) : bool := forallb (fun it => gap_clean (snd it)) (items c).

(* ------------------------------------------------------------------------------------------ *)
(** * Basic facts: filters, token equality, enum *)

Lemma elems_of_app a b : elems_of (a ++ b) = elems_of a ++ elems_of b.
Proof. apply filter_app. Qed.

Lemma no_triv_app a b : no_triv (a ++ b) = no_triv a ++ no_triv b.
Proof. apply filter_app. Qed.

Lemma tok_eqb_refl a : tok_eqb a a = true.
Proof. destruct a; simpl; auto using Nat.eqb_refl. Qed.

Lemma list_beq_refl a : list_beq a a = true.
Proof. induction a as [|x a IH]; simpl; [reflexivity|]. rewrite tok_eqb_refl, IH. reflexivity. Qed.

Lemma enum_app {X} (a b : list X) : forall i, enum i (a ++ b) = enum i a ++ enum (i + length a) b.
Proof.
  induction a as [|x a IH]; intros i; simpl.
  - rewrite Nat.add_0_r. reflexivity.
  - rewrite IH. replace (S i + length a) with (i + S (length a)) by lia. reflexivity.
Qed.

Definition is_nil {X} (l : list X) : bool := match l with [] => true | _ => false end.

(* ------------------------------------------------------------------------------------------ *)
(** * Comma structure *)

(* [wf_open l]: l = e (, e)*  -- non empty, no trailing comma *)
Fixpoint wf_open (l : list tok) : bool :=
  match l with
  | [] => false
  | e :: r => is_elem e && match r with
                           | [] => true
                           | Comma :: r' => wf_open r'
                           | _ => false end
  end.

Lemma wf_open_ind2 (P : list tok -> Prop) :
  (forall e, is_elem e = true -> P [e]) ->
  (forall e r, is_elem e = true -> wf_open r = true -> P r -> P (e :: Comma :: r)) ->
  forall l, wf_open l = true -> P l.
Proof.
  intros H1 H2.
  assert (Hn : forall n l, length l <= n -> wf_open l = true -> P l).
  { induction n as [|n IHn]; intros l Hlen Hwf.
    - destruct l as [|e r]; simpl in *; [discriminate | lia].
    - destruct l as [|e r]; [discriminate|].
      simpl in Hwf. apply andb_prop in Hwf. destruct Hwf as [He Hr].
      destruct r as [|c r']; [apply H1; exact He|].
      destruct c; try discriminate.
      apply H2; auto. apply IHn; auto. simpl in Hlen. lia. }
  intros l. apply (Hn (length l)). lia.
Qed.

Lemma wf_open_app a b :
  wf_open a = true -> wf_open b = true -> wf_open (a ++ Comma :: b) = true.
Proof.
  intros Ha Hb. revert a Ha.
  apply (wf_open_ind2 (fun a => wf_open (a ++ Comma :: b) = true)).
  - intros e He. simpl. rewrite He. exact Hb.
  - intros e r He Hr IH. simpl. rewrite He. exact IH.
Qed.

Lemma wf_seq_open_comma a r : wf_open a = true -> wf_seq (a ++ Comma :: r) = wf_seq r.
Proof.
  revert a. apply (wf_open_ind2 (fun a => wf_seq (a ++ Comma :: r) = wf_seq r)).
  - intros e He. simpl. rewrite He. reflexivity.
  - intros e r0 He Hr IH. simpl. rewrite He. exact IH.
Qed.

Lemma wf_open_wf_seq a : wf_open a = true -> wf_seq a = true.
Proof.
  revert a. apply (wf_open_ind2 (fun a => wf_seq a = true)).
  - intros e He. simpl. rewrite He. reflexivity.
  - intros e r He Hr IH. simpl. rewrite He. exact IH.
Qed.

Lemma wf_open_snoc_comma a : wf_open a = true -> wf_seq (a ++ [Comma]) = true.
Proof. intros Ha. rewrite wf_seq_open_comma by exact Ha. reflexivity. Qed.

Lemma trailing_comma_snoc x : trailing_comma (x ++ [Comma]) = true.
Proof. unfold trailing_comma. rewrite no_triv_app, rev_app_distr. reflexivity. Qed.

(* ------------------------------------------------------------------------------------------ *)
(** * Inserted code: [intersperse] of New tokens *)

Lemma intersperse_cons2 x y r : intersperse (x :: y :: r) = x :: Comma :: intersperse (y :: r).
Proof. reflexivity. Qed.

Lemma is_new_elem x : is_new x = true -> is_elem x = true.
Proof. destruct x; simpl; congruence. Qed.

Lemma is_new_no_triv x : is_new x = true -> no_triv [x] = [x].
Proof. destruct x; simpl; congruence. Qed.

Lemma elems_of_new l : forallb is_new l = true -> elems_of l = l.
Proof.
  induction l as [|x l IH]; simpl; intros H; [reflexivity|].
  apply andb_prop in H. destruct H as [Hx Hl].
  rewrite (is_new_elem _ Hx), IH by exact Hl. reflexivity.
Qed.

Lemma elems_of_intersperse l : forallb is_new l = true -> elems_of (intersperse l) = l.
Proof.
  induction l as [|x l IH]; intros H; [reflexivity|].
  simpl in H. apply andb_prop in H. destruct H as [Hx Hl].
  destruct l as [|y r].
  - simpl. rewrite (is_new_elem _ Hx). reflexivity.
  - rewrite intersperse_cons2.
    change (x :: Comma :: intersperse (y :: r)) with ([x] ++ [Comma] ++ intersperse (y :: r)).
    rewrite !elems_of_app, IH by exact Hl. simpl. rewrite (is_new_elem _ Hx). reflexivity.
Qed.

Lemma no_triv_intersperse l : forallb is_new l = true -> no_triv (intersperse l) = intersperse l.
Proof.
  induction l as [|x l IH]; intros H; [reflexivity|].
  simpl in H. apply andb_prop in H. destruct H as [Hx Hl].
  destruct l as [|y r].
  - simpl intersperse. apply is_new_no_triv. exact Hx.
  - rewrite intersperse_cons2.
    change (x :: Comma :: intersperse (y :: r)) with ([x] ++ [Comma] ++ intersperse (y :: r)).
    rewrite !no_triv_app, (is_new_no_triv _ Hx), IH by exact Hl. reflexivity.
Qed.

Lemma wf_open_intersperse l : l <> [] -> forallb is_new l = true -> wf_open (intersperse l) = true.
Proof.
  induction l as [|x l IH]; intros Hne H; [congruence|].
  simpl in H. apply andb_prop in H. destruct H as [Hx Hl].
  destruct l as [|y r].
  - simpl. rewrite (is_new_elem _ Hx). reflexivity.
  - rewrite intersperse_cons2.
    change (wf_open (x :: Comma :: intersperse (y :: r)))
      with (is_elem x && wf_open (intersperse (y :: r))).
    rewrite (is_new_elem _ Hx). apply IH; [congruence | exact Hl].
Qed.

Lemma intersperse_not_nil x l : is_nil (intersperse (x :: l)) = false.
Proof. destruct l; reflexivity. Qed.

(* ------------------------------------------------------------------------------------------ *)
(** * The loop, one step at a time *)

Definition run del ins (i : nat) (its : list (nat * list tok)) (s : stt) : stt :=
  fold_left (step del ins) (enum i its) s.

Definition init (c : cont) : stt :=
  {| new_code := []; deleted := false; is_start := true; elements := 0; out := []; pending := g0 c |}.

(* what [seq_update] does after the loop *)
Definition finish (is_tuple : bool) (n : nat) (ins : nat -> list tok) (s : stt) : list tok :=
  let has_tail := negb (is_nil (ins n)) in
  let nc := if has_tail then new_code s ++ ins n else new_code s in
  let elems := if has_tail then elements s + length nc else elements s in
  if negb (is_nil nc) || deleted s || Nat.eqb elems 1 || Nat.leb n 1 then
    let code := intersperse nc in
    let code := if negb (is_start s) && negb (is_nil code) then Comma :: code else code in
    let code := if Nat.eqb elems 1 && is_tuple then code ++ [Comma] else code in
    out s ++ code
  else out s ++ pending s.

Lemma seq_update_unfold t c del ins :
  seq_update t c del ins = finish t (length (items c)) ins (run del ins 0 (items c) (init c)).
Proof. reflexivity. Qed.

Lemma run_nil del ins i s : run del ins i [] s = s.
Proof. reflexivity. Qed.

Lemma run_cons del ins i e g r s :
  run del ins i ((e, g) :: r) s = run del ins (S i) r (step del ins s (i, (e, g))).
Proof. reflexivity. Qed.

Lemma run_app del ins a b : forall i s,
  run del ins i (a ++ b) s = run del ins (i + length a) b (run del ins i a s).
Proof. intros i s. unfold run. rewrite enum_app, fold_left_app. reflexivity. Qed.

Lemma step_del del ins s i e g :
  del i = true ->
  step del ins s (i, (e, g)) =
  {| new_code := new_code s ++ ins i; deleted := true; is_start := is_start s;
     elements := elements s; out := out s; pending := pending s ++ [Old e] ++ g |}.
Proof. intros H. unfold step. rewrite H. reflexivity. Qed.

Lemma step_keep del ins s i e g :
  del i = false ->
  step del ins s (i, (e, g)) =
  let nc := new_code s ++ ins i in
  {| new_code := []; deleted := false; is_start := false;
     elements := elements s + length nc + 1;
     out := (if deleted s || negb (is_nil nc)
             then out s ++ (if is_start s then [] else [Comma]) ++ intersperse nc
                        ++ (if is_nil nc then [] else [Comma])
             else out s ++ pending s) ++ [Old e];
     pending := g |}.
Proof. intros H. unfold step. rewrite H. cbv zeta. destruct (new_code s ++ ins i); reflexivity. Qed.

(* ------------------------------------------------------------------------------------------ *)
(** * U1: loop invariant *)

(* State after some prefix of the items, under the premise "no insertion directly before a
   deleted element" ([new_code] is then always empty between two steps). *)
Record inv (s : stt) : Prop := {
  inv_nc    : new_code s = [];
  inv_cnt   : elements s = length (elems_of (out s));
  inv_start : is_start s = true -> out s = [];
  inv_open  : is_start s = false -> wf_open (no_triv (out s)) = true }.

Definition last_gap_ok (g : list tok) : Prop := no_triv g = [] \/ no_triv g = [Comma].

(* the remaining items: gaps without elements, exactly one comma between two elements,
   at most one after the last *)
Fixpoint tail_ok (its : list (nat * list tok)) : Prop :=
  match its with
  | [] => True
  | (_, g) :: r => elems_of g = [] /\
                   (match r with [] => last_gap_ok g | _ => no_triv g = [Comma] end) /\
                   tail_ok r
  end.

(* [pending s] matters only when nothing was deleted since the last kept element: it is then
   the gap before the next item (or the tail gap) *)
Definition pend_ok (s : stt) (its : list (nat * list tok)) : Prop :=
  deleted s = false ->
  elems_of (pending s) = [] /\
  (if is_start s then no_triv (pending s) = []
   else match its with [] => last_gap_ok (pending s) | _ => no_triv (pending s) = [Comma] end).

(* a separator between the output so far and the next kept element *)
Definition sep_ok (start : bool) (sep : list tok) : Prop :=
  if start then no_triv sep = [] \/ (exists m, wf_open m = true /\ no_triv sep = m ++ [Comma])
  else no_triv sep = [Comma] \/ (exists m, wf_open m = true /\ no_triv sep = Comma :: m ++ [Comma]).

Lemma out_sep_open s sep e :
  inv s -> sep_ok (is_start s) sep -> wf_open (no_triv (out s ++ sep ++ [Old e])) = true.
Proof.
  intros Hinv Hsep. rewrite !no_triv_app. change (no_triv [Old e]) with [Old e].
  unfold sep_ok in Hsep. destruct (is_start s) eqn:Hst.
  - rewrite (inv_start s Hinv Hst). simpl.
    destruct Hsep as [Hs | [m [Hm Hs]]]; rewrite Hs.
    + reflexivity.
    + rewrite <- app_assoc. simpl. apply wf_open_app; [exact Hm | reflexivity].
  - pose proof (inv_open s Hinv Hst) as Hopen.
    destruct Hsep as [Hs | [m [Hm Hs]]]; rewrite Hs.
    + simpl. apply wf_open_app; [exact Hopen | reflexivity].
    + simpl. rewrite <- app_assoc. simpl.
      apply wf_open_app; [exact Hopen|]. apply wf_open_app; [exact Hm | reflexivity].
Qed.

Lemma gen_sep_ok (start : bool) (nc : list tok) :
  forallb is_new nc = true ->
  let sep := (if start then @nil tok else [Comma]) ++ intersperse nc ++ (if is_nil nc then [] else [Comma]) in
  elems_of sep = nc /\ sep_ok start sep.
Proof.
  intros Hnew sep. subst sep. split.
  - rewrite !elems_of_app, elems_of_intersperse by exact Hnew.
    destruct start; destruct nc; simpl; rewrite ?app_nil_r; reflexivity.
  - unfold sep_ok. rewrite !no_triv_app, no_triv_intersperse by exact Hnew.
    destruct nc as [|x nc].
    + destruct start; left; reflexivity.
    + assert (Hopen : wf_open (intersperse (x :: nc)) = true)
        by (apply wf_open_intersperse; [congruence | exact Hnew]).
      destruct start; right; exists (intersperse (x :: nc)); split; auto.
Qed.

Lemma step_inv del ins s i e g r :
  inv s -> pend_ok s ((e, g) :: r) -> tail_ok ((e, g) :: r) ->
  forallb is_new (ins i) = true -> (del i = true -> ins i = []) ->
  let s' := step del ins s (i, (e, g)) in
  inv s' /\ pend_ok s' r /\
  elems_of (out s') = elems_of (out s) ++ ins i ++ (if del i then [] else [Old e]).
Proof.
  intros Hinv Hpend Htail Hnew Hpre s'. subst s'.
  destruct (del i) eqn:Hdel.
  - (* deleted: nothing is emitted *)
    rewrite step_del by exact Hdel. rewrite (Hpre eq_refl), (inv_nc s Hinv). simpl.
    split; [|split].
    + constructor; simpl; [reflexivity | apply Hinv | apply Hinv | apply Hinv].
    + unfold pend_ok. simpl. discriminate.
    + rewrite app_nil_r. reflexivity.
  - (* kept *)
    rewrite step_keep by exact Hdel. rewrite (inv_nc s Hinv). cbv zeta. change ([] ++ ins i) with (ins i).
    simpl in Htail. destruct Htail as [Hg_el [Hg_nt Htail]].
    (* the separator that is emitted, whichever branch *)
    assert (Hsep : exists sep,
      (if deleted s || negb (is_nil (ins i))
       then out s ++ (if is_start s then [] else [Comma]) ++ intersperse (ins i)
                  ++ (if is_nil (ins i) then [] else [Comma])
       else out s ++ pending s) = out s ++ sep /\ elems_of sep = ins i /\ sep_ok (is_start s) sep).
    { destruct (deleted s || negb (is_nil (ins i))) eqn:Hc.
      - eexists. split; [reflexivity|]. apply gen_sep_ok. exact Hnew.
      - apply orb_false_elim in Hc. destruct Hc as [Hd Hn].
        destruct (ins i) as [|x l]; [|discriminate].
        exists (pending s). split; [reflexivity|].
        destruct (Hpend Hd) as [Hp_el Hp_nt]. split; [exact Hp_el|].
        unfold sep_ok. destruct (is_start s); left; exact Hp_nt. }
    destruct Hsep as [sep [Ho [Hsep_el Hsep_ok]]]. rewrite Ho. clear Ho.
    split; [|split].
    + constructor; simpl.
      * reflexivity.
      * rewrite !elems_of_app, !app_length, Hsep_el. simpl. rewrite (inv_cnt s Hinv). lia.
      * discriminate.
      * intros _. rewrite <- app_assoc. apply out_sep_open; assumption.
    + unfold pend_ok. simpl. intros _. split; [exact Hg_el|]. destruct r; exact Hg_nt.
    + simpl. rewrite !elems_of_app, Hsep_el. simpl. rewrite <- app_assoc. reflexivity.
Qed.

(* ------------------------------------------------------------------------------------------ *)
(** * U1: after the loop, and the induction over the items *)

Lemma close_ok (t : bool) body (flag : bool) :
  (wf_open (no_triv body) = true \/ (body = [] /\ flag = false)) ->
  (t = true -> length (elems_of body) = 1 -> flag = true) ->
  let r := body ++ (if flag then [Comma] else []) in
  elems_of r = elems_of body /\ wf_seq (no_triv r) = true /\
  (t = true -> length (elems_of r) = 1 -> trailing_comma r = true).
Proof.
  intros Hbody Hflag r. subst r.
  assert (Hel : elems_of (body ++ (if flag then [Comma] else [])) = elems_of body).
  { rewrite elems_of_app. destruct flag; simpl; apply app_nil_r. }
  split; [exact Hel|]. split.
  - rewrite no_triv_app. destruct Hbody as [Hopen | [Hnil Hf]].
    + destruct flag; simpl.
      * apply wf_open_snoc_comma. exact Hopen.
      * rewrite app_nil_r. apply wf_open_wf_seq. exact Hopen.
    + subst body flag. reflexivity.
  - intros Ht Hlen. rewrite Hel in Hlen. rewrite (Hflag Ht Hlen). apply trailing_comma_snoc.
Qed.

Lemma finish_ok t n ins s :
  inv s -> (Nat.leb n 1 = false -> pend_ok s []) -> forallb is_new (ins n) = true ->
  let r := finish t n ins s in
  elems_of r = elems_of (out s) ++ ins n /\ wf_seq (no_triv r) = true /\
  (t = true -> length (elems_of r) = 1 -> trailing_comma r = true).
Proof.
  intros Hinv Hpend Hnew r. subst r. unfold finish. rewrite (inv_nc s Hinv).
  pose proof (inv_cnt s Hinv) as Hcnt.
  destruct (ins n) as [|x l] eqn:Hins.
  - (* nothing to insert at the end *)
    cbn [is_nil negb orb intersperse andb]. rewrite app_nil_r, andb_false_r. cbn [app].
    destruct (deleted s || (elements s =? 1) || (n <=? 1)) eqn:Hc.
    + apply close_ok.
      * destruct (is_start s) eqn:Hst.
        -- right. pose proof (inv_start s Hinv Hst) as Ho. split; [exact Ho|].
           rewrite Ho in Hcnt. simpl in Hcnt. rewrite Hcnt. reflexivity.
        -- left. apply (inv_open s Hinv Hst).
      * intros Ht Hlen. rewrite Hcnt, Hlen, Ht. reflexivity.
    + apply orb_false_elim in Hc. destruct Hc as [Hc Hn1].
      apply orb_false_elim in Hc. destruct Hc as [Hd He1].
      destruct (Hpend Hn1 Hd) as [Hp_el Hp_nt].
      assert (Hel : elems_of (out s ++ pending s) = elems_of (out s))
        by (rewrite elems_of_app, Hp_el; apply app_nil_r).
      split; [exact Hel|]. split.
      * rewrite no_triv_app. destruct (is_start s) eqn:Hst.
        -- rewrite (inv_start s Hinv Hst), Hp_nt. reflexivity.
        -- pose proof (inv_open s Hinv Hst) as Hopen.
           destruct Hp_nt as [Hp | Hp]; rewrite Hp.
           ++ rewrite app_nil_r. apply wf_open_wf_seq. exact Hopen.
           ++ apply wf_open_snoc_comma. exact Hopen.
      * intros _ Hlen. rewrite Hel, <- Hcnt in Hlen. rewrite Hlen in He1. discriminate.
  - (* insertion at the end *)
    cbn [is_nil negb orb app]. rewrite intersperse_not_nil. cbn [negb]. rewrite andb_true_r.
    set (nc := x :: l) in *.
    set (code := if negb (is_start s) then Comma :: intersperse nc else intersperse nc).
    set (flag := (elements s + length nc =? 1) && t).
    replace (out s ++ (if flag then code ++ [Comma] else code))
      with ((out s ++ code) ++ (if flag then [Comma] else []))
      by (destruct flag; rewrite <- app_assoc; [reflexivity | rewrite app_nil_r; reflexivity]).
    assert (Hne : nc <> []) by (subst nc; congruence).
    pose proof (wf_open_intersperse nc Hne Hnew) as Hopen_nc.
    assert (Hel : elems_of (out s ++ code) = elems_of (out s) ++ nc).
    { rewrite elems_of_app. f_equal. subst code.
      destruct (is_start s); cbn [negb];
        [| change (Comma :: intersperse nc) with ([Comma] ++ intersperse nc); rewrite elems_of_app ];
        rewrite elems_of_intersperse by exact Hnew; reflexivity. }
    destruct (close_ok t (out s ++ code) flag) as [H1 [H2 H3]].
    + left. rewrite no_triv_app. subst code. destruct (is_start s) eqn:Hst; cbn [negb].
      * rewrite (inv_start s Hinv Hst), no_triv_intersperse by exact Hnew. exact Hopen_nc.
      * change (Comma :: intersperse nc) with ([Comma] ++ intersperse nc).
        rewrite no_triv_app, no_triv_intersperse by exact Hnew.
        apply wf_open_app; [apply (inv_open s Hinv Hst) | exact Hopen_nc].
    + intros Ht Hlen. subst flag. rewrite Hel, app_length, <- Hcnt in Hlen. rewrite Hlen, Ht. reflexivity.
    + split; [rewrite H1; exact Hel | split; [exact H2 | exact H3]].
Qed.

Lemma run_ok t del ins n :
  (forall j, forallb is_new (ins j) = true) ->
  (forall j, j < n -> del j = true -> ins j = []) ->
  forall its i s,
  n = i + length its -> inv s -> pend_ok s its -> tail_ok its ->
  let r := finish t n ins (run del ins i its s) in
  elems_of r = elems_of (out s) ++ expected del ins (enum i its) ++ ins n /\
  wf_seq (no_triv r) = true /\
  (t = true -> length (elems_of r) = 1 -> trailing_comma r = true).
Proof.
  intros Hnew Hpre its. induction its as [|[e g] its IH]; intros i s Hn Hinv Hpend Htail.
  - rewrite run_nil. simpl expected. cbn [app].
    apply finish_ok; [exact Hinv | intros _; exact Hpend | apply Hnew].
  - rewrite run_cons. simpl in Hn.
    destruct (step_inv del ins s i e g its Hinv Hpend Htail (Hnew i)) as [Hinv' [Hpend' Hel']].
    { apply Hpre. lia. }
    assert (Htail' : tail_ok its) by (simpl in Htail; tauto).
    destruct (IH (S i) _ ltac:(lia) Hinv' Hpend' Htail') as [H1 [H2 H3]].
    split; [|split; [exact H2 | exact H3]].
    rewrite H1, Hel'. simpl expected. rewrite <- !app_assoc. reflexivity.
Qed.

(* ---- from wf_input + gaps_clean to tail_ok ---- *)
Lemma clean_elems g : gap_clean g = true -> elems_of g = [].
Proof.
  unfold gap_clean. induction g as [|a g IH]; simpl; intros H; [reflexivity|].
  apply andb_prop in H. destruct H as [Ha Hg].
  destruct (is_elem a); [discriminate | exact (IH Hg)].
Qed.

Lemma clean_no_triv g : gap_clean g = true -> Forall (fun t => t = Comma) (no_triv g).
Proof.
  unfold gap_clean. induction g as [|a g IH]; simpl; intros H; [constructor|].
  apply andb_prop in H. destruct H as [Ha Hg].
  destruct a; simpl in *; try discriminate; auto.
Qed.

Lemma no_triv_nil_elems g : no_triv g = [] -> elems_of g = [].
Proof.
  induction g as [|a g IH]; simpl; intros H; [reflexivity|].
  destruct a; simpl in *; try discriminate. exact (IH H).
Qed.

Lemma no_comma_no_triv g : has_comma g = false -> Forall (fun t => is_elem t = true) (no_triv g).
Proof.
  unfold has_comma. induction g as [|a g IH]; simpl; intros H; [constructor|].
  apply orb_false_elim in H. destruct H as [Ha Hg].
  destruct a; simpl in *; try discriminate; auto.
Qed.

Definition flat (its : list (nat * list tok)) : list tok :=
  flat_map (fun it => Old (fst it) :: snd it) its.

Lemma no_triv_flat_cons e g r :
  no_triv (flat ((e, g) :: r)) = Old e :: no_triv g ++ no_triv (flat r).
Proof.
  change (flat ((e, g) :: r)) with ([Old e] ++ g ++ flat r). rewrite !no_triv_app. reflexivity.
Qed.

Lemma head_gap_ok g e R :
  has_comma g = false -> wf_seq (no_triv g ++ Old e :: R) = true -> no_triv g = [].
Proof.
  intros Hc Hw. pose proof (no_comma_no_triv g Hc) as Hall.
  destruct (no_triv g) as [|a [|b q]]; [reflexivity | exfalso | exfalso].
  - simpl in Hw. rewrite andb_false_r in Hw. discriminate.
  - inversion Hall as [|? ? Ha Hq]. inversion Hq as [|? ? Hb Hq']. subst.
    destruct b; simpl in Hb; try discriminate; simpl in Hw; rewrite andb_false_r in Hw; discriminate.
Qed.

Lemma items_tail_ok its :
  forallb (fun it => gap_clean (snd it)) its = true -> wf_seq (no_triv (flat its)) = true -> tail_ok its.
Proof.
  induction its as [|[e g] r IH]; intros Hc Hw; [exact I|].
  simpl in Hc. apply andb_prop in Hc. destruct Hc as [Hg Hr].
  rewrite no_triv_flat_cons in Hw. pose proof (clean_no_triv g Hg) as Hcm.
  simpl tail_ok. split; [apply clean_elems; exact Hg|].
  destruct r as [|[e' g'] r'].
  - split; [|exact I]. unfold last_gap_ok. simpl in Hw. rewrite app_nil_r in Hw.
    destruct (no_triv g) as [|a [|b q]]; [left; reflexivity | right | exfalso].
    + inversion Hcm; subst. reflexivity.
    + inversion Hcm as [|? ? Ha Hq]. inversion Hq as [|? ? Hb Hq']. subst. simpl in Hw. discriminate.
  - rewrite no_triv_flat_cons in Hw.
    destruct (no_triv g) as [|a [|b q]]; [exfalso | | exfalso].
    + simpl in Hw. discriminate.
    + inversion Hcm; subst. split; [reflexivity|].
      apply IH; [exact Hr|]. rewrite no_triv_flat_cons. exact Hw.
    + inversion Hcm as [|? ? Ha Hq]. inversion Hq as [|? ? Hb Hq']. subst. simpl in Hw. discriminate.
Qed.

Lemma inv_init c : inv (init c).
Proof. constructor; simpl; [reflexivity | reflexivity | reflexivity | discriminate]. Qed.

Theorem seq_update_spec t c del ins :
  wf_input t c = true -> gaps_clean c = true ->
  (forall i, forallb is_new (ins i) = true) ->
  (forall j, j < length (items c) -> del j = true -> ins j = []) ->
  let r := seq_update t c del ins in
  elems_of r = expected_all c del ins /\ wf_seq (no_triv r) = true /\
  (t = true -> length (elems_of r) = 1 -> trailing_comma r = true).
Proof.
  intros Hwf Hclean Hnew Hpre r. subst r. rewrite seq_update_unfold. unfold expected_all.
  unfold wf_input in Hwf. apply andb_prop in Hwf. destruct Hwf as [Hwf _].
  apply andb_prop in Hwf. destruct Hwf as [Hseq Hg0]. apply negb_true_iff in Hg0.
  unfold gaps_clean in Hclean. unfold input_tokens in Hseq. fold (flat (items c)) in Hseq.
  destruct (items c) as [|[e g] its] eqn:Hits.
  - rewrite run_nil. apply (finish_ok t 0 ins (init c)); [apply inv_init | discriminate | apply Hnew].
  - rewrite no_triv_app, no_triv_flat_cons in Hseq.
    pose proof (head_gap_ok _ _ _ Hg0 Hseq) as Hnt0. rewrite Hnt0 in Hseq. simpl app in Hseq.
    rewrite <- no_triv_flat_cons in Hseq.
    apply (run_ok t del ins (length ((e, g) :: its)) Hnew Hpre ((e, g) :: its) 0 (init c)).
    + reflexivity.
    + apply inv_init.
    + intros _. simpl. split; [apply no_triv_nil_elems; exact Hnt0 | exact Hnt0].
    + apply items_tail_ok; assumption.
Qed.

Lemma ins_before_del_false n d l :
  ins_before_del n d l = false -> forall j, j < n -> delf d j = true -> insf l j = [].
Proof.
  induction n as [|n IH]; intros H j Hj Hd; [lia|].
  simpl in H. apply orb_false_elim in H. destruct H as [Hn Hrest].
  destruct (Nat.eq_dec j n) as [->|Hne].
  - rewrite Hd in Hn. simpl in Hn. destruct (insf l n); [reflexivity | discriminate].
  - apply IH; [exact Hrest | lia | exact Hd].
Qed.

(* correctness for arbitrary deletion / insertion functions *)
Theorem seq_update_ok_fun t c del ins :
  wf_input t c = true -> gaps_clean c = true ->
  (forall i, forallb is_new (ins i) = true) ->
  (forall j, j < length (items c) -> del j = true -> ins j = []) ->
  ok_result t c del ins = true.
Proof.
  intros Hwf Hclean Hnew Hpre.
  destruct (seq_update_spec t c del ins Hwf Hclean Hnew Hpre) as [H1 [H2 H3]].
  unfold ok_result. cbv zeta. rewrite H1, list_beq_refl, H2. cbn [andb].
  destruct t; cbn [andb]; [|reflexivity].
  destruct (length (expected_all c del ins) =? 1) eqn:Hlen; [|reflexivity].
  apply H3; [reflexivity|]. rewrite H1. apply Nat.eqb_eq. exact Hlen.
Qed.

(* U1.  The statement asked for, plus the premise [gaps_clean c = true]; without it the
   statement is false, see [seq_update_ok_as_stated_refuted] below. *)
Theorem seq_update_ok : forall is_tuple c d l,
  wf_input is_tuple c = true ->
  gaps_clean c = true ->
  (forall i, forallb is_new (insf l i) = true) ->
  ins_before_del (length (items c)) d l = false ->
  ok_result is_tuple c (delf d) (insf l) = true.
Proof.
  intros t c d l Hwf Hclean Hnew Hpre.
  apply seq_update_ok_fun; [exact Hwf | exact Hclean | exact Hnew|].
  apply ins_before_del_false. exact Hpre.
Qed.

(* ------------------------------------------------------------------------------------------ *)
(** * The extra premises are necessary *)

(* U1 as first stated (without [gaps_clean]) is false: an element token hidden in a gap *)
Theorem seq_update_ok_as_stated_refuted : forall t, exists c d l,
  wf_input t c = true /\
  (forall i, forallb is_new (insf l i) = true) /\
  ins_before_del (length (items c)) d l = false /\
  ok_result t c (delf d) (insf l) = false.
Proof.
  intros t. exists {| g0 := []; items := [(0, [Comma; Old 7; Comma]); (1, [])] |}, [], [].
  split; [destruct t; reflexivity|]. split; [intros [|i]; reflexivity|].
  split; [reflexivity | destruct t; reflexivity].
Qed.

(* U4: [ins_before_del = false] is necessary: (a,) -> delete a, insert x at 0 -> (x) *)
Theorem one_tuple_comma_refuted :
  exists c d l, wf_input true c = true /\ ok_result true c (delf d) (insf l) = false.
Proof.
  exists {| g0 := []; items := [(0, [Comma])] |}, [true], [[New 10]]. split; reflexivity.
Qed.

Theorem one_tuple_comma_refuted_strong :
  exists c d l,
    wf_input true c = true /\ gaps_clean c = true /\
    (forall i, forallb is_new (insf l i) = true) /\
    ins_before_del (length (items c)) d l = true /\
    seq_update true c (delf d) (insf l) = [New 10] /\
    expected_all c (delf d) (insf l) = [New 10] /\
    ok_result true c (delf d) (insf l) = false.
Proof.
  exists {| g0 := []; items := [(0, [Comma])] |}, [true], [[New 10]].
  repeat split; try reflexivity. intros [|[|i]]; reflexivity.
Qed.

(* ------------------------------------------------------------------------------------------ *)
(** * U2: nothing to do *)

Definition no_del : nat -> bool := fun _ => false.
Definition no_ins : nat -> list tok := fun _ => [].

Lemma step_noop s i e g :
  new_code s = [] -> deleted s = false ->
  step no_del no_ins s (i, (e, g)) =
  {| new_code := []; deleted := false; is_start := false; elements := elements s + 0 + 1;
     out := (out s ++ pending s) ++ [Old e]; pending := g |}.
Proof.
  intros Hnc Hd. rewrite step_keep by reflexivity. cbv zeta. unfold no_ins. rewrite Hnc, Hd. reflexivity.
Qed.

Lemma run_noop : forall its i s,
  new_code s = [] -> deleted s = false ->
  let s' := run no_del no_ins i its s in
  new_code s' = [] /\ deleted s' = false /\ elements s' = elements s + length its /\
  out s' ++ pending s' = out s ++ pending s ++ flat its.
Proof.
  induction its as [|[e g] r IH]; intros i s Hnc Hd.
  - rewrite run_nil. simpl. rewrite app_nil_r, Nat.add_0_r. auto.
  - rewrite run_cons, step_noop by assumption.
    match goal with |- context [run _ _ (S i) r ?st] =>
      destruct (IH (S i) st eq_refl eq_refl) as [H1 [H2 [H3 H4]]] end.
    cbv zeta. rewrite H1, H2, H3, H4. simpl. repeat split; [lia|].
    rewrite <- !app_assoc. reflexivity.
Qed.

Theorem seq_update_noop_strong : forall is_tuple c,
  2 <= length (items c) ->
  seq_update is_tuple c (fun _ => false) (fun _ => []) = input_tokens c.
Proof.
  intros t c Hlen. change (seq_update t c no_del no_ins = input_tokens c).
  rewrite seq_update_unfold.
  destruct (run_noop (items c) 0 (init c) eq_refl eq_refl) as [Hnc [Hd [Hel Ho]]].
  set (s' := run no_del no_ins 0 (items c) (init c)) in *.
  unfold finish, no_ins. cbn [is_nil negb]. rewrite Hnc, Hd, Hel. cbn [is_nil negb orb init elements plus].
  destruct (length (items c)) as [|[|n]]; [lia | lia |]. cbn [Nat.eqb Nat.leb orb].
  rewrite Ho. reflexivity.
Qed.

Theorem seq_update_noop : forall is_tuple c,
  wf_input is_tuple c = true -> 2 <= length (items c) ->
  seq_update is_tuple c (fun _ => false) (fun _ => []) = input_tokens c.
Proof. intros t c _ Hlen. apply seq_update_noop_strong. exact Hlen. Qed.

(* one element: the span after it is always regenerated *)
Theorem seq_update_single_drops_tail_trivia : forall is_tuple c e gl,
  items c = [(e, gl)] ->
  let r := seq_update is_tuple c (fun _ => false) (fun _ => []) in
  r = g0 c ++ [Old e] ++ (if is_tuple then [Comma] else []) /\
  (forall id, In (Triv id) r -> In (Triv id) (g0 c)).
Proof.
  intros t c e gl Hits r.
  assert (Hr : r = g0 c ++ [Old e] ++ (if t then [Comma] else [])).
  { subst r. unfold seq_update. rewrite Hits. destruct t; simpl.
    - rewrite <- app_assoc. reflexivity.
    - rewrite app_nil_r. reflexivity. }
  split; [exact Hr|]. intros id Hin. rewrite Hr in Hin.
  apply in_app_or in Hin. destruct Hin as [Hin | Hin]; [exact Hin|].
  exfalso. destruct t; simpl in Hin; intuition discriminate.
Qed.

(* no element: whatever stands between the braces is dropped *)
Theorem seq_update_empty_drops_trivia : forall is_tuple c,
  items c = [] -> seq_update is_tuple c (fun _ => false) (fun _ => []) = [].
Proof. intros t c Hits. unfold seq_update. rewrite Hits. destruct t; reflexivity. Qed.

(* ------------------------------------------------------------------------------------------ *)
(** * U3: untouched spans survive verbatim (no premise on the input at all) *)

Lemma step_out_prefix del ins s i e g :
  exists suf, out (step del ins s (i, (e, g))) = out s ++ suf.
Proof.
  destruct (del i) eqn:Hd.
  - rewrite step_del by exact Hd. exists []. simpl. rewrite app_nil_r. reflexivity.
  - rewrite step_keep by exact Hd. cbv zeta. cbn [out].
    destruct (deleted s || negb (is_nil (new_code s ++ ins i)));
      eexists; rewrite <- app_assoc; reflexivity.
Qed.

Lemma run_out_prefix del ins : forall its i s,
  exists suf, out (run del ins i its s) = out s ++ suf.
Proof.
  induction its as [|[e g] r IH]; intros i s.
  - exists []. rewrite run_nil, app_nil_r. reflexivity.
  - rewrite run_cons.
    destruct (step_out_prefix del ins s i e g) as [suf0 H0].
    destruct (IH (S i) (step del ins s (i, (e, g)))) as [suf1 H1].
    exists (suf0 ++ suf1). rewrite H1, H0, app_assoc. reflexivity.
Qed.

Lemma finish_out_prefix t n ins s : exists suf, finish t n ins s = out s ++ suf.
Proof.
  unfold finish. cbv zeta.
  match goal with |- context [if ?c || Nat.leb n 1 then _ else _] => destruct (c || Nat.leb n 1) end;
    eexists; reflexivity.
Qed.

(* two consecutive kept elements with nothing inserted between them: the whole span
   [Old e] ++ gap ++ [Old e'] is in the output, token for token *)
Theorem seq_update_keeps_untouched_span : forall is_tuple c del ins j e g e' g',
  nth_error (items c) j = Some (e, g) -> nth_error (items c) (S j) = Some (e', g') ->
  del j = false -> del (S j) = false -> ins (S j) = [] ->
  exists pre post, seq_update is_tuple c del ins = pre ++ Old e :: g ++ Old e' :: post.
Proof.
  intros t c del ins j e g e' g' Hj Hj' Hdj Hdj' Hins.
  destruct (nth_error_split _ _ Hj) as [l1 [l2 [Hits Hlen]]].
  rewrite Hits in Hj'. rewrite nth_error_app2 in Hj' by lia.
  replace (S j - length l1) with 1 in Hj' by lia. simpl in Hj'.
  destruct l2 as [|x l3]; [discriminate|]. simpl in Hj'. injection Hj' as ->.
  rewrite seq_update_unfold, Hits, run_app. cbn [plus]. rewrite Hlen, !run_cons.
  set (s1 := run del ins 0 l1 (init c)).
  set (s2 := step del ins s1 (j, (e, g))).
  set (s3 := step del ins s2 (S j, (e', g'))).
  assert (H2 : exists o, out s2 = o ++ [Old e] /\ pending s2 = g /\ deleted s2 = false /\ new_code s2 = []).
  { subst s2. rewrite step_keep by exact Hdj. cbv zeta. eexists. repeat split; reflexivity. }
  destruct H2 as [o [Ho [Hp [Hd Hn]]]].
  assert (H3 : out s3 = o ++ Old e :: g ++ [Old e']).
  { subst s3. rewrite step_keep by exact Hdj'. cbv zeta. rewrite Hn, Hd, Hins, Ho, Hp.
    cbn [app is_nil negb orb out]. rewrite <- !app_assoc. reflexivity. }
  destruct (run_out_prefix del ins l3 (S (S j)) s3) as [suf1 H4].
  destruct (finish_out_prefix t (length (l1 ++ (e, g) :: (e', g') :: l3)) ins
              (run del ins (S (S j)) l3 s3)) as [suf2 H5].
  rewrite H5, H4, H3. exists o, (suf1 ++ suf2).
  rewrite <- !app_assoc. cbn [app]. rewrite <- !app_assoc. reflexivity.
Qed.

Theorem seq_update_keeps_untouched_trivia : forall is_tuple c del ins j e g e' g' id,
  nth_error (items c) j = Some (e, g) -> nth_error (items c) (S j) = Some (e', g') ->
  del j = false -> del (S j) = false -> ins (S j) = [] ->
  In (Triv id) g -> In (Triv id) (seq_update is_tuple c del ins).
Proof.
  intros t c del ins j e g e' g' id Hj Hj' Hdj Hdj' Hins Hin.
  destruct (seq_update_keeps_untouched_span t c del ins j e g e' g' Hj Hj' Hdj Hdj' Hins)
    as [pre [post Heq]].
  rewrite Heq. apply in_or_app. right. right. apply in_or_app. left. exact Hin.
Qed.

(* the gap before the first element, when it is kept and nothing is inserted before it *)
Theorem seq_update_keeps_head_gap : forall is_tuple c del ins e g r,
  items c = (e, g) :: r -> del 0 = false -> ins 0 = [] ->
  exists post, seq_update is_tuple c del ins = g0 c ++ Old e :: post.
Proof.
  intros t c del ins e g r Hits Hd Hins.
  rewrite seq_update_unfold, Hits, run_cons.
  set (s1 := step del ins (init c) (0, (e, g))).
  assert (H1 : out s1 = g0 c ++ [Old e]).
  { subst s1. rewrite step_keep by exact Hd. cbv zeta. rewrite Hins. reflexivity. }
  destruct (run_out_prefix del ins r 1 s1) as [suf1 H4].
  destruct (finish_out_prefix t (length ((e, g) :: r)) ins (run del ins 1 r s1)) as [suf2 H5].
  rewrite H5, H4, H1. exists (suf1 ++ suf2). rewrite <- !app_assoc. reflexivity.
Qed.

Lemma step_elements_mono del ins s i e g : elements s <= elements (step del ins s (i, (e, g))).
Proof.
  destruct (del i) eqn:Hd.
  - rewrite step_del by exact Hd. simpl. lia.
  - rewrite step_keep by exact Hd. cbv zeta. simpl. lia.
Qed.

Lemma run_elements_mono del ins : forall its i s, elements s <= elements (run del ins i its s).
Proof.
  induction its as [|[e g] r IH]; intros i s.
  - rewrite run_nil. lia.
  - rewrite run_cons. pose proof (step_elements_mono del ins s i e g).
    pose proof (IH (S i) (step del ins s (i, (e, g)))). lia.
Qed.

Lemma step_keep_elements del ins s i e g :
  del i = false -> elements s + 1 <= elements (step del ins s (i, (e, g))).
Proof. intros Hd. rewrite step_keep by exact Hd. cbv zeta. simpl. lia. Qed.

(* the gap after the last element survives when the last element is kept, nothing is appended,
   and some other element is kept as well (so that the result is no one-element container) *)
Theorem seq_update_keeps_tail_gap : forall is_tuple c del ins l e g j,
  items c = l ++ [(e, g)] -> del (length l) = false -> ins (S (length l)) = [] ->
  j < length l -> del j = false ->
  exists pre, seq_update is_tuple c del ins = pre ++ Old e :: g.
Proof.
  intros t c del ins l e g j Hits Hdl Hins Hj Hdj.
  destruct (nth_error_split l j) with (a := nth j l (0, [])) as [la [lb [Hl Hla]]].
  { apply nth_error_nth'. exact Hj. }
  destruct (nth j l (0, [])) as [ej gj].
  rewrite seq_update_unfold, Hits, run_app. cbn [plus]. rewrite run_cons, run_nil.
  set (s1 := run del ins 0 l (init c)).
  assert (H1 : 1 <= elements s1).
  { subst s1. rewrite Hl, run_app, run_cons. cbn [plus]. rewrite Hla.
    pose proof (step_keep_elements del ins (run del ins 0 la (init c)) j ej gj Hdj).
    pose proof (run_elements_mono del ins lb (S j) (step del ins (run del ins 0 la (init c)) (j, (ej, gj)))).
    lia. }
  set (s2 := step del ins s1 (length l, (e, g))).
  assert (H2 : exists o, out s2 = o ++ [Old e] /\ pending s2 = g /\ deleted s2 = false /\
                         new_code s2 = [] /\ 2 <= elements s2).
  { pose proof (step_keep_elements del ins s1 (length l) e g Hdl) as Hel. fold s2 in Hel.
    subst s2. rewrite step_keep in * by exact Hdl. cbv zeta in *.
    eexists. repeat split; try reflexivity. lia. }
  destruct H2 as [o [Ho [Hp [Hd [Hn Hel]]]]].
  assert (Hlen : length (l ++ [(e, g)]) = S (length l)) by (rewrite app_length; simpl; lia).
  unfold finish. rewrite Hlen, Hins, Hn, Hd. cbn [is_nil negb orb].
  destruct (elements s2) as [|[|k]] eqn:Hk; [lia | lia |].
  destruct (length l) as [|m] eqn:Hm; [lia|]. cbn [Nat.eqb Nat.leb orb].
  rewrite Ho, Hp. exists o. rewrite <- app_assoc. reflexivity.
Qed.

(* ------------------------------------------------------------------------------------------ *)
(** * Concrete instances *)

(*  [ #0 a #1 , #2 b , #3 c #4 , d , #5 e #6 ]   (#k = trivia k; a..e = Old 0..4) *)
Definition ex_c : cont :=
  {| g0 := [Triv 0];
     items := [(0, [Triv 1; Comma; Triv 2]); (1, [Comma; Triv 3]); (2, [Triv 4; Comma]);
               (3, [Comma; Triv 5]); (4, [Triv 6])] |}.
(* delete b; insert x10 before a, x11 x12 before c, x13 at the end *)
Definition ex_d : list bool := [false; true; false; false; false].
Definition ex_l : list (list tok) := [[New 10]; []; [New 11; New 12]; []; []; [New 13]].

Example ex_premises :
  wf_input true ex_c = true /\ wf_input false ex_c = true /\ gaps_clean ex_c = true /\
  ins_before_del (length (items ex_c)) ex_d ex_l = false.
Proof. vm_compute. auto. Qed.

(* U1 *)
Example ex_seq_update :
  seq_update false ex_c (delf ex_d) (insf ex_l) =
  [New 10; Comma; Old 0; Comma; New 11; Comma; New 12; Comma; Old 2; Triv 4; Comma; Old 3;
   Comma; Triv 5; Old 4; Comma; New 13].
Proof. vm_compute. reflexivity. Qed.

Example ex_seq_update_ok :
  ok_result true ex_c (delf ex_d) (insf ex_l) = true /\
  ok_result false ex_c (delf ex_d) (insf ex_l) = true.
Proof. vm_compute. auto. Qed.

Example ex_seq_update_ok_by_theorem : ok_result true ex_c (delf ex_d) (insf ex_l) = true.
Proof.
  apply seq_update_ok; try reflexivity.
  intros i. do 6 (destruct i as [|i]; [reflexivity|]). destruct i; reflexivity.
Qed.

(* U1 needs gaps_clean:  [a, b, c] whose "b" hides in the first gap *)
Example ex_unclean_gap :
  let c := {| g0 := []; items := [(0, [Comma; Old 7; Comma]); (1, [])] |} in
  wf_input false c = true /\ gaps_clean c = false /\
  seq_update false c (delf []) (insf []) = [Old 0; Comma; Old 7; Comma; Old 1] /\
  expected_all c (delf []) (insf []) = [Old 0; Old 1] /\
  ok_result false c (delf []) (insf []) = false.
Proof. vm_compute. auto. Qed.

(* U2 *)
Example ex_noop : seq_update true ex_c (fun _ => false) (fun _ => []) = input_tokens ex_c.
Proof. vm_compute. reflexivity. Qed.

Example ex_single_drops_tail_trivia :
  let c := {| g0 := [Triv 0]; items := [(0, [Triv 1; Comma; Triv 2])] |} in
  wf_input true c = true /\
  seq_update false c (fun _ => false) (fun _ => []) = [Triv 0; Old 0] /\
  seq_update true c (fun _ => false) (fun _ => []) = [Triv 0; Old 0; Comma].
Proof. vm_compute. auto. Qed.

Example ex_empty_drops_trivia :
  seq_update false {| g0 := [Triv 0; Triv 1]; items := [] |} (fun _ => false) (fun _ => []) = [].
Proof. vm_compute. reflexivity. Qed.

(* U3: the spans c #4 , d  and  d , #5 e  are untouched; so is nothing else *)
Example ex_keeps_untouched_trivia :
  let r := seq_update false ex_c (delf ex_d) (insf ex_l) in
  In (Triv 4) r /\ In (Triv 5) r /\
  ~ In (Triv 0) r /\ ~ In (Triv 1) r /\ ~ In (Triv 2) r /\ ~ In (Triv 3) r /\ ~ In (Triv 6) r.
Proof. vm_compute. intuition discriminate. Qed.

Example ex_keeps_untouched_trivia_by_theorem :
  In (Triv 4) (seq_update false ex_c (delf ex_d) (insf ex_l)).
Proof.
  apply (seq_update_keeps_untouched_trivia false ex_c (delf ex_d) (insf ex_l)
           2 2 [Triv 4; Comma] 3 [Comma; Triv 5] 4); try reflexivity.
  simpl. auto.
Qed.

Example ex_keeps_head_and_tail_gap :
  seq_update false ex_c (delf [false; true]) (insf []) =
  [Triv 0; Old 0; Comma; Old 2; Triv 4; Comma; Old 3; Comma; Triv 5; Old 4; Triv 6].
Proof. vm_compute. reflexivity. Qed.

(* U4:  (a,)  delete a, insert x before it  ->  (x)  : no tuple any more *)
Example ex_one_tuple_comma :
  let c := {| g0 := [Triv 0]; items := [(0, [Triv 1; Comma; Triv 2])] |} in
  wf_input true c = true /\
  ins_before_del 1 [true] [[New 10]] = true /\
  seq_update true c (delf [true]) (insf [[New 10]]) = [New 10] /\
  ok_result true c (delf [true]) (insf [[New 10]]) = false /\
  (* inserting AFTER the deleted element instead is fine *)
  ins_before_del 1 [true] [[]; [New 10]] = false /\
  seq_update true c (delf [true]) (insf [[]; [New 10]]) = [New 10; Comma] /\
  ok_result true c (delf [true]) (insf [[]; [New 10]]) = true.
Proof. vm_compute. repeat split; reflexivity. Qed.

Print Assumptions seq_update_ok.
Print Assumptions seq_update_ok_fun.
Print Assumptions seq_update_ok_as_stated_refuted.
Print Assumptions seq_update_noop.
Print Assumptions seq_update_noop_strong.
Print Assumptions seq_update_single_drops_tail_trivia.
Print Assumptions seq_update_empty_drops_trivia.
Print Assumptions seq_update_keeps_untouched_span.
Print Assumptions seq_update_keeps_untouched_trivia.
Print Assumptions seq_update_keeps_head_gap.
Print Assumptions seq_update_keeps_tail_gap.
Print Assumptions one_tuple_comma_refuted.
Print Assumptions one_tuple_comma_refuted_strong.
