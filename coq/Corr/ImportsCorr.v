From Coq Require Import List Arith Bool.
Import ListNotations.
From V Require Import Model.Imports Corr.Util.

(* the statements of the module (with: does the statement import the wanted name at top level / nested / not at all), and what the real
   ensure_import did: None = no line inserted, Some i = i top-level statements stand in front of the inserted line *)
Definition case := (list estmt * option nat)%type.
Definition ok (c : case) : bool :=
  match contains_import (fst c), snd c with
  | true, None => true
  | false, Some i => Nat.eqb (insert_index (map fst (fst c))) i
  | _, _ => false
  end.
Definition mismatches (l : list case) : list nat := mism ok l.
