From Coq Require Import List Arith Bool.
Import ListNotations.
From V Require Import Model.Imports Corr.Util.

(* the statements of the module, and the number of top-level statements the real ensure_import left in front of the inserted line *)
Definition case := (list stmt * nat)%type.
Definition ok (c : case) : bool := Nat.eqb (insert_index (fst c)) (snd c).
Definition mismatches (l : list case) : list nat := mism ok l.
