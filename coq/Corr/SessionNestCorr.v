From Coq Require Import List Bool Arith.
Import ListNotations.
From V Require Import Model.SnapOps Model.Session Model.SessionNest Corr.Util Corr.SessionCorr.

(* shown categories, approved categories, pending changes (id, category, file, removes, enclosing ids), observed: per id whether the change was written,
   and the categories whose preview was printed, in order *)
Definition ncase := (list cat * list cat * list (nat * cat * nat * bool * list nat) * list (nat * bool) * list cat)%type.
Definition okN (x : ncase) : bool :=
  match x with
  | (s, a, p, obs, rep) =>
      let cf := {| shown := fun c => cmem c s; approve := fun c => cmem c a |} in
      let pending := map (fun t : nat * cat * nat * bool * list nat =>
                            match t with (i, c, f, r, e) => {| n_id := i; n_cat := c; n_file := f; n_removes := r; n_encl := e |} end) p in
      let w := writtenN cf pending in
      forallb (fun o : nat * bool => Bool.eqb (is_written w (fst o)) (snd o)) obs && list_eqb cat_eqb (snd (sessionN cf pending)) rep
  end.
Definition mismatchesN (l : list ncase) : list nat := mism okN l.
