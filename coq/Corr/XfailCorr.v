From Coq Require Import List Bool.
Import ListNotations.
From V Require Import Model.Xfail Corr.Util.

(* the marks of the test item, observed: inline-snapshot is inert inside the test, pytest reports the failing test as xfailed *)
Definition case := (list mark * bool * bool)%type.
Definition ok (c : case) : bool :=
  match c with (marks, inert, xf) => Bool.eqb (is_xfail marks) inert && Bool.eqb (pytest_xfail marks) xf end.
Definition mismatches (l : list case) : list nat := mism ok l.
