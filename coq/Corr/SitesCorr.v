From Coq Require Import List ZArith Bool.
Import ListNotations.
From V Require Import Model.Tree Model.SnapOps Model.Sites Corr.Util Corr.SnapOpsCorr.
Open Scope Z_scope.

(* one test function: flags, the sources of sites 0..n-1, the interleaved trace (site, op);
   observed: the result of every step, total counters, and per site the reported categories and the value afterwards *)
Definition mcase := (flags * list (option src) * list (Z * op) * list result * (nat * nat)
                     * list ((bool * bool * bool * bool) * option pv))%type.

Definition olds_of (l : list (option src)) (k : Z) : option src :=
  if k <? 0 then None else nth (Z.to_nat k) l None.

Fixpoint check_sites (F : flags) (olds : list (option src)) (t : table) (k : Z)
         (obs : list ((bool * bool * bool * bool) * option pv)) : bool :=
  match obs with
  | [] => true
  | ((cc, cf, ct, cu), va) :: r =>
      let s := get_site (olds_of olds) t k in
      let cs := cats s in
      Bool.eqb cc (has_cat Create cs) && Bool.eqb cf (has_cat Fix cs)
      && Bool.eqb ct (has_cat Trim cs) && Bool.eqb cu (has_cat Update cs)
      && opt_eqb SnapOpsCorr.pv_eqb va (value_after F s)
      && check_sites F olds t (k + 1) r
  end.

Definition mok (c : mcase) : bool :=
  match c with
  | (F, olds, tr, rs, (m, i), obs) =>
      let '(t, rs', cnt) := trun fixed_F02 F (olds_of olds) [] tr zero in
      list_eqb result_eqb rs rs'
      && Nat.eqb m (missing cnt) && Nat.eqb i (incorrect cnt)
      && check_sites F olds t 0 obs
  end.
Definition mmismatches (l : list mcase) : list nat := mism mok l.
