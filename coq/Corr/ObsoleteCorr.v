From Coq Require Import List Bool Arith.
Import ListNotations.
From V Require Import Model.Obsolete Corr.Util.

(* the approved changes of a real run (is it a Delete / Replace of a node, the chain node -> parent -> ... as identities)
   and the indices that the real without_obsolete_changes kept *)
Definition case := (list change * list nat)%type.
Definition ok (c : case) : bool := let (l, kept) := c in list_eqb Nat.eqb (map fst (without_obsolete l)) kept.
Definition mismatches (l : list case) : list nat := mism ok l.
