From Coq Require Import List ZArith Bool Arith.
Import ListNotations.
From V Require Import Model.SnapOps Model.TreeAssign Corr.Util.

(* what can be read from the rewritten argument: the nesting, and for every leaf its value and whether its text is the
   canonical one (a hand-written leaf like 2+3 that survived is not) *)
Inductive otree := OLeaf (z : Z) (canon : bool) | OUnm (id : nat) | OSeq (k : skind) (l : list otree).

Fixpoint shape_t (t : tree) : otree :=
  match t with
  | TLeaf z c => OLeaf z c
  | TUnm i _ => OUnm i
  | TSeq k l => OSeq k (map shape_t l)
  end.
Fixpoint shape_v (v : val) : otree :=
  match v with
  | VAtom z => OLeaf z true
  | VSeq k l => OSeq k (map shape_v l)
  end.
Fixpoint shape (r : rtree) : otree :=
  match r with
  | RKeep t => shape_t t
  | RGen v => shape_v v
  | RSeq k l => OSeq k (map shape l)
  end.

Fixpoint otree_eqb (a b : otree) {struct a} : bool :=
  match a, b with
  | OLeaf x c, OLeaf y d => Z.eqb x y && Bool.eqb c d
  | OUnm i, OUnm j => Nat.eqb i j
  | OSeq k l, OSeq k' l' =>
      skind_eqb k k' &&
      (fix go (l m : list otree) : bool :=
         match l, m with
         | [], [] => true
         | x :: l1, y :: m1 => otree_eqb x y && go l1 m1
         | _, _ => false
         end) l l'
  | _, _ => false
  end.

Definition case := (flags * tree * val * otree)%type.
Definition ok (c : case) : bool :=
  match c with (F, o, n, observed) => otree_eqb (shape (assign_tree F o n)) observed end.
Definition mismatches (l : list case) : list nat := mism ok l.
