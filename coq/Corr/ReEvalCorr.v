From Coq Require Import List ZArith Bool.
Import ListNotations.
From V Require Import Model.ReEval Corr.Util.

(* the stored value after the first evaluation, the value of the argument at the second evaluation; observed: usage error (None) or the result of
   `site() == <second value>` (True exactly when the refreshed contents of the user-controlled parts are used) *)
Definition case := (st * vt * option bool)%type.
Definition ok (c : case) : bool :=
  match c with
  | (s, v, obs) =>
      match re_eval s v, obs with
      | None, None => true
      | Some _, Some b => b
      | _, _ => false
      end
  end.
Definition mismatches (l : list case) : list nat := mism ok l.
