From Coq Require Import List NArith Bool.
Import ListNotations.
From V Require Import Model.Tree Model.SortSet Corr.Util.

(* elements with their repr, in the order given to sort_set_values; observed: the list of strings it returned *)
Definition case := (list (elt * list N) * list (list N))%type.
Definition ok (c : case) : bool :=
  list_eqb str_eqb (sort_set_values (elt * list N) (fun a b => elt_ltx (fst a) (fst b)) snd fixed_F05 (fst c)) (snd c).
Definition mismatches (l : list case) : list nat := mism ok l.
