From Coq Require Import List ZArith Bool Arith.
Import ListNotations.
From V Require Import Model.SnapOps Model.TreeAssign Model.Nest Corr.Util.

(* what can be read from the rewritten argument: the nesting (list / tuple displays, dict displays with their keys in text order,
   calls with their arguments in text order), and for every leaf its value and whether its text is the canonical one *)
Inductive oshape :=
| OLeaf (z : Z) (canon : bool)
| OUnm (id : nat)
| OSeq (k : skind) (l : list oshape)
| ODict (l : list (Z * oshape))
| OCall (c : Z) (l : list (option Z * oshape)).

Fixpoint shape_t (t : ntree) : oshape :=
  match t with
  | NLeaf z c => OLeaf z c
  | NUnm i _ => OUnm i
  | NLst k l => OSeq k (map shape_t l)
  | NDct l => ODict (map (fun kt => match kt with (k, t') => (k, shape_t t') end) l)
  | NCall c pos kws =>
      OCall c (map (fun t' => (None, shape_t t')) pos ++ map (fun kt => match kt with (k, t') => (Some k, shape_t t') end) kws)
  end.

Section S.
Variable ct : ctab.
Fixpoint shape (r : nres) : oshape :=
  match r with
  | QKeep t => shape_t t
  | QGen v => shape_t (canon_tree ct v)
  | QSeq k l => OSeq k (map shape l)
  | QDict l => ODict (map (fun kr => match kr with (k, r') => (k, shape r') end) l)
  | QCall c l => OCall c (map (fun ar => match ar with (a, r') => (a, shape r') end) l)
  end.
End S.

Definition optz_eqb (a b : option Z) : bool :=
  match a, b with None, None => true | Some x, Some y => Z.eqb x y | _, _ => false end.

Fixpoint oshape_eqb (a b : oshape) {struct a} : bool :=
  match a, b with
  | OLeaf x c, OLeaf y d => Z.eqb x y && Bool.eqb c d
  | OUnm i, OUnm j => Nat.eqb i j
  | OSeq k l, OSeq k' l' =>
      skind_eqb k k' &&
      (fix go (l m : list oshape) : bool :=
         match l, m with
         | [], [] => true
         | x :: l1, y :: m1 => oshape_eqb x y && go l1 m1
         | _, _ => false
         end) l l'
  | ODict l, ODict m =>
      (fix go (l m : list (Z * oshape)) : bool :=
         match l, m with
         | [], [] => true
         | (k, x) :: l1, (k', y) :: m1 => Z.eqb k k' && oshape_eqb x y && go l1 m1
         | _, _ => false
         end) l m
  | OCall c l, OCall c' m =>
      Z.eqb c c' &&
      (fix go (l m : list (option Z * oshape)) : bool :=
         match l, m with
         | [], [] => true
         | (k, x) :: l1, (k', y) :: m1 => optz_eqb k k' && oshape_eqb x y && go l1 m1
         | _, _ => false
         end) l m
  | _, _ => false
  end.

Definition case := (flags * ntree * nval * oshape)%type.
Definition ok (ct : ctab) (c : case) : bool :=
  match c with (F, o, n, observed) => oshape_eqb (shape ct (assign_nest ct F o n)) observed end.
Definition mismatches (ct : ctab) (l : list case) : list nat := mism (ok ct) l.

(* never-compared snapshots (Model/Undecided.v): is update approved, the hand-written expression, what is read back afterwards *)
From V Require Import Model.Undecided.
Definition ucase := (bool * ntree * oshape)%type.
Definition okU (ct : ctab) (c : ucase) : bool :=
  match c with (upd, t, observed) => oshape_eqb (shape ct (undecided upd t)) observed end.
Definition mismatchesU (ct : ctab) (l : list ucase) : list nat := mism (okU ct) l.
