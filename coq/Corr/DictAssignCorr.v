From Coq Require Import List ZArith Bool Arith.
Import ListNotations.
From V Require Import Model.SnapOps Model.TreeAssign Model.DictAssign Corr.Util Corr.TreeAssignCorr.

(* flags, old display (key, value tree), new value (key, value) in its order; observed: the entries of the rewritten display in text
   order: key and what can be read from the text of the value *)
Definition case := (flags * list (Z * tree) * list (Z * val) * list (Z * otree))%type.
Definition obs_eqb (a b : Z * otree) : bool := Z.eqb (fst a) (fst b) && otree_eqb (snd a) (snd b).
Definition ok (c : case) : bool :=
  match c with
  | (F, olds, news, observed) =>
      let es := map (fun o => {| e_key := fst o; e_val := snd o |}) olds in
      list_eqb obs_eqb (map (fun i : ditem => (fst i, shape (snd i))) (dict_result F es news)) observed
  end.
Definition mismatches (l : list case) : list nat := mism ok l.
