From Coq Require Import List ZArith Bool Arith.
Import ListNotations.
From V Require Import Model.SnapOps Model.SeqAssign Model.DictAssign Corr.Util.

(* flags, old display (key, value, canonical text?), new value (key, value) in its order; observed: the entries of the rewritten
   display in text order: key, value, is the value text canonical *)
Definition case := (flags * list (Z * Z * bool) * list (Z * Z) * list (Z * Z * bool))%type.
Definition obs_of (i : ditem) : Z * Z * bool :=
  match i with DKeep k l => (k, l_val l, l_canon l) | DGen k v => (k, v, true) end.
Definition triple_eqb (a b : Z * Z * bool) : bool :=
  match a, b with (k, v, c), (k', v', c') => Z.eqb k k' && Z.eqb v v' && Bool.eqb c c' end.
Definition ok (c : case) : bool :=
  match c with
  | (F, olds, news, observed) =>
      let es := map (fun o => match o with (k, v, cn) => {| e_key := k; e_leaf := {| l_val := v; l_canon := cn |} |} end) olds in
      list_eqb triple_eqb (map obs_of (dict_result F es news)) observed
  end.
Definition mismatches (l : list case) : list nat := mism ok l.
