From Coq Require Import List ZArith Bool.
Import ListNotations.
From V Require Import Model.Tree Model.SnapOps Corr.Util.
Open Scope Z_scope.

Fixpoint pv_eqb (a b : pv) {struct a} : bool :=
  match a, b with
  | PAtom x, PAtom y => x =? y
  | PList x, PList y => list_eqb Z.eqb x y
  | PDict x, PDict y =>
      (fix go (l : list (Z * pv)) (m : list (Z * pv)) : bool :=
         match l, m with
         | [], [] => true
         | (k, v) :: r, (k', v') :: r' => (k =? k') && pv_eqb v v' && go r r'
         | _, _ => false
         end) x y
  | _, _ => false
  end.
Definition result_eqb (a b : result) : bool :=
  match a, b with
  | RBool x, RBool y => Bool.eqb x y
  | RTypeError, RTypeError | ROther, ROther => true
  | _, _ => false
  end.

(* old source, flags, operations ; observed: results, (missing, incorrect), reported (create, fix, trim, update), value afterwards *)
Definition case := (option src * flags * list op * list result * (nat * nat) * (bool * bool * bool * bool) * option pv)%type.

Definition ok (c : case) : bool :=
  match c with
  | (old, F, ops, rs, (m, i), (cc, cf, ct, cu), va) =>
      let '(s, rs', cnt) := run fixed_F02 F (fresh old) ops zero in
      let cs := cats s in
      list_eqb result_eqb rs rs'
      && Nat.eqb m (missing cnt) && Nat.eqb i (incorrect cnt)
      && Bool.eqb cc (has_cat Create cs) && Bool.eqb cf (has_cat Fix cs)
      && Bool.eqb ct (has_cat Trim cs) && Bool.eqb cu (has_cat Update cs)
      && opt_eqb pv_eqb va (value_after F s)
  end.
Definition mismatches (l : list case) : list nat := mism ok l.
