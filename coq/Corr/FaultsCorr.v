From Coq Require Import List Bool Arith.
Import ListNotations.
From V Require Import Model.Faults Corr.Util.

(* configuration, injected fault, externals outsourced in this session / persisted before; observed in the real session:
   the recorded write-phase steps, the class of every changed file afterwards (0 old, 1 complete new content, 2 empty,
   3 unparsable), the store (id, still -new) sorted by id, how the run ended (0 completed, 1 interrupted, 2 internal error),
   whether a problem was reported at the end of the write phase, and the files next to which a temporary file was left behind *)
Definition case := (config * option (nat * fkind) * list nat * list nat *
                    (list step * list (nat * nat) * list (nat * bool) * nat * bool * list nat))%type.

Definition step_eqb (a b : step) : bool :=
  match a, b with
  | SRead x, SRead y | SImport x, SImport y | SPersist x, SPersist y | SOpenW x, SOpenW y | SWrite x, SWrite y
  | SMode x, SMode y | SRename x, SRename y => x =? y
  | SFormat, SFormat | SParse, SParse => true
  | _, _ => false
  end.
Definition class_of (ct : content) : nat :=
  match ct with Old => 0 | New Garb => 3 | New _ => 1 | Trunc => 2 end.
Definition pair_eqb {X Y} (ex : X -> X -> bool) (ey : Y -> Y -> bool) (a b : X * Y) : bool := ex (fst a) (fst b) && ey (snd a) (snd b).

Fixpoint insert_sorted (x : nat * bool) (l : list (nat * bool)) : list (nat * bool) :=
  match l with
  | [] => [x]
  | y :: r => if fst x <=? fst y then x :: l else y :: insert_sorted x r
  end.
Definition sort_store (l : list (nat * bool)) : list (nat * bool) := fold_right insert_sorted [] l.

Definition ok (c : case) : bool :=
  match c with
  | (cfg, flt, news, olds, (otrace, odisk, ostore, ohalt, oreported, otmp)) =>
      let r := write_phase flt cfg (init cfg news olds) in
      let w := final r in
      list_eqb step_eqb (trace w) otrace
      && list_eqb (pair_eqb Nat.eqb Nat.eqb) (map (fun e => (fst e, class_of (snd e))) (disk w)) odisk
      && list_eqb (pair_eqb Nat.eqb Bool.eqb) (sort_store (store w)) ostore
      && (match halted r with None => 0 | Some (HCrash _) => 1 | Some (HRaise _) => 2 end =? ohalt)
      && Bool.eqb (reported w) oreported
      && list_eqb Nat.eqb (map fst (tmp w)) otmp
  end.
Definition mismatches (l : list case) : list nat := mism ok l.
