From Coq Require Import List ZArith Bool.
Import ListNotations.
From V Require Import Model.SnapOps Model.Unmanaged Corr.Util.
Open Scope Z_scope.

(* observed element: an Is(..) element that survived (by id) or a value with "text is canonical" *)
Inductive oitem := OUnm (id : nat) | OVal (v : Z) (canon : bool).
Definition case := (flags * list uleaf * list Z * list oitem)%type.
Definition item_matches (i : uitem) (o : oitem) : bool :=
  match i, o with
  | UKeep l, OUnm id => u_unmanaged l && Nat.eqb (u_id l) id
  | UKeep l, OVal v c => negb (u_unmanaged l) && (u_val l =? v) && Bool.eqb (u_canon l) c
  | UGen w, OVal v c => (w =? v) && c
  | _, _ => false
  end.
Definition ok (c : case) : bool :=
  match c with
  | (F, old, new, obs) =>
      (fix go (a : list uitem) (b : list oitem) : bool :=
         match a, b with
         | [], [] => true
         | x :: a', y :: b' => item_matches x y && go a' b'
         | _, _ => false
         end) (useq_result F old new) obs
  end.
Definition mismatches (l : list case) : list nat := mism ok l.
