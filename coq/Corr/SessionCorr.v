From Coq Require Import List Bool Arith.
Import ListNotations.
From V Require Import Model.SnapOps Model.Session Corr.Util.

(* categories that are shown, categories that are approved, pending changes (category, file; all of them visible), observed: per (file, category) whether
   the change was written, and the categories whose preview was printed, in order *)
Definition case := (list cat * list cat * list (cat * nat) * list (nat * cat * bool) * list cat)%type.
Definition cmem (c : cat) (l : list cat) : bool := existsb (cat_eqb c) l.
Definition ok (x : case) : bool :=
  match x with
  | (s, a, p, obs, rep) =>
      let cf := {| shown := fun c => cmem c s; approve := fun c => cmem c a |} in
      let pending := map (fun cf' : cat * nat => {| ch_cat := fst cf'; ch_file := snd cf'; ch_visible := true |}) p in
      let r := session cf pending in
      forallb (fun o : nat * cat * bool => match o with (f, c, b) => Bool.eqb (applied (fst r) f c) b end) obs && list_eqb cat_eqb (snd r) rep
  end.
Definition mismatches (l : list case) : list nat := mism ok l.
