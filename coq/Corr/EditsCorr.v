From Coq Require Import List Arith Bool.
Import ListNotations.
From V Require Import Model.Edits Corr.Util.

(* the tree of the snapshot arguments of one file, the nodes that are replaced, the nodes that are deleted, (container, index, number of new elements),
   and the replacement ranges the real apply_all recorded (sorted) *)
Definition case := (node * list nat * list nat * list (nat * nat * nat) * list (nat * nat))%type.
Definition memn (n : nat) (l : list nat) : bool := existsb (Nat.eqb n) l.
Definition cset_of (reps dels : list nat) (inss : list (nat * nat * nat)) : cset :=
  {| rep := fun i => memn i reps; del := fun i => memn i dels;
     ins := fun p i => fold_right (fun t acc => match t with (p', i', n) => if Nat.eqb p p' && Nat.eqb i i' then n + acc else acc end) 0 inss |}.
Fixpoint ranges_eqb (a b : list (nat * nat)) : bool :=
  match a, b with
  | [], [] => true
  | x :: a', y :: b' => Nat.eqb (fst x) (fst y) && Nat.eqb (snd x) (snd y) && ranges_eqb a' b'
  | _, _ => false
  end.
Definition ok (c : case) : bool :=
  match c with
  | (t, reps, dels, inss, observed) =>
      let cs := cset_of reps dels inss in
      wfb t && invb cs t && ranges_eqb (sort_r (ranges cs t)) observed && pairwise_okb observed
  end.
Definition mismatches (l : list case) : list nat := mism ok l.
