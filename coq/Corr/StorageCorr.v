From Coq Require Import List Bool Arith.
Import ListNotations.
From V Require Import Model.Storage Corr.Util.

(* a history and, for every HSession step in it, what the real directory and test file looked like afterwards:
   the stored files as (data id, -new?, suffix id) and per test the reference (data id, suffix id) or None *)
Definition obs := (list (nat * bool * nat) * list (option (nat * nat)))%type.
Definition case := (list hstep * list obs)%type.

Definition name_of (x : nat * bool * nat) : fname := {| fn_hash := fst (fst x); fn_new := snd (fst x); fn_suf := snd x |}.
Definition same_store (s : store) (l : list (nat * bool * nat)) : bool :=
  forallb (fun x => has s (name_of x)) l
  && forallb (fun n => existsb (fun x => fname_eqb n (name_of x)) l) (names s)
  && Nat.eqb (length s) (length l)
  && forallb (fun e => Nat.eqb (fn_hash (fst e)) (snd e)) s.
Definition same_refs (ts : list test) (l : list (option (nat * nat))) : bool :=
  list_eqb (opt_eqb (fun a b => Nat.eqb (fst a) (fst b) && Nat.eqb (snd a) (snd b))) (map t_ref ts) l.

Fixpoint check (st : store * list test) (h : list hstep) (o : list obs) : bool :=
  match h with
  | [] => match o with [] => true | _ => false end
  | step :: r =>
      let st' := hstep_run st step in
      match step with
      | HSession _ =>
          match o with
          | (files, refs) :: o' => same_store (fst st') files && same_refs (snd st') refs && check st' r o'
          | [] => false
          end
      | _ => check st' r o
      end
  end.
Definition ok (c : case) : bool := check ([], []) (fst c) (snd c).
Definition mismatches (l : list case) : list nat := mism ok l.
