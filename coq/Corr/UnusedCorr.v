From Coq Require Import List NArith Bool.
Import ListNotations.
From V Require Import Model.Unused Corr.Util.

(* the names in the storage directory (sorted), the references of the participating test file, observed: what unused_externals() returns (sorted) *)
Definition case := (list str * list ref * list str)%type.
Definition ok (c : case) : bool :=
  match c with (store, refs, obs) => list_eqb Unused.str_eqb (unused store refs) obs end.
Definition mismatches (l : list case) : list nat := mism ok l.
