(* helpers for the generated correspondence shards *)
From Coq Require Import List NArith ZArith Bool.
Import ListNotations.

Fixpoint mism_from {X} (i : nat) (ok : X -> bool) (l : list X) : list nat :=
  match l with
  | [] => []
  | x :: r => if ok x then mism_from (S i) ok r else i :: mism_from (S i) ok r
  end.
Definition mism {X} (ok : X -> bool) (l : list X) : list nat := mism_from 0 ok l.

Fixpoint list_eqb {X} (e : X -> X -> bool) (a b : list X) : bool :=
  match a, b with
  | [], [] => true
  | x :: a', y :: b' => e x y && list_eqb e a' b'
  | _, _ => false
  end.
Definition opt_eqb {X} (e : X -> X -> bool) (a b : option X) : bool :=
  match a, b with
  | None, None => true
  | Some x, Some y => e x y
  | _, _ => false
  end.
Definition str_eqb (a b : list N) : bool := list_eqb N.eqb a b.
