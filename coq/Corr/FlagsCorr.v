From Coq Require Import List Bool Arith.
Import ListNotations.
From V Require Import Model.Tree Model.Flags Corr.Util.

(* one real session: the configuration, the review answers, skip-updates;
   observed: usage error?, applied (create, fix, trim, update), unused external removed? *)
Definition case := (env * (bool * bool * bool * bool) * bool * (bool * (bool * bool * bool * bool) * bool))%type.

Definition ok (c : case) : bool :=
  match c with
  | (e, (ac, af, at_, au), skip, (err, (oc, of_, ot, ou), removed)) =>
      let s := {| pending := fun _ => true; diff_nonempty := fun _ => true;
                  answer := fun c => match c with Create => ac | Fix => af | Trim => at_ | Update => au end;
                  skip_updates := skip |} in
      Bool.eqb err (match resolve e with UsageError => true | _ => false end)
      && Bool.eqb oc (applied e s Create) && Bool.eqb of_ (applied e s Fix)
      && Bool.eqb ot (applied e s Trim) && Bool.eqb ou (applied e s Update)
      && Bool.eqb removed (removes_unused_externals e)
  end.
Definition mismatches (l : list case) : list nat := mism ok l.
