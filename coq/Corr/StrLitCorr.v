From Coq Require Import List NArith Bool.
Import ListNotations.
From V Require Import Model.Tree Model.StrLit Corr.Util.
Open Scope N_scope.

(* membership in a sorted list of disjoint closed ranges (the non-printable code points of the running interpreter) *)
Fixpoint in_sorted (rs : list (N * N)) (c : N) : bool :=
  match rs with
  | [] => false
  | (a, b) :: r => if c <? a then false else if c <=? b then true else in_sorted r c
  end.

(* (string, literal written by value_to_token) *)
Definition case := (list N * list N)%type.
Definition ok (nonp : list (N * N)) (c : case) : bool :=
  let pr := fun x => negb (in_sorted nonp x) in
  str_eqb (str_literal pr fixed_F17 (fst c)) (snd c)
  && match decode_literal (snd c) with Done v [] => str_eqb v (fst c) | _ => false end.
Definition mismatches (nonp : list (N * N)) (l : list case) : list nat := mism (ok nonp) l.

(* bytes *)
Definition bok (c : case) : bool :=
  str_eqb (bytes_repr (fst c)) (snd c)
  && match decode_bytes_literal (snd c) with Done v [] => str_eqb v (fst c) | _ => false end.
Definition bmismatches (l : list case) : list nat := mism bok l.

(* the decoder model against ast.literal_eval on arbitrary (hand-written) literals: (literal, value) *)
Definition dok (c : case) : bool :=
  match decode_literal (fst c) with Done v [] => str_eqb v (snd c) | _ => false end.
Definition dmismatches (l : list case) : list nat := mism dok l.

(* F-97: (value, literal written by value_to_token, literal.encode(encoding, "backslashreplace") decoded again, first code point the encoding does not
   represent: 128 = ascii, 256 = latin-1) - the model's encode_text against Python's codec, and the escaped literal read back by the lexer model *)
Definition ecase := (list N * list N * list N * N)%type.
Definition eok (c : ecase) : bool :=
  match c with (s, lit, enc, limit) =>
    str_eqb (encode_text (fun x => x <? limit) lit) enc
    && match decode_literal enc with Done v [] => str_eqb v s | _ => false end
  end.
Definition emismatches (l : list ecase) : list nat := mism eok l.
