From Coq Require Import List NArith Bool.
Import ListNotations.
From V Require Import Model.StrLit Model.Tokens Corr.Util Corr.StrLitCorr.
Open Scope N_scope.

Definition t2 := (N * list N)%type.
Definition mk (l : list t2) : list tok := map (fun p => Tok (fst p) (snd p)) l.
Definition tokb (a b : tok) : bool := (ty a =? ty b) && Tokens.str_eqb (tx a) (tx b).

(* the tokens of the node before normalize, value_to_token(value), observed: _token_of_node(node), `node != value_tokens`,
   `node != normalize(value_tokens)`; supported = every string literal is one the lexer model knows *)
Definition case := (list t2 * list t2 * list t2 * bool * bool * bool)%type.
Definition ok (nonp : list (N * N)) (c : case) : bool :=
  let pr := fun x => negb (in_sorted nonp x) in
  match c with (raw, canon, obs, leaf, norm, supported) =>
    match normalize pr (mk raw) with
    | None => negb supported
    | Some n =>
        list_eqb tokb n (mk obs)
        && match needs_update_leaf pr (mk raw) (mk canon) with Some b => Bool.eqb b leaf | None => negb supported end
        && match needs_update_norm pr (mk raw) (mk canon) with Some b => Bool.eqb b norm | None => negb supported end
    end
  end.
Definition mismatches (nonp : list (N * N)) (l : list case) : list nat := mism (ok nonp) l.

(* the constant tables of _utils.py, extracted from the source text on every run (harness/vh/tokenscorr.py: source_tables, fail-closed),
   against the tables the model and its theorems speak about *)
Definition tables_ok (q3' q1' closers' comma' fpre' : list (list N)) : bool :=
  list_eqb Util.str_eqb q3' q3s && list_eqb Util.str_eqb q1' q1 && list_eqb Util.str_eqb closers' closers
  && list_eqb Util.str_eqb comma' [comma] && list_eqb Util.str_eqb fpre' fprefixes.
