From Coq Require Import List Bool Arith.
Import ListNotations.
From V Require Import Model.Flags Corr.Util.

(* category flags given, pending categories (create, fix, trim, update); observed: did run_inline change the file? did the real session? *)
Definition case := (list flag * (bool * bool * bool * bool) * bool * bool)%type.
Definition ok (c : case) : bool :=
  match c with
  | (given, (pc, pf, pt, pu), inline_changed, plugin_changed) =>
      let s := {| pending := fun c => match c with Create => pc | Fix => pf | Trim => pt | Update => pu end;
                  diff_nonempty := fun _ => true; answer := fun _ => false; skip_updates := false |} in
      let e := {| cli := Some (given ++ [FReport]); env_var := None; cfg_default := [FReport]; cfg_default_tui := [FCreate; FReview];
                  tty := false; xdist := false; ci := false; cpython := true |} in
      let any f := existsb f all_cats in
      (* a file changes iff some category is applied (an applied update may leave the bytes unchanged, so only <- is checked for it) *)
      implb inline_changed (any (inline_applied given s))
      && implb plugin_changed (any (applied e s))
      && Bool.eqb (any (inline_applied given s)) (any (applied e s))
      && implb (existsb (fun c => match c with Update => false | _ => inline_applied given s c end) all_cats) inline_changed
  end.
Definition mismatches (l : list case) : list nat := mism ok l.
