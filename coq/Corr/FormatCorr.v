From Coq Require Import List Arith Bool.
Import ListNotations.
From V Require Import Model.Format Corr.Util.

(* texts are identified by small ids chosen by the harness; the formatter is given as a finite table
   (id -> id of its output, computed by calling the real formatter) and the set of ids on which it fails *)
Definition case := (bool * list (nat * nat) * list nat * nat * nat * (nat * bool))%type.
Definition lookup_fmt (tbl : list (nat * nat)) (x : nat) : nat :=
  match find (fun e => Nat.eqb (fst e) x) tbl with Some e => snd e | None => x end.
Definition ok (c : case) : bool :=
  match c with
  | (enforce, tbl, fails, src, edited, (out, problem)) =>
      let r := new_code nat Nat.eqb (lookup_fmt tbl) (fun x => negb (existsb (Nat.eqb x) fails)) enforce src edited in
      Nat.eqb (fst r) out && Bool.eqb (snd r) problem
  end.
Definition mismatches (l : list case) : list nat := mism ok l.
