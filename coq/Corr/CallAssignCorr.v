From Coq Require Import List ZArith Bool Arith.
Import ListNotations.
From V Require Import Model.SnapOps Model.TreeAssign Model.CallAssign Corr.Util Corr.TreeAssignCorr.

(* flags, positional arguments, keyword arguments, fields of the new value; observed: the arguments of the rewritten call in
   text order (None = positional, Some k = keyword of field k) with what can be read from their text *)
Definition case := (flags * list tree * list (Z * tree) * list field * list (option Z * otree))%type.
Definition obs_of (i : citem) : option Z * otree :=
  match i with CPos r => (None, shape r) | CKw k r => (Some k, shape r) end.
Definition obs_eqb (a b : option Z * otree) : bool :=
  match a, b with
  | (None, x), (None, y) => otree_eqb x y
  | (Some k, x), (Some k', y) => Z.eqb k k' && otree_eqb x y
  | _, _ => false
  end.
Definition ok (c : case) : bool :=
  match c with
  | (F, pos, kws, fs, observed) => list_eqb obs_eqb (map obs_of (call_result F {| c_pos := pos; c_kws := kws |} fs)) observed
  end.
Definition mismatches (l : list case) : list nat := mism ok l.
