From Coq Require Import List Bool Arith.
Import ListNotations.
From V Require Import Model.SeqUpdate Corr.Util.

(* is_tuple, g0, items (element id, gap after it), deleted flags, inserts per position (n+1 positions);
   observed: the token list between the braces after the real generic_sequence_update *)
Definition case := (bool * list tok * list (nat * list tok) * list bool * list (list tok) * list tok)%type.
Definition ok (c : case) : bool :=
  match c with
  | (t, g, its, d, l, out) =>
      list_beq (seq_update t {| g0 := g; items := its |} (delf d) (insf l)) out
  end.
Definition mismatches (l : list case) : list nat := mism ok l.
