From Coq Require Import List Arith NArith Bool.
Import ListNotations.
From V Require Import Model.Rewrite Corr.Util Proofs.RewriteProofs.

(* (source text as read, recorded replacements ((l,c),(l,c),text), text returned by new_code() without formatter) *)
Definition case := (list N * list ((nat * nat) * (nat * nat) * list N) * option (list N))%type.
Definition mk (x : (nat * nat) * (nat * nat) * list N) : repl :=
  {| r_start := fst (fst x); r_end := snd (fst x); r_text := snd x |}.
Definition ok (c : case) : bool :=
  match c with
  | (t, rs, out) => opt_eqb str_eqb (new_code t (map mk rs)) out
                    && valid_repls t (map mk rs)      (* premise of outside_preserved, checked on the instance *)
  end.
Definition mismatches (l : list case) : list nat := mism ok l.
