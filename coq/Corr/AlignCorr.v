From Coq Require Import List ZArith Bool.
Import ListNotations.
From V Require Import Model.Align Model.SnapOps Model.SeqAssign Corr.Util.
Open Scope Z_scope.

(* (a, b, align(a, b), add_x(align(a, b))) as computed by inline_snapshot._align *)
Definition case := (list Z * list Z * list dir * list dir)%type.
Definition ok (c : case) : bool :=
  match c with
  | (a, b, s, sx) =>
      list_eqb dir_eqb (align Z Z Z.eqb a b) s && list_eqb dir_eqb (add_x s) sx
  end.
Definition mismatches (l : list case) : list nat := mism ok l.

(* add_x on arbitrary scripts *)
Definition xcase := (list dir * list dir)%type.
Definition xok (c : xcase) : bool := list_eqb dir_eqb (add_x (fst c)) (snd c).
Definition xmismatches (l : list xcase) : list nat := mism xok l.

(* flat sequence assign: flags, old leaves, new values; observed elements (value, canonical text?) and reported (fix, update) *)
Definition scase := (flags * list (Z * bool) * list Z * list (Z * bool) * (bool * bool))%type.
Definition item_obs (i : item) : Z * bool := match i with Keep l => (l_val l, l_canon l) | Gen v => (v, true) end.
Definition sok (c : scase) : bool :=
  match c with
  | (F, old, new, obs, (rf, ru)) =>
      let o := map (fun e => {| l_val := fst e; l_canon := snd e |}) old in
      list_eqb (fun x y => (fst x =? fst y) && Bool.eqb (snd x) (snd y)) (map item_obs (seq_result F o new)) obs
      && Bool.eqb rf (has_cat Fix (seq_cats o new)) && Bool.eqb ru (has_cat Update (seq_cats o new))
  end.
Definition smismatches (l : list scase) : list nat := mism sok l.
