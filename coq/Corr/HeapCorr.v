From Coq Require Import List ZArith Bool Arith.
Import ListNotations.
From V Require Import Model.Heap Corr.Util.

(* heap, value, mutations performed AFTER the value was recorded with clone(); observed: the plain value read from the
   recorded copy afterwards and the plain value read from the original afterwards *)
Definition case := (heap * hval * list mut * option pure * option pure)%type.

Fixpoint pure_eqb (a b : pure) {struct a} : bool :=
  match a, b with
  | PInt x, PInt y => Z.eqb x y
  | PList x, PList y =>
      (fix go (l m : list pure) : bool :=
         match l, m with
         | [], [] => true
         | u :: l', w :: m' => pure_eqb u w && go l' m'
         | _, _ => false
         end) x y
  | _, _ => false
  end.

Definition ok (c : case) : bool :=
  match c with
  | (h, v, ms, copy_after, orig_after) =>
      let fuel := S (S (length h + length ms)) in
      match deepcopy fuel h v with
      | None => false
      | Some (h', v') =>
          let hm := fold_left apply_mut ms h' in
          opt_eqb pure_eqb (read (S (length hm)) hm v') copy_after
          && opt_eqb pure_eqb (read (S (S (length hm))) hm v) orig_after
      end
  end.
Definition mismatches (l : list case) : list nat := mism ok l.

(* recorder traces: initial heap of the test, events (observations = clone(), mutations, allocations) executed on real
   Python objects; observed: what every recorded copy reads as at the end, and what every object of the test reads as at
   the end (None = not readable within the fuel: cyclic) *)
Definition rcase := (heap * list ev * list (option pure) * list (option pure))%type.
Definition rok (c : rcase) : bool :=
  match c with
  | (h, evs, recs_after, cells_after) =>
      let fuel := S (S (length h + length evs)) in
      let s := rrun fuel evs (rinit h) in
      let rd := read fuel (r_heap s) in
      list_eqb (opt_eqb pure_eqb) (map rd (r_recs s)) recs_after
      && list_eqb (opt_eqb pure_eqb)
           (map (fun a => rd (HRef a)) (filter (fun a => negb (owned s a)) (seq 0 (length (r_heap s))))) cells_after
  end.
Definition rmismatches (l : list rcase) : list nat := mism rok l.
