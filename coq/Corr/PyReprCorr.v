From Coq Require Import List ZArith NArith Bool Arith.
Import ListNotations.
From V Require Import Model.PyRepr Corr.Util.

(* the abstract value the harness expects (built from the Python object by the harness's own rules), the tokens that the
   real value_to_token produced for the object, and what Python's own parser (ast.parse) reads from the generated code,
   mapped to the model's syntax trees *)
Definition case := (pv * list tok * option pv)%type.
Definition ok (c : case) : bool :=
  match c with
  | (v, toks, parsed) =>
      wf v && list_eqb tok_eqb (repr_toks v) toks && opt_eqb pv_eqb (parse toks) parsed && opt_eqb pv_eqb parsed (Some v)
  end.
Definition mismatches (l : list case) : list nat := mism ok l.
