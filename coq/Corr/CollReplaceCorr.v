From Coq Require Import List ZArith Bool.
Import ListNotations.
From V Require Import Model.CollReplace Corr.Util.

(* user-controlled member, update_flags.trim, previous value is a set / frozenset, members of the previous value (as the harness wrote them),
   distinct tested values in the order of the first test; observed: nothing, or (category is fix, the members of the written list) *)
Definition case := (bool * bool * bool * list Z * list Z * option (bool * list Z))%type.
Definition ok (c : case) : bool :=
  match c with
  | (unm, trim, is_set, old, tested, obs) =>
      match coll_replace unm trim is_set old tested, obs with
      | NoChange, None => true
      | Repl f nv, Some (f', nv') => Bool.eqb f f' && list_eqb Z.eqb nv nv'
      | _, _ => false
      end
  end.
Definition mismatches (l : list case) : list nat := mism ok l.
