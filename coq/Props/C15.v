(* C15 - faults while rewriting never leave a half-written file or a dangling external.  Property theorems about
   Model/Faults.v: the write phase of pytest_sessionfinish as a sequential program of side-effecting steps with one
   injected fault (interruption before a step, or failure of the step) at an ARBITRARY step, for arbitrary numbers of
   files and externals.  Since the repair of F-19 the new content is written into a temporary file that replaces the test
   file atomically, so no test file is ever truncated.  The *_refuted theorem shows what does NOT hold: garbage from the
   formatter combined with a second transient formatter failure gets written. *)
From Coq Require Import List ZArith NArith Bool Arith.
Import ListNotations.
From V Require Import Model.Faults Proofs.FaultsProofs.

Theorem C15_no_torn_file :
  forall (flt : option (nat * fkind)) (c : config) (news olds : list nat) (g : nat),
  ~ In (g, Trunc) (disk (final (write_phase flt c (init c news olds)))).
Proof. exact no_torn_file. Qed.

Theorem C15_no_dangling_external :
  forall (flt : option (nat * fkind)) (c : config) (news olds : list nat) (g : nat) (t : tkind),
  In (g, New t) (disk (final (write_phase flt c (init c news olds)))) ->
  forall f : file,
  In f (c_files c) ->
  forall e : nat,
  In e (f_exts f) ->
  In e (news ++ olds) -> resolves e (store (final (write_phase flt c (init c news olds)))) = true.
Proof. exact no_dangling_external. Qed.

Theorem C15_old_externals_stay :
  forall (flt : option (nat * fkind)) (c : config) (news olds : list nat) (e : nat),
  In e olds -> ~ In e news -> resolves e (store (final (write_phase flt c (init c news olds)))) = true.
Proof. exact old_externals_stay. Qed.

Theorem C15_phaseA_halt_writes_nothing :
  forall (flt : option (nat * fkind)) (c : config) (news olds : list nat) (h : halt) (wA : world),
  each (prepare flt c) (c_files c) (init c news olds) = inr (h, wA) ->
  halted (write_phase flt c (init c news olds)) = Some h /\
  (forall (g : nat) (ct : content),
  In (g, ct) (disk (final (write_phase flt c (init c news olds)))) -> ct = Old).
Proof. exact phaseA_halt_writes_nothing. Qed.

Theorem C15_no_garbage_written :
  forall (flt : option (nat * fkind)) (c : config) (news olds : list nat) (g : nat),
  ~ In (g, New Garb) (disk (final (write_phase flt c (init c news olds)))).
Proof. exact no_garbage_written. Qed.

Theorem C15_completed_all_new :
  forall (flt : option (nat * fkind)) (c : config) (news olds : list nat),
  halted (write_phase flt c (init c news olds)) = None ->
  forall f : file,
  In f (c_files c) ->
  exists t : tkind, lookup (f_id f) (disk (final (write_phase flt c (init c news olds)))) = Some (New t).
Proof. exact completed_all_new. Qed.

Theorem C15_format_failure_counted :
  forall (flt : option (nat * fkind)) (c : config) (news olds : list nat) (n : nat),
  flt = Some (n, Fail) ->
  nth_error (trace (final (write_phase flt c (init c news olds)))) n = Some SFormat ->
  1 <= problems (final (write_phase flt c (init c news olds))).
Proof. exact format_failure_counted. Qed.

Theorem C15_format_failure_degrades :
  forall (flt : option (nat * fkind)) (c : config) (news olds : list nat) (n : nat),
  flt = Some (n, Fail) ->
  nth_error (trace (final (write_phase flt c (init c news olds)))) n = Some SFormat ->
  halted (write_phase flt c (init c news olds)) = None /\
  reported (final (write_phase flt c (init c news olds))) = true /\
  (forall f : file,
  In f (c_files c) ->
  exists t : tkind,
  lookup (f_id f) (disk (final (write_phase flt c (init c news olds)))) = Some (New t) /\ t <> Garb).
Proof. exact format_failure_degrades. Qed.

Theorem C15_tmp_only_after_interruption :
  forall (flt : option (nat * fkind)) (c : config) (news olds : list nat),
  match halted (write_phase flt c (init c news olds)) with
  | Some (HCrash _) => True
  | _ => tmp (final (write_phase flt c (init c news olds))) = []
  end.
Proof. exact tmp_only_after_interruption. Qed.

(* the configuration for which the pinned tree wrote unparsable formatter output (a formatter that returns it and fails once during phase A) is
   repaired: unformatted code, run completed, problem reported *)
Theorem C15_garbage_double_fault_repaired :
  let c := {| c_enforce := true; c_fmt := FGarbage; c_files := [{| f_id := 0; f_clean := true; f_import := false; f_exts := [] |}] |} in
  let r := write_phase (Some (1, Fail)) c (init c [] []) in
  disk (final r) = [(0, New Raw)] /\ halted r = None /\ reported (final r) = true.
Proof. exact garbage_double_fault_repaired. Qed.

(* a formatter that misbehaves on every call (always fails, or always prints with exit status 0 something that is not the formatted code) and no
   other fault: the run completes, every changed file gets the complete unformatted new content, and the problem is reported *)
Theorem C15_bad_formatter_degrades :
  forall (flt : option (nat * fkind)) (c : config) (news olds : list nat),
  flt = None -> c_fmt c <> FOk ->
  halted (write_phase flt c (init c news olds)) = None /\
  (forall f : file, In f (c_files c) -> lookup (f_id f) (disk (final (write_phase flt c (init c news olds)))) = Some (New Raw)) /\
  (forall n : nat, nth_error (trace (final (write_phase flt c (init c news olds)))) n = Some SFormat ->
   reported (final (write_phase flt c (init c news olds))) = true).
Proof. exact bad_formatter_degrades. Qed.

Print Assumptions C15_no_torn_file.
Print Assumptions C15_no_dangling_external.
Print Assumptions C15_old_externals_stay.
Print Assumptions C15_phaseA_halt_writes_nothing.
Print Assumptions C15_no_garbage_written.
Print Assumptions C15_completed_all_new.
Print Assumptions C15_format_failure_counted.
Print Assumptions C15_format_failure_degrades.
Print Assumptions C15_tmp_only_after_interruption.
Print Assumptions C15_garbage_double_fault_repaired.
Print Assumptions C15_bad_formatter_degrades.
