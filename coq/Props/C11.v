(* C11 - fixing a container keeps what did not change.
   Property theorems only: each is closed by `exact <lemma>`; proofs live in Proofs/. *)
From Coq Require Import List Arith.
Import ListNotations.
From V Require Import Model.Align Proofs.AlignValid Proofs.AlignProofs.
From V Require Import Model.SnapOps Model.TreeAssign Proofs.TreeAssignProofs.
From V Require Import Proofs.TreeAssignConfluence.
From Coq Require Import ZArith.
From V Require Import Model.SeqAssign Model.DictAssign Proofs.DictAssignProofs.
From V Require Import Model.CallAssign Proofs.CallAssignProofs.
Close Scope Z_scope.

(* the script computed for (old, new) is a valid edit script: it consumes both sequences exactly and
   marks `m` only on equal pairs, for an arbitrary (not necessarily transitive or symmetric) == *)
Theorem C11_align_valid : forall (A B : Type) (eqb : A -> B -> bool) (a : list A) (b : list B),
  valid A B eqb (align A B eqb a b) a b.
Proof. exact align_valid. Qed.

Theorem C11_add_x_valid : forall (A B : Type) (eqb : A -> B -> bool) (s : list dir) (a : list A) (b : list B),
  valid A B eqb s a b -> valid A B eqb (add_x s) a b.
Proof. exact add_x_valid. Qed.

(* the equal common prefix and suffix are matched (and survive add_x) *)
Theorem C11_align_prefix_m : forall (A B : Type) (eqb : A -> B -> bool) (a : list A) (b : list B),
  firstn (common_prefix A B eqb a b) (align A B eqb a b) = repeat Dm (common_prefix A B eqb a b).
Proof. exact align_prefix_m. Qed.

Theorem C11_align_suffix_m : forall (A B : Type) (eqb : A -> B -> bool) (a : list A) (b : list B),
  exists s, align A B eqb a b = s ++ repeat Dm (align_end A B eqb a b).
Proof. exact align_suffix_m. Qed.

Theorem C11_add_x_keeps_m_prefix : forall n s, firstn n (add_x (repeat Dm n ++ s)) = repeat Dm n.
Proof. exact add_x_keeps_m_prefix. Qed.

Theorem C11_add_x_count_m : forall s, count_occ dir_eq_dec (add_x s) Dm = count_occ dir_eq_dec s Dm.
Proof. exact add_x_count_m. Qed.

(* unchanged sequences are matched completely *)
Theorem C11_align_refl_all_m : forall (A B : Type) (eqb : A -> B -> bool) (a : list A) (b : list B),
  Forall2 (fun x y => eqb x y = true) a b -> align A B eqb a b = repeat Dm (length a).
Proof. exact align_refl_all_m. Qed.

(* the alignment of the differing middle part matches a maximal number of elements
   (longest common subsequence): no x-free valid script has more matches *)
Theorem C11_nw_optimal : forall (A B : Type) (eqb : A -> B -> bool) (a : list A) (b : list B) (s : list dir),
  valid A B eqb s a b -> ~ In Dx s ->
  count_occ dir_eq_dec s Dm <= count_occ dir_eq_dec (nw_align A B eqb a b) Dm.
Proof. exact nw_optimal. Qed.

(* scripts never contain an insertion directly followed by a deletion (needed by the text edit, C02/C03) *)
Theorem C11_align_no_i_then_d : forall (A B : Type) (eqb : A -> B -> bool) (a : list A) (b : list B) p q,
  align A B eqb a b <> p ++ Di :: Dd :: q.
Proof. exact align_no_i_then_d. Qed.

(* nested containers: a subtree whose value did not change keeps its source text verbatim at any depth (update not approved) *)
Theorem C11_tree_equal_keeps_text :
  forall (F : flags) (o : tree) (n : val),
  f_update F = false -> elt_eqb o n = true -> verbatim (assign_tree F o n) = Some o.
Proof. exact tree_equal_keeps_text. Qed.

Theorem C11_tree_noflags_identity :
  forall (F : flags) (o : tree) (n : val),
  f_fix F = false -> f_update F = false -> verbatim (assign_tree F o n) = Some o.
Proof. exact tree_noflags_identity. Qed.

(* the equal common prefix of an edited nested container keeps its whole source text *)
Theorem C11_tree_prefix_verbatim :
  forall (f : nat) (F : flags) (k : skind) (olds : list tree) (news : list val),
  f_update F = false ->
  let c := Align.common_prefix tree val elt_eqb olds news in
  exists items : list rtree,
  assign (S f) F (TSeq k olds) (VSeq k news) = RSeq k items /\
  verbatim_list (firstn c items) = Some (firstn c olds).
Proof. exact tree_prefix_verbatim. Qed.

(* dict entries are matched by key: an entry whose value did not change keeps its source text (nested containers and hand-written leaves
   included), wherever other entries are inserted or deleted *)
Theorem C11_dict_equal_entry_verbatim :
  forall (F : flags) (olds : list entry) (news : list (Z * val)) (e : entry) (v : val),
  f_update F = false -> In e olds -> lookup_new (e_key e) news = Some v -> elt_eqb (e_val e) v = true ->
  exists r : rtree, In (e_key e, r) (dict_result F olds news) /\ verbatim r = Some (e_val e).
Proof. exact dict_equal_entry_verbatim. Qed.

(* keyword arguments are matched by name: an argument whose value did not change keeps its source text (at any nesting depth of the value) *)
Theorem C11_call_equal_kw_verbatim :
  forall (F : flags) (c : call) (fs : list field) (k : Z) (t : tree) (f : field),
  f_update F = false -> In (k, t) (c_kws c) -> find_field k fs = Some f -> elt_eqb t (fd_val f) = true ->
  exists r : rtree, In (CKw k r) (call_result F c fs) /\ verbatim r = Some t.
Proof. exact call_equal_kw_verbatim. Qed.

(* with neither fix nor update approved the whole call survives verbatim *)
Theorem C11_call_noflags_identity :
  forall (F : flags) (c : call) (fs : list field),
  f_fix F = false -> f_update F = false ->
  map (fun i : citem => match i with CPos r => (None, verbatim r) | CKw k r => (Some k, verbatim r) end) (call_result F c fs) =
  map (fun e : tree + Z * tree => match e with inl t => (None, Some t) | inr (k, t) => (Some k, Some t) end) (elements c).
Proof. exact call_noflags_identity. Qed.

(* the full statement is FALSE for positional arguments (finding F-41): `A(0+1)` observed as A(f0=1), fix approved, update not: the unchanged
   argument is deleted and written again as a keyword *)
Theorem C11_positional_argument_rewritten_refuted :
  exists (F : flags) (c : call) (fs : list field),
  f_fix F = true /\ f_update F = false /\ c_pos c = [TLeaf 1%Z false] /\
  fs = [{| fd_name := 0%Z; fd_val := VAtom 1%Z; fd_default := false |}] /\
  call_result F c fs = [CKw 0%Z (RGen (VAtom 1%Z))].
Proof. exact positional_argument_rewritten_refuted. Qed.

Print Assumptions C11_align_valid.
Print Assumptions C11_add_x_valid.
Print Assumptions C11_align_prefix_m.
Print Assumptions C11_align_suffix_m.
Print Assumptions C11_add_x_keeps_m_prefix.
Print Assumptions C11_add_x_count_m.
Print Assumptions C11_align_refl_all_m.
Print Assumptions C11_nw_optimal.
Print Assumptions C11_align_no_i_then_d.
Print Assumptions C11_tree_equal_keeps_text.
Print Assumptions C11_tree_noflags_identity.
Print Assumptions C11_tree_prefix_verbatim.
Print Assumptions C11_dict_equal_entry_verbatim.
Print Assumptions C11_call_equal_kw_verbatim.
Print Assumptions C11_call_noflags_identity.
Print Assumptions C11_positional_argument_rewritten_refuted.

(* values in which lists / tuples, dict displays and constructor calls are nested in each other at ANY depth (Model/Nest.v): a hand-written
   expression whose value is == the observed one keeps its source text verbatim at every depth (hand-written leaves like `0+1` included) - dict
   entries are matched by key whatever the order of the observed dict, keyword arguments by name, also when a keyword spells out the default of its
   field - whatever is approved except update.  Premises: calls are written with keyword arguments only (positional ones: finding F-41), name
   only fields of their class, give every field without a default and repeat no keyword; the observed value is well-formed. *)
From V Require Model.Nest Proofs.NestProofs Proofs.NestValue Proofs.NestFix Proofs.NestEqual.
Theorem C11_nest_equal_keeps_text :
  forall (ct : Nest.ctab) (F : flags) (o : Nest.ntree) (n : Nest.nval),
  NestFix.ct_ok ct -> NestEqual.okc ct o = true -> NestFix.okv ct n = true -> f_update F = false ->
  Nest.val_eqb (Nest.eval ct o) n = true -> NestProofs.verbatim (Nest.assign_nest ct F o n) = Some o.
Proof. exact NestEqual.nest_equal_keeps_text_top. Qed.
(* nothing approved: the text stays as it is, whatever is observed *)
Theorem C11_nest_noflags_identity :
  forall (ct : Nest.ctab) (f : nat) (F : flags) (o : Nest.ntree) (n : Nest.nval),
  f_fix F = false -> f_update F = false -> NestProofs.verbatim (Nest.assign ct f F o n) = Some o.
Proof. exact NestProofs.nest_noflags_identity. Qed.
Theorem C11_nest_equal_premises_hold :
  NestEqual.okc NestEqual.ex_ct NestEqual.ex_old = true /\ NestFix.okt NestEqual.ex_old = true /\
  NestFix.okv NestEqual.ex_ct NestEqual.ex_new = true /\ Nest.val_eqb (Nest.eval NestEqual.ex_ct NestEqual.ex_old) NestEqual.ex_new = true.
Proof. exact NestEqual.nest_equal_premises_hold. Qed.
Print Assumptions C11_nest_equal_keeps_text.
Print Assumptions C11_nest_noflags_identity.
Print Assumptions C11_nest_equal_premises_hold.

(* ... and for lists / tuples that are edited: the elements of the equal common prefix keep their whole source text - nested dict displays, constructor
   calls and hand-written leaves included - whatever is inserted, deleted or changed behind them *)
From V Require Proofs.NestPrefix.
Theorem C11_nest_prefix_verbatim :
  forall (ct : Nest.ctab) (f : nat) (F : flags) (k : skind) (olds : list Nest.ntree) (news : list Nest.nval),
  NestFix.ct_ok ct -> Nest.depth (Nest.NLst k olds) < S f -> NestEqual.okc ct (Nest.NLst k olds) = true -> NestFix.okv ct (Nest.NSeq k news) = true ->
  f_update F = false ->
  let c := common_prefix Nest.ntree Nest.nval (Nest.elt_eqb ct) olds news in
  exists items : list Nest.nres,
    Nest.assign ct (S f) F (Nest.NLst k olds) (Nest.NSeq k news) = Nest.QSeq k items /\
    NestProofs.verbatim_list (firstn c items) = Some (firstn c olds).
Proof. exact NestPrefix.nest_prefix_verbatim. Qed.
Print Assumptions C11_nest_prefix_verbatim.
