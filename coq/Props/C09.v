(* C09 - the order in which categories are approved does not matter.  Property theorems about Model/SnapOps.v:
   re-running a call site from the source the previous run wrote composes the approved sets (two_runs_compose_flat), hence any
   number of successive runs, in any order and grouping, ends in the same source as one run with the union of the approved sets. *)
From Coq Require Import List ZArith NArith Bool Arith.
Import ListNotations.
From V Require Import Model.SnapOps Proofs.SnapOpsFlat Proofs.SnapOpsNested Proofs.SnapOpsRuns.
From V Require Import Model.TreeAssign Proofs.TreeAssignProofs Proofs.TreeAssignConfluence.
From V Require Import Model.CallAssign Proofs.CallAssignProofs Proofs.CallAssignConfluence.
From V Require Import Model.DictAssign Proofs.DictAssignProofs.
Close Scope Z_scope.

Theorem C09_two_runs_compose_flat :
  forall (fixed1 fixed2 : bool) (F1 F2 : flags) (K : kind) (old : option src) 
  (x : Z) (r : list Z) (c1 c2 : counters),
  old_ok K old = true ->
  let xs := x :: r in
  let s1 := r_site (run fixed1 F1 (fresh old) (map (kop K) xs) c1) in
  let s2 := r_site (run fixed2 F2 (fresh (src_after F1 s1)) (map (kop K) xs) c2) in
  value_after F2 s2 = value_after (funion F1 F2) s1 /\ src_after F2 s2 = src_after (funion F1 F2) s1.
Proof. exact two_runs_compose_flat. Qed.

Theorem C09_runs_confluent_flat :
  forall (fixed : bool) (K : kind) (x : Z) (r : list Z) (Fs : list flags) (old : option src),
  old_ok K old = true ->
  Fs <> [] ->
  rerun_chain fixed K (x :: r) old Fs = src_after (funion_all Fs) (flat_site K old x r) /\
  option_map src_val (rerun_chain fixed K (x :: r) old Fs) =
  value_after (funion_all Fs) (flat_site K old x r).
Proof. exact runs_confluent_flat. Qed.

Theorem C09_runs_order_irrelevant_flat :
  forall (fixed : bool) (K : kind) (x : Z) (r : list Z) (Fs Gs : list flags) (old : option src),
  old_ok K old = true ->
  Fs <> [] ->
  Gs <> [] ->
  funion_all Fs = funion_all Gs ->
  rerun_chain fixed K (x :: r) old Fs = rerun_chain fixed K (x :: r) old Gs.
Proof. exact runs_order_irrelevant_flat. Qed.

Theorem C09_single_category_runs_confluent_flat :
  forall (fixed1 fixed2 : bool) (l : list (Z * bool)) (x : Z) (r : list Z) (c1 c2 : counters),
  let xs := x :: r in
  let run1 := fun F : flags => r_site (run fixed1 F (fresh (Some (SList l))) (ops_in xs) c1) in
  let rerun :=
  fun F1 F2 : flags => r_site (run fixed2 F2 (fresh (src_after F1 (run1 F1))) (ops_in xs) c2) in
  value_after fix_only (rerun trim_only fix_only) = value_after fix_trim (run1 fix_trim) /\
  value_after trim_only (rerun fix_only trim_only) = value_after fix_trim (run1 fix_trim) /\
  src_after fix_only (rerun trim_only fix_only) = src_after fix_trim (run1 fix_trim) /\
  src_after trim_only (rerun fix_only trim_only) = src_after fix_trim (run1 fix_trim) /\
  (forall F : flags, value_after F (rerun update_only F) = value_after F (run1 F)).
Proof. exact single_category_runs_confluent_flat. Qed.

Theorem C09_stage_compose :
  forall (t1 f1 t2 f2 : bool) (ol coll : list Z),
  stage t2 f2 (stage t1 f1 ol coll) coll = stage (t1 || t2) (f1 || f2) ol coll.
Proof. exact stage_compose. Qed.

Theorem C09_src_after_val :
  forall (F : flags) (s : site), option_map src_val (src_after F s) = value_after F s.
Proof. exact src_after_val. Qed.

(* nested lists / tuples of any depth (Model/TreeAssign.v): two runs compose to one run with the union of the flags - for all flag sets *)
Theorem C09_tree_two_runs_compose :
  forall (F1 F2 : flags) (o : tree) (n : val),
  managed o = true ->
  to_tree (assign_tree F2 (to_tree (assign_tree F1 o n)) n) = to_tree (assign_tree (funion F1 F2) o n).
Proof. exact tree_two_runs_compose. Qed.

Theorem C09_tree_fix_update_orders_agree :
  forall (o : tree) (n : val),
  managed o = true ->
  let Ff := {| f_create := false; f_fix := true; f_trim := false; f_update := false |} in
  let Fu := {| f_create := false; f_fix := false; f_trim := false; f_update := true |} in
  to_tree (assign_tree Fu (to_tree (assign_tree Ff o n)) n) =
  to_tree (assign_tree Ff (to_tree (assign_tree Fu o n)) n).
Proof. exact tree_fix_update_orders_agree. Qed.

Theorem C09_assign_fix_update_canon :
  forall (f : nat) (F : flags) (o : tree) (n : val),
  depth o < f ->
  managed o = true -> f_fix F = true -> f_update F = true -> to_tree (assign f F o n) = canon_tree n.
Proof. exact assign_fix_update_canon. Qed.

Theorem C09_align_ext :
  forall (A A' B : Type) (eqb : A -> B -> bool) (eqb' : A' -> B -> bool) (as_ : list A) 
  (as' : list A') (bs : list B),
  Forall2 (SameEq A A' B eqb eqb') as_ as' -> Align.align A B eqb as_ bs = Align.align A' B eqb' as' bs.
Proof. exact align_ext. Qed.

(* constructor calls of dataclass-like values (Model/CallAssign.v): a run with F1 followed by a run with F2 on the call that run wrote
   leaves the same call - same arguments, same ORDER, same texts - as one run with F1 and F2 together, for all flag sets *)
Theorem C09_call_two_runs_compose :
  forall (F1 F2 : flags) (c : call) (fs : list field),
  managed_call c -> wf_call c fs ->
  items_call (call_result F2 (items_call (call_result F1 c fs)) fs) = items_call (call_result (funion F1 F2) c fs).
Proof. exact call_two_runs_compose. Qed.

(* why: inserted keywords are anchored at the last matched keyword before them, not at a position; keywords deleted in between do not matter *)
Theorem C09_call_result_anchored :
  forall (F : flags) (c : call) (fs : list field), NoDup (map fst (c_kws c)) ->
  call_result F c fs =
    flat_map (assign_pos F) (c_pos c) ++ (if f_fix F then anchored (groups_of c fs) None else [])
    ++ flat_map (kw_part F fs (groups_of c fs)) (c_kws c).
Proof. exact call_result_anchored. Qed.

(* dict displays (Model/DictAssign.v, values are nested lists / tuples): a run with F1 followed by a run with F2 on the display the first
   run wrote leaves the same entries - same order, same texts - as one run with F1 and F2 together, for all flag sets *)
Theorem C09_dict_two_runs_compose :
  forall (F1 F2 : flags) (olds : list entry) (news : list (Z * val)),
  managed_entries olds -> NoDup (map e_key olds) -> NoDup (map fst news) ->
  entries_of (dict_result F2 (entries_of (dict_result F1 olds news)) news) = entries_of (dict_result (funion F1 F2) olds news).
Proof. exact dict_two_runs_compose. Qed.

Print Assumptions C09_two_runs_compose_flat.
Print Assumptions C09_runs_confluent_flat.
Print Assumptions C09_runs_order_irrelevant_flat.
Print Assumptions C09_single_category_runs_confluent_flat.
Print Assumptions C09_stage_compose.
Print Assumptions C09_src_after_val.
Print Assumptions C09_tree_two_runs_compose.
Print Assumptions C09_tree_fix_update_orders_agree.
Print Assumptions C09_assign_fix_update_canon.
Print Assumptions C09_align_ext.
Print Assumptions C09_call_two_runs_compose.
Print Assumptions C09_call_result_anchored.
Print Assumptions C09_dict_two_runs_compose.

(* `x in snapshot(<value that is no list display>)` (Model/CollReplace.v): approving fix first (it writes a list display holding every old member and the missing tested values) and trim in the next run
   (element-wise on that list: the members that were tested survive) leaves the same MEMBERS as approving both together ... *)
From V Require Model.CollReplace Proofs.CollReplaceProofs.
Theorem C09_coll_replace_fix_then_trim_same_members :
  forall (is_set : bool) (old tested : list Z) (v : Z), In v (CollReplaceProofs.fix_then_trim is_set old tested) <-> In v tested.
Proof. exact CollReplaceProofs.fix_then_trim_same_members. Qed.
Print Assumptions C09_coll_replace_fix_then_trim_same_members.

(* ... but not always in the same order: "identical syntax tree" is refuted for members tested in another order than they stand in the display (witness: (1, 2) tested with 3, 2) *)
Theorem C09_coll_replace_order_differs_refuted :
  exists (old tested nv : list Z),
    CollReplace.coll_replace false true false old tested = CollReplace.Repl true nv /\ CollReplaceProofs.fix_then_trim false old tested <> nv.
Proof. exact CollReplaceProofs.fix_then_trim_order_differs. Qed.
Print Assumptions C09_coll_replace_order_differs_refuted.
