(* C09 - the order in which categories are approved does not matter.  Property theorems about Model/SnapOps.v:
   re-running a call site from the source the previous run wrote composes the approved sets (two_runs_compose_flat), hence any
   number of successive runs, in any order and grouping, ends in the same source as one run with the union of the approved sets. *)
From Coq Require Import List ZArith NArith Bool Arith.
Import ListNotations.
From V Require Import Model.SnapOps Proofs.SnapOpsFlat Proofs.SnapOpsNested Proofs.SnapOpsRuns.

Theorem C09_two_runs_compose_flat :
  forall (fixed1 fixed2 : bool) (F1 F2 : flags) (K : kind) (old : option src) 
  (x : Z) (r : list Z) (c1 c2 : counters),
  old_ok K old = true ->
  let xs := x :: r in
  let s1 := r_site (run fixed1 F1 (fresh old) (map (kop K) xs) c1) in
  let s2 := r_site (run fixed2 F2 (fresh (src_after F1 s1)) (map (kop K) xs) c2) in
  value_after F2 s2 = value_after (funion F1 F2) s1 /\ src_after F2 s2 = src_after (funion F1 F2) s1.
Proof. exact two_runs_compose_flat. Qed.

Theorem C09_runs_confluent_flat :
  forall (fixed : bool) (K : kind) (x : Z) (r : list Z) (Fs : list flags) (old : option src),
  old_ok K old = true ->
  Fs <> [] ->
  rerun_chain fixed K (x :: r) old Fs = src_after (funion_all Fs) (flat_site K old x r) /\
  option_map src_val (rerun_chain fixed K (x :: r) old Fs) =
  value_after (funion_all Fs) (flat_site K old x r).
Proof. exact runs_confluent_flat. Qed.

Theorem C09_runs_order_irrelevant_flat :
  forall (fixed : bool) (K : kind) (x : Z) (r : list Z) (Fs Gs : list flags) (old : option src),
  old_ok K old = true ->
  Fs <> [] ->
  Gs <> [] ->
  funion_all Fs = funion_all Gs ->
  rerun_chain fixed K (x :: r) old Fs = rerun_chain fixed K (x :: r) old Gs.
Proof. exact runs_order_irrelevant_flat. Qed.

Theorem C09_single_category_runs_confluent_flat :
  forall (fixed1 fixed2 : bool) (l : list (Z * bool)) (x : Z) (r : list Z) (c1 c2 : counters),
  let xs := x :: r in
  let run1 := fun F : flags => r_site (run fixed1 F (fresh (Some (SList l))) (ops_in xs) c1) in
  let rerun :=
  fun F1 F2 : flags => r_site (run fixed2 F2 (fresh (src_after F1 (run1 F1))) (ops_in xs) c2) in
  value_after fix_only (rerun trim_only fix_only) = value_after fix_trim (run1 fix_trim) /\
  value_after trim_only (rerun fix_only trim_only) = value_after fix_trim (run1 fix_trim) /\
  src_after fix_only (rerun trim_only fix_only) = src_after fix_trim (run1 fix_trim) /\
  src_after trim_only (rerun fix_only trim_only) = src_after fix_trim (run1 fix_trim) /\
  (forall F : flags, value_after F (rerun update_only F) = value_after F (run1 F)).
Proof. exact single_category_runs_confluent_flat. Qed.

Theorem C09_stage_compose :
  forall (t1 f1 t2 f2 : bool) (ol coll : list Z),
  stage t2 f2 (stage t1 f1 ol coll) coll = stage (t1 || t2) (f1 || f2) ol coll.
Proof. exact stage_compose. Qed.

Theorem C09_src_after_val :
  forall (F : flags) (s : site), option_map src_val (src_after F s) = value_after F s.
Proof. exact src_after_val. Qed.

Print Assumptions C09_two_runs_compose_flat.
Print Assumptions C09_runs_confluent_flat.
Print Assumptions C09_runs_order_irrelevant_flat.
Print Assumptions C09_single_category_runs_confluent_flat.
Print Assumptions C09_stage_compose.
Print Assumptions C09_src_after_val.
