(* C07 - a wrong or missing snapshot never yields a green run.  Property theorems about the counters of Model/SnapOps.v
   (the pytest fixture fails the test iff the counters are not (0,0) at teardown). *)
From Coq Require Import List ZArith NArith Bool Arith.
Import ListNotations.
From V Require Import Model.SnapOps Proofs.SnapOpsFlat Proofs.SnapOpsNested.

Theorem C07_bad_snapshot_counted :
  (forall (fixed : bool) (F : flags) (K : kind) (x : Z) (r : list Z) (c : counters),
  flat_kind K = true ->
  (missing (r_counters (run fixed F (fresh None) (map (kop K) (x :: r)) c)) > missing c)%nat) /\
  (forall (F : flags) (K : kind) (o : src) (xs : list Z) (c : counters),
  old_matches K o = true ->
  existsb (fun x : Z => negb (holds K o x)) xs = true ->
  (incorrect (r_counters (run true F (fresh (Some o)) (map (kop K) xs) c)) > incorrect c)%nat).
Proof. exact bad_snapshot_counted. Qed.

Theorem C07_bad_snapshot_counted_exact :
  forall (F : flags) (K : kind) (o : src) (xs : list Z),
  old_matches K o = true ->
  r_counters (run true F (fresh (Some o)) (map (kop K) xs) zero) =
  {| missing := 0; incorrect := length (filter (fun x : Z => negb (holds K o x)) xs) |}.
Proof. exact bad_snapshot_counted_exact. Qed.

Theorem C07_good_snapshots_never_counted :
  forall (fixed : bool) (F : flags) (K : kind) (o : src) (xs : list Z) (c : counters),
  old_matches K o = true ->
  Forall (fun x : Z => plain_op (kop K x) (src_val o) = Some true) xs ->
  r_counters (run fixed F (fresh (Some o)) (map (kop K) xs) c) = c.
Proof. exact good_snapshots_never_counted. Qed.

Theorem C07_good_snapshots_never_counted_zero :
  forall (fixed : bool) (F : flags) (K : kind) (o : src) (xs : list Z),
  old_matches K o = true ->
  Forall (fun x : Z => plain_op (kop K x) (src_val o) = Some true) xs ->
  r_counters (run fixed F (fresh (Some o)) (map (kop K) xs) zero) = zero.
Proof. exact good_snapshots_never_counted_zero. Qed.

Theorem C07_counters_monotone :
  forall (fixed : bool) (F : flags) (s : site) (o : op) (c : counters),
  (missing c <= missing (snd (step fixed F s o c)))%nat /\
  (incorrect c <= incorrect (snd (step fixed F s o c)))%nat.
Proof. exact counters_monotone. Qed.

Theorem C07_bad_snapshot_not_counted_pinned_refuted :
  exists (F : flags) (z : Z) (cn : bool) (xs : list Z),
  existsb (fun x : Z => negb (cmp_of KMax z x)) xs = true /\
  r_counters (run false F (fresh (Some (SAtom z cn))) (ops_max xs) zero) = zero.
Proof. exact bad_snapshot_not_counted_pinned_refuted. Qed.

Theorem C07_pinned_never_counts_under_fix_or_update :
  forall (F : flags) (K : kind) (o : src) (xs : list Z) (c : counters),
  K = KMin \/ K = KMax \/ K = KColl ->
  old_matches K o = true ->
  ignore_old_value F = true -> r_counters (run false F (fresh (Some o)) (map (kop K) xs) c) = c.
Proof. exact pinned_never_counts_under_fix_or_update. Qed.

Print Assumptions C07_bad_snapshot_counted.
Print Assumptions C07_bad_snapshot_counted_exact.
Print Assumptions C07_good_snapshots_never_counted.
Print Assumptions C07_good_snapshots_never_counted_zero.
Print Assumptions C07_counters_monotone.
Print Assumptions C07_bad_snapshot_not_counted_pinned_refuted.
Print Assumptions C07_pinned_never_counts_under_fix_or_update.
