(* C18 - end-of-session processing completes for every test program; the edits computed for one file never overlap.
   Property theorems: applying a set of replacements fails exactly when two of them overlap or a range is malformed
   (Model/Rewrite.v) - so 'completes' is equivalent to 'the recorded replacements are pairwise disjoint', which the
   correspondence and the oracle check on every generated program; a container edit is ONE replacement list whose result
   is well-formed for every layout (Model/SeqUpdate.v); the categories of a call site are a total function of its state
   (Model/SnapOps.v: cats and value_after are total Gallina functions, no partiality left to fail at session end). *)
From Coq Require Import List ZArith NArith Bool Arith.
Import ListNotations.
From V Require Import Model.Rewrite Model.SeqUpdate Model.SnapOps Proofs.RewriteProofs Proofs.SeqUpdateProofs Proofs.SnapOpsNested.
From V Require Import Model.Obsolete Proofs.ObsoleteProofs.

Theorem C18_new_code_none_iff :
  forall (t : text) (l : list repl), Rewrite.new_code t l = None <-> check l = false.
Proof. exact new_code_none_iff. Qed.

Theorem C18_check_false_witness :
  forall l : list repl,
  check l = false ->
  (exists r : repl, In r l /\ pos_ltb (r_end r) (r_start r) = true) \/
  (exists (i : nat) (a b : repl),
  nth_error (sort_repls l) i = Some a /\
  nth_error (sort_repls l) (S i) = Some b /\ pos_ltb (r_start b) (r_end a) = true).
Proof. exact check_false_witness. Qed.

Theorem C18_check_false_of_witness :
  forall l : list repl,
  (exists r : repl, In r l /\ pos_ltb (r_end r) (r_start r) = true) \/
  (exists (i : nat) (a b : repl),
  nth_error (sort_repls l) i = Some a /\
  nth_error (sort_repls l) (S i) = Some b /\ pos_ltb (r_start b) (r_end a) = true) ->
  check l = false.
Proof. exact check_false_of_witness. Qed.

Theorem C18_check_sound :
  forall l : list repl,
  check l = true ->
  (forall r : repl, In r l -> pos_leb (r_start r) (r_end r) = true) /\
  Sorted.StronglySorted (fun a b : repl => pos_leb (r_end a) (r_start b) = true) (sort_repls l).
Proof. exact check_sound. Qed.

Theorem C18_check_sound_nth :
  forall l : list repl,
  check l = true ->
  forall (i j : nat) (a b : repl),
  (i < j)%nat ->
  nth_error (sort_repls l) i = Some a ->
  nth_error (sort_repls l) j = Some b -> pos_leb (r_end a) (r_start b) = true.
Proof. exact check_sound_nth. Qed.

Theorem C18_seq_update_spec :
  forall (t : bool) (c : cont) (del : nat -> bool) (ins : nat -> list tok),
  wf_input t c = true ->
  gaps_clean c = true ->
  (forall i : nat, forallb is_new (ins i) = true) ->
  (forall j : nat, (j < length (items c))%nat -> del j = true -> ins j = []) ->
  let r := seq_update t c del ins in
  elems_of r = expected_all c del ins /\
  wf_seq (no_triv r) = true /\ (t = true -> length (elems_of r) = 1%nat -> trailing_comma r = true).
Proof. exact seq_update_spec. Qed.

Theorem C18_reachable_wshape :
  forall (fixed : bool) (F : flags) (old : option src) (ops : list op) (c : counters),
  wshape (SnapOpsFlat.r_site (SnapOps.run fixed F (fresh old) ops c)) /\
  SnapOpsFlat.s_old (SnapOpsFlat.r_site (SnapOps.run fixed F (fresh old) ops c)) = old.
Proof. exact reachable_wshape. Qed.

(* the filter of obsolete changes (Model/Obsolete.v) *)
Theorem C18_no_change_inside_removed_node :
  forall (l : list change) (i : nat) (c : change) (j : nat) (d : change) (m : nat),
  In (i, c) (without_obsolete l) ->
  In (j, d) (without_obsolete l) ->
  i <> j -> c_removes d = true -> c_node d = Some m -> ~ In m (c_chain c).
Proof. exact no_change_inside_removed_node. Qed.

Theorem C18_dropped_only_inside_removed_node :
  forall (l : list change) (i : nat) (c : change),
  nth_error l i = Some c ->
  ~ In (i, c) (without_obsolete l) ->
  exists (j : nat) (d : change) (m : nat),
  j <> i /\ nth_error l j = Some d /\ c_removes d = true /\ c_node d = Some m /\ In m (c_chain c).
Proof. exact dropped_only_inside_removed_node. Qed.

Print Assumptions C18_new_code_none_iff.
Print Assumptions C18_check_false_witness.
Print Assumptions C18_check_false_of_witness.
Print Assumptions C18_check_sound.
Print Assumptions C18_check_sound_nth.
Print Assumptions C18_seq_update_spec.
Print Assumptions C18_reachable_wshape.
Print Assumptions C18_no_change_inside_removed_node.
Print Assumptions C18_dropped_only_inside_removed_node.

(* the edits computed for one file never overlap (Model/Edits.v): for every tree of nested displays / calls and every set of changes in which - as
   without_obsolete_changes guarantees (C18_no_change_inside_removed_node) - a deleted or replaced node has no further change on it or below it, the
   replacement ranges that apply_all produces (Replace ranges, and for every edited container the spans between consecutive kept elements) are well-formed
   and pairwise disjoint: the assertion in SourceFile._check never fails.  The premises are executable predicates, evaluated on every real case. *)
From V Require Model.Edits Proofs.EditsProofs.
Theorem C18_edits_never_overlap :
  forall (c : Edits.cset) (n : Edits.node), Edits.wfb n = true -> Edits.invb c n = true ->
  Forall Edits.wfr (Edits.ranges c n) /\ Edits.Disj (Edits.ranges c n).
Proof. exact EditsProofs.edits_never_overlap_b. Qed.
Theorem C18_edits_example :
  Edits.wfb EditsProofs.ex_tree = true /\ Edits.invb EditsProofs.ex_cset EditsProofs.ex_tree = true /\
  Edits.sort_r (Edits.ranges EditsProofs.ex_cset EditsProofs.ex_tree) = [(1, 2); (2, 9); (11, 14); (25, 28)]%nat /\
  Edits.pairwise_okb (Edits.sort_r (Edits.ranges EditsProofs.ex_cset EditsProofs.ex_tree)) = true.
Proof. exact EditsProofs.edits_example. Qed.
Print Assumptions C18_edits_never_overlap.
Print Assumptions C18_edits_example.
Theorem C18_check_never_fails :
  forall (c : Edits.cset) (n : Edits.node), Edits.wfb n = true -> Edits.invb c n = true ->
  Edits.pairwise_okb (Edits.sort_r (Edits.ranges c n)) = true.
Proof. exact EditsProofs.check_never_fails. Qed.
Print Assumptions C18_check_never_fails.

(* ... and that premise follows from what the filter guarantees (C18_no_change_inside_removed_node read on the tree: no OTHER surviving change touches a
   node in the subtree of a node that a surviving change removes): the surviving changes of a well-formed tree never produce overlapping ranges *)
From V Require Proofs.EditsBridge.
Theorem C18_filtered_never_overlap :
  forall K : list EditsBridge.ech, NoDup (map EditsBridge.e_tag K) ->
  forall root : Edits.node, NoDup (EditsBridge.ids root) -> EditsBridge.filtered root K ->
  (forall sub : Edits.node, EditsBridge.Sub sub root -> Edits.touched (EditsBridge.cset_of K) (Edits.nid sub) (Edits.n_kids sub) = true -> (Edits.n_b sub <= Edits.n_ce sub)%nat) ->
  Edits.wf root ->
  Forall Edits.wfr (Edits.ranges (EditsBridge.cset_of K) root) /\ Edits.Disj (Edits.ranges (EditsBridge.cset_of K) root).
Proof. exact EditsBridge.filtered_never_overlap. Qed.
Theorem C18_filtered_example :
  NoDup (map EditsBridge.e_tag EditsBridge.ex_K) /\ NoDup (EditsBridge.ids EditsBridge.ex_root) /\ EditsBridge.filtered EditsBridge.ex_root EditsBridge.ex_K /\ Edits.wf EditsBridge.ex_root.
Proof. exact EditsBridge.filtered_example. Qed.
Print Assumptions C18_filtered_never_overlap.
Print Assumptions C18_filtered_example.
