(* C20 - a formatter-clean test file stays formatter-clean.  Property theorems about Model/Format.v; the formatter is an
   arbitrary function with the explicit hypothesis of idempotence (trusted base TB-5, validated on every instance). *)
From Coq Require Import List ZArith NArith Bool Arith.
Import ListNotations.
From V Require Import Model.Format Proofs.FormatProofs.

Theorem C20_clean_stays_clean :
  forall (text : Type) (eqb : text -> text -> bool),
  (forall a b : text, eqb a b = true <-> a = b) ->
  forall (fmt : text -> text) (fmt_ok : text -> bool),
  (forall x : text, fmt (fmt x) = fmt x) ->
  forall src edited : text,
  clean text fmt fmt_ok src ->
  fmt_ok edited = true ->
  fmt_ok (fmt edited) = true ->
  clean text fmt fmt_ok (fst (new_code text eqb fmt fmt_ok false src edited)).
Proof. exact clean_stays_clean. Qed.

Theorem C20_enforced_is_formatted :
  forall (text : Type) (eqb : text -> text -> bool) (fmt : text -> text) (fmt_ok : text -> bool)
  (src edited : text),
  fmt_ok edited = true -> new_code text eqb fmt fmt_ok true src edited = (fmt edited, false).
Proof. exact enforced_is_formatted. Qed.

Theorem C20_unclean_not_reformatted :
  forall (text : Type) (eqb : text -> text -> bool),
  (forall a b : text, eqb a b = true <-> a = b) ->
  forall (fmt : text -> text) (fmt_ok : text -> bool) (src edited : text),
  fmt_ok src = true -> fmt src <> src -> new_code text eqb fmt fmt_ok false src edited = (edited, false).
Proof. exact unclean_not_reformatted. Qed.

Theorem C20_format_fault_degrades :
  forall (text : Type) (eqb : text -> text -> bool) (fmt : text -> text) (fmt_ok : text -> bool)
  (enforce : bool) (src edited : text),
  fmt_ok edited = false -> fst (new_code text eqb fmt fmt_ok enforce src edited) = edited.
Proof. exact format_fault_degrades. Qed.

Theorem C20_new_code_cases :
  forall (text : Type) (eqb : text -> text -> bool) (fmt : text -> text) (fmt_ok : text -> bool)
  (enforce : bool) (src edited : text),
  fst (new_code text eqb fmt fmt_ok enforce src edited) = edited \/
  fst (new_code text eqb fmt fmt_ok enforce src edited) = fmt edited.
Proof. exact new_code_cases. Qed.

Print Assumptions C20_clean_stays_clean.
Print Assumptions C20_enforced_is_formatted.
Print Assumptions C20_unclean_not_reformatted.
Print Assumptions C20_format_fault_degrades.
Print Assumptions C20_new_code_cases.
