(* C16 - generated code is deterministic.  Property theorems about Model/SortSet.v (CPython's sort for < 64 elements +
   _code_repr.sort_set_values): the text written for a set does not depend on the order in which its elements are presented
   (hash seed, construction order), for every strict partial order, for always-raising comparisons, and for mixed
   element types whose comparability is an equivalence; the pinned tree is refuted (F-05). *)
From Coq Require Import List ZArith NArith Bool Arith.
Import ListNotations.
From V Require Import Model.SortSet Proofs.SortSetProofs.

Theorem C16_sort_set_values_perm_invariant :
  forall (A : Type) (ltb : A -> A -> bool) (key : A -> list N) (l l' : list A),
  irrefl ltb ->
  trans ltb ->
  NoDup l ->
  Permutation.Permutation l l' ->
  sort_set_values A (fun a b : A => Some (ltb a b)) key true l =
  sort_set_values A (fun a b : A => Some (ltb a b)) key true l'.
Proof. exact sort_set_values_perm_invariant. Qed.

Theorem C16_sort_set_values_perm_invariant_dup :
  forall (A : Type) (ltb : A -> A -> bool) (key : A -> list N) (l l' : list A),
  irrefl ltb ->
  trans ltb ->
  Permutation.Permutation l l' ->
  sort_set_values A (fun a b : A => Some (ltb a b)) key true l =
  sort_set_values A (fun a b : A => Some (ltb a b)) key true l'.
Proof. exact sort_set_values_perm_invariant_dup. Qed.

Theorem C16_sort_set_values_typeerror_perm_invariant :
  forall (A : Type) (ltx : A -> A -> option bool) (key : A -> list N) (fixed : bool) (l l' : list A),
  (forall a b : A, ltx a b = None) ->
  Permutation.Permutation l l' -> sort_set_values A ltx key fixed l = sort_set_values A ltx key fixed l'.
Proof. exact sort_set_values_typeerror_perm_invariant. Qed.

Theorem C16_sort_set_values_perm_invariant_mixed :
  forall (A : Type) (ltx : A -> A -> option bool) (key : A -> list N),
  (forall a b : A, ltx a b = None -> ltx b a = None) ->
  (forall a b c : A, ltx a b <> None -> ltx b c <> None -> ltx a c <> None) ->
  (forall a : A, ltx a a <> Some true) ->
  (forall a b c : A, ltx a b = Some true -> ltx b c = Some true -> ltx a c = Some true) ->
  forall l l' : list A,
  Permutation.Permutation l l' -> sort_set_values A ltx key true l = sort_set_values A ltx key true l'.
Proof. exact sort_set_values_perm_invariant_mixed. Qed.

Theorem C16_sort_set_values_elt_perm_invariant :
  forall (key : elt -> list N) (l l' : list elt),
  Permutation.Permutation l l' ->
  sort_set_values elt elt_ltx key true l = sort_set_values elt elt_ltx key true l'.
Proof. exact sort_set_values_elt_perm_invariant. Qed.

Theorem C16_partial_order_pinned_refuted :
  exists l l' : list elt,
  Permutation.Permutation l l' /\
  sort_set_values elt elt_ltx elt_key false l <> sort_set_values elt elt_ltx elt_key false l'.
Proof. exact partial_order_pinned_refuted. Qed.

Theorem C16_partial_order_fixed_witness :
  sort_set_values elt elt_ltx elt_key true fs_l1 = sort_set_values elt elt_ltx elt_key true fs_l2.
Proof. exact partial_order_fixed_witness. Qed.

Theorem C16_py_sorted_perm :
  forall (A : Type) (ltx : A -> A -> option bool) (l s : list A),
  py_sorted A ltx l = Some s -> Permutation.Permutation l s.
Proof. exact py_sorted_perm. Qed.

Theorem C16_py_sorted_sorted_total :
  forall (A : Type) (ltb : A -> A -> bool) (l : list A),
  irrefl ltb ->
  trans ltb ->
  NoDup l ->
  total_on ltb l ->
  exists s : list A,
  py_sorted A (fun a b : A => Some (ltb a b)) l = Some s /\
  Sorted.StronglySorted (fun a b : A => ltb a b = true) s.
Proof. exact py_sorted_sorted_total. Qed.

Theorem C16_chain_iff_total :
  forall (A : Type) (ltb : A -> A -> bool) (l s : list A),
  irrefl ltb ->
  trans ltb ->
  NoDup l ->
  py_sorted A (fun a b : A => Some (ltb a b)) l = Some s ->
  chain A (fun a b : A => Some (ltb a b)) s = Some true <-> total_on ltb l.
Proof. exact chain_iff_total. Qed.

Theorem C16_sorted_strings_perm_invariant :
  forall l l' : list (list N), Permutation.Permutation l l' -> sorted_strings l = sorted_strings l'.
Proof. exact sorted_strings_perm_invariant. Qed.

Theorem C16_sorted_perm_unique :
  forall (A : Type) (ltb : A -> A -> bool),
  irrefl ltb ->
  trans ltb ->
  forall s s' : list A,
  Sorted.StronglySorted (fun a b : A => ltb a b = true) s ->
  Sorted.StronglySorted (fun a b : A => ltb a b = true) s' -> Permutation.Permutation s s' -> s = s'.
Proof. exact sorted_perm_unique. Qed.

Print Assumptions C16_sort_set_values_perm_invariant.
Print Assumptions C16_sort_set_values_perm_invariant_dup.
Print Assumptions C16_sort_set_values_typeerror_perm_invariant.
Print Assumptions C16_sort_set_values_perm_invariant_mixed.
Print Assumptions C16_sort_set_values_elt_perm_invariant.
Print Assumptions C16_partial_order_pinned_refuted.
Print Assumptions C16_partial_order_fixed_witness.
Print Assumptions C16_py_sorted_perm.
Print Assumptions C16_py_sorted_sorted_total.
Print Assumptions C16_chain_iff_total.
Print Assumptions C16_sorted_strings_perm_invariant.
Print Assumptions C16_sorted_perm_unique.

(* what a fix / trim of `x in snapshot(<set>)` writes does not depend on the iteration order of the set (the hash seed) (F-85; Model/CollReplace.v) *)
From V Require Model.CollReplace Proofs.CollReplaceProofs.
Theorem C16_coll_replace_set_order_irrelevant :
  forall (unm trim : bool) (old old' tested : list Z),
  Permutation.Permutation old old' ->
  CollReplace.coll_replace unm trim true old tested = CollReplace.coll_replace unm trim true old' tested.
Proof. exact CollReplaceProofs.set_order_irrelevant. Qed.
Print Assumptions C16_coll_replace_set_order_irrelevant.
