(* C03 - rewriting touches only the arguments of snapshot() calls.
   Property theorems about Model/Rewrite.v (sorting, overlap check, line/column -> offset, application of replacements). *)
From Coq Require Import List ZArith NArith Bool Arith.
Import ListNotations.
From V Require Import Model.Rewrite Proofs.RewriteProofs.
From V Require Import Model.Imports Proofs.ImportsProofs.

Theorem C03_outside_preserved :
  forall (t : text) (l : list repl) (t' : text),
  new_code t l = Some t' ->
  valid_repls t l = true ->
  exists pieces olds : list text,
  length pieces = S (length l) /\
  length olds = length l /\
  t = interleave pieces olds /\ t' = interleave pieces (map r_text (sort_repls l)).
Proof. exact outside_preserved. Qed.

Theorem C03_outside_preserved_explicit :
  forall (t : text) (l : list repl) (t' : text),
  new_code t l = Some t' ->
  valid_repls t l = true ->
  let offs := to_offsets t (sort_repls l) in
  length (outside t offs) = S (length l) /\
  length (old_texts t offs) = length l /\
  t = interleave (outside t offs) (old_texts t offs) /\
  t' = interleave (outside t offs) (map r_text (sort_repls l)).
Proof. exact outside_preserved_explicit. Qed.

Theorem C03_outside_not_preserved_without_validity :
  check cex_l = true /\
  new_code cex_t cex_l = Some [97%N; 98%N; 10%N; 99%N; 100%N; 88%N; 89%N; 99%N; 100%N] /\
  ~
  (exists pieces olds : list text,
  length pieces = S (length cex_l) /\
  length olds = length cex_l /\
  cex_t = interleave pieces olds /\
  [97%N; 98%N; 10%N; 99%N; 100%N; 88%N; 89%N; 99%N; 100%N] =
  interleave pieces (map r_text (sort_repls cex_l))).
Proof. exact outside_not_preserved_without_validity. Qed.

Theorem C03_new_code_length :
  forall (t : text) (l : list repl) (t' : text),
  new_code t l = Some t' ->
  valid_repls t l = true ->
  length t' +
  list_sum (map (fun r : repl => line_to_offset t (r_end r) - line_to_offset t (r_start r)) l) =
  length t + list_sum (map (fun r : repl => length (r_text r)) l).
Proof. exact new_code_length. Qed.

Theorem C03_check_sound :
  forall l : list repl,
  check l = true ->
  (forall r : repl, In r l -> pos_leb (r_start r) (r_end r) = true) /\
  Sorted.StronglySorted (fun a b : repl => pos_leb (r_end a) (r_start b) = true) (sort_repls l).
Proof. exact check_sound. Qed.

Theorem C03_check_offsets_increasing :
  forall (t : text) (l : list repl),
  check l = true ->
  valid_repls t l = true ->
  incr_from 0 (to_offsets t (sort_repls l)) /\ last_end 0 (to_offsets t (sort_repls l)) <= length t.
Proof. exact check_offsets_increasing. Qed.

Theorem C03_line_to_offset_monotone :
  forall (t : text) (p q : pos),
  valid_pos t p = true ->
  valid_pos t q = true -> pos_leb p q = true -> line_to_offset t p <= line_to_offset t q.
Proof. exact line_to_offset_monotone. Qed.

Theorem C03_line_to_offset_not_monotone_without_validity :
  exists (t : text) (p q : pos),
  pos_leb p q = true /\ valid_pos t q = true /\ line_to_offset t q < line_to_offset t p.
Proof. exact line_to_offset_not_monotone_without_validity. Qed.

Theorem C03_replace_decomposition :
  forall (t : text) (rs : list (nat * nat * text)),
  replace t rs = interleave (outside t rs) (map (fun x : nat * nat * text => snd x) rs).
Proof. exact replace_decomposition. Qed.

Theorem C03_source_decomposition :
  forall (t : text) (rs : list (nat * nat * text)),
  incr_from 0 rs ->
  t =
  interleave (outside t rs)
  (map (fun x : nat * nat * text => firstn (snd (fst x) - fst (fst x)) (skipn (fst (fst x)) t)) rs).
Proof. exact source_decomposition. Qed.

Theorem C03_sort_repls_perm :
  forall l : list repl, Permutation.Permutation l (sort_repls l).
Proof. exact sort_repls_perm. Qed.

Theorem C03_sort_repls_sorted :
  forall l : list repl, Sorted.StronglySorted repl_le (sort_repls l).
Proof. exact sort_repls_sorted. Qed.

Theorem C03_new_code_none_iff :
  forall (t : text) (l : list repl), new_code t l = None <-> check l = false.
Proof. exact new_code_none_iff. Qed.

Theorem C03_check_false_witness :
  forall l : list repl,
  check l = false ->
  (exists r : repl, In r l /\ pos_ltb (r_end r) (r_start r) = true) \/
  (exists (i : nat) (a b : repl),
  nth_error (sort_repls l) i = Some a /\
  nth_error (sort_repls l) (S i) = Some b /\ pos_ltb (r_start b) (r_end a) = true).
Proof. exact check_false_witness. Qed.

Theorem C03_new_code_nil :
  forall t : text, new_code t [] = Some t.
Proof. exact new_code_nil. Qed.

(* the inserted import line keeps the module valid: no `from __future__` import ends up behind an ordinary statement ... *)
Theorem C03_ensure_import_wf :
  forall body : list stmt, wf_module body = true -> wf_module (ensure_import body) = true.
Proof. exact ensure_import_wf. Qed.

(* ... the docstring stays the first statement ... *)
Theorem C03_docstring_stays_first :
  forall r : list stmt, hd_error (ensure_import (SDoc :: r)) = Some SDoc.
Proof. exact docstring_stays_first. Qed.

(* ... only imports (and the docstring) stand in front of it, and nothing else is touched *)
Theorem C03_before_insertion_only_imports :
  forall (body : list stmt) (i : nat) (s : stmt), i < insert_index body -> nth_error body i = Some s -> is_import s = true \/ i = 0 /\ s = SDoc.
Proof. exact before_insertion_only_imports. Qed.


Theorem C03_ensure_import_only_inserts :
  forall body : list stmt,
  firstn (insert_index body) (ensure_import body) = firstn (insert_index body) body /\
  skipn (S (insert_index body)) (ensure_import body) = skipn (insert_index body) body.
Proof. exact ensure_import_only_inserts. Qed.

Print Assumptions C03_outside_preserved.
Print Assumptions C03_outside_preserved_explicit.
Print Assumptions C03_outside_not_preserved_without_validity.
Print Assumptions C03_new_code_length.
Print Assumptions C03_check_sound.
Print Assumptions C03_check_offsets_increasing.
Print Assumptions C03_line_to_offset_monotone.
Print Assumptions C03_line_to_offset_not_monotone_without_validity.
Print Assumptions C03_replace_decomposition.
Print Assumptions C03_source_decomposition.
Print Assumptions C03_sort_repls_perm.
Print Assumptions C03_sort_repls_sorted.
Print Assumptions C03_new_code_none_iff.
Print Assumptions C03_check_false_witness.
Print Assumptions C03_new_code_nil.
Print Assumptions C03_ensure_import_wf.
Print Assumptions C03_docstring_stays_first.
Print Assumptions C03_before_insertion_only_imports.
Print Assumptions C03_ensure_import_only_inserts.
