(* C10 - parts the user controls are never rewritten.  Property theorems about Model/Unmanaged.v (flat sequences mixing managed
   leaves and user-controlled expressions). *)
From Coq Require Import List ZArith NArith Bool Arith.
Import ListNotations.
From V Require Import Model.Align Model.SnapOps Model.Unmanaged Proofs.UnmanagedProofs.
From V Require Import Model.TreeAssign Proofs.TreeAssignProofs.
From V Require Import Model.CallAssign Proofs.CallAssignProofs.
From V Require Import Model.DictAssign Proofs.DictAssignProofs.
Close Scope Z_scope.

Theorem C10_unmanaged_never_generated :
  forall (F : flags) (old : list uleaf) (new : list Z),
  (forall (o : uleaf) (n : Z), u_unmanaged o = true -> uassign_leaf F o n = UKeep o) /\
  (forall o : uleaf, In (UKeep o) (useq_result F old new) -> In o old).
Proof. exact unmanaged_never_generated. Qed.

Theorem C10_kept_unmanaged_subsequence :
  forall (F : flags) (old : list uleaf) (new : list Z),
  subseq (kept_unmanaged (useq_result F old new)) (unmanaged_of old).
Proof. exact kept_unmanaged_subsequence. Qed.

Theorem C10_unmanaged_survive_without_fix :
  forall (F : flags) (old : list uleaf) (new : list Z),
  f_fix F = false -> kept_unmanaged (useq_result F old new) = unmanaged_of old.
Proof. exact unmanaged_survive_without_fix. Qed.

Theorem C10_unmanaged_only_removed_by_fix_delete :
  forall (F : flags) (s : list dir) (old : list uleaf) (new : list Z),
  UV s old new ->
  f_fix F = true ->
  length (kept_unmanaged (uwalk F s old new)) + length (unmanaged_of (deleted s old)) =
  length (unmanaged_of old).
Proof. exact unmanaged_only_removed_by_fix_delete. Qed.

Theorem C10_managed_siblings_still_repaired :
  forall (F : flags) (old : list uleaf) (new : list Z),
  f_fix F = true -> Forall2 item_ok (useq_result F old new) new.
Proof. exact managed_siblings_still_repaired. Qed.

Theorem C10_useq_fix_value_managed :
  forall (F : flags) (old : list uleaf) (new : list Z),
  f_fix F = true ->
  (forall o : uleaf, In o old -> u_unmanaged o = false) -> map uitem_val (useq_result F old new) = new.
Proof. exact useq_fix_value_managed. Qed.

Theorem C10_unmanaged_matching_value_kept_by_prefix :
  forall (F : flags) (old : list uleaf) (new : list Z),
  f_update F = false ->
  firstn (common_prefix uleaf Z uleaf_eqb old new) (useq_result F old new) =
  map UKeep (firstn (common_prefix uleaf Z uleaf_eqb old new) old).
Proof. exact unmanaged_matching_value_kept_by_prefix. Qed.

Theorem C10_equal_all_keep_u :
  forall (F : flags) (old : list uleaf) (new : list Z),
  map u_val old = new -> kept_unmanaged (useq_result F old new) = unmanaged_of old.
Proof. exact equal_all_keep_u. Qed.

(* nested lists / tuples of ANY depth (Model/TreeAssign.v): no code is generated for a user-controlled part, none is duplicated or
   reordered, and without fix none disappears *)
Theorem C10_assign_unmanaged_subsequence :
  forall (f : nat) (F : flags) (o : tree) (n : val), subseq (unms_r (assign f F o n)) (unms o).
Proof. exact assign_unmanaged_subsequence. Qed.

Theorem C10_assign_unmanaged_kept_nofix :
  forall (f : nat) (F : flags) (o : tree) (n : val), f_fix F = false -> unms_r (assign f F o n) = unms o.
Proof. exact assign_unmanaged_kept_nofix. Qed.

(* constructor calls: no code is generated for a user-controlled part of any argument, none is duplicated or reordered *)
Theorem C10_call_unmanaged_subsequence :
  forall (F : flags) (c : call) (fs : list field),
  subseq (result_unms (call_result F c fs)) (call_unms c).
Proof. exact call_unmanaged_subsequence. Qed.

(* a keyword argument the user controls is kept verbatim whatever its field now holds (also the default, where a managed one would be deleted) *)
Theorem C10_call_unmanaged_kw_kept :
  forall (F : flags) (c : call) (fs : list field) (k : Z) (t : tree),
  In (k, t) (c_kws c) -> is_unm t = true -> find_field k fs <> None -> In (CKw k (RKeep t)) (call_result F c fs).
Proof. exact call_unmanaged_kw_kept. Qed.

(* dict displays: no code is generated for a user-controlled part of any value, none is duplicated or reordered *)
Theorem C10_dict_unmanaged_subsequence :
  forall (F : flags) (olds : list entry) (news : list (Z * val)),
  subseq (dresult_unms (dict_result F olds news)) (dict_unms olds).
Proof. exact dict_unmanaged_subsequence. Qed.

(* ... and without fix none disappears *)
Theorem C10_dict_unmanaged_kept_nofix :
  forall (F : flags) (olds : list entry) (news : list (Z * val)),
  f_fix F = false -> dresult_unms (dict_result F olds news) = dict_unms olds.
Proof. exact dict_unmanaged_kept_nofix. Qed.

Print Assumptions C10_unmanaged_never_generated.
Print Assumptions C10_kept_unmanaged_subsequence.
Print Assumptions C10_unmanaged_survive_without_fix.
Print Assumptions C10_unmanaged_only_removed_by_fix_delete.
Print Assumptions C10_managed_siblings_still_repaired.
Print Assumptions C10_useq_fix_value_managed.
Print Assumptions C10_unmanaged_matching_value_kept_by_prefix.
Print Assumptions C10_equal_all_keep_u.
Print Assumptions C10_assign_unmanaged_subsequence.
Print Assumptions C10_assign_unmanaged_kept_nofix.
Print Assumptions C10_call_unmanaged_subsequence.
Print Assumptions C10_call_unmanaged_kw_kept.
Print Assumptions C10_dict_unmanaged_subsequence.
Print Assumptions C10_dict_unmanaged_kept_nofix.

(* user-controlled parts below lists, tuples, dict displays and constructor calls nested in each other at ANY depth (Model/Nest.v): whatever is
   approved and whatever is observed, no code is ever generated for such a part, none is duplicated or reordered; the ones that remain are a
   subsequence of the old ones (the others vanished together with the element / entry / argument or the replaced holder that held them) *)
From V Require Model.Nest Proofs.NestProofs.
Theorem C10_nest_unmanaged_subsequence :
  forall (ct : Nest.ctab) (f : nat) (F : flags) (o : Nest.ntree) (n : Nest.nval),
  subseq (NestProofs.unms_r (Nest.assign ct f F o n)) (NestProofs.unms o).
Proof. exact NestProofs.nest_unmanaged_subsequence. Qed.
Print Assumptions C10_nest_unmanaged_subsequence.

(* never-compared snapshots (Model/Undecided.v): every user-controlled part is kept, in its place, whatever is approved and at any depth *)
From V Require Model.Undecided Proofs.UndecidedProofs.
Theorem C10_undecided_unms :
  forall (upd : bool) (t : Nest.ntree), NestProofs.unms_r (Undecided.undecided upd t) = NestProofs.unms t.
Proof. exact UndecidedProofs.undecided_unms. Qed.
Print Assumptions C10_undecided_unms.

(* a keyword argument that HOLDS a user-controlled part anywhere inside is never deleted because its field now holds the default (F-74) *)
Theorem C10_call_kw_holding_unmanaged_kept :
  forall (F : flags) (c : call) (fs : list field) (k : Z) (t : tree) (f : field),
  In (k, t) (c_kws c) -> has_unm t = true -> find_field k fs = Some f -> fd_default f = true -> In (CKw k (RKeep t)) (call_result F c fs).
Proof. exact call_kw_holding_unmanaged_kept. Qed.
Print Assumptions C10_call_kw_holding_unmanaged_kept.

(* an `in` snapshot whose previous value is no list display and holds user-controlled members is never replaced (F-86; Model/CollReplace.v) *)
From V Require Model.CollReplace Proofs.CollReplaceProofs.
Theorem C10_coll_replace_unm_frozen :
  forall (trim is_set : bool) (old tested : list Z), CollReplace.coll_replace true trim is_set old tested = CollReplace.NoChange.
Proof. exact CollReplaceProofs.unm_frozen. Qed.
Print Assumptions C10_coll_replace_unm_frozen.

(* a user-controlled part of a snapshot that is evaluated again always holds the value of ITS expression at the latest evaluation (Model/ReEval.v) *)
From V Require Model.ReEval Proofs.ReEvalProofs.
Theorem C10_reeval_refreshes_unmanaged :
  forall (s : ReEval.st) (v : ReEval.vt) (s' : ReEval.st), ReEval.re_eval s v = Some s' -> ReEval.plain s' = v.
Proof. exact ReEvalProofs.re_eval_plain. Qed.
Print Assumptions C10_reeval_refreshes_unmanaged.
