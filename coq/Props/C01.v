(* C01 - a created snapshot reads back as the value that was observed.  Property theorems: the value created for an empty snapshot
   satisfies every observed comparison (all five operations) and makes the same script pass afterwards with any flags (Model/SnapOps.v);
   every str / bytes literal written reads back as the original value (Model/StrLit.v); the code generated for every nested value of the
   modelled types is read back by (the model of) Python's parser as exactly that value (Model/PyRepr.v). *)
From Coq Require Import List ZArith NArith Bool Arith.
Import ListNotations.
From V Require Import Model.SnapOps Model.StrLit Proofs.SnapOpsFlat Proofs.SnapOpsNested Proofs.SnapOpsRuns Proofs.StrLitTriple Proofs.StrLitBytes.
From V Require Import Model.Imports Proofs.ImportsProofs.
From V Require Model.PyRepr Proofs.PyReprProofs.

Theorem C01_create_satisfies_op_flat :
  forall (fixed : bool) (F : flags) (K : kind) (x : Z) (r : list Z) (c : counters),
  flat_kind K = true ->
  consistent K (x :: r) = true ->
  f_create F = true ->
  let xs := x :: r in
  let s1 := r_site (SnapOps.run fixed F (fresh None) (map (kop K) xs) c) in
  exists v : pv,
  value_after F s1 = Some v /\
  new_value s1 = Some v /\
  src_after F s1 = Some (canon_src v) /\ Forall (fun y : Z => plain_op (kop K y) v = Some true) xs.
Proof. exact create_satisfies_op_flat. Qed.

Theorem C01_create_satisfies_getitem :
  forall (fixed : bool) (F : flags) (kxs : list (Z * Z)) (c : counters),
  kxs <> [] ->
  f_create F = true ->
  let s1 := r_site (SnapOps.run fixed F (fresh None) (get_eq_ops kxs) c) in
  exists kvs : list (Z * pv),
  value_after F s1 = Some (PDict kvs) /\
  new_value s1 = Some (PDict kvs) /\
  src_after F s1 = Some (canon_src (PDict kvs)) /\
  map fst kvs = dedup (map fst kxs) /\
  (forall k : Z, assoc k kvs = option_map PAtom (assoc k kxs)) /\
  (key_consistent kxs = true ->
  Forall (fun o : op => plain_op o (PDict kvs) = Some true) (get_eq_ops kxs)).
Proof. exact create_satisfies_getitem. Qed.

Theorem C01_created_snapshot_second_run_passes :
  forall (fixed1 fixed2 : bool) (F F2 : flags) (K : kind) (x : Z) (r : list Z) (c1 c2 : counters),
  flat_kind K = true ->
  consistent K (x :: r) = true ->
  f_create F = true ->
  let xs := x :: r in
  let s1 := r_site (SnapOps.run fixed1 F (fresh None) (map (kop K) xs) c1) in
  forall v : pv,
  value_after F s1 = Some v ->
  r_results (SnapOps.run fixed2 F2 (fresh (Some (canon_src v))) (map (kop K) xs) c2) =
  map (fun _ : Z => RBool true) xs /\
  r_counters (SnapOps.run fixed2 F2 (fresh (Some (canon_src v))) (map (kop K) xs) c2) = c2.
Proof. exact created_snapshot_second_run_passes. Qed.

Theorem C01_created_dict_second_run_passes :
  forall (fixed1 fixed2 : bool) (F F2 : flags) (kxs : list (Z * Z)) (c1 c2 : counters),
  kxs <> [] ->
  f_create F = true ->
  key_consistent kxs = true ->
  let s1 := r_site (SnapOps.run fixed1 F (fresh None) (get_eq_ops kxs) c1) in
  forall v : pv,
  value_after F s1 = Some v ->
  r_results (SnapOps.run fixed2 noflags (fresh (Some (canon_src v))) (get_eq_ops kxs) c2) =
  map (fun _ : op => RBool true) (get_eq_ops kxs) /\
  r_counters (SnapOps.run fixed2 F2 (fresh (Some (canon_src v))) (get_eq_ops kxs) c2) = c2.
Proof. exact created_dict_second_run_passes. Qed.

Theorem C01_create_getitem_inconsistent_refuted :
  exists kxs : list (Z * Z),
  key_consistent kxs = false /\
  (forall v : pv,
  value_after create_only (r_site (SnapOps.run true create_only (fresh None) (get_eq_ops kxs) zero)) =
  Some v ->
  r_results (SnapOps.run true noflags (fresh (Some (canon_src v))) (get_eq_ops kxs) zero) <>
  map (fun _ : op => RBool true) (get_eq_ops kxs)).
Proof. exact create_getitem_inconsistent_refuted. Qed.

Theorem C01_str_literal_fixed_roundtrip :
  forall (printable : cp -> bool) (s : list N),
  Forall (fun c : N => c <= 1114111) s -> decode_literal (str_literal printable true s) = Done s [].
Proof. exact str_literal_fixed_roundtrip. Qed.

Theorem C01_bytes_repr_roundtrip :
  forall s : list N, Forall (fun c : N => c < 256) s -> decode_bytes_literal (bytes_repr s) = Done s [].
Proof. exact bytes_repr_roundtrip. Qed.

Theorem C01_src_val_canon :
  forall v : pv, src_val (canon_src v) = v.
Proof. exact src_val_canon. Qed.

(* nested values: list / tuple (incl. the 1-tuple comma) / dict / set displays, set() and frozenset(...), Enum members and classes
   (dotted names), constructor calls with positional and keyword arguments, negative integers, str and bytes tokens - any depth,
   any size; `rest` is whatever follows the expression inside the call *)
Theorem C01_repr_parse_roundtrip_fuel :
  forall v : PyRepr.pv, PyRepr.wf v = true ->
  forall (fuel : nat) (rest : list PyRepr.tok),
  (PyReprProofs.size v <= fuel)%nat -> PyReprProofs.follow_ok rest = true ->
  PyRepr.p fuel PyRepr.MExpr (PyRepr.repr_toks v ++ rest) = Some (PyRepr.RE v, rest).
Proof. exact PyReprProofs.repr_parse_roundtrip_fuel. Qed.

Theorem C01_parse_repr_roundtrip :
  forall v : PyRepr.pv, PyRepr.wf v = true -> PyRepr.parse (PyRepr.repr_toks v) = Some v.
Proof. exact PyReprProofs.parse_repr_roundtrip. Qed.

(* the line `from inline_snapshot import HasRepr / external` (Model/Imports.v) is inserted in front of every statement that is not an import:
   the name is bound before any module-level snapshot, class or test that uses the generated code runs, wherever further imports stand below *)
Theorem C01_code_after_insertion :
  forall (body : list stmt) (i : nat), nth_error body i = Some SOther -> (insert_index body <= i)%nat.
Proof. exact code_after_insertion. Qed.

(* whether the line is needed: only a top-level `from inline_snapshot import <name>` counts (an import nested in a test function, a class, an
   `if` or `try` block does not bind the name for the rest of the module); afterwards the module has a top-level import of the name *)
Theorem C01_ensure_name_binds :
  forall body : list estmt, contains_import (ensure_name body) = true.
Proof. exact ensure_name_binds. Qed.
Theorem C01_ensure_name_noop_iff :
  forall body : list estmt, ensure_name body = body <-> contains_import body = true.
Proof. exact ensure_name_noop_iff. Qed.
Theorem C01_ensure_name_position :
  forall body : list estmt, contains_import body = false -> map fst (ensure_name body) = ensure_import (map fst body).
Proof. exact ensure_name_position. Qed.

Print Assumptions C01_create_satisfies_op_flat.
Print Assumptions C01_create_satisfies_getitem.
Print Assumptions C01_created_snapshot_second_run_passes.
Print Assumptions C01_created_dict_second_run_passes.
Print Assumptions C01_create_getitem_inconsistent_refuted.
Print Assumptions C01_str_literal_fixed_roundtrip.
Print Assumptions C01_bytes_repr_roundtrip.
Print Assumptions C01_src_val_canon.
Print Assumptions C01_repr_parse_roundtrip_fuel.
Print Assumptions C01_parse_repr_roundtrip.
Print Assumptions C01_code_after_insertion.
Print Assumptions C01_ensure_name_binds.
Print Assumptions C01_ensure_name_noop_iff.
Print Assumptions C01_ensure_name_position.
