(* C08 - a second run is a no-op.  Property theorems: after a run with all four categories approved the same script reports
   nothing, returns True everywhere, counts nothing and rewrites nothing whatever is approved then (second_run_noop_flat); re-running
   with the same approved set never changes the source a second time (rerun_same_flags_stable_flat); flat sequences whose values agree
   are kept verbatim; sessions over the external storage are idempotent; applying no replacement leaves the text unchanged. *)
From Coq Require Import List ZArith NArith Bool Arith.
Import ListNotations.
From V Require Import Model.Align Model.SnapOps Model.SeqAssign Model.Storage Model.Rewrite Proofs.SeqAssignProofs Proofs.StorageProofs Proofs.RewriteProofs Proofs.SnapOpsNested Proofs.SnapOpsFlat Proofs.SnapOpsRuns Proofs.AlignProofs.

Theorem C08_second_run_noop_flat :
  forall (fixed1 fixed2 : bool) (F2 : flags) (K : kind) (old : option src) (x : Z) 
  (r : list Z) (c1 c2 : counters),
  old_ok K old = true ->
  consistent K (x :: r) = true ->
  let xs := x :: r in
  let s1 := r_site (run fixed1 allF (fresh old) (map (kop K) xs) c1) in
  let run2 := run fixed2 F2 (fresh (src_after allF s1)) (map (kop K) xs) c2 in
  cats (r_site run2) = [] /\
  r_results run2 = map (fun _ : Z => RBool true) xs /\
  r_counters run2 = c2 /\
  value_after F2 (r_site run2) = value_after allF s1 /\ src_after F2 (r_site run2) = src_after allF s1.
Proof. exact second_run_noop_flat. Qed.

Theorem C08_second_run_noop_inconsistent_eq_refuted :
  exists (fixed : bool) (x : Z) (r : list Z),
  let xs := x :: r in
  let s1 := r_site (run fixed allF (fresh (Some (SAtom 0 true))) (map (kop KEq) xs) zero) in
  r_results (run fixed noflags (fresh (src_after allF s1)) (map (kop KEq) xs) zero) <>
  map (fun _ : Z => RBool true) xs.
Proof. exact second_run_noop_inconsistent_eq_refuted. Qed.

Theorem C08_rerun_same_flags_stable_flat :
  forall (fixed1 fixed2 : bool) (F : flags) (K : kind) (old : option src) (x : Z) 
  (r : list Z) (c1 c2 : counters),
  old_ok K old = true ->
  let xs := x :: r in
  let s1 := r_site (run fixed1 F (fresh old) (map (kop K) xs) c1) in
  let s2 := r_site (run fixed2 F (fresh (src_after F s1)) (map (kop K) xs) c2) in
  value_after F s2 = value_after F s1 /\ src_after F s2 = src_after F s1.
Proof. exact rerun_same_flags_stable_flat. Qed.

Theorem C08_good_script_passes :
  forall (fixed : bool) (F : flags) (K : kind) (o : src) (xs : list Z) (c : counters),
  old_matches K o = true ->
  Forall (fun x : Z => holds K o x = true) xs ->
  r_results (run fixed F (fresh (Some o)) (map (kop K) xs) c) = map (fun _ : Z => RBool true) xs /\
  r_counters (run fixed F (fresh (Some o)) (map (kop K) xs) c) = c.
Proof. exact good_script_passes. Qed.

Theorem C08_seq_equal_all_keep :
  forall (F : flags) (old : list leaf) (new : list Z),
  map l_val old = new -> f_update F = false -> seq_result F old new = map Keep old.
Proof. exact seq_equal_all_keep. Qed.

Theorem C08_seq_noflags_identity :
  forall (F : flags) (old : list leaf) (new : list Z),
  f_create F = false ->
  f_fix F = false -> f_trim F = false -> f_update F = false -> seq_result F old new = map Keep old.
Proof. exact seq_noflags_identity. Qed.

Theorem C08_seq_nofix_value :
  forall (F : flags) (old : list leaf) (new : list Z),
  f_fix F = false -> map item_val (seq_result F old new) = map l_val old.
Proof. exact seq_nofix_value. Qed.

Theorem C08_align_refl_all_m :
  forall (A B : Type) (eqb : A -> B -> bool) (as_ : list A) (bs : list B),
  Forall2 (fun (a : A) (b : B) => eqb a b = true) as_ bs ->
  align A B eqb as_ bs = repeat Dm (length as_).
Proof. exact align_refl_all_m. Qed.

Theorem C08_update_value_preserving_run :
  forall (fixed : bool) (F : flags) (o : src) (ops : list op) (c : counters),
  f_create F = false ->
  f_fix F = false ->
  f_trim F = false ->
  src_nodup o = true -> value_after F (r_site (run fixed F (fresh (Some o)) ops c)) = Some (src_val o).
Proof. exact update_value_preserving_run. Qed.

Theorem C08_session_idempotent :
  forall (a : approval) (s : store) (ts : list test),
  a_trim a = true -> session a (fst (session a s ts)) (snd (session a s ts)) = session a s ts.
Proof. exact session_idempotent. Qed.

Theorem C08_history_session_idempotent_perm :
  forall (h : list hstep) (a : approval),
  Permutation.Permutation (fst (run_history (h ++ [HSession a; HSession a])))
  (fst (run_history (h ++ [HSession a]))) /\
  snd (run_history (h ++ [HSession a; HSession a])) = snd (run_history (h ++ [HSession a])).
Proof. exact history_session_idempotent_perm. Qed.

Theorem C08_new_code_nil :
  forall t : text, new_code t [] = Some t.
Proof. exact new_code_nil. Qed.

Print Assumptions C08_second_run_noop_flat.
Print Assumptions C08_second_run_noop_inconsistent_eq_refuted.
Print Assumptions C08_rerun_same_flags_stable_flat.
Print Assumptions C08_good_script_passes.
Print Assumptions C08_seq_equal_all_keep.
Print Assumptions C08_seq_noflags_identity.
Print Assumptions C08_seq_nofix_value.
Print Assumptions C08_align_refl_all_m.
Print Assumptions C08_update_value_preserving_run.
Print Assumptions C08_session_idempotent.
Print Assumptions C08_history_session_idempotent_perm.
Print Assumptions C08_new_code_nil.

(* values in which lists / tuples, dict displays and constructor calls are nested in each other at ANY depth (Model/Nest.v): after a run in which fix and
   update are approved (whatever else is), every later run that observes the same value - with ANY approved set - keeps the text it finds verbatim:
   nothing is left to create, fix, trim or update and no file is modified a second time.  `to_tree r` is the source text the first run wrote.  Premises: the
   expression held no user-controlled part and no call repeated a keyword; the observed value is well-formed; the class table names every field once and its
   defaults are well-formed values. *)
From V Require Model.Nest Proofs.NestProofs Proofs.NestValue Proofs.NestFix Proofs.NestEqual Proofs.NestUpdate Proofs.NestStable Proofs.NestSettle.
Theorem C08_nest_second_run_noop :
  forall (ct : Nest.ctab), NestFix.ct_ok ct -> NestUpdate.ct_wf ct -> NestSettle.ct_okv ct ->
  forall (F F' : flags) (o : Nest.ntree) (n : Nest.nval),
  NestFix.okt o = true -> NestFix.okv ct n = true -> f_fix F = true -> f_update F = true ->
  let t := NestSettle.to_tree ct (Nest.assign_nest ct F o n) in
  NestProofs.verbatim (Nest.assign_nest ct F' t n) = Some t.
Proof. exact NestSettle.nest_second_run_noop. Qed.
(* the two halves: a run with fix and update leaves an expression in which nothing is left to do (within the scope of the next theorem, nothing for update, value ==
   the observed one) ... *)
Theorem C08_nest_run_settles :
  forall (ct : Nest.ctab), NestFix.ct_ok ct -> NestSettle.ct_okv ct ->
  forall (f : nat) (F : flags) (o : Nest.ntree) (n : Nest.nval),
  Nest.depth o < f -> NestFix.okt o = true -> NestFix.okv ct n = true -> f_fix F = true -> f_update F = true ->
  NestSettle.settled ct (NestSettle.to_tree ct (Nest.assign ct f F o n)) n.
Proof. exact NestSettle.run_settles. Qed.
(* ... and such an expression is kept verbatim by a run with any approved set *)
Theorem C08_nest_equal_stable :
  forall (ct : Nest.ctab) (f : nat) (F : flags) (o : Nest.ntree) (n : Nest.nval),
  NestFix.ct_ok ct -> NestUpdate.ct_wf ct -> Nest.depth o < f -> NestEqual.okc ct o = true -> NestFix.okv ct n = true ->
  NestStable.ustable ct o = true -> Nest.elt_eqb ct o n = true -> NestProofs.verbatim (Nest.assign ct f F o n) = Some o.
Proof. exact NestStable.nest_equal_stable. Qed.
Theorem C08_nest_second_run_example :
  NestFix.okt NestEqual.ex_old = true /\ NestFix.okv NestEqual.ex_ct NestEqual.ex_new2 = true /\
  NestSettle.to_tree NestEqual.ex_ct (Nest.assign_nest NestEqual.ex_ct NestSettle.all_flags NestEqual.ex_old NestEqual.ex_new2) <> NestEqual.ex_old /\
  NestProofs.verbatim (Nest.assign_nest NestEqual.ex_ct NestSettle.all_flags (NestSettle.to_tree NestEqual.ex_ct (Nest.assign_nest NestEqual.ex_ct NestSettle.all_flags NestEqual.ex_old NestEqual.ex_new2)) NestEqual.ex_new2)
  = Some (NestSettle.to_tree NestEqual.ex_ct (Nest.assign_nest NestEqual.ex_ct NestSettle.all_flags NestEqual.ex_old NestEqual.ex_new2)).
Proof. exact NestSettle.nest_second_run_example. Qed.
Print Assumptions C08_nest_second_run_noop.
Print Assumptions C08_nest_run_settles.
Print Assumptions C08_nest_equal_stable.
Print Assumptions C08_nest_second_run_example.

(* never-compared snapshots (Model/Undecided.v): after a run with update the next run - whatever is approved - keeps the text verbatim *)
From V Require Model.Undecided Proofs.UndecidedProofs.
Theorem C08_undecided_idempotent :
  forall (ct : Nest.ctab) (upd2 : bool) (t : Nest.ntree),
  NestProofs.verbatim (Undecided.undecided upd2 (NestSettle.to_tree ct (Undecided.undecided true t))) = Some (NestSettle.to_tree ct (Undecided.undecided true t)).
Proof. exact UndecidedProofs.undecided_idempotent. Qed.
Print Assumptions C08_undecided_idempotent.

(* an `in` snapshot on a value that holds exactly the tested values produces no change (Model/CollReplace.v) *)
From V Require Model.CollReplace Proofs.CollReplaceProofs.
Theorem C08_coll_replace_settled :
  forall (trim is_set : bool) (l : list Z), CollReplace.coll_replace false trim is_set l l = CollReplace.NoChange.
Proof. exact CollReplaceProofs.settled_no_change. Qed.
Print Assumptions C08_coll_replace_settled.

(* the token comparison that decides whether an update is pending (Model/Tokens.v mirrors _utils.normalize, simple_token.__eq__ and the
   four call sites): the code written for a value is a fixpoint.  wf_canon: every token is a one-line string that is the repr of its own
   value (what code_repr writes; py_repr_self_repr / bytes_repr_self_repr show that repr(str) / repr(bytes) qualify) or a token
   that is not merged and equals itself, and no two one-line strings stand side by side *)
From V Require Model.StrLit Model.Tokens Proofs.TokensProofs.
Theorem C08_update_fixpoint_norm :
  forall (printable : StrLit.cp -> bool) (c : list Tokens.tok),
  TokensProofs.wf_canon printable c -> Tokens.needs_update_norm printable c c = Some false.
Proof. exact TokensProofs.update_fixpoint_norm. Qed.
Print Assumptions C08_update_fixpoint_norm.

Theorem C08_update_fixpoint_leaf :
  forall (printable : StrLit.cp -> bool) (c : list Tokens.tok),
  TokensProofs.wf_canon printable c -> TokensProofs.no_tc c -> Tokens.needs_update_leaf printable c c = Some false.
Proof. exact TokensProofs.update_fixpoint_leaf. Qed.
Print Assumptions C08_update_fixpoint_leaf.

(* the side condition no_tc is needed: a leaf whose code holds `,)` (a set of 1-tuples) is compared with un-normalized tokens by
   ValueAdapter / UndecidedValue and counts as update on every run; the replacement is the text that is already there, so no file changes *)
Theorem C08_leaf_trailing_comma_update_refuted :
  exists c, TokensProofs.wf_canon (fun _ => true) c /\ Tokens.needs_update_leaf (fun _ => true) c c = Some true
            /\ Tokens.needs_update_norm (fun _ => true) c c = Some false.
Proof. exact TokensProofs.leaf_trailing_comma_refuted. Qed.
Print Assumptions C08_leaf_trailing_comma_update_refuted.

Theorem C08_canonical_strings_qualify :
  forall (printable : StrLit.cp -> bool) (s : StrLit.str),
  (Forall (fun c => (c <= 1114111)%N) s -> TokensProofs.self_repr printable (Tokens.Tok 3 (StrLit.py_repr printable s)))
  /\ (Forall (fun c => (c < 256)%N) s -> TokensProofs.self_repr printable (Tokens.Tok 3 (StrLit.bytes_repr s))).
Proof. intros p s. split; [apply TokensProofs.py_repr_self_repr | apply TokensProofs.bytes_repr_self_repr]. Qed.
Print Assumptions C08_canonical_strings_qualify.

Theorem C08_update_fixpoint_example :
  let c := [TokensProofs.t_op [91]; Tokens.Tok 3 (StrLit.py_repr (fun _ => true) [105; 116; 34; 115]); TokensProofs.t_op [44];
            Tokens.Tok 3 (StrLit.bytes_repr [0]); TokensProofs.t_op [93]]%N in
  TokensProofs.wf_canon (fun _ => true) c /\ TokensProofs.no_tc c /\ Tokens.needs_update_leaf (fun _ => true) c c = Some false.
Proof. exact TokensProofs.wf_canon_example. Qed.
Print Assumptions C08_update_fixpoint_example.

(* F-08 (recorded known finding) stated in the model: a parenthesised repr (complex numbers) against the node asttokens locates without the parentheses *)
Theorem C08_parenthesised_repr_update_refuted :
  let node := [Tokens.Tok 2 [49]; TokensProofs.t_op [43]; Tokens.Tok 2 [50; 106]]%N in
  let canon := (TokensProofs.t_op [40] :: node ++ [TokensProofs.t_op [41]])%N in
  TokensProofs.wf_canon (fun _ => true) canon /\ Tokens.needs_update_leaf (fun _ => true) node canon = Some true
  /\ Tokens.needs_update_norm (fun _ => true) node canon = Some true.
Proof. exact TokensProofs.parenthesised_repr_refuted. Qed.
Print Assumptions C08_parenthesised_repr_update_refuted.

(* every token value_to_token writes for a str value - repr on one line, or the triple-quoted form of map_string (repaired tree) - and for a bytes
   value meets the token premise of the fixpoint theorems; uses the C12 round-trip theorems *)
Theorem C08_value_to_token_strings_canon :
  forall (printable : StrLit.cp -> bool) (s : StrLit.str),
  (Forall (fun c => (c <= 1114111)%N) s -> TokensProofs.canon_tok printable (Tokens.Tok 3 (StrLit.str_literal printable true s)))
  /\ (Forall (fun c => (c < 256)%N) s -> TokensProofs.canon_tok printable (Tokens.Tok 3 (StrLit.bytes_repr s))).
Proof. intros p s. split; [apply TokensProofs.str_literal_canon | intros H; left; apply TokensProofs.bytes_repr_self_repr; exact H]. Qed.
Print Assumptions C08_value_to_token_strings_canon.
