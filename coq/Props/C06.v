(* C06 - without approval, snapshot(x) behaves like x.  Property theorems about Model/SnapOps.v. *)
From Coq Require Import List ZArith NArith Bool Arith.
Import ListNotations.
From V Require Import Model.SnapOps Proofs.SnapOpsFlat Proofs.SnapOpsNested.

Theorem C06_noflags_transparent_flat :
  forall (fixed : bool) (K : kind) (o : src) (xs : list Z) (c : counters),
  old_matches K o = true ->
  r_results (run fixed noflags (fresh (Some o)) (map (kop K) xs) c) =
  map (fun x : Z => opt_result (plain_op (kop K x) (src_val o))) xs.
Proof. exact noflags_transparent_flat. Qed.

Theorem C06_noflags_transparent_flat_explicit :
  forall (fixed : bool) (xs : list Z) (c : counters),
  (forall (z : Z) (cn : bool),
  r_results (run fixed noflags (fresh (Some (SAtom z cn))) (ops_eq xs) c) =
  map (fun x : Z => RBool (x =? z)) xs) /\
  (forall (z : Z) (cn : bool),
  r_results (run fixed noflags (fresh (Some (SAtom z cn))) (ops_min xs) c) =
  map (fun x : Z => RBool (z <=? x)) xs) /\
  (forall (z : Z) (cn : bool),
  r_results (run fixed noflags (fresh (Some (SAtom z cn))) (ops_max xs) c) =
  map (fun x : Z => RBool (x <=? z)) xs) /\
  (forall l : list (Z * bool),
  r_results (run fixed noflags (fresh (Some (SList l))) (ops_in xs) c) =
  map (fun x : Z => RBool (zmem x (map fst l))) xs).
Proof. exact noflags_transparent_flat_explicit. Qed.

Theorem C06_noflags_transparent :
  forall (fixed : bool) (src0 : src) (ops : list op) (c : counters),
  wf_ops ops = true ->
  Forall (fun o : op => plain_op o (src_val src0) <> None) ops ->
  r_results (run fixed noflags (fresh (Some src0)) ops c) =
  map (fun o : op => opt_result (plain_op o (src_val src0))) ops.
Proof. exact noflags_transparent. Qed.

Theorem C06_noflags_transparent_mixed_refuted :
  exists (fixed : bool) (src0 : src) (ops : list op) (c : counters),
  Forall (fun o : op => plain_op o (src_val src0) <> None) ops /\
  r_results (run fixed noflags (fresh (Some src0)) ops c) <>
  map (fun o : op => opt_result (plain_op o (src_val src0))) ops.
Proof. exact noflags_transparent_mixed_refuted. Qed.

Theorem C06_mixed_ops_typeerror :
  forall (fixed : bool) (F : flags) (k : kind) (old : option src) (nv : option Z) 
  (coll : list Z) (ch : list (Z * site)) (o : op) (c : counters),
  k <> KUndecided ->
  op_kind o <> k -> step fixed F (Site k old nv coll ch) o c = (Site k old nv coll ch, RTypeError, c).
Proof. exact mixed_ops_typeerror. Qed.

Print Assumptions C06_noflags_transparent_flat.
Print Assumptions C06_noflags_transparent_flat_explicit.
Print Assumptions C06_noflags_transparent.
Print Assumptions C06_noflags_transparent_mixed_refuted.
Print Assumptions C06_mixed_ops_typeerror.

(* which tests are xfail (Model/Xfail.v): inline-snapshot is inert exactly in the tests that pytest itself treats as xfail - for every stack of marks
   (function decorators, parameter set, class, module), with positional conditions and `condition=` *)
From V Require Model.Xfail Proofs.XfailProofs.
Theorem C06_is_xfail_agrees :
  forall marks : list Xfail.mark, Xfail.is_xfail marks = Xfail.pytest_xfail marks.
Proof. exact XfailProofs.is_xfail_agrees. Qed.
Theorem C06_is_xfail_app :
  forall a b : list Xfail.mark, Xfail.is_xfail (a ++ b) = Xfail.is_xfail a || Xfail.is_xfail b.
Proof. exact XfailProofs.is_xfail_app. Qed.
Theorem C06_xfail_example :
  Xfail.is_xfail [{| Xfail.m_args := [false]; Xfail.m_condition := None |}; {| Xfail.m_args := []; Xfail.m_condition := None |}] = true /\
  Xfail.is_xfail [{| Xfail.m_args := [true]; Xfail.m_condition := Some false |}; {| Xfail.m_args := [false; false]; Xfail.m_condition := None |}] = false /\
  Xfail.is_xfail [{| Xfail.m_args := [false; true]; Xfail.m_condition := None |}] = true.
Proof. exact XfailProofs.xfail_example. Qed.
Print Assumptions C06_is_xfail_agrees.
Print Assumptions C06_is_xfail_app.
Print Assumptions C06_xfail_example.
