(* C12 - every string is written as a literal that reads back identically.
   Property theorems only; proofs in Proofs/StrLit*.v.  Strings are lists of code points;
   `printable` is an ARBITRARY predicate (the Unicode table is not assumed). *)
From Coq Require Import List NArith Bool.
Import ListNotations.
From V Require Import Model.StrLit Proofs.StrLitRepr Proofs.StrLitScan Proofs.StrLitTriple Proofs.StrLitBytes.
Open Scope N_scope.

(* single-line literals: CPython repr(str) read back by the lexer model *)
Theorem C12_py_repr_roundtrip : forall (printable : cp -> bool) (s : str),
  Forall (fun c => c <= 1114111) s -> decode_literal (py_repr printable s) = Done s [].
Proof. exact py_repr_roundtrip. Qed.

(* triple-quoted literals of the repaired tree, literal transcription of _utils.triple_quote *)
Theorem C12_triple_quote_roundtrip : forall (printable : cp -> bool) (s : str),
  Forall (fun c => c <= 1114111) s -> decode_literal (triple_quote printable true s) = Done s [].
Proof. exact triple_quote_fixed_roundtrip. Qed.

(* what value_to_token writes for any str (single-line or triple-quoted) *)
Theorem C12_str_literal_roundtrip : forall (printable : cp -> bool) (s : str),
  Forall (fun c => c <= 1114111) s -> decode_literal (str_literal printable true s) = Done s [].
Proof. exact str_literal_fixed_roundtrip. Qed.

(* the atom-level restatement used in the proof is the same function *)
Theorem C12_triple_quote_eq_atoms : forall (printable : cp -> bool) (s : str),
  triple_quote printable true s = triple_quote_a printable s.
Proof. exact triple_quote_eq_atoms. Qed.

(* the pinned commit violated the property (F-17): witness = three single quotes followed by three double quotes *)
Theorem C12_triple_quote_pinned_refuted :
  exists s, decode_literal (triple_quote pr false s) <> Done s [].
Proof. exact triple_quote_pinned_refuted. Qed.

Theorem C12_bytes_repr_roundtrip : forall s : str,
  Forall (fun c => c < 256) s -> decode_bytes_literal (bytes_repr s) = Done s [].
Proof. exact bytes_repr_roundtrip. Qed.

(* when the triple-quoted form is chosen *)
Theorem C12_use_triple_spec : forall s : str,
  use_triple s = true <-> (In 10 s /\ last s 0 <> 10) \/ (count 10%N s >= 2)%nat.
Proof. exact use_triple_spec. Qed.

Print Assumptions C12_py_repr_roundtrip.
Print Assumptions C12_triple_quote_roundtrip.
Print Assumptions C12_str_literal_roundtrip.
Print Assumptions C12_triple_quote_eq_atoms.
Print Assumptions C12_triple_quote_pinned_refuted.
Print Assumptions C12_bytes_repr_roundtrip.
Print Assumptions C12_use_triple_spec.

(* test files with a PEP 263 coding cookie (repair F-97: the new content is encoded with errors="backslashreplace"): a one-line str literal in which every
   character the file's encoding cannot represent is replaced by its backslashreplace escape still reads back as the value - for every encoding that
   represents ASCII; escaping is the same as treating those characters as not printable (encode_py_repr), and nothing representable is touched *)
From V Require Proofs.StrLitEncode.
Theorem C12_backslashreplace_roundtrip_single_line :
  forall (enc_ok printable : cp -> bool) (s : str),
  (forall c, c < 128 -> enc_ok c = true) -> Forall (fun c => c <= 1114111) s ->
  decode_literal (encode_text enc_ok (py_repr printable s)) = Done s [].
Proof. intros e p s H Hs. apply StrLitEncode.backslashreplace_roundtrip; assumption. Qed.
Print Assumptions C12_backslashreplace_roundtrip_single_line.

Theorem C12_encode_is_repr_with_fewer_printables :
  forall (enc_ok printable : cp -> bool) (s : str),
  (forall c, c < 128 -> enc_ok c = true) ->
  encode_text enc_ok (py_repr printable s) = py_repr (fun c => printable c && enc_ok c) s.
Proof. intros e p s H. apply StrLitEncode.encode_py_repr; assumption. Qed.
Print Assumptions C12_encode_is_repr_with_fewer_printables.

Theorem C12_encode_identity_when_representable :
  forall (enc_ok : cp -> bool) (t : str), Forall (fun c => enc_ok c = true) t -> encode_text enc_ok t = t.
Proof. exact StrLitEncode.encode_identity_when_representable. Qed.
Print Assumptions C12_encode_identity_when_representable.

Theorem C12_latin1_example :
  let latin1 := fun c => c <? 256 in
  encode_text latin1 (py_repr (fun _ => true) [233; 8364]) = [39; 233; 92; 117; 50; 48; 97; 99; 39]
  /\ decode_literal (encode_text latin1 (py_repr (fun _ => true) [233; 8364])) = Done [233; 8364] [].
Proof. exact StrLitEncode.latin1_example. Qed.
Print Assumptions C12_latin1_example.
