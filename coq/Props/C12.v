(* C12 - every string is written as a literal that reads back identically.
   Property theorems only; proofs in Proofs/StrLit*.v.  Strings are lists of code points;
   `printable` is an ARBITRARY predicate (the Unicode table is not assumed). *)
From Coq Require Import List NArith Bool.
Import ListNotations.
From V Require Import Model.StrLit Proofs.StrLitRepr Proofs.StrLitScan Proofs.StrLitTriple Proofs.StrLitBytes.
Open Scope N_scope.

(* single-line literals: CPython repr(str) read back by the lexer model *)
Theorem C12_py_repr_roundtrip : forall (printable : cp -> bool) (s : str),
  Forall (fun c => c <= 1114111) s -> decode_literal (py_repr printable s) = Done s [].
Proof. exact py_repr_roundtrip. Qed.

(* triple-quoted literals of the repaired tree, literal transcription of _utils.triple_quote *)
Theorem C12_triple_quote_roundtrip : forall (printable : cp -> bool) (s : str),
  Forall (fun c => c <= 1114111) s -> decode_literal (triple_quote printable true s) = Done s [].
Proof. exact triple_quote_fixed_roundtrip. Qed.

(* what value_to_token writes for any str (single-line or triple-quoted) *)
Theorem C12_str_literal_roundtrip : forall (printable : cp -> bool) (s : str),
  Forall (fun c => c <= 1114111) s -> decode_literal (str_literal printable true s) = Done s [].
Proof. exact str_literal_fixed_roundtrip. Qed.

(* the atom-level restatement used in the proof is the same function *)
Theorem C12_triple_quote_eq_atoms : forall (printable : cp -> bool) (s : str),
  triple_quote printable true s = triple_quote_a printable s.
Proof. exact triple_quote_eq_atoms. Qed.

(* the pinned commit violated the property (F-17): witness = three single quotes followed by three double quotes *)
Theorem C12_triple_quote_pinned_refuted :
  exists s, decode_literal (triple_quote pr false s) <> Done s [].
Proof. exact triple_quote_pinned_refuted. Qed.

Theorem C12_bytes_repr_roundtrip : forall s : str,
  Forall (fun c => c < 256) s -> decode_bytes_literal (bytes_repr s) = Done s [].
Proof. exact bytes_repr_roundtrip. Qed.

(* when the triple-quoted form is chosen *)
Theorem C12_use_triple_spec : forall s : str,
  use_triple s = true <-> (In 10 s /\ last s 0 <> 10) \/ (count 10%N s >= 2)%nat.
Proof. exact use_triple_spec. Qed.

Print Assumptions C12_py_repr_roundtrip.
Print Assumptions C12_triple_quote_roundtrip.
Print Assumptions C12_str_literal_roundtrip.
Print Assumptions C12_triple_quote_eq_atoms.
Print Assumptions C12_triple_quote_pinned_refuted.
Print Assumptions C12_bytes_repr_roundtrip.
Print Assumptions C12_use_triple_spec.
