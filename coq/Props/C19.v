(* C19 - the public testing helpers reproduce what a real session does.  Property theorems about Model/Flags.v:
   on its scope (category flags only, no xdist / CI, CPython) Example.run_inline applies exactly what a real session applies;
   outside that scope (e.g. short-report among the flags) the two differ - the witness is exhibited. *)
From Coq Require Import List ZArith NArith Bool Arith.
Import ListNotations.
From V Require Import Model.Flags Proofs.FlagsProofs.

Theorem C19_inline_eq_plugin :
  forall (e : env) (s : session) (given : list flag),
  cli e = Some given ->
  forallb is_cat given = true ->
  xdist e = false ->
  ci e = false ->
  cpython e = true ->
  (forall c : cat, diff_nonempty s c = true) -> forall c : cat, applied e s c = inline_applied given s c.
Proof. exact inline_eq_plugin. Qed.

Theorem C19_inline_eq_plugin_gen :
  forall (e : env) (s : session) (given : list flag),
  cli e = Some given ->
  forallb is_cat given = true ->
  xdist e = false ->
  ci e = false ->
  cpython e = true -> forall c : cat, applied e s c = inline_applied given s c && diff_nonempty s c.
Proof. exact inline_eq_plugin_gen. Qed.

Theorem C19_inline_differs_outside_scope_refuted :
  exists (e : env) (given : list flag) (s : session) (c : cat),
  cli e = Some given /\
  forallb is_cat given = false /\
  xdist e = false /\
  ci e = false /\
  cpython e = true /\
  (forall c0 : cat, diff_nonempty s c0 = true) /\
  applied e s c = false /\ inline_applied given s c = true.
Proof. exact inline_differs_outside_scope_refuted. Qed.

Theorem C19_applied_exact_flags :
  forall (e : env) (s : session) (c : cat) (flags : list flag) (u : cats4),
  resolve e = Resolved flags true u ->
  mem FShortReport flags = false ->
  mem FReview flags = false ->
  applied e s c = pending s c && diff_nonempty s c && mem (cat_flag c) flags.
Proof. exact applied_exact_flags. Qed.

Print Assumptions C19_inline_eq_plugin.
Print Assumptions C19_inline_eq_plugin_gen.
Print Assumptions C19_inline_differs_outside_scope_refuted.
Print Assumptions C19_applied_exact_flags.

(* what a real session reports and writes over ANY number of test files (Model/Session.v): the previews printed are exactly the shown categories whose
   changes alter the text of some file; the changes written are exactly those of the shown, approved categories among them *)
From V Require Model.SnapOps Model.Session Proofs.SessionProofs.
Theorem C19_session_reported_iff :
  forall (cf : Session.sconf) (pending : list Session.change) (c : SnapOps.cat),
  In c (snd (Session.session cf pending)) <-> Session.shown cf c = true /\ existsb Session.ch_visible (Session.of_cat c pending) = true.
Proof. exact SessionProofs.session_reported_iff. Qed.
Theorem C19_session_applied_iff :
  forall (cf : Session.sconf) (pending : list Session.change) (ch : Session.change),
  In ch (fst (Session.session cf pending)) <-> In ch pending /\ SessionProofs.passes cf pending (Session.ch_cat ch) = true.
Proof. exact SessionProofs.session_applied_iff. Qed.
Print Assumptions C19_session_reported_iff.
Print Assumptions C19_session_applied_iff.
