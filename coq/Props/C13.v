(* C13 - external storage stays consistent across any history of runs.
   Property theorems about Model/Storage.v; 'history' theorems hold for every finite sequence of
   {edit outsourced data, add a test, remove a test, session with any approvals} from the empty state. *)
From Coq Require Import List ZArith NArith Bool Arith.
Import ListNotations.
From V Require Import Model.Storage Proofs.StorageProofs.

Theorem C13_history_content_addressed :
  forall h : list hstep, content_addressed (fst (run_history h)).
Proof. exact history_content_addressed. Qed.

Theorem C13_history_names_unique :
  forall h : list hstep, names_unique (fst (run_history h)).
Proof. exact history_names_unique. Qed.

Theorem C13_persisted_only_with_reference :
  forall (a : approval) (s : store) (ts : list test) (d : data) (suf : suffix),
  has (fst (session a s ts)) (persisted_name d suf) = true ->
  has s (persisted_name d suf) = true \/ In (d, suf) (refs (snd (session a s ts))).
Proof. exact persisted_only_with_reference. Qed.

Theorem C13_history_persisted_was_referenced :
  forall (h : list hstep) (d : data) (suf : suffix),
  has (fst (run_history h)) (persisted_name d suf) = true ->
  exists (h1 : list hstep) (a : approval) (h2 : list hstep),
  h = h1 ++ HSession a :: h2 /\
  has (fst (run_history h1)) (persisted_name d suf) = false /\
  In (d, suf) (refs (snd (run_history (h1 ++ [HSession a])))) /\
  (forall k : nat,
  has (fst (run_history (h1 ++ HSession a :: firstn k h2))) (persisted_name d suf) = true).
Proof. exact history_persisted_was_referenced. Qed.

Theorem C13_new_files_die_at_session_start :
  forall (a : approval) (s : store) (ts : list test) (n : fname) (d : data),
  In (n, d) (fst (session a s ts)) ->
  fn_new n = true -> exists t : test, In t ts /\ t_data t = fn_hash n /\ t_suf t = fn_suf n.
Proof. exact new_files_die_at_session_start. Qed.

Theorem C13_history_new_files_from_last_session :
  forall (h1 : list hstep) (a : approval) (h2 : list hstep),
  (forall a' : approval, ~ In (HSession a') h2) ->
  forall (n : fname) (d : data),
  In (n, d) (fst (run_history (h1 ++ HSession a :: h2))) ->
  fn_new n = true ->
  d = fn_hash n /\
  (exists t : test, In t (snd (run_history h1)) /\ t_data t = fn_hash n /\ t_suf t = fn_suf n).
Proof. exact history_new_files_from_last_session. Qed.

Theorem C13_removed_only_by_trim :
  forall (a : approval) (s : store) (ts : list test),
  a_trim a = false ->
  forall (n : fname) (d : data), In (n, d) s -> fn_new n = false -> In (n, d) (fst (session a s ts)).
Proof. exact removed_only_by_trim. Qed.

Theorem C13_removed_by_trim_unreferenced :
  forall (a : approval) (s : store) (ts : list test) (n : fname) (d : data),
  a_trim a = true ->
  In (n, d) s ->
  fn_new n = false ->
  ~ In (n, d) (fst (session a s ts)) -> ~ In (fn_hash n, fn_suf n) (refs (snd (session a s ts))).
Proof. exact removed_by_trim_unreferenced. Qed.

Theorem C13_history_removed_only_by_trim :
  forall (h : list hstep) (x : hstep) (n : fname) (d : data),
  In (n, d) (fst (run_history h)) ->
  fn_new n = false ->
  ~ In (n, d) (fst (run_history (h ++ [x]))) ->
  exists a : approval,
  x = HSession a /\
  a_trim a = true /\ ~ In (fn_hash n, fn_suf n) (refs (snd (run_history (h ++ [x])))).
Proof. exact history_removed_only_by_trim. Qed.

Theorem C13_lookup_unique_or_error :
  forall (s : store) (pre : data -> bool) (suf : suffix) (n : fname),
  lookup s pre suf = Found n ->
  In n (names s) /\
  pre (fn_hash n) = true /\
  fn_suf n = suf /\
  (forall m : fname, In m (names s) -> pre (fn_hash m) = true -> fn_suf m = suf -> m = n).
Proof. exact lookup_unique_or_error. Qed.

Theorem C13_lookup_error_iff :
  forall (s : store) (pre : data -> bool) (suf : suffix),
  lookup s pre suf = HashError <-> length (matching s pre suf) <> 1.
Proof. exact lookup_error_iff. Qed.

Theorem C13_read_correct :
  forall (s : store) (pre : data -> bool) (suf : suffix) (d : data),
  content_addressed s -> read s pre suf = Some d -> pre d = true.
Proof. exact read_correct. Qed.

Theorem C13_history_no_dangling_reference :
  forall h : list hstep, refs_persisted (fst (run_history h)) (snd (run_history h)).
Proof. exact history_no_dangling_reference. Qed.

Theorem C13_no_dangling_reference_refuted :
  ~
  (forall (a : approval) (s : store) (ts : list test),
  a_create a = true ->
  a_fix a = true ->
  forall r : data * suffix,
  In r (refs (snd (session a s ts))) ->
  has (fst (session a s ts)) (persisted_name (fst r) (snd r)) = true).
Proof. exact no_dangling_reference_refuted. Qed.

Theorem C13_session_idempotent :
  forall (a : approval) (s : store) (ts : list test),
  a_trim a = true -> session a (fst (session a s ts)) (snd (session a s ts)) = session a s ts.
Proof. exact session_idempotent. Qed.

Theorem C13_history_session_idempotent_perm :
  forall (h : list hstep) (a : approval),
  Permutation.Permutation (fst (run_history (h ++ [HSession a; HSession a])))
  (fst (run_history (h ++ [HSession a]))) /\
  snd (run_history (h ++ [HSession a; HSession a])) = snd (run_history (h ++ [HSession a])).
Proof. exact history_session_idempotent_perm. Qed.

Print Assumptions C13_history_content_addressed.
Print Assumptions C13_history_names_unique.
Print Assumptions C13_persisted_only_with_reference.
Print Assumptions C13_history_persisted_was_referenced.
Print Assumptions C13_new_files_die_at_session_start.
Print Assumptions C13_history_new_files_from_last_session.
Print Assumptions C13_removed_only_by_trim.
Print Assumptions C13_removed_by_trim_unreferenced.
Print Assumptions C13_history_removed_only_by_trim.
Print Assumptions C13_lookup_unique_or_error.
Print Assumptions C13_lookup_error_iff.
Print Assumptions C13_read_correct.
Print Assumptions C13_history_no_dangling_reference.
Print Assumptions C13_no_dangling_reference_refuted.
Print Assumptions C13_session_idempotent.
Print Assumptions C13_history_session_idempotent_perm.

(* which stored files a trim may remove: Model/Unused.v mirrors _find_external.unused_externals with DiscStorage.list / lookup_all (glob with one star) *)
From V Require Model.Unused Proofs.UnusedProofs.
Theorem C13_unused_spec :
  forall (store : list Unused.str) (refs : list Unused.ref) (n : Unused.str),
  In n (Unused.unused store refs) <-> In n store /\ forall r, In r refs -> Unused.matches r n = false.
Proof. exact UnusedProofs.unused_spec. Qed.
Print Assumptions C13_unused_spec.

(* a file that a reference of a participating test file matches is never handed to trim *)
Theorem C13_referenced_never_unused :
  forall (store : list Unused.str) (refs : list Unused.ref) (r : Unused.ref) (n : Unused.str),
  In r refs -> Unused.matches r n = true -> ~ In n (Unused.unused store refs).
Proof. exact UnusedProofs.referenced_never_unused. Qed.
Print Assumptions C13_referenced_never_unused.

(* the way the code computes it: list() minus the union of lookup_all over the references *)
Theorem C13_unused_as_difference :
  forall (store : list Unused.str) (refs : list Unused.ref) (n : Unused.str),
  In n (Unused.unused store refs) <-> In n store /\ ~ exists r, In r refs /\ In n (Unused.lookup_all store r).
Proof. exact UnusedProofs.unused_as_difference. Qed.
Print Assumptions C13_unused_as_difference.

(* a reference with fewer hash characters (smaller hash-length, shortened by hand) matches whatever the longer one matched *)
Theorem C13_unused_shorter_prefix_still_matches :
  forall (p q s n : Unused.str), Unused.matches (Unused.Glob (p ++ q) s) n = true -> Unused.matches (Unused.Glob p s) n = true.
Proof. exact UnusedProofs.shorter_prefix_still_matches. Qed.
Print Assumptions C13_unused_shorter_prefix_still_matches.

(* the reference inline-snapshot writes (first characters of the hash, a star, the suffix) matches the file, persisted (infix empty) or not yet persisted (infix "-new") *)
Theorem C13_written_reference_matches :
  forall (h1 h2 infix s : Unused.str), Unused.matches (Unused.Glob h1 s) (h1 ++ h2 ++ infix ++ s) = true.
Proof. exact UnusedProofs.written_reference_matches. Qed.
Print Assumptions C13_written_reference_matches.

Theorem C13_unused_antitone :
  forall (store : list Unused.str) (refs refs' : list Unused.ref) (n : Unused.str),
  incl refs refs' -> In n (Unused.unused store refs') -> In n (Unused.unused store refs).
Proof. exact UnusedProofs.unused_antitone. Qed.
Print Assumptions C13_unused_antitone.

Theorem C13_unused_example :
  let store := [[1; 2; 3; 4; 46; 116]; [1; 2; 9; 9; 46; 116]; [5; 5; 5; 5; 45; 110; 46; 116]]%N in
  Unused.unused store [Unused.Glob [1; 2; 3]%N [46; 116]%N] = [[1; 2; 9; 9; 46; 116]; [5; 5; 5; 5; 45; 110; 46; 116]]%N
  /\ Unused.unused store [Unused.Glob [1; 2]%N [46; 116]%N; Unused.Glob [5]%N [46; 116]%N] = []
  /\ Unused.unused store [] = store.
Proof. exact UnusedProofs.unused_example. Qed.
Print Assumptions C13_unused_example.
