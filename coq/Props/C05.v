(* C05 - each category means what the documentation says.  Property theorems about Model/SnapOps.v; proofs in Proofs/SnapOps*.v.
   K ranges over the bound kinds (is_bound), kop K x is the comparison of kind K with x, cmp_of K the order of the bound;
   s' is the site after running the whole script from a fresh site; both values of fixed (pinned / repaired tree) are covered. *)
From Coq Require Import List ZArith NArith Bool Arith.
Import ListNotations.
From V Require Import Model.SnapOps Proofs.SnapOpsFlat Proofs.SnapOpsNested.

Theorem C05_mm_fix_iff_failed :
  forall (fixed : bool) (F : flags) (K : kind) (z : Z) (cn : bool) (x : Z) (r : list Z) (c : counters),
  is_bound K = true ->
  let s' := r_site (run fixed F (fresh (Some (SAtom z cn))) (map (kop K) (x :: r)) c) in
  has_cat Fix (cats s') = existsb (fun y : Z => negb (cmp_of K z y)) (x :: r) /\
  has_cat Trim (cats s') = forallb (fun y : Z => negb (cmp_of K y z)) (x :: r) /\
  has_cat Fix (cats s') && has_cat Trim (cats s') = false.
Proof. exact mm_fix_iff_failed. Qed.

Theorem C05_mm_fix_makes_all_hold :
  forall (fixed : bool) (F : flags) (K : kind) (z : Z) (cn : bool) (x : Z) (r : list Z) (c : counters),
  is_bound K = true ->
  f_fix F = true ->
  let s' := r_site (run fixed F (fresh (Some (SAtom z cn))) (map (kop K) (x :: r)) c) in
  exists w : Z,
  value_after F s' = Some (PAtom w) /\ (forall y : Z, In y (x :: r) -> cmp_of K w y = true).
Proof. exact mm_fix_makes_all_hold. Qed.

Theorem C05_mm_trim_tightest :
  forall (fixed : bool) (F : flags) (K : kind) (z : Z) (cn : bool) (x : Z) (r : list Z) (c : counters),
  is_bound K = true ->
  f_fix F = true ->
  f_trim F = true ->
  let s' := r_site (run fixed F (fresh (Some (SAtom z cn))) (map (kop K) (x :: r)) c) in
  let e := list_ext K x r in
  value_after F s' = Some (PAtom e) /\
  (forall y : Z, In y (x :: r) -> cmp_of K e y = true) /\
  (forall w : Z, cmp_of K w e = false -> exists y : Z, In y (x :: r) /\ cmp_of K w y = false).
Proof. exact mm_trim_tightest. Qed.

Theorem C05_mm_new_is_extreme :
  forall (fixed : bool) (F : flags) (old : option src) (x : Z) (r : list Z) (c : counters),
  atomish old = true ->
  r_site (run fixed F (fresh old) (ops_min (x :: r)) c) = Site KMin old (Some (list_min x r)) [] [] /\
  r_site (run fixed F (fresh old) (ops_max (x :: r)) c) = Site KMax old (Some (list_max x r)) [] [].
Proof. exact mm_new_is_extreme. Qed.

Theorem C05_coll_categories :
  forall (fixed : bool) (F : flags) (l : list (Z * bool)) (x : Z) (r : list Z) (c : counters),
  let xs := x :: r in
  let ol := map fst l in
  let s' := r_site (run fixed F (fresh (Some (SList l))) (ops_in xs) c) in
  has_cat Fix (cats s') = existsb (fun y : Z => negb (zmem y ol)) xs /\
  has_cat Trim (cats s') = existsb (fun e : Z * bool => negb (zmem (fst e) xs)) l /\
  (f_fix F = true ->
  f_trim F = true ->
  let kept := filter (fun v : Z => zmem v xs) ol in
  let added := filter (fun v : Z => negb (zmem v ol)) (dedup xs) in
  value_after F s' = Some (PList (kept ++ added)) /\
  (forall y : Z, In y xs -> zmem y (kept ++ added) = true) /\
  (forall m : Z, In m (kept ++ added) -> In m xs)).
Proof. exact coll_categories. Qed.

Theorem C05_coll_categories_fix_any_script :
  forall (fixed : bool) (F : flags) (l : list (Z * bool)) (xs : list Z) (c : counters),
  has_cat Fix (cats (r_site (run fixed F (fresh (Some (SList l))) (ops_in xs) c))) =
  existsb (fun y : Z => negb (zmem y (map fst l))) xs.
Proof. exact coll_categories_fix_any_script. Qed.

Theorem C05_update_value_preserving_run :
  forall (fixed : bool) (F : flags) (o : src) (ops : list op) (c : counters),
  f_create F = false ->
  f_fix F = false ->
  f_trim F = false ->
  src_nodup o = true -> value_after F (r_site (run fixed F (fresh (Some o)) ops c)) = Some (src_val o).
Proof. exact update_value_preserving_run. Qed.

Theorem C05_update_value_preserving_dupkeys_refuted :
  exists (F : flags) (s : site) (o : src),
  f_create F = false /\
  f_fix F = false /\
  f_trim F = false /\ s_old s = Some o /\ wshape s /\ value_after F s <> Some (src_val o).
Proof. exact update_value_preserving_dupkeys_refuted. Qed.

Theorem C05_create_only_missing_run :
  forall (fixed : bool) (F : flags) (o : src) (ops : list op) (c : counters),
  let s := r_site (run fixed F (fresh (Some o)) ops c) in
  has_cat Create (cats s) = true -> new_key_site s.
Proof. exact create_only_missing_run. Qed.

Theorem C05_create_only_missing_depth1 :
  forall s : site,
  wshape s ->
  depth1 s = true ->
  has_cat Create (cats s) = true ->
  s_old s = None \/
  s_kind s = KDict /\
  (exists (key : Z) (c : site), In (key, c) (s_children s) /\ child_old (s_old s) key = None).
Proof. exact create_only_missing_depth1. Qed.

Theorem C05_create_never_alters_existing_run :
  forall (fixed : bool) (F : flags) (o : src) (ops : list op) (c : counters),
  f_fix F = false ->
  f_trim F = false ->
  src_nodup o = true ->
  exists w : pv,
  value_after F (r_site (run fixed F (fresh (Some o)) ops c)) = Some w /\ pv_ext (src_val o) w.
Proof. exact create_never_alters_existing_run. Qed.

Theorem C05_create_never_alters_existing_leaf :
  forall (F : flags) (s : site) (o : src),
  f_fix F = false ->
  f_trim F = false -> s_old s = Some o -> is_dict o = false -> value_after F s = Some (src_val o).
Proof. exact create_never_alters_existing_leaf. Qed.

Theorem C05_create_never_alters_existing_dict :
  forall (F : flags) (s : site) (kvs : list (Z * src)) (key : Z) (v : src),
  f_fix F = false ->
  f_trim F = false ->
  s_old s = Some (SDict kvs) ->
  wshape s ->
  src_nodup (SDict kvs) = true ->
  assoc key kvs = Some v ->
  exists (kvs2 : list (Z * pv)) (v' : pv),
  value_after F s = Some (PDict kvs2) /\
  assoc key kvs2 = Some v' /\ pv_ext (src_val v) v' /\ (is_dict v = false -> v' = src_val v).
Proof. exact create_never_alters_existing_dict. Qed.

Print Assumptions C05_mm_fix_iff_failed.
Print Assumptions C05_mm_fix_makes_all_hold.
Print Assumptions C05_mm_trim_tightest.
Print Assumptions C05_mm_new_is_extreme.
Print Assumptions C05_coll_categories.
Print Assumptions C05_coll_categories_fix_any_script.
Print Assumptions C05_update_value_preserving_run.
Print Assumptions C05_update_value_preserving_dupkeys_refuted.
Print Assumptions C05_create_only_missing_run.
Print Assumptions C05_create_only_missing_depth1.
Print Assumptions C05_create_never_alters_existing_run.
Print Assumptions C05_create_never_alters_existing_leaf.
Print Assumptions C05_create_never_alters_existing_dict.

(* values in which lists / tuples, dict displays and constructor calls are nested in each other at ANY depth (Model/Nest.v): a run in which fix is not
   approved - in particular an update, which rewrites non-canonical leaves, deletes keyword arguments that spell out the default of their field and
   regenerates dict displays that repeat a key - never changes the value the argument evaluates to (Python's ==), whatever is observed.  Premises: no
   call of the source repeats a keyword, the observed value is well-formed, the class table names every field once and its defaults are well-formed. *)
From V Require Model.Nest Proofs.NestProofs Proofs.NestValue Proofs.NestFix Proofs.NestEqual Proofs.NestUpdate.
Theorem C05_nest_update_value_preserving :
  forall (ct : Nest.ctab) (f : nat) (F : flags) (o : Nest.ntree) (n : Nest.nval),
  NestUpdate.ct_wf ct -> NestFix.ct_ok ct -> NestUpdate.wfk o = true -> NestFix.okv ct n = true -> f_fix F = false ->
  Nest.val_eqb (Nest.eval_r ct (Nest.assign ct f F o n)) (Nest.eval ct o) = true.
Proof. exact NestUpdate.nest_nofix_value. Qed.
(* == on well-formed values is symmetric and transitive (dicts are compared as finite maps) *)
Theorem C05_nest_eq_sym :
  forall a b : Nest.nval, NestValue.wfv a = true -> NestValue.wfv b = true -> Nest.val_eqb a b = true -> Nest.val_eqb b a = true.
Proof. exact NestUpdate.val_eqb_sym. Qed.
Theorem C05_nest_eq_trans :
  forall a b c : Nest.nval, Nest.val_eqb a b = true -> Nest.val_eqb b c = true -> Nest.val_eqb a c = true.
Proof. exact NestUpdate.val_eqb_trans. Qed.
(* the premises hold for a non-trivial input, and the update-only run does change the text there *)
Theorem C05_nest_update_premises_hold :
  NestUpdate.wfk NestEqual.ex_old = true /\ NestFix.okv NestEqual.ex_ct NestEqual.ex_new = true /\
  Nest.val_eqb (Nest.eval_r NestEqual.ex_ct (Nest.assign_nest NestEqual.ex_ct {| f_create := false; f_fix := false; f_trim := false; f_update := true |} NestEqual.ex_old NestEqual.ex_new))
               (Nest.eval NestEqual.ex_ct NestEqual.ex_old) = true /\
  NestProofs.verbatim (Nest.assign_nest NestEqual.ex_ct {| f_create := false; f_fix := false; f_trim := false; f_update := true |} NestEqual.ex_old NestEqual.ex_new) <> Some NestEqual.ex_old.
Proof. exact NestUpdate.nest_update_premises_hold. Qed.
Print Assumptions C05_nest_update_value_preserving.
Print Assumptions C05_nest_eq_sym.
Print Assumptions C05_nest_eq_trans.
Print Assumptions C05_nest_update_premises_hold.

(* a snapshot() that is evaluated but never compared (Model/Undecided.v): update rewrites non-canonical leaves below lists / tuples, dict displays and
   the keyword arguments of constructor calls at any depth - and the expression keeps its value EXACTLY; without update the text stays verbatim *)
From V Require Model.Undecided Proofs.UndecidedProofs.
Theorem C05_undecided_value :
  forall (ct : Nest.ctab) (upd : bool) (t : Nest.ntree), Nest.eval_r ct (Undecided.undecided upd t) = Nest.eval ct t.
Proof. exact UndecidedProofs.undecided_value. Qed.
Theorem C05_undecided_noupdate_identity :
  forall t : Nest.ntree, NestProofs.verbatim (Undecided.undecided false t) = Some t.
Proof. exact UndecidedProofs.undecided_noupdate_identity. Qed.
Theorem C05_undecided_example :
  Undecided.undecided true UndecidedProofs.ex_t =
    Nest.QSeq TreeAssign.KList [Nest.QGen (Nest.NAtom 5); Nest.QKeep (Nest.NUnm 0 3); Nest.QKeep (Nest.NDct [(1%Z, Nest.NLeaf 2 false); (1%Z, Nest.NLeaf 3 false)]);
                Nest.QCall 0 [(None, Nest.QKeep (Nest.NLeaf 7 false)); (Some 1%Z, Nest.QGen (Nest.NAtom 0))]; Nest.QDict [(4%Z, Nest.QGen (Nest.NAtom 1))]]
  /\ Nest.eval_r UndecidedProofs.ex_ct (Undecided.undecided true UndecidedProofs.ex_t) = Nest.eval UndecidedProofs.ex_ct UndecidedProofs.ex_t
  /\ NestProofs.unms_r (Undecided.undecided true UndecidedProofs.ex_t) = [0%nat].
Proof. exact UndecidedProofs.undecided_example. Qed.
Print Assumptions C05_undecided_value.
Print Assumptions C05_undecided_noupdate_identity.
Print Assumptions C05_undecided_example.

(* `x in snapshot(<value>)` where the previous value is no list display (Model/CollReplace.v mirrors that branch of CollectionValue._get_changes):
   the categories mean what they mean for list displays *)
From V Require Model.CollReplace Proofs.CollReplaceProofs.
Theorem C05_coll_replace_fix_iff_missing :
  forall (trim is_set : bool) (old tested : list Z),
  (exists nv, CollReplace.coll_replace false trim is_set old tested = CollReplace.Repl true nv)
  <-> (exists v, In v tested /\ CollReplace.mem v old = false).
Proof. exact CollReplaceProofs.fix_iff_missing. Qed.
Print Assumptions C05_coll_replace_fix_iff_missing.

Theorem C05_coll_replace_trim_iff :
  forall (trim is_set : bool) (old tested : list Z),
  (exists nv, CollReplace.coll_replace false trim is_set old tested = CollReplace.Repl false nv)
  <-> ((forall v, In v tested -> CollReplace.mem v old = true) /\ exists o, In o old /\ CollReplace.mem o tested = false).
Proof. exact CollReplaceProofs.trim_iff. Qed.
Print Assumptions C05_coll_replace_trim_iff.

(* a fix that is computed while trim is not approved loses no member of the previous value (F-77), and appends exactly the missing tested values *)
Theorem C05_coll_replace_fix_without_trim_keeps_old :
  forall (is_set : bool) (old tested nv : list Z),
  CollReplace.coll_replace false false is_set old tested = CollReplace.Repl true nv -> forall o, In o old -> In o nv.
Proof. exact CollReplaceProofs.fix_without_trim_keeps_old. Qed.
Print Assumptions C05_coll_replace_fix_without_trim_keeps_old.

Theorem C05_coll_replace_fix_without_trim_shape :
  forall (is_set : bool) (old tested nv : list Z),
  CollReplace.coll_replace false false is_set old tested = CollReplace.Repl true nv ->
  nv = CollReplace.ordered is_set old ++ CollReplace.missing old tested.
Proof. exact CollReplaceProofs.fix_without_trim_shape. Qed.
Print Assumptions C05_coll_replace_fix_without_trim_shape.

Theorem C05_coll_replace_trim_writes_tested :
  forall (unm trim is_set : bool) (old tested : list Z) (f : bool) (nv : list Z),
  CollReplace.coll_replace unm trim is_set old tested = CollReplace.Repl f nv -> (f = false \/ trim = true) -> nv = tested.
Proof. exact CollReplaceProofs.trim_writes_tested. Qed.
Print Assumptions C05_coll_replace_trim_writes_tested.

Theorem C05_coll_replace_nothing_invented :
  forall (unm trim is_set : bool) (old tested : list Z) (f : bool) (nv : list Z),
  CollReplace.coll_replace unm trim is_set old tested = CollReplace.Repl f nv -> forall v, In v nv -> In v old \/ In v tested.
Proof. exact CollReplaceProofs.new_value_from_old_or_tested. Qed.
Print Assumptions C05_coll_replace_nothing_invented.

Theorem C05_coll_replace_example :
  CollReplace.coll_replace false false true [3; 1; 2]%Z [2; 5]%Z = CollReplace.Repl true [1; 2; 3; 5]%Z
  /\ CollReplace.coll_replace false false true [2; 3; 1]%Z [2; 5]%Z = CollReplace.Repl true [1; 2; 3; 5]%Z
  /\ CollReplace.coll_replace false true false [1; 2]%Z [2; 3]%Z = CollReplace.Repl true [2; 3]%Z
  /\ CollReplace.coll_replace false false false [1; 2]%Z [2]%Z = CollReplace.Repl false [2]%Z
  /\ CollReplace.coll_replace true false false [1; 2]%Z [5]%Z = CollReplace.NoChange.
Proof. exact CollReplaceProofs.coll_example. Qed.
Print Assumptions C05_coll_replace_example.

(* update is text-only (Model/Tokens.v): when the comparison of _utils.normalize / simple_token.__eq__ reports no update, the argument and the
   canonical code are the same token sequence - string tokens by value, every other token literally - up to implicit concatenation and trailing commas *)
From V Require Model.StrLit Model.Tokens Proofs.TokensProofs.
Theorem C05_no_update_same_denotation :
  forall (printable : StrLit.cp -> bool) (node canon : list Tokens.tok),
  Tokens.needs_update_norm printable node canon = Some false ->
  exists n c, Tokens.normalize printable node = Some n /\ Tokens.normalize printable canon = Some c /\ map Tokens.denot n = map Tokens.denot c.
Proof. exact TokensProofs.no_update_same_denotation. Qed.
Print Assumptions C05_no_update_same_denotation.

Theorem C05_no_update_same_denotation_leaf :
  forall (printable : StrLit.cp -> bool) (node canon : list Tokens.tok),
  Tokens.needs_update_leaf printable node canon = Some false ->
  exists n, Tokens.normalize printable node = Some n /\ map Tokens.denot n = map Tokens.denot canon.
Proof. exact TokensProofs.no_update_same_denotation_leaf. Qed.
Print Assumptions C05_no_update_same_denotation_leaf.

(* implicit concatenation is normalised to the repr of the joined value *)
Theorem C05_implicit_concatenation_joined :
  forall (printable : StrLit.cp -> bool) (a b : Tokens.tok) (f : bool) (va vb : StrLit.str),
  Tokens.is_simple_string a = true -> Tokens.is_simple_string b = true ->
  Tokens.lit_eval (Tokens.tx a) = Some (Tokens.SV f va) -> Tokens.lit_eval (Tokens.tx b) = Some (Tokens.SV f vb) ->
  Tokens.norm_strings printable None [a; b] = Some [Tokens.Tok 3 (Tokens.repr_sval printable (Tokens.SV f (va ++ vb)))].
Proof. exact TokensProofs.norm_strings_concat. Qed.
Print Assumptions C05_implicit_concatenation_joined.

Theorem C05_update_examples :
  Tokens.needs_update_leaf (fun _ => true) [Tokens.Tok 3 [34; 97; 34]; Tokens.Tok 3 [39; 98; 39]]%N [Tokens.Tok 3 [39; 97; 98; 39]]%N = Some false
  /\ Tokens.needs_update_leaf (fun _ => true) [Tokens.Tok 3 [34; 97; 34]]%N [Tokens.Tok 3 [39; 97; 39]]%N = Some false
  /\ Tokens.needs_update_leaf (fun _ => true) [Tokens.Tok 2 [48; 120; 49]]%N [Tokens.Tok 2 [49]]%N = Some true.
Proof. exact TokensProofs.quotes_and_concat_no_update. Qed.
Print Assumptions C05_update_examples.
