(* C02 - approving create and fix repairs every reached snapshot in a single run.
   Property theorems: the value of a repaired flat sequence is the observed value (Model/SeqAssign.v, on top of the alignment of
   Model/Align.v); the text edit of a container yields exactly the kept and the inserted elements, well-formed, for every layout of
   comments and commas (Model/SeqUpdate.v) under the premise that alignment scripts guarantee (no insertion directly before a
   deletion: align_no_i_then_d); bounds and membership snapshots hold after fix (Model/SnapOps.v). *)
From Coq Require Import List ZArith NArith Bool Arith.
Import ListNotations.
From V Require Import Model.Align Model.SnapOps Model.SeqAssign Model.SeqUpdate Proofs.AlignValid Proofs.AlignProofs Proofs.SeqAssignProofs Proofs.SeqUpdateProofs Proofs.SnapOpsFlat.
From V Require Import Model.TreeAssign Proofs.TreeAssignProofs.
From Coq Require Import ZArith.
From V Require Import Model.SeqAssign Model.DictAssign Proofs.DictAssignProofs.
From V Require Import Model.CallAssign Proofs.CallAssignProofs.
Close Scope Z_scope.

Theorem C02_seq_fix_value :
  forall (F : flags) (old : list leaf) (new : list Z),
  f_fix F = true -> map item_val (seq_result F old new) = new.
Proof. exact seq_fix_value. Qed.

Theorem C02_seq_nofix_value :
  forall (F : flags) (old : list leaf) (new : list Z),
  f_fix F = false -> map item_val (seq_result F old new) = map l_val old.
Proof. exact seq_nofix_value. Qed.

Theorem C02_align_no_i_then_d :
  forall (A B : Type) (eqb : A -> B -> bool) (as_ : list A) (bs : list B) (p q : list dir),
  align A B eqb as_ bs <> p ++ Di :: Dd :: q.
Proof. exact align_no_i_then_d. Qed.

Theorem C02_seq_update_ok :
  forall (is_tuple : bool) (c : cont) (d : list bool) (l : list (list tok)),
  wf_input is_tuple c = true ->
  gaps_clean c = true ->
  (forall i : nat, forallb is_new (insf l i) = true) ->
  ins_before_del (length (items c)) d l = false -> ok_result is_tuple c (delf d) (insf l) = true.
Proof. exact seq_update_ok. Qed.

Theorem C02_seq_update_ok_fun :
  forall (t : bool) (c : cont) (del : nat -> bool) (ins : nat -> list tok),
  wf_input t c = true ->
  gaps_clean c = true ->
  (forall i : nat, forallb is_new (ins i) = true) ->
  (forall j : nat, (j < length (items c))%nat -> del j = true -> ins j = []) ->
  ok_result t c del ins = true.
Proof. exact seq_update_ok_fun. Qed.

Theorem C02_seq_update_spec :
  forall (t : bool) (c : cont) (del : nat -> bool) (ins : nat -> list tok),
  wf_input t c = true ->
  gaps_clean c = true ->
  (forall i : nat, forallb is_new (ins i) = true) ->
  (forall j : nat, (j < length (items c))%nat -> del j = true -> ins j = []) ->
  let r := seq_update t c del ins in
  elems_of r = expected_all c del ins /\
  wf_seq (no_triv r) = true /\ (t = true -> length (elems_of r) = 1%nat -> trailing_comma r = true).
Proof. exact seq_update_spec. Qed.

Theorem C02_seq_update_ok_as_stated_refuted :
  forall t : bool,
  exists (c : cont) (d : list bool) (l : list (list tok)),
  wf_input t c = true /\
  (forall i : nat, forallb is_new (insf l i) = true) /\
  ins_before_del (length (items c)) d l = false /\ ok_result t c (delf d) (insf l) = false.
Proof. exact seq_update_ok_as_stated_refuted. Qed.

Theorem C02_one_tuple_comma_refuted :
  exists (c : cont) (d : list bool) (l : list (list tok)),
  wf_input true c = true /\ ok_result true c (delf d) (insf l) = false.
Proof. exact one_tuple_comma_refuted. Qed.

Theorem C02_seq_update_noop :
  forall (is_tuple : bool) (c : cont),
  wf_input is_tuple c = true ->
  (2 <= length (items c))%nat ->
  seq_update is_tuple c (fun _ : nat => false) (fun _ : nat => []) = input_tokens c.
Proof. exact seq_update_noop. Qed.

Theorem C02_seq_update_keeps_untouched_span :
  forall (is_tuple : bool) (c : cont) (del : nat -> bool) (ins : nat -> list tok) 
  (j e : nat) (g : list tok) (e' : nat) (g' : list tok),
  nth_error (items c) j = Some (e, g) ->
  nth_error (items c) (S j) = Some (e', g') ->
  del j = false ->
  del (S j) = false ->
  ins (S j) = [] ->
  exists pre post : list tok, seq_update is_tuple c del ins = pre ++ Old e :: g ++ Old e' :: post.
Proof. exact seq_update_keeps_untouched_span. Qed.

Theorem C02_mm_fix_makes_all_hold :
  forall (fixed : bool) (F : flags) (K : kind) (z : Z) (cn : bool) (x : Z) (r : list Z) (c : counters),
  is_bound K = true ->
  f_fix F = true ->
  let s' := r_site (SnapOps.run fixed F (fresh (Some (SAtom z cn))) (map (kop K) (x :: r)) c) in
  exists w : Z,
  value_after F s' = Some (PAtom w) /\ (forall y : Z, In y (x :: r) -> cmp_of K w y = true).
Proof. exact mm_fix_makes_all_hold. Qed.

Theorem C02_coll_categories :
  forall (fixed : bool) (F : flags) (l : list (Z * bool)) (x : Z) (r : list Z) (c : counters),
  let xs := x :: r in
  let ol := map fst l in
  let s' := r_site (SnapOps.run fixed F (fresh (Some (SList l))) (ops_in xs) c) in
  has_cat Fix (cats s') = existsb (fun y : Z => negb (zmem y ol)) xs /\
  has_cat Trim (cats s') = existsb (fun e : Z * bool => negb (zmem (fst e) xs)) l /\
  (f_fix F = true ->
  f_trim F = true ->
  let kept := filter (fun v : Z => zmem v xs) ol in
  let added := filter (fun v : Z => negb (zmem v ol)) (dedup xs) in
  value_after F s' = Some (PList (kept ++ added)) /\
  (forall y : Z, In y xs -> zmem y (kept ++ added) = true) /\
  (forall m : Z, In m (kept ++ added) -> In m xs)).
Proof. exact coll_categories. Qed.

(* nested list / tuple snapshots of any depth (Model/TreeAssign.v): with fix approved the repaired text evaluates to the observed value,
   whatever the previous content was (other type, longer, shorter, reordered, nested); without fix the value never changes *)
Theorem C02_tree_fix_value :
  forall (F : flags) (o : tree) (n : val),
  managed o = true -> f_fix F = true -> eval_r (assign_tree F o n) = n.
Proof. exact tree_fix_value. Qed.

Theorem C02_tree_nofix_value :
  forall (F : flags) (o : tree) (n : val), f_fix F = false -> eval_r (assign_tree F o n) = eval o.
Proof. exact tree_nofix_value. Qed.

Theorem C02_assign_fix_value :
  forall (f : nat) (F : flags) (o : tree) (n : val),
  depth o < f -> managed o = true -> f_fix F = true -> eval_r (assign f F o n) = n.
Proof. exact assign_fix_value. Qed.

Theorem C02_assign_fuel_irrelevant :
  forall (f1 f2 : nat) (F : flags) (o : tree) (n : val),
  depth o < f1 -> depth o < f2 -> assign f1 F o n = assign f2 F o n.
Proof. exact assign_fuel_irrelevant. Qed.

(* dict displays whose values are nested lists / tuples (Model/DictAssign.v): with fix the (key, value) pairs of the repaired display are exactly
   the pairs of the observed dict, no key twice; without fix the value never changes *)
Theorem C02_dict_fix_value :
  forall (F : flags) (olds : list entry) (news : list (Z * val)) (k : Z) (v : val),
  f_fix F = true -> managed_entries olds -> NoDup (map e_key olds) -> NoDup (map fst news) ->
  In (k, v) (map pair_of (dict_result F olds news)) <-> In (k, v) news.
Proof. exact dict_fix_value. Qed.

Theorem C02_dict_fix_nodup :
  forall (F : flags) (olds : list entry) (news : list (Z * val)),
  f_fix F = true -> NoDup (map e_key olds) -> NoDup (map fst news) -> NoDup (map fst (dict_result F olds news)).
Proof. exact dict_fix_nodup. Qed.

Theorem C02_dict_nofix_value :
  forall (F : flags) (olds : list entry) (news : list (Z * val)),
  f_fix F = false -> map pair_of (dict_result F olds news) = map old_pair olds.
Proof. exact dict_nofix_value. Qed.

(* constructor calls of dataclass-like values (Model/CallAssign.v; arguments are nested lists / tuples): after fix no positional argument is left and
   every keyword argument holds the value of its field in the newly observed object ... *)
Theorem C02_call_fix_values :
  forall (F : flags) (c : call) (fs : list field) (i : citem),
  f_fix F = true -> managed_call c -> wf_call c fs -> In i (call_result F c fs) ->
  match i with
  | CPos _ => False
  | CKw k r => exists f : field, In f fs /\ fd_name f = k /\ eval_r r = fd_val f
  end.
Proof. exact call_fix_values. Qed.

(* ... every field that does not hold its default is given ... *)
Theorem C02_call_fix_complete :
  forall (F : flags) (c : call) (fs : list field) (f : field),
  f_fix F = true -> wf_call c fs -> In f fs -> fd_default f = false -> exists r : rtree, In (CKw (fd_name f) r) (call_result F c fs).
Proof. exact call_fix_complete. Qed.

(* ... and no keyword is given twice: the repaired call evaluates to the observed object *)
Theorem C02_call_fix_nodup :
  forall (F : flags) (c : call) (fs : list field),
  f_fix F = true -> wf_call c fs -> NoDup (kw_names (call_result F c fs)).
Proof. exact call_fix_nodup. Qed.

(* without fix every argument stays positional / keyword and keeps its value (only a keyword holding the default may go, category update) *)
Theorem C02_call_nofix_values :
  forall (F : flags) (c : call) (fs : list field) (i : citem),
  f_fix F = false -> In i (call_result F c fs) ->
  match i with
  | CPos r => exists t : tree, In t (c_pos c) /\ eval_r r = eval t
  | CKw k r => exists t : tree, In (k, t) (c_kws c) /\ eval_r r = eval t
  end.
Proof. exact call_nofix_values. Qed.

Print Assumptions C02_seq_fix_value.
Print Assumptions C02_seq_nofix_value.
Print Assumptions C02_align_no_i_then_d.
Print Assumptions C02_seq_update_ok.
Print Assumptions C02_seq_update_ok_fun.
Print Assumptions C02_seq_update_spec.
Print Assumptions C02_seq_update_ok_as_stated_refuted.
Print Assumptions C02_one_tuple_comma_refuted.
Print Assumptions C02_seq_update_noop.
Print Assumptions C02_seq_update_keeps_untouched_span.
Print Assumptions C02_mm_fix_makes_all_hold.
Print Assumptions C02_coll_categories.
Print Assumptions C02_tree_fix_value.
Print Assumptions C02_tree_nofix_value.
Print Assumptions C02_assign_fix_value.
Print Assumptions C02_assign_fuel_irrelevant.
Print Assumptions C02_dict_fix_value.
Print Assumptions C02_dict_fix_nodup.
Print Assumptions C02_dict_nofix_value.
Print Assumptions C02_call_fix_values.
Print Assumptions C02_call_fix_complete.
Print Assumptions C02_call_fix_nodup.
Print Assumptions C02_call_nofix_values.

(* values in which lists / tuples, dict displays and constructor calls of dataclass-like classes are nested in each other at ANY depth
   (Model/Nest.v; `ct` is the class table: the fields of every class with their defaults): with fix approved, whatever the hand-written
   expression was - other type, longer, shorter, reordered, other keys, other / positional / missing arguments, dict displays that repeat
   a key - and whatever else is approved, the repaired text evaluates to a value that is == the observed one (Python's ==: dicts as
   finite maps).  Premises: the source holds no user-controlled part (those are exempt) and no call repeats a keyword; the observed value is
   well-formed (no dict holds a key twice, an object has exactly the fields of its class). *)
From V Require Model.Nest Proofs.NestProofs Proofs.NestValue Proofs.NestFix Proofs.NestEqual.
Theorem C02_nest_fix_value :
  forall (ct : Nest.ctab) (F : flags) (o : Nest.ntree) (n : Nest.nval),
  NestFix.ct_ok ct -> NestFix.okt o = true -> NestFix.okv ct n = true -> f_fix F = true ->
  Nest.val_eqb (Nest.eval_r ct (Nest.assign_nest ct F o n)) n = true.
Proof. exact NestFix.nest_fix_value_top. Qed.
(* the recursion depth (fuel) of the model never matters beyond the depth of the expression *)
Theorem C02_nest_fuel_irrelevant :
  forall (ct : Nest.ctab) (f1 f2 : nat) (F : flags) (o : Nest.ntree) (n : Nest.nval),
  Nest.depth o < f1 -> Nest.depth o < f2 -> Nest.assign ct f1 F o n = Nest.assign ct f2 F o n.
Proof. exact NestProofs.nest_fuel_irrelevant. Qed.
(* the premises hold for non-trivial inputs: a dict display holding a list with a constructor call and a 1-tuple, and a call; observed with
   other keys, another list and changed fields *)
Theorem C02_nest_fix_premises_hold :
  NestFix.okv NestEqual.ex_ct NestEqual.ex_new2 = true /\
  Nest.val_eqb (Nest.eval NestEqual.ex_ct NestEqual.ex_old) NestEqual.ex_new2 = false /\
  Nest.val_eqb (Nest.eval_r NestEqual.ex_ct (Nest.assign_nest NestEqual.ex_ct {| f_create := false; f_fix := true; f_trim := false; f_update := false |} NestEqual.ex_old NestEqual.ex_new2)) NestEqual.ex_new2 = true.
Proof. exact NestEqual.nest_fix_premises_hold. Qed.
Print Assumptions C02_nest_fix_value.
Print Assumptions C02_nest_fuel_irrelevant.
Print Assumptions C02_nest_fix_premises_hold.

(* `x in snapshot(<value that is no list display>)`: whatever is written, every tested value is a member afterwards (Model/CollReplace.v) *)
From V Require Model.CollReplace Proofs.CollReplaceProofs.
Theorem C02_coll_replace_holds_tested :
  forall (unm trim is_set : bool) (old tested : list Z) (f : bool) (nv : list Z),
  CollReplace.coll_replace unm trim is_set old tested = CollReplace.Repl f nv -> forall v, In v tested -> In v nv.
Proof. exact CollReplaceProofs.new_value_holds_tested. Qed.
Print Assumptions C02_coll_replace_holds_tested.
