(* C17 - what is recorded is the value at comparison time.  Property theorems about Model/Heap.v (mutable list objects as
   heap cells, clone = deep copy + equality check, the recorder machine of observations interleaved with mutations). *)
From Coq Require Import List ZArith NArith Bool Arith.
Import ListNotations.
From V Require Import Model.Heap Proofs.HeapProofs.

(* a deep copy: the heap is only extended, the copy lives in fresh cells that refer to fresh cells only, and copy and
   original read as the same plain value *)
Theorem C17_deepcopy_spec :
  forall (f : nat) (h : heap) (v : hval) (h' : heap) (v' : hval),
  scoped h -> val_below (length h) v = true -> deepcopy f h v = Some (h', v') -> dc_spec f h v h' v'.
Proof. exact deepcopy_spec. Qed.

(* every step of the test (observation, mutation of its own objects, allocation) preserves the invariant and leaves the
   cells owned by the snapshot untouched *)
Theorem C17_rstep_inv :
  forall (fuel : nat) (s : rstate) (e : ev), rinv s -> rinv (rstep fuel s e) /\ keeps s (rstep fuel s e).
Proof. exact rstep_inv. Qed.

(* whatever the test does afterwards - any number of further comparisons, mutations, allocations - every value recorded
   so far keeps reading as the same plain value *)
Theorem C17_recorded_values_stable :
  forall (fuel : nat) (evs : list ev) (s : rstate), rinv s ->
  rinv (rrun fuel evs s) /\
  (forall (i : nat) (r : hval), nth_error (r_recs s) i = Some r ->
     nth_error (r_recs (rrun fuel evs s)) i = Some r /\
     (forall f : nat, read f (r_heap (rrun fuel evs s)) r = read f (r_heap s) r)).
Proof. exact recorded_values_stable. Qed.

(* the headline: what a comparison records reads, at the end of ANY continuation, as the plain value the compared object
   had at the time of the comparison *)
Theorem C17_recorded_value_is_value_at_comparison :
  forall (fuel : nat) (s : rstate) (v : hval) (h' : heap) (v' : hval) (later : list ev),
  rinv s -> visible s v = true -> deepcopy fuel (r_heap s) v = Some (h', v') ->
  exists p : pure, read fuel (r_heap s) v = Some p /\
    (let s' := rrun fuel (EObserve v :: later) s in
     nth_error (r_recs s') (length (r_recs s)) = Some v' /\ read fuel (r_heap s') v' = Some p).
Proof. exact recorded_value_is_value_at_comparison. Qed.

(* the premise is met by every initial heap without dangling references *)
Theorem C17_rinit_inv : forall h : heap, scoped h -> rinv (rinit h).
Proof. exact rinit_inv. Qed.

(* a value whose deep copy is not equal to it is rejected and nothing is recorded; what is recorded is the copy *)
Theorem C17_bad_copy_rejected :
  forall (X : Type) (cp : X -> X) (eqb : X -> X -> bool) (S : Type) (upd : S -> X -> S) (s : S) (v : X),
  eqb (cp v) v = false -> record X cp eqb S upd s v = (s, false).
Proof. exact bad_copy_rejected. Qed.

Theorem C17_recorded_copy_equal :
  forall (X : Type) (cp : X -> X) (eqb : X -> X -> bool) (S : Type) (upd : S -> X -> S) (s : S) (v : X) (s' : S),
  record X cp eqb S upd s v = (s', true) -> exists c : X, c = cp v /\ eqb c v = true /\ s' = upd s c.
Proof. exact recorded_copy_equal. Qed.

Print Assumptions C17_deepcopy_spec.
Print Assumptions C17_rstep_inv.
Print Assumptions C17_recorded_values_stable.
Print Assumptions C17_recorded_value_is_value_at_comparison.
Print Assumptions C17_rinit_inv.
Print Assumptions C17_bad_copy_rejected.
Print Assumptions C17_recorded_copy_equal.
