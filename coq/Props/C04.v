(* C04 - nothing is written without approval; exactly the approved categories apply.
   Property theorems about Model/Flags.v: flag resolution (command line > INLINE_SNAPSHOT_DEFAULT_FLAGS > pyproject defaults for
   terminal / no terminal), usage errors, inactive environments, and the gate at the end of the session. *)
From Coq Require Import List ZArith NArith Bool Arith.
Import ListNotations.
From V Require Import Model.Flags Proofs.FlagsProofs.

Theorem C04_applied_subset_approved :
  forall (e : env) (s : session) (c : cat), applied e s c = true -> approved e s c = true.
Proof. exact applied_subset_approved. Qed.

Theorem C04_no_approval_no_write :
  forall (e : env) (s : session),
  (forall c : cat, approved e s c = false) \/
  resolve e = UsageError \/
  xdist e = true \/
  ci e = true \/
  cpython e = false \/
  (forall (flags : list flag) (a : bool) (u : cats4),
  resolve e = Resolved flags a u -> mem FShortReport flags = true) \/
  (forall (flags : list flag) (a : bool) (u : cats4),
  resolve e = Resolved flags a u -> mem FDisable flags = true) -> forall c : cat, applied e s c = false.
Proof. exact no_approval_no_write. Qed.

Theorem C04_no_write_short_report :
  forall (e : env) (s : session),
  (forall (flags : list flag) (a : bool) (u : cats4),
  resolve e = Resolved flags a u -> mem FShortReport flags = true) ->
  forall c : cat, applied e s c = false.
Proof. exact no_write_short_report. Qed.

Theorem C04_no_write_xdist :
  forall (e : env) (s : session), xdist e = true -> forall c : cat, applied e s c = false.
Proof. exact no_write_xdist. Qed.

Theorem C04_no_write_ci :
  forall (e : env) (s : session), ci e = true -> forall c : cat, applied e s c = false.
Proof. exact no_write_ci. Qed.

Theorem C04_no_write_disable :
  forall (e : env) (s : session),
  (forall (flags : list flag) (a : bool) (u : cats4),
  resolve e = Resolved flags a u -> mem FDisable flags = true) -> forall c : cat, applied e s c = false.
Proof. exact no_write_disable. Qed.

Theorem C04_applied_exact :
  forall (e : env) (s : session) (c : cat) (flags : list flag) (u : cats4),
  resolve e = Resolved flags true u ->
  mem FShortReport flags = false ->
  applied e s c =
  pending s c && diff_nonempty s c && approved e s c &&
  negb match c with
  | Update => skip_updates s && negb (mem FUpdate flags)
  | _ => false
  end.
Proof. exact applied_exact. Qed.

Theorem C04_applied_exact_flags :
  forall (e : env) (s : session) (c : cat) (flags : list flag) (u : cats4),
  resolve e = Resolved flags true u ->
  mem FShortReport flags = false ->
  mem FReview flags = false ->
  applied e s c = pending s c && diff_nonempty s c && mem (cat_flag c) flags.
Proof. exact applied_exact_flags. Qed.

Theorem C04_resolve_precedence :
  forall e1 e2 : env,
  xdist e1 = xdist e2 ->
  ci e1 = ci e2 ->
  cpython e1 = cpython e2 ->
  (forall l : list flag, cli e1 = Some l -> cli e2 = Some l -> resolve e1 = resolve e2) /\
  (forall l : list flag,
  cli e1 = None ->
  cli e2 = None -> env_var e1 = Some l -> env_var e2 = Some l -> resolve e1 = resolve e2) /\
  (cli e1 = None ->
  cli e2 = None ->
  env_var e1 = None ->
  env_var e2 = None ->
  (if tty e1 then cfg_default_tui e1 else cfg_default e1) =
  (if tty e2 then cfg_default_tui e2 else cfg_default e2) -> resolve e1 = resolve e2).
Proof. exact resolve_precedence. Qed.

Theorem C04_resolve_errors :
  forall e : env,
  resolve e = UsageError <->
  match cli e with
  | Some l => xdist e && nonempty_without_disable l
  | None => false
  end || negb (forallb is_known (effective e))
  || mem FDisable (effective e) && nonempty_without_disable (effective e) = true.
Proof. exact resolve_errors. Qed.

Theorem C04_resolve_inactive :
  forall e : env,
  xdist e = true \/ ci e = true \/ cpython e = false ->
  resolve e = UsageError \/ (exists flags : list flag, resolve e = Resolved flags false none4).
Proof. exact resolve_inactive. Qed.

Theorem C04_resolve_review_all :
  forall (e : env) (flags : list flag) (a : bool) (u : cats4),
  xdist e = false ->
  ci e = false ->
  cpython e = true -> resolve e = Resolved flags a u -> mem FReview flags = true -> a = true /\ u = all4.
Proof. exact resolve_review_all. Qed.

Theorem C04_removes_only_with_trim :
  forall e : env,
  removes_unused_externals_gen true e = true ->
  exists (flags : list flag) (a : bool) (u : cats4),
  resolve e = Resolved flags a u /\ mem FTrim flags = true.
Proof. exact removes_only_with_trim. Qed.

Theorem C04_removes_pinned_refuted :
  exists e : env,
  removes_unused_externals_gen false e = true /\
  (forall (flags : list flag) (a : bool) (u : cats4),
  resolve e = Resolved flags a u -> mem FTrim flags = false).
Proof. exact removes_pinned_refuted. Qed.

Theorem C04_applied_monotone_in_answers :
  forall (e : env) (s s' : session) (c : cat),
  (forall c0 : cat, answer s c0 = true -> answer s' c0 = true) ->
  (forall c0 : cat, pending s' c0 = pending s c0) ->
  (forall c0 : cat, diff_nonempty s' c0 = diff_nonempty s c0) ->
  skip_updates s' = skip_updates s -> applied e s c = true -> applied e s' c = true.
Proof. exact applied_monotone_in_answers. Qed.

Print Assumptions C04_applied_subset_approved.
Print Assumptions C04_no_approval_no_write.
Print Assumptions C04_no_write_short_report.
Print Assumptions C04_no_write_xdist.
Print Assumptions C04_no_write_ci.
Print Assumptions C04_no_write_disable.
Print Assumptions C04_applied_exact.
Print Assumptions C04_applied_exact_flags.
Print Assumptions C04_resolve_precedence.
Print Assumptions C04_resolve_errors.
Print Assumptions C04_resolve_inactive.
Print Assumptions C04_resolve_review_all.
Print Assumptions C04_removes_only_with_trim.
Print Assumptions C04_removes_pinned_refuted.
Print Assumptions C04_applied_monotone_in_answers.

(* the approval loop of pytest_sessionfinish over ANY number of test files (Model/Session.v): a pending change is written iff its category is shown
   (review, report or the category itself among the flags), approved (flag / review answer), and the preview of that category shows a diff for SOME file of the
   session - whichever file that is, and whatever the other categories did *)
From V Require Model.Session Proofs.SessionProofs.
Theorem C04_session_applied_iff :
  forall (cf : Session.sconf) (pending : list Session.change) (ch : Session.change),
  In ch (fst (Session.session cf pending)) <-> In ch pending /\ SessionProofs.passes cf pending (Session.ch_cat ch) = true.
Proof. exact SessionProofs.session_applied_iff. Qed.
(* nothing is written without approval ... *)
Theorem C04_session_applied_approved :
  forall (cf : Session.sconf) (pending : list Session.change) (ch : Session.change),
  In ch (fst (Session.session cf pending)) -> Session.approve cf (Session.ch_cat ch) = true.
Proof. exact SessionProofs.session_applied_approved. Qed.
(* ... and an approved category is applied to every file: a visible change of a shown, approved category in one file takes every pending change of that
   category in every other file with it *)
Theorem C04_session_category_all_files :
  forall (cf : Session.sconf) (pending : list Session.change) (ch ch' : Session.change),
  In ch pending -> In ch' pending -> Session.ch_cat ch' = Session.ch_cat ch -> Session.ch_visible ch = true ->
  Session.shown cf (Session.ch_cat ch) = true -> Session.approve cf (Session.ch_cat ch) = true ->
  In ch' (fst (Session.session cf pending)).
Proof. exact SessionProofs.session_category_all_files. Qed.
(* the outcome does not depend on the order in which files, tests and snapshots registered their changes *)
Theorem C04_session_order_irrelevant :
  forall (cf : Session.sconf) (p1 p2 : list Session.change) (ch : Session.change),
  (forall x : Session.change, In x p1 <-> In x p2) ->
  (In ch (fst (Session.session cf p1)) <-> In ch (fst (Session.session cf p2))).
Proof. exact SessionProofs.session_order_irrelevant. Qed.
Print Assumptions C04_session_applied_iff.
Print Assumptions C04_session_applied_approved.
Print Assumptions C04_session_category_all_files.
Print Assumptions C04_session_order_irrelevant.

(* changes INSIDE a node that another change removes (an inner snapshot in an element / entry the outer snapshot deletes or replaces; Model/SessionNest.v):
   nothing is written without approval; pending changes of categories that are not approved have no influence whatever on what is written - so a change whose
   surroundings only a rejected category would remove is written like any other one, and it is dropped exactly when a change that IS applied removes its
   surroundings; without nesting the model is the one of Model/Session.v *)
From V Require Model.SessionNest Proofs.SessionNestProofs.
Theorem C04_nest_written_approved :
  forall (cf : Session.sconf) (pending : list SessionNest.nchange) (ch : SessionNest.nchange),
  In ch (SessionNest.writtenN cf pending) ->
  In ch pending /\ Session.shown cf (SessionNest.n_cat ch) = true /\ Session.approve cf (SessionNest.n_cat ch) = true.
Proof. exact SessionNestProofs.nest_written_approved. Qed.
Theorem C04_nest_rejected_irrelevant :
  forall (cf : Session.sconf) (pending : list SessionNest.nchange),
  SessionNest.writtenN cf pending = SessionNest.writtenN cf (filter (fun ch => Session.approve cf (SessionNest.n_cat ch)) pending).
Proof. exact SessionNestProofs.nest_rejected_irrelevant. Qed.
Theorem C04_nest_survives_rejected_parent :
  forall (cf : Session.sconf) (pending : list SessionNest.nchange) (ch : SessionNest.nchange),
  In ch (fst (SessionNest.sessionN cf pending)) ->
  (forall (id : nat) (r : SessionNest.nchange), In id (SessionNest.n_encl ch) -> In r pending -> SessionNest.n_id r = id ->
     Session.approve cf (SessionNest.n_cat r) = false) ->
  In ch (SessionNest.writtenN cf pending).
Proof. exact SessionNestProofs.nest_survives_rejected_parent. Qed.
Theorem C04_nest_dropped_with_used_parent :
  forall (cf : Session.sconf) (pending : list SessionNest.nchange) (ch r : SessionNest.nchange),
  In r (fst (SessionNest.sessionN cf pending)) -> SessionNest.n_removes r = true -> In (SessionNest.n_id r) (SessionNest.n_encl ch) ->
  ~ In ch (SessionNest.writtenN cf pending).
Proof. exact SessionNestProofs.nest_dropped_with_used_parent. Qed.
Theorem C04_sessionN_flat :
  forall (cf : Session.sconf) (pending : list SessionNest.nchange), SessionNestProofs.unnested pending ->
  map SessionNestProofs.flat (SessionNest.writtenN cf pending) = fst (Session.session cf (map SessionNestProofs.flat pending)) /\
  snd (SessionNest.sessionN cf pending) = snd (Session.session cf (map SessionNestProofs.flat pending)).
Proof. exact SessionNestProofs.sessionN_flat. Qed.
Theorem C04_nest_example :
  map SessionNest.n_id (SessionNest.writtenN (SessionNestProofs.cf_of Session.all_cats [SnapOps.Update]) SessionNestProofs.ex_pending) = [1; 2]%nat /\
  map SessionNest.n_id (SessionNest.writtenN (SessionNestProofs.cf_of Session.all_cats [SnapOps.Fix; SnapOps.Update]) SessionNestProofs.ex_pending) = [0; 2]%nat /\
  map SessionNest.n_id (SessionNest.writtenN (SessionNestProofs.cf_of [SnapOps.Update] [SnapOps.Update]) SessionNestProofs.ex_pending) = [1; 2]%nat /\
  snd (SessionNest.sessionN (SessionNestProofs.cf_of Session.all_cats [SnapOps.Update]) SessionNestProofs.ex_pending) = [SnapOps.Fix; SnapOps.Update].
Proof. exact SessionNestProofs.nest_example. Qed.
Print Assumptions C04_nest_written_approved.
Print Assumptions C04_nest_rejected_irrelevant.
Print Assumptions C04_nest_survives_rejected_parent.
Print Assumptions C04_nest_dropped_with_used_parent.
Print Assumptions C04_sessionN_flat.
Print Assumptions C04_nest_example.

(* tests marked xfail are never rewritten: inline-snapshot decides "xfail" exactly as pytest does (Model/Xfail.v) *)
From V Require Model.Xfail Proofs.XfailProofs.
Theorem C04_is_xfail_agrees :
  forall marks : list Xfail.mark, Xfail.is_xfail marks = Xfail.pytest_xfail marks.
Proof. exact XfailProofs.is_xfail_agrees. Qed.
Print Assumptions C04_is_xfail_agrees.

(* review mode and `in` snapshots whose previous value is no list display (Model/CollReplace.v): every change is computed with all update flags switched on, so the change of
   category fix holds exactly the tested values - approving fix alone drops a member that was never tested.  The statement "with approved set F the outcome equals applying
   exactly the pending changes whose category is in F" is refuted for this input (known finding F-89) *)
From V Require Model.CollReplace Proofs.CollReplaceProofs.
Theorem C04_review_fix_alone_drops_untested_refuted :
  exists (old tested nv : list Z) (o : Z),
    CollReplace.coll_replace false true false old tested = CollReplace.Repl true nv /\ In o old /\ ~ In o nv.
Proof. exact CollReplaceProofs.review_fix_alone_drops_untested. Qed.
Print Assumptions C04_review_fix_alone_drops_untested_refuted.
