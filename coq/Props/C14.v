(* C14 - each snapshot() call site has its own state; repeated evaluation aggregates.
   Property theorems about Model/Sites.v (table of call sites keyed by an injective site key) and Model/SnapOps.v. *)
From Coq Require Import List ZArith NArith Bool Arith.
Import ListNotations.
From V Require Import Model.SnapOps Model.Sites Proofs.SnapOpsFlat Proofs.SnapOpsNested Proofs.SitesProofs.

Theorem C14_sites_noninterference :
  forall (fixed : bool) (F : flags) (olds : Z -> option src) (tr : list (Z * op)) 
  (k : Z) (c c' : counters),
  let
  '(t, rs, _) := trun fixed F olds [] tr c in
  get_site olds t k = r_site (run fixed F (fresh (olds k)) (proj k tr) c') /\
  proj_results k tr rs = r_results (run fixed F (fresh (olds k)) (proj k tr) c').
Proof. exact sites_noninterference. Qed.

Theorem C14_sites_noninterference_gen :
  forall (fixed : bool) (F : flags) (olds : Z -> option src) (tr : list (Z * op)) 
  (t0 : table) (k : Z) (c c' : counters),
  get_site olds (t_table (trun fixed F olds t0 tr c)) k =
  r_site (run fixed F (get_site olds t0 k) (proj k tr) c') /\
  proj_results k tr (t_results (trun fixed F olds t0 tr c)) =
  r_results (run fixed F (get_site olds t0 k) (proj k tr) c').
Proof. exact sites_noninterference_gen. Qed.

Theorem C14_sites_counters_additive_keys :
  forall (fixed : bool) (F : flags) (olds : Z -> option src) (tr : list (Z * op)),
  t_counters (trun fixed F olds [] tr zero) =
  csum
  (map (fun k : Z => r_counters (run fixed F (fresh (olds k)) (proj k tr) zero)) (dedup (map fst tr))).
Proof. exact sites_counters_additive_keys. Qed.

Theorem C14_mm_new_is_extreme :
  forall (fixed : bool) (F : flags) (old : option src) (x : Z) (r : list Z) (c : counters),
  atomish old = true ->
  r_site (run fixed F (fresh old) (ops_min (x :: r)) c) = Site KMin old (Some (list_min x r)) [] [] /\
  r_site (run fixed F (fresh old) (ops_max (x :: r)) c) = Site KMax old (Some (list_max x r)) [] [].
Proof. exact mm_new_is_extreme. Qed.

Theorem C14_coll_new_is_dedup :
  forall (fixed : bool) (F : flags) (old : option src) (xs : list Z) (c : counters),
  collish old = true ->
  s_coll (r_site (run fixed F (fresh old) (ops_in xs) c)) = dedup xs /\
  (xs <> [] -> r_site (run fixed F (fresh old) (ops_in xs) c) = Site KColl old None (dedup xs) []).
Proof. exact coll_new_is_dedup. Qed.

Theorem C14_dict_keys_first_seen_gen :
  forall (fixed : bool) (F : flags) (old : option src) (ops : list op) (c : counters),
  dictish old = true ->
  forallb is_get ops = true ->
  map fst (s_children (r_site (run fixed F (fresh old) ops c))) = dedup (map get_key ops).
Proof. exact dict_keys_first_seen_gen. Qed.

Theorem C14_key_collision_refuted :
  exists (fixed : bool) (F : flags) (oldA oldB : src) (opA opB : op),
  r_results (run fixed F (fresh (Some oldB)) [opB] zero) = [RBool true] /\
  t_results (trun fixed F (fun _ : Z => Some oldA) [] [(0, opA); (0, opB)] zero) =
  [RBool true; RBool false] /\
  t_results
  (trun fixed F (fun k : Z => if k =? 0 then Some oldA else Some oldB) [] [(0, opA); (1, opB)] zero) =
  [RBool true; RBool true].
Proof. exact key_collision_refuted. Qed.

Theorem C14_reeval_changed_value_raises :
  forall (t : list (Z * site)) (k : Z) (first : option src) (o : src) (kd : kind) 
  (nv : option Z) (coll : list Z) (ch : list (Z * site)) (v : pv),
  assoc k t = Some (Site kd (Some o) nv coll ch) ->
  pv_eqb (src_val o) v = false -> eval_site t k first (Some v) = UsageError.
Proof. exact reeval_changed_value_raises. Qed.

Theorem C14_reeval_same_value_ok :
  forall (t : list (Z * site)) (k : Z) (first : option src) (o : src) (kd : kind) 
  (nv : option Z) (coll : list Z) (ch : list (Z * site)) (v : pv),
  assoc k t = Some (Site kd (Some o) nv coll ch) ->
  pv_eqb (src_val o) v = true -> eval_site t k first (Some v) = EvalOk t.
Proof. exact reeval_same_value_ok. Qed.

Theorem C14_eval_first_inserts :
  forall (t : list (Z * site)) (k : Z) (first : option src) (now : option pv),
  assoc k t = None -> eval_site t k first now = EvalOk (assoc_set k (fresh first) t).
Proof. exact eval_first_inserts. Qed.

Print Assumptions C14_sites_noninterference.
Print Assumptions C14_sites_noninterference_gen.
Print Assumptions C14_sites_counters_additive_keys.
Print Assumptions C14_mm_new_is_extreme.
Print Assumptions C14_coll_new_is_dedup.
Print Assumptions C14_dict_keys_first_seen_gen.
Print Assumptions C14_key_collision_refuted.
Print Assumptions C14_reeval_changed_value_raises.
Print Assumptions C14_reeval_same_value_ok.
Print Assumptions C14_eval_first_inserts.

(* nested arguments with user-controlled parts and dict keys (Model/ReEval.v mirrors GenericValue._re_eval) *)
From V Require Model.ReEval Proofs.ReEvalProofs.
(* an argument without user-controlled parts is accepted exactly when it evaluates to the same value again - and then nothing changes *)
Theorem C14_reeval_nested_no_unm_iff :
  forall (s : ReEval.st) (v : ReEval.vt) (s' : ReEval.st),
  ReEval.has_unm s = false -> (ReEval.re_eval s v = Some s' <-> (ReEval.plain s = v /\ s' = s)).
Proof. exact ReEvalProofs.re_eval_no_unm_iff. Qed.
Print Assumptions C14_reeval_nested_no_unm_iff.

Theorem C14_reeval_nested_changed_raises :
  forall (s : ReEval.st) (v : ReEval.vt), ReEval.has_unm s = false -> ReEval.plain s <> v -> ReEval.re_eval s v = None.
Proof. exact ReEvalProofs.re_eval_changed_raises. Qed.
Print Assumptions C14_reeval_nested_changed_raises.

(* in general: accepted exactly when the new value agrees with the stored one on every managed part (keys of dicts included) *)
Theorem C14_reeval_nested_accepts_iff :
  forall (s : ReEval.st) (v : ReEval.vt),
  (exists s', ReEval.re_eval s v = Some s') <-> (exists s', ReEval.skeleton s' = ReEval.skeleton s /\ ReEval.plain s' = v).
Proof. exact ReEvalProofs.re_eval_accepts_iff. Qed.
Print Assumptions C14_reeval_nested_accepts_iff.

(* after an accepted re-evaluation the stored value reads as the new value (nothing stale is kept), and only contents of user-controlled parts changed *)
Theorem C14_reeval_nested_refreshes :
  forall (s : ReEval.st) (v : ReEval.vt) (s' : ReEval.st), ReEval.re_eval s v = Some s' -> ReEval.plain s' = v /\ ReEval.skeleton s' = ReEval.skeleton s.
Proof. intros s v s' H. split; [exact (ReEvalProofs.re_eval_plain s v s' H) | exact (ReEvalProofs.re_eval_skeleton s v s' H)]. Qed.
Print Assumptions C14_reeval_nested_refreshes.

Theorem C14_reeval_nested_example :
  let s := ReEval.SNode 1 [10; 20]%Z [ReEval.SLeaf 1%Z; ReEval.SNode 0 [] [ReEval.SUnm (ReEval.VLeaf 5%Z); ReEval.SLeaf 2%Z]] in
  ReEval.re_eval s (ReEval.VNode 1 [10; 20]%Z [ReEval.VLeaf 1%Z; ReEval.VNode 0 [] [ReEval.VLeaf 7%Z; ReEval.VLeaf 2%Z]])
  = Some (ReEval.SNode 1 [10; 20]%Z [ReEval.SLeaf 1%Z; ReEval.SNode 0 [] [ReEval.SUnm (ReEval.VLeaf 7%Z); ReEval.SLeaf 2%Z]])
  /\ ReEval.re_eval s (ReEval.VNode 1 [10; 21]%Z [ReEval.VLeaf 1%Z; ReEval.VNode 0 [] [ReEval.VLeaf 7%Z; ReEval.VLeaf 2%Z]]) = None
  /\ ReEval.re_eval s (ReEval.VNode 1 [10; 20]%Z [ReEval.VLeaf 1%Z; ReEval.VNode 0 [] [ReEval.VLeaf 7%Z; ReEval.VLeaf 3%Z]]) = None
  /\ ReEval.re_eval s (ReEval.VNode 1 [10; 20]%Z [ReEval.VLeaf 1%Z; ReEval.VNode 0 [] [ReEval.VLeaf 7%Z]]) = None.
Proof. exact ReEvalProofs.re_eval_example. Qed.
Print Assumptions C14_reeval_nested_example.
