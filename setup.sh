#!/bin/bash
# MANIFEST.setup_cmd: full .vo build of the Coq development (offline, files on disk only).
set -e
cd "$(dirname "$0")/coq"
coq_makefile -f _CoqProject -o Makefile >/dev/null
timeout 3000 make -j16 2>&1 | grep -v "^Closed under the global context" | tail -40
test "${PIPESTATUS[0]}" = 0
