import json
props = [json.loads(l) for l in open('/verif/properties.jsonl')]
claimed = json.load(open('/verif/harness/claimed.json'))
checks = []
na = []
for p in props:
    pid = p['id']
    if pid in claimed:
        c = claimed[pid]
        checks.append({
            "property_id": pid,
            "quick_cmd": f"./check {pid} --tier quick",
            "thorough_cmd": f"./check {pid} --tier thorough",
            "evidence_file": f"/verif/evidence/{pid}.json",
            "replay_cmd_template": f"./check {pid} --replay {{path}}",
            "engine": "coq-model+correspondence",
            "level_claimed": {"category": "proof", "text": c["text"], "design_ref": c.get("design_ref", "DESIGN.md section 5")},
            "level_note": c["note"],
            "technique": c["technique"],
        })
    else:
        na.append({"property_id": pid, "reason": "no check registered yet in this revision of /verif (under construction; see DESIGN.md section 5 for the plan)"})
m = {
    "version": 1,
    "setup_cmd": "./setup.sh",
    "hooks": {
        "guard": "INLINE_SNAPSHOT_VERIF",
        "enable": "no hooks are needed: all instrumentation is external (in-process drivers and pytest plugins loaded with -p from /verif/harness/plugins); the guard variable is unused",
        "baseline_off_cmd": "cd /repo && /venv/bin/python -m pytest -ra -q -p no:cacheprovider --timeout=900 --continue-on-collection-errors",
        "source_commits": [],
        "add_only": True,
    },
    "engines": [{"name": "coq-model+correspondence", "path": "/verif/check", "serves_properties": sorted(claimed),
                 "kind_free_text": "Coq 8.16.1 theorems about hand-written executable Gallina models (coq/Model, coq/Proofs, coq/Props); models tied to /repo on every run by differential execution (cases evaluated with vm_compute inside Coq vs the implementation imported from /repo/src); independent property oracles on the real code search for failing inputs"}],
    "checks": checks,
    "not_applicable": na,
    "notes": "All checks: ./check <id> [--tier quick|thorough] [--replay path]; VERIF_SEED and VERIF_TIER honoured. known_findings.json lists recorded and fixed defects.",
}
json.dump(m, open('/verif/MANIFEST.json', 'w'), indent=1)
print(len(checks), "checks", len(na), "not yet claimed")
