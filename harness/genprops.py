#!/usr/bin/env python3
"""Development helper (not used by the checks): print the statement of each named lemma with `Check`
and emit a Props/<id>.v skeleton `Theorem <id>_<name> : <statement>. Proof. exact <name>. Qed.`
The emitted file is then reviewed and committed; the checks only compile it."""
import re, subprocess, sys, tempfile, os
pid, imports, names = sys.argv[1], sys.argv[2], sys.argv[3:]
src = f"From Coq Require Import List ZArith NArith Bool Arith.\nImport ListNotations.\nFrom V Require Import {imports}.\nSet Printing Width 110.\nSet Printing Depth 1000.\n"
for n in names:
    src += f'Check {n}.\n'
with tempfile.NamedTemporaryFile('w', suffix='.v', delete=False, dir='/var/tmp') as f:
    f.write(src); fn = f.name
out = subprocess.run(['coqc', '-Q', '/verif/coq', 'V', fn], capture_output=True, text=True)
os.unlink(fn)
if out.returncode: sys.exit(out.stdout + out.stderr)
blocks = re.split(r'\n(?=\S)', out.stdout.strip())
res = []
for n, b in zip(names, blocks):
    assert b.startswith(n), (n, b[:50])
    ty = b[len(n):].strip()
    assert ty.startswith(':')
    res.append((n, ty[1:].strip()))
print(f"From Coq Require Import List ZArith NArith Bool Arith.\nImport ListNotations.\nFrom V Require Import {imports}.\n")
for n, ty in res:
    ty = "\n".join("  " + l.strip() if i else l for i, l in enumerate(ty.split("\n")))
    print(f"Theorem {pid}_{n} :\n  {ty}.\nProof. exact {n}. Qed.\n")
for n, _ in res:
    print(f"Print Assumptions {pid}_{n}.")
