"""pytest plugin (loaded with `-p vfault` into real subprocess sessions by the C15 check; it lives in /verif, nothing in
/repo knows about it): records the side-effecting calls of inline-snapshot's end-of-session processing and injects one
fault at a chosen call boundary.

environment:
  VFAULT_TRACE = path   : append one JSON line per recorded call (phase, step name, file / external name)
  VFAULT_PHASE = write | preview | all : the phase whose calls are counted for VFAULT_AT (default write)
  VFAULT_AT    = n      : inject at the n-th counted call (0-based); absent = no fault
  VFAULT_KIND  = crash  : os._exit(77) BEFORE performing the call (interruption point)
               | fail   : the call fails the way the real component fails: black raises / format-command exits non-zero,
                          open / rename / read raise OSError, write raises OSError after the file was opened for writing
               | failall : like fail, and every LATER write() fails as well (a persistent condition such as a full disk or an exceeded
                          quota: whatever the code tries as a fallback meets the same failure)
               | garble : (format-command only) THIS call of the formatter exits with status 0 but prints something else than the
                          formatted code: VFAULT_GARBLE = syntax (unparsable text) | empty (nothing) | other (valid Python,
                          another program); at a boundary that is no formatter call nothing happens
  VFAULT_SIGNAL = 1     : a failing format-command dies by SIGKILL (negative return code) instead of exiting with status 3
  VFAULT_FMT   = ok | garbage | empty | other | fail : what the formatter does on EVERY call (deterministic formatter behaviour):
                          garbage / empty / other = exit status 0 / no exception but unparsable output / no output / another
                          program; fail = always raises / non-zero (its error output holds rich markup like `[/]`)
phases: "preview" = the report loop of pytest_sessionfinish (diff panels), "write" = everything after report_problems()
"""
import json
import os
import sys

import pytest

_S = {"phase": None, "count": 0, "fired": False}
TRACE = os.environ.get("VFAULT_TRACE")
AT = os.environ.get("VFAULT_AT")
AT = int(AT) if AT not in (None, "") else None
KIND = os.environ.get("VFAULT_KIND", "crash")
PHASE = os.environ.get("VFAULT_PHASE", "write")
FMT = os.environ.get("VFAULT_FMT", "ok")


def _log(step, what):
    if TRACE and _S["phase"] is not None:
        with open(TRACE, "a") as f:
            f.write(json.dumps({"phase": _S["phase"], "step": step, "what": what}) + "\n")


def boundary(step, what):
    """returns True when the fault 'fail' has to happen at this call; exits the process for 'crash'"""
    if _S["phase"] is None:
        return False
    counted = PHASE == "all" or PHASE == _S["phase"]
    idx = _S["count"] if counted else None
    if KIND == "failall" and _S["fired"] and step == "write":
        if counted:
            _S["count"] += 1
        _log(step + "!again", what)
        return True
    if counted:
        _S["count"] += 1
    if AT is not None and idx == AT and not _S["fired"]:
        _S["fired"] = True
        _log(step + "!" + KIND, what)
        if KIND == "crash":
            sys.stdout.flush()
            sys.stderr.flush()
            os._exit(77)
        if KIND == "garble":
            _S["garble"] = step == "format"
            return False
        return True
    _log(step, what)
    return False


def _short(p):
    return os.path.basename(str(p))


@pytest.hookimpl(hookwrapper=True, tryfirst=True)
def pytest_sessionfinish(session, exitstatus):
    install()
    _S["phase"] = "preview"
    outcome = yield
    if outcome.excinfo is not None:      # an exception left a pytest_sessionfinish implementation
        _log("raised", outcome.excinfo[0].__name__)


@pytest.hookimpl(trylast=True)
def pytest_unconfigure(config):
    _S["phase"] = None


_installed = False


def install():
    global _installed
    if _installed:
        return
    _installed = True
    import builtins

    import inline_snapshot._external as _external
    import inline_snapshot._format as _format
    import inline_snapshot._rewrite_code as _rc
    import inline_snapshot.pytest_plugin as _pp

    # ---- phase switch: everything after report_problems() is the write phase
    orig_report = _pp.report_problems

    def report_problems(console):
        import inline_snapshot._problems as _problems
        if _S["phase"] == "write":       # a report at the end of the write phase: how many problems it shows
            _log("report", len(_problems.all_problems))
        r = orig_report(console)
        _S["phase"] = "write"
        return r
    _pp.report_problems = report_problems

    # ---- the formatter: black.format_str / the format-command subprocess
    try:
        import black
    except ImportError:
        black = None
    if black is not None:
        orig_format_str = black.format_str

        def format_str(text, *a, **k):
            if boundary("format", None) or FMT == "fail":
                raise RuntimeError("injected black failure")
            if FMT == "garbage":
                return "def (((:\n"
            return orig_format_str(text, *a, **k)
        black.format_str = format_str

    class _SP:
        def __getattr__(self, name):
            return getattr(_format_sp, name)

        def run(self, cmd, **kw):
            fail = boundary("format", None) or FMT == "fail"
            if fail:
                if os.environ.get("VFAULT_SIGNAL"):
                    # the formatter process is killed by a signal (subprocess reports a negative return code)
                    return _format_sp.run(f"exec {sys.executable} -c 'import os, signal; os.kill(os.getpid(), signal.SIGKILL)'", **kw)
                return _format_sp.run(f"{sys.executable} -c 'import sys; sys.stderr.write(\"injected [/] error [bold\"); sys.exit(3)'", **kw)
            mode = FMT
            if _S.pop("garble", False):
                mode = {"syntax": "garbage"}.get(os.environ.get("VFAULT_GARBLE", "syntax"), os.environ.get("VFAULT_GARBLE"))
            if mode == "garbage":
                return _format_sp.run(f"{sys.executable} -c 'print(\"def (((:\")'", **kw)
            if mode == "empty":
                return _format_sp.run(f"{sys.executable} -c 'pass'", **kw)
            if mode == "other":
                return _format_sp.run(f"{sys.executable} -c 'print(\"pass\")'", **kw)
            return _format_sp.run(cmd, **kw)
    _format_sp = _format.sp
    _format.sp = _SP()

    # ---- ast.parse of the new code in pytest_plugin
    class _AST:
        def __getattr__(self, name):
            return getattr(_real_ast, name)

        def parse(self, *a, **k):
            if boundary("parse", None):
                raise OSError("injected fault in ast.parse")
            return _real_ast.parse(*a, **k)
    _real_ast = _pp.ast
    _pp.ast = _AST()

    # ---- ensure_import
    orig_ensure = _pp.ensure_import

    def ensure_import(filename, imports, recorder):
        if boundary("import", _short(filename)):
            raise OSError("injected fault in ensure_import")
        return orig_ensure(filename, imports, recorder)
    _pp.ensure_import = ensure_import

    # ---- DiscStorage.persist / remove
    orig_persist = _external.DiscStorage.persist

    def persist(self, name):
        if boundary("persist", str(name)[:12]):
            raise OSError("injected fault in rename")
        return orig_persist(self, name)
    _external.DiscStorage.persist = persist
    orig_remove = _external.DiscStorage.remove

    def remove(self, name):
        if boundary("remove", str(name)[:12]):
            raise OSError("injected fault in unlink")
        return orig_remove(self, name)
    _external.DiscStorage.remove = remove

    # ---- open() as seen by _rewrite_code (reading the file in new_code, writing it in rewrite)
    class _W:
        def __init__(self, fh, name):
            self._fh, self._name = fh, name

        def __enter__(self):
            return self

        def __exit__(self, *a):
            self._fh.close()
            return False

        def write(self, data):
            if boundary("write", self._name):
                self._fh.flush()
                raise OSError("injected fault in write")
            return self._fh.write(data)

    TMP = ".inline-snapshot.tmp"

    def _base(path):
        n = _short(path)
        return n[:-len(TMP)] if n.endswith(TMP) else n

    def _open(file, mode="r", *a, **k):
        if "w" in mode:
            if boundary("open_w", _base(file)):
                raise OSError("injected fault in open for writing")
            return _W(builtins.open(file, mode, *a, **k), _base(file))
        if boundary("read", _short(file)):
            raise OSError("injected fault in open for reading")
        return builtins.open(file, mode, *a, **k)
    _rc.open = _open

    # ---- shutil.copymode / os.replace as seen by _rewrite_code (the temporary file replaces the test file)
    class _Proxy:
        def __init__(self, real, **over):
            self._real, self._over = real, over

        def __getattr__(self, name):
            if name in self._over:
                return self._over[name]
            return getattr(self._real, name)

    def _copymode(src, dst, *a, **k):
        if boundary("mode", _base(dst)):
            raise OSError("injected fault in copymode")
        return _real_shutil.copymode(src, dst, *a, **k)

    def _replace(src, dst, *a, **k):
        if boundary("replace", _base(dst)):
            raise OSError("injected fault in os.replace")
        return _real_os.replace(src, dst, *a, **k)
    if hasattr(_rc, "shutil") and hasattr(_rc, "os"):
        _real_shutil, _real_os = _rc.shutil, _rc.os
        _rc.shutil = _Proxy(_real_shutil, copymode=_copymode)
        _rc.os = _Proxy(_real_os, replace=_replace)
