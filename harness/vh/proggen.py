"""Generator of test programs (modules with several snapshot() call sites) for the end-to-end oracles.

A program is a dict  {"source": str, "sites": [site...], "rich": bool, "style": "assert"|"check"}.
A site is   {"kind": eq|le|ge|in|getitem, "old": value tree | None, "old_src": str, "obs": [...], "placement": ...}
The observation script of a site never depends on the approved flags when style == "check"
(comparisons are recorded, not asserted), which is what C09 needs.
"""
from __future__ import annotations

from . import valgen

CHECK_HELPERS = """R = []
def check(b):
    R.append(bool(b))
    return True

def helper_eq(value, snap):
    assert check(value == snap)

"""

PICKY = """class Picky:
    def __init__(self, n):
        self.n = n
    def __eq__(self, other):
        if not isinstance(other, Picky):
            raise ValueError("cannot compare")
        return self.n == other.n
    def __repr__(self):
        return f"Picky({self.n})"

"""

ASSERT_HELPERS = """def check(b):
    return b

def helper_eq(value, snap):
    assert value == snap

"""


def gen_site(rng, rich, opts):
    kind = rng.choice(opts.get("kinds", ["eq", "eq", "eq", "le", "ge", "in", "getitem"]))
    missing = rng.random() < opts.get("p_missing", 0.25)
    site = {"kind": kind, "placement": rng.choice(opts.get("placements", ["assert", "assert", "helper", "module", "loop"]))}
    noisy = lambda e: valgen.render_noisy(rng, e, p=opts.get("p_noncanon", 0.3), parens=opts.get("parens", False), comments=opts.get("comments", True))  # noqa
    if kind == "eq":
        new = valgen.gen_value(rng, 0, rich=rich, maxdepth=opts.get("maxdepth", 3), floats=opts.get("floats", False))
        r = rng.random()
        if missing:
            old = None
        elif r < opts.get("p_same", 0.3):
            old = new
        elif r < 0.85:
            old = new
            for _ in range(rng.randint(1, 3)):
                old = valgen.mutate(rng, old, rich)
        else:
            old = valgen.gen_value(rng, 0, rich=rich, maxdepth=2)       # unrelated value / other type
        site.update(old=old, new=new, obs=[new])
        site["old_src"] = "" if old is None else noisy(old)
        if site["placement"] == "loop":
            site["placement"] = "assert"
    elif kind in ("le", "ge") and rng.random() < opts.get("p_tuple_bounds", 0.2):
        # bounds that are tuples (compared lexicographically), including one-element tuples
        xs = [tuple(rng.randint(0, 9) for _ in range(rng.choice([1, 1, 2]))) for _ in range(rng.randint(1, 4))]
        ext = max(xs) if kind == "le" else min(xs)
        tup = lambda t: ("tuple", [("int", v) for v in t])  # noqa
        bigger, smaller = ext + (0,), (ext[:-1] if len(ext) > 1 else (ext[0] - 1,))
        r = rng.random()
        if missing:
            old = None
        elif r < 0.3:
            old = tup(ext)
        elif r < 0.65:
            old = tup(bigger if kind == "le" else smaller)       # slack: trim
        else:
            old = tup(smaller if kind == "le" else bigger)       # wrong: fix
        site.update(old=old, obs=xs)
        site["old_src"] = "" if old is None else noisy(old)
        site["placement"] = "loop" if len(xs) > 1 else "assert"
    elif kind in ("le", "ge"):
        xs = [rng.randint(-5, 30) for _ in range(rng.randint(1, 4))]
        ext = max(xs) if kind == "le" else min(xs)
        r = rng.random()
        if missing:
            old = None
        elif r < 0.3:
            old = ("int", ext)
        elif r < 0.65:
            old = ("int", ext + (rng.randint(1, 5) if kind == "le" else -rng.randint(1, 5)))       # slack: trim
        else:
            old = ("int", ext - (rng.randint(1, 5) if kind == "le" else -rng.randint(1, 5)))       # wrong: fix
        site.update(old=old, obs=xs)
        site["old_src"] = "" if old is None else noisy(old)
        site["placement"] = "loop" if len(xs) > 1 else "assert"
    elif kind == "in":
        pool = [valgen.gen_hashable(rng, 1, rich) for _ in range(rng.randint(1, 4))]
        pool = valgen._distinct(pool)
        xs = [rng.choice(pool) for _ in range(rng.randint(1, 4))]
        if missing:
            old = None
        else:
            members = valgen._distinct([x for x in pool if rng.random() < 0.6] + [valgen.gen_hashable(rng, 1, rich) for _ in range(rng.randint(0, 2))])
            old = ("list", members)
        site.update(old=old, obs=xs)
        site["old_src"] = "" if old is None else noisy(old)
        site["placement"] = "loop"
    else:  # getitem
        keys = valgen._distinct([("str", rng.choice(["a", "b", "c", "d"])) for _ in range(rng.randint(1, 3))])
        obs = [(k, valgen.gen_value(rng, 1, rich=rich, maxdepth=2)) for k in keys]
        if missing:
            old = None
        else:
            items = []
            for k, v in obs:
                r = rng.random()
                if r < 0.5:
                    items.append((k, v))
                elif r < 0.75:
                    items.append((k, valgen.mutate(rng, v, rich)))
            if rng.random() < 0.4:
                items.append((("str", "unused"), ("int", 1)))
            rng.shuffle(items)
            old = ("dict", items)
        site.update(old=old, obs=obs)
        site["old_src"] = "" if old is None else noisy(old)
        site["placement"] = "getitem"
    return site


def render_site(site, k, style, ind="    "):
    """statements of site k inside a test function; returns (module_level_lines, body_lines)"""
    snap = f"snapshot({site['old_src']})"
    mod, body = [], []
    kind = site["kind"]
    A = "assert check({})" if style == "check" else "assert {}"
    if kind == "eq":
        v = valgen.render(site["new"])
        pl = site["placement"]
        if pl == "helper":
            body.append(f"{ind}helper_eq({v}, {snap})")
        elif pl == "module":
            mod.append(f"S{k} = {snap}")
            body.append(ind + A.format(f"{v} == S{k}"))
        else:
            body.append(ind + A.format(f"{v} == {snap}"))
    elif kind in ("le", "ge"):
        op = "<=" if kind == "le" else ">="
        if site["placement"] == "loop":
            body.append(f"{ind}for x{k} in {site['obs']!r}:")
            body.append(f"{ind}    " + A.format(f"x{k} {op} {snap}"))
        else:
            body.append(ind + A.format(f"{site['obs'][0]} {op} {snap}"))
    elif kind == "in":
        xs = "[" + ", ".join(valgen.render(x) for x in site["obs"]) + "]"
        body.append(f"{ind}for x{k} in {xs}:")
        body.append(f"{ind}    " + A.format(f"x{k} in {snap}"))
    else:
        body.append(f"{ind}s{k} = {snap}")
        for key, v in site["obs"]:
            body.append(ind + A.format(f"{valgen.render(v)} == s{k}[{valgen.render(key)}]"))
    return mod, body


def gen_program(rng, rich=False, style="assert", nsites=None, opts=None, layout=None):
    opts = opts or {}
    n = nsites or rng.randint(1, 5)
    sites = [gen_site(rng, rich, opts) for _ in range(n)]
    return render_program(rng, sites, rich, style, layout or {})


def render_program(rng, sites, rich, style, layout):
    hdr = valgen.RICH_HEADER if rich else valgen.SIMPLE_HEADER
    hdr += CHECK_HELPERS if style == "check" else ASSERT_HELPERS
    mods, tests = [], []
    per_test = layout.get("per_test", rng.choice([1, 2, 3]))
    cur, tno = [], 0
    for k, s in enumerate(sites):
        ind = "    "
        pre = []
        if layout.get("tabs") and rng.random() < 0.3:
            pre = ["    if True:"]
            ind = "    \t"
        if layout.get("nonascii") and rng.random() < 0.4 and s["kind"] == "eq" and s["placement"] == "assert":
            m, b = render_site(s, k, style, "")
            b = [f"{ind}ä{k} = 'äöü€'; {b[0]}"] + [ind + x for x in b[1:]]
        else:
            m, b = render_site(s, k, style, ind)
        mods += m
        cur += pre + b
        if (k + 1) % per_test == 0 or k == len(sites) - 1:
            tests.append(f"def test_{tno}():\n" + "\n".join(cur) + "\n")
            cur, tno = [], tno + 1
    if layout.get("raising_first"):
        # documented usage: a comparison that raises (here inside the alignment of a list); it must not disturb later snapshots
        hdr += PICKY
        tests.insert(0, "def test_00_raises():\n    try:\n        assert [Picky(1)] == snapshot([1])\n    except ValueError:\n        pass\n")
    comment = "# a comment with ünïcödé\n" if layout.get("nonascii") else ""
    if layout.get("odd_breaks"):
        # characters which str.splitlines() treats as line boundaries but Python's tokenizer does not: a form feed (page break) between
        # blocks, FS / GS / RS / NEL / LINE SEPARATOR / PARAGRAPH SEPARATOR inside a comment and inside a string literal
        comment += "# page\x0c break, separators \x1c \x1d \x1e \x85 \u2028 \u2029 in a comment\nSEPARATORS = 'a\x1cb\x1dc\x1ed\x85e\u2028f\u2029g'\n\x0c\n"
        if len(tests) > 1:
            tests = tests[:1] + ["\x0c\nSEP2 = '\u2028'  # \x0c\n"] + tests[1:]
    if layout.get("late_import"):
        # further top-level imports below module-level snapshots and between the tests (e.g. after a sys.path change)
        mods = mods + ["", "import string as _late1"]
        if len(tests) > 1:
            tests = tests[:1] + ["import json as _late2\n"] + tests[1:]
    src = hdr + comment + "\n".join(mods) + ("\n\n" if mods else "") + "\n\n".join(tests)
    if layout.get("no_final_newline"):
        src = src.rstrip("\n")
    if layout.get("crlf"):
        src = src.replace("\n", "\r\n")
    if layout.get("bom"):
        src = "\ufeff" + src        # a UTF-8 byte order mark (written by some editors; legal in Python source files)
    return {"source": src, "sites": sites, "rich": rich, "style": style, "layout": layout}


def flag_subsets():
    cats = ("create", "fix", "trim", "update")
    out = []
    for m in range(16):
        out.append(tuple(c for i, c in enumerate(cats) if m >> i & 1))
    return out
