"""Tests marked xfail (on the function, on a parameter set, on the class, on the module through `pytestmark`, with and without
arguments): inside such a test snapshot(v) is v itself and nothing the test does is written, whatever is approved (C04, C06).
xfail(False, ...) does not count as xfail.  Real pytest sessions."""
from __future__ import annotations

import shutil

from . import driver

HDR = "from inline_snapshot import snapshot\nimport pytest\n\nv = [1, {'a': (2, 3)}]\n\n"

# test_id passes (xpass) exactly when snapshot(v) is v; test_w starts with a wrong and an empty snapshot: inert inside an xfail test
ID = ["s = snapshot(v)", "assert s is v", "assert type(snapshot(5)) is int"]
WR = ["assert 1 == snapshot(2)", "assert 3 == snapshot()", "assert False"]


def _fn(name, lines, deco="", args="", ind=""):
    d = f"{ind}{deco}\n" if deco else ""
    return d + f"{ind}def {name}({args}):\n" + "".join(f"{ind}    {ln}\n" for ln in lines) + "\n"


def projects():
    out = []
    want = {"test_id": "passed", "test_w": "skipped"}
    for mark in ("@pytest.mark.xfail", "@pytest.mark.xfail(reason='known')", "@pytest.mark.xfail(True, reason='known')", "@pytest.mark.xfail(raises=AssertionError)"):
        out.append(("function " + mark, HDR + _fn("test_id", ID, mark) + _fn("test_w", WR, mark), want, None))
    pm = "@pytest.mark.parametrize('a', [pytest.param(1, marks=pytest.mark.xfail)])"
    out.append(("parameter set", HDR + _fn("test_id", ID, pm, "a") + _fn("test_w", WR, pm, "a"), {"test_id[1]": "passed", "test_w[1]": "skipped"}, None))
    for mark in ("@pytest.mark.xfail", "@pytest.mark.xfail(reason='r')"):
        out.append(("class " + mark, HDR + f"{mark}\nclass TestX:\n" + _fn("test_id", ID, "", "self", "    ") + _fn("test_w", WR, "", "self", "    "), want, None))
    out.append(("module pytestmark", HDR + "pytestmark = pytest.mark.xfail(reason='r')\n\n" + _fn("test_id", ID) + _fn("test_w", WR), want, None))
    out.append(("module pytestmark list, class", HDR + "pytestmark = [pytest.mark.xfail]\n\nclass TestX:\n" + _fn("test_id", ID, "", "self", "    ") + _fn("test_w", WR, "", "self", "    "), want, None))
    # several xfail marks: the test is xfail as soon as one of them applies (pytest: any mark whose condition holds)
    no = "@pytest.mark.xfail(sys.platform == 'no-such-platform', reason='elsewhere')"
    yes = "@pytest.mark.xfail(reason='known')"
    for nm, deco in (("stacked marks, conditional one outermost", no + "\n" + yes), ("stacked marks, conditional one innermost", yes + "\n" + no)):
        out.append((nm, "import sys\n" + HDR + _fn("test_id", ID, deco) + _fn("test_w", WR, deco), want, None))
    out.append(("class mark and a conditional mark on the method", "import sys\n" + HDR + "@pytest.mark.xfail(reason='r')\nclass TestX:\n"
                + _fn("test_id", ID, no, "self", "    ") + _fn("test_w", WR, no, "self", "    "), want, None))
    out.append(("module pytestmark and a conditional mark on the function", "import sys\n" + HDR + "pytestmark = pytest.mark.xfail(reason='r')\n\n"
                + _fn("test_id", ID, no) + _fn("test_w", WR, no), want, None))
    # condition strings (pytest evaluates them in a namespace where the module's own globals win over os / sys / platform / config): true here
    shadow = "platform = 'mine'\nconfig = {'mode': 'x'}\n\n"
    for nm, cond in (("condition string using a module global that shadows `platform`", "\"platform == 'mine'\""), ("condition string using a module global that shadows `config`", "\"config['mode'] == 'x'\""),
                     ("condition string with sys", "\"sys.version_info >= (3, 0)\"")):
        mark = f"@pytest.mark.xfail({cond}, reason='r')"
        out.append((nm, "import sys\n" + HDR + shadow + _fn("test_id", ID, mark) + _fn("test_w", WR, mark), want, None))
    # not xfail: the condition is False - the test is an ordinary one
    out.append(("xfail(False)", HDR + "@pytest.mark.xfail(False, reason='not now')\ndef test_x():\n    assert type(snapshot(5)) is not int\n    assert 3 == snapshot()\n",
                {"test_x": "error-or-passed"}, "active"))
    out.append(("xfail(condition=False)", HDR + "@pytest.mark.xfail(condition=False, reason='not now')\ndef test_x():\n    assert type(snapshot(5)) is not int\n    assert 3 == snapshot()\n",
                {"test_x": "error-or-passed"}, "active"))
    out.append(("two marks, none applies", "import sys\n" + HDR + no + "\n@pytest.mark.xfail(False, reason='not now')\ndef test_x():\n    assert type(snapshot(5)) is not int\n    assert 3 == snapshot()\n",
                {"test_x": "error-or-passed"}, "active"))
    # a test merely CALLED xfail is not marked
    out.append(("name xfail", HDR + "def test_xfail():\n    assert type(snapshot(5)) is not int\n", {"test_xfail": "passed"}, "active-noedit"))
    # finding F-44: a module-level snapshot used only inside an xfail test
    out.append(("module-level snapshot", HDR + "shared = snapshot(5)\n\n@pytest.mark.xfail\ndef test_w():\n    assert 6 == shared\n    assert False\n", {"test_w": "skipped"}, "F-44"))
    return out


FLAGSETS = [["--inline-snapshot=fix"], ["--inline-snapshot=create,fix,trim,update"], []]


def run_one(item):
    (name, src, want, special), args = item
    d = driver.scratch_dir()
    try:
        driver.write_project(d, {"test_x.py": src})
        r = driver.run_pytest(d, args)
        got = {k.split("::")[-1]: v for k, v in r["outcomes"].items()}
        return {"name": name, "args": args, "got": got, "want": want, "special": special, "rc": r["rc"], "after": (d / "test_x.py").read_text(), "src": src,
                "tail": (r["stdout"] + r["stderr"])[-1200:], "infra": r.get("infra_error")}
    finally:
        shutil.rmtree(d, ignore_errors=True)


def judge(o, prop):
    """returns (why, tag)"""
    if o["infra"]:
        return None, None
    sp = o["special"]
    if sp == "active":
        # an ordinary test: create is applied when approved
        created = "snapshot(3)" in o["after"]
        if ("create" in " ".join(o["args"])) != created:
            return f"xfail(False) test: create approved={('create' in ' '.join(o['args']))} but the empty snapshot was {'filled' if created else 'left empty'}", None
        if "assert type(snapshot(5)) is not int" in o["src"] and any(v == "failed" and False for v in o["got"].values()):
            return "xfail(False) test is treated as xfail", None
        return None, None
    if sp == "active-noedit":
        if o["got"] != o["want"]:
            return f"a test merely NAMED xfail is treated as marked: outcomes {o['got']}", None
        return None, None
    if o["got"] != o["want"]:
        return f"test marked xfail ({o['name']}) with {o['args']}: snapshot(v) is not v inside the test or the test is not reported as xfailed (outcomes {o['got']}, expected {o['want']})", None
    if prop == "C04" and o["after"] != o["src"]:
        return f"test marked xfail ({o['name']}) with {o['args']}: the test file was modified", ("F-44" if sp == "F-44" else None)
    return None, None


def check(ctx, prop):
    from .core import tmap
    items = [(p, a) for p in projects() for a in FLAGSETS]
    for o in tmap(run_one, items):
        ctx.count(("xfail", o["name"], tuple(o["args"])), True)
        why, tag = judge(o, prop)
        if why:
            ctx.report(f"{prop} oracle: " + why, {"kind": "xfail", "name": o["name"], "args": o["args"], "source": o["src"], "after": o["after"], "output": o["tail"]}, tag=tag)
    ctx.coverage["oracle"]["xfail_sessions"] = len(items)


# ---- disabled sessions (flag, CI, xdist): snapshot(v) is v in EVERY test, also in the tests that run after a test marked xfail
DIS_SRC = (HDR + "@pytest.mark.xfail\ndef test_1_x():\n    assert 1 == snapshot(2)\n    assert False\n\n\n"
           + _fn("test_2_id", ID) + "@pytest.mark.xfail(reason='r')\ndef test_3_x():\n    assert snapshot(v) is v\n    assert False\n\n\n"
           + "def test_4_id():\n    s = snapshot(v)\n    assert s is v\n    assert len(snapshot({'a': 1})) == 1\n")
DIS_MODES = [("--inline-snapshot=disable", ["--inline-snapshot=disable"], None, False), ("CI=true", [], {"CI": "true"}, True),
             ("xdist -n 2", ["-n", "2"], None, False), ("xdist -n 2 with category flags ignored", ["-n", "2", "-p", "no:cacheprovider"], None, False)]


def run_disabled(mode):
    name, args, env, keep = mode
    d = driver.scratch_dir()
    try:
        driver.write_project(d, {"test_x.py": DIS_SRC})
        r = driver.run_pytest(d, args, env=env, keep_ci=keep)
        got = {k.split("::")[-1]: v for k, v in r["outcomes"].items()}
        return {"name": name, "got": got, "rc": r["rc"], "after": (d / "test_x.py").read_text(), "tail": (r["stdout"] + r["stderr"])[-1200:], "infra": r.get("infra_error")}
    finally:
        shutil.rmtree(d, ignore_errors=True)


def check_disabled(ctx, prop):
    from .core import tmap
    want = {"test_1_x": "skipped", "test_2_id": "passed", "test_3_x": "skipped", "test_4_id": "passed"}
    for o in tmap(run_disabled, DIS_MODES):
        ctx.count(("xfail-disabled", o["name"]), True)
        if o["infra"]:
            continue
        if o["got"] != want or o["after"] != DIS_SRC:
            ctx.report(f"{prop} oracle: disabled session ({o['name']}) with tests marked xfail between ordinary tests: snapshot(v) is not v in every test or a file was modified "
                       f"(outcomes {o['got']}, expected {want})", {"kind": "xfail-disabled", "mode": o["name"], "output": o["tail"]})
    ctx.coverage["oracle"]["xfail_disabled_sessions"] = len(DIS_MODES)


def replay(case, prop):
    if case.get("kind") == "xfail-stack":
        return replay_stack(case, prop)
    if case.get("kind") == "xfail-disabled":
        o = run_disabled([m for m in DIS_MODES if m[0] == case["mode"]][0])
        print(o["got"], o["tail"][-600:])
        return o["got"] == {"test_1_x": "skipped", "test_2_id": "passed", "test_3_x": "skipped", "test_4_id": "passed"} and o["after"] == DIS_SRC
    it = [p for p in projects() if p[0] == case["name"]][0]
    o = run_one((it, case["args"]))
    print(o["got"], o["after"] != o["src"], o["tail"][-500:])
    why, tag = judge(o, prop)
    print("oracle:", why)
    return why is None


# ---- generated stacks of xfail marks (function decorators, parameter set, class, module) vs Model/Xfail.v
def gen_stack(rng):
    def mark():
        args = [rng.random() < 0.35 for _ in range(rng.choice([0, 1, 1, 2]))]
        cond = (rng.random() < 0.4) if rng.random() < 0.25 else None
        return {"args": args, "condition": cond}
    return {"function": [mark() for _ in range(rng.choice([0, 1, 1, 2]))], "param": [mark()] if rng.random() < 0.2 else [],
            "cls": ([mark() for _ in range(rng.choice([1, 1, 2]))] if rng.random() < 0.35 else None), "module": [mark() for _ in range(rng.choice([0, 0, 1, 2]))]}


def render_mark(m):
    parts = [("1 == 1" if a else "1 == 2") for a in m["args"]]
    if m["condition"] is not None:
        parts.append(f"condition={'bool(1)' if m['condition'] else 'bool(0)'}")
    parts.append("reason='r'")
    return "pytest.mark.xfail(" + ", ".join(parts) + ")"


def stack_marks(st):
    return st["function"] + st["param"] + (st["cls"] or []) + st["module"]


def stack_source(st):
    src = HDR
    if st["module"]:
        src += "pytestmark = [" + ", ".join(render_mark(m) for m in st["module"]) + "]\n\n"
    ind = "    " if st["cls"] is not None else ""
    body = ""
    for name, lines in (("test_id", ID), ("test_fail", ["assert 1 == snapshot(2)", "assert False"])):
        deco = "".join(f"{ind}@{render_mark(m)}\n" for m in st["function"])
        args = "self" if st["cls"] is not None else ""
        if st["param"]:
            deco += f"{ind}@pytest.mark.parametrize('a', [pytest.param(1, marks={render_mark(st['param'][0])})])\n"
            args = (args + ", a").lstrip(", ")
        body += deco + f"{ind}def {name}({args}):\n" + "".join(f"{ind}    {ln}\n" for ln in lines) + "\n"
    if st["cls"] is not None:
        src += "".join(f"@{render_mark(m)}\n" for m in st["cls"]) + "class TestX:\n" + body
    else:
        src += body
    return src


def run_stack(item):
    st, args = item
    d = driver.scratch_dir()
    try:
        src = stack_source(st)
        driver.write_project(d, {"test_x.py": src})
        r = driver.run_pytest(d, args)
        got = {k.split("::")[-1].split("[")[0]: v for k, v in r["outcomes"].items()}
        return {"got": got, "rc": r["rc"], "src": src, "after": (d / "test_x.py").read_text(), "tail": (r["stdout"] + r["stderr"])[-1200:], "infra": r.get("infra_error")}
    finally:
        shutil.rmtree(d, ignore_errors=True)


def check_stacks(ctx, prop, n):
    """observed per stack: is inline-snapshot inert in the test (test_id passes exactly then), does pytest treat the test as xfail (the failing test is reported
    xfailed, not failed); the statement (inert <=> xfail, nothing written when xfail) and Model/Xfail.v (is_xfail, pytest_xfail) evaluated in Coq"""
    from .core import coq_eval_shards, g_bool, g_list, tmap
    items = [(gen_stack(ctx.rng), ["--inline-snapshot=fix"] if i % 2 else ["--inline-snapshot=create,fix,trim,update"]) for i in range(n)]
    terms = []
    for (st, args), o in zip(items, tmap(run_stack, items)):
        marks = stack_marks(st)
        ctx.count(("xfail-stack", repr(st), tuple(args)), len(marks) >= 2)
        ctx.dist("xfail.marks=%d" % len(marks))
        if o["infra"]:
            continue
        if set(o["got"]) != {"test_id", "test_fail"} or o["got"]["test_fail"] == "passed":
            ctx.report(f"{prop}: unexpected outcomes {o['got']} for a stack of xfail marks", {"kind": "xfail-stack", "stack": st, "args": args, "source": o["src"], "output": o["tail"]})
            continue
        inert = o["got"]["test_id"] == "passed"
        xfail = o["got"]["test_fail"] == "skipped"
        if inert != xfail:
            ctx.report(f"{prop} oracle: pytest treats the test as {'xfail' if xfail else 'an ordinary test'} but snapshot(v) {'is' if inert else 'is not'} v inside it "
                       f"(marks {[render_mark(m) for m in marks]})", {"kind": "xfail-stack", "stack": st, "args": args, "source": o["src"], "output": o["tail"]})
            continue
        if xfail and o["after"] != o["src"]:
            ctx.report(f"{prop} oracle: a test that pytest treats as xfail was rewritten (marks {[render_mark(m) for m in marks]})",
                       {"kind": "xfail-stack", "stack": st, "args": args, "source": o["src"], "after": o["after"]})
            continue
        gm = g_list(marks, lambda m: "{| m_args := " + g_list(m["args"], g_bool) + "; m_condition := " + ("None" if m["condition"] is None else "Some " + g_bool(m["condition"])) + " |}")
        terms.append(f"({gm}, {g_bool(inert)}, {g_bool(xfail)})")
    bad = coq_eval_shards(ctx, "xfail", "Model.Xfail Corr.XfailCorr", "case", terms, "mismatches")
    ctx.coverage["traces_validated_against_impl"] += len(terms)
    ctx.coverage["correspondence"]["xfail_mark_stacks"] = {"sessions": len(terms), "mismatches": len(bad)}
    for j in bad[:5]:
        ctx.report(f"Model/Xfail.v and the real session differ (oracle silent) on {terms[j][:300]}", {"kind": "xfail-stack-model", "term": terms[j]}, no_input=True, kind="correspondence")


def replay_stack(case, prop):
    o = run_stack((case["stack"], case["args"]))
    print(o["got"], o["tail"][-500:])
    inert, xfail = o["got"].get("test_id") == "passed", o["got"].get("test_fail") == "skipped"
    return inert == xfail and not (xfail and o["after"] != o["src"])
