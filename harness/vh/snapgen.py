"""Generator / renderer / observer for single-call-site operation scripts (Model/SnapOps.v).

A case = (old source or None, flags, list of ops).  Values are ints; `in` snapshots hold lists,
`[k]` snapshots dicts with int keys.  Leaves are canonical (`5`) or hand-written (`2+3`).
"""
from __future__ import annotations

import ast

from .core import g_Z, g_bool, g_list, g_nat, g_opt, g_pair

CATS = ("create", "fix", "trim", "update")

HEADER = """from inline_snapshot import snapshot
R = []
def rec(i, f):
    try:
        R.append((i, "ok", f()))
    except BaseException as e:
        R.append((i, "exc", type(e).__name__))
"""


# ---- source trees: ("atom", z, canon) | ("list", [(z, canon)]) | ("dict", [(k, src)])
def gen_atom(rng, lo=-3, hi=9):
    return ("atom", rng.randint(lo, hi), rng.random() < 0.7)


def gen_src(rng, kind, depth=0):
    if kind in ("eq", "min", "max"):
        return gen_atom(rng)
    if kind == "in":
        n = rng.choice([0, 1, 1, 2, 3, 4])
        vals = rng.sample(range(-2, 9), n)
        return ("list", [(v, rng.random() < 0.7) for v in vals])
    if kind == "dict":
        n = rng.choice([0, 1, 2, 2, 3])
        keys = rng.sample(range(0, 5), n)
        out = []
        for k in keys:
            ck = rng.choice(["eq", "eq", "min", "max", "in"] + (["dict"] if depth < 2 else []))
            out.append((k, gen_src(rng, ck, depth + 1)))
        return ("dict", out)
    raise ValueError(kind)


def kind_of_src(src):
    return {"atom": None, "list": "in", "dict": "dict"}[src[0]]


def render_atom(z, canon, rng=None):
    if canon:
        return repr(z)
    a = z - 2
    return f"{a}+2" if a >= 0 else f"2{a}"     # e.g. 3+2 / 2-5 : value z, tokens differ from repr


def render_src(src):
    if src[0] == "atom":
        return render_atom(src[1], src[2])
    if src[0] == "list":
        return "[" + ", ".join(render_atom(z, c) for z, c in src[1]) + "]"
    return "{" + ", ".join(f"{k}: {render_src(v)}" for k, v in src[1]) + "}"


def src_value(src):
    if src[0] == "atom":
        return src[1]
    if src[0] == "list":
        return [z for z, _ in src[1]]
    return {k: src_value(v) for k, v in src[1]}


# ---- ops: ("eq", x) ("min", x) ("max", x) ("in", x) ("get", k, op)
def gen_op(rng, kind, src, depth=0, childkinds=None, path=()):
    x = rng.randint(-3, 9)
    if kind in ("eq", "min", "max", "in"):
        if kind == "eq" and src is not None and src[0] == "atom" and rng.random() < 0.6:
            x = src[1]
        if kind == "in" and src is not None and src[0] == "list" and src[1] and rng.random() < 0.6:
            x = rng.choice(src[1])[0]
        return (kind, x)
    # dict
    kvs = dict(src[1]) if src is not None else {}
    keys = list(kvs) + [rng.randint(0, 5)]
    k = rng.choice(keys)
    child = kvs.get(k)
    if childkinds is None:
        childkinds = {}
    key = path + (k,)
    if key not in childkinds:
        if child is None:
            childkinds[key] = rng.choice(["eq", "eq", "min", "max", "in"] + (["dict"] if depth < 1 else []))
        elif child[0] == "atom":
            childkinds[key] = rng.choice(["eq", "eq", "min", "max"])
        else:
            childkinds[key] = kind_of_src(child)
    ck = childkinds[key]
    if rng.random() < 0.04:
        ck = rng.choice(["eq", "min", "in"])      # foreign operation on the child
        if child is not None and ((child[0] == "atom") != (ck in ("eq", "min", "max")) or (child[0] == "dict")):
            ck = childkinds[key]
    return ("get", k, gen_op(rng, ck, child, depth + 1, childkinds, key))


def gen_case(rng, kinds=("eq", "min", "max", "in", "dict"), flags=None, old_prob=0.75, max_ops=5, allow_foreign=True):
    kind = rng.choice(kinds)
    old = gen_src(rng, kind) if rng.random() < old_prob else None
    nops = rng.choice([0, 1, 1, 2, 2, 3, 4, max_ops]) if kind != "dict" else rng.choice([1, 2, 3, 4, max_ops])
    if rng.random() > 0.1 and nops == 0:
        nops = 1
    ck = {}
    ops = [gen_op(rng, kind, old, 0, ck) for _ in range(nops)]
    if allow_foreign and ops and rng.random() < 0.08:
        other = rng.choice([k for k in ("eq", "min", "max", "in") if k != kind])
        ops.insert(rng.randint(1, len(ops)), (other, rng.randint(0, 5)))
    if flags is None:
        flags = tuple(c for c in CATS if rng.random() < 0.4)
    return {"kind": kind, "old": old, "flags": tuple(flags), "ops": ops}


def render_op(op, target="s"):
    if op[0] == "eq":
        return f"{op[1]} == {target}"
    if op[0] == "min":
        return f"{op[1]} >= {target}"
    if op[0] == "max":
        return f"{op[1]} <= {target}"
    if op[0] == "in":
        return f"{op[1]} in {target}"
    return render_op(op[2], f"{target}[{op[1]}]")


def plain_op(op, v):
    """the same comparison on the plain value"""
    if op[0] == "eq":
        return op[1] == v
    if op[0] == "min":
        return op[1] >= v
    if op[0] == "max":
        return op[1] <= v
    if op[0] == "in":
        return op[1] in v
    return plain_op(op[2], v[op[1]])


def render_test(case, fname="test_a", var="s", header=True):
    old = "" if case["old"] is None else render_src(case["old"])
    lines = [HEADER] if header else []
    lines.append(f"def {fname}():")
    lines.append(f"    {var} = snapshot({old})")
    for i, op in enumerate(case["ops"]):
        lines.append(f"    rec({i}, lambda: {render_op(op, var)})")
    if not case["ops"]:
        lines.append("    pass")
    return "\n".join(lines) + "\n"


def snapshot_arg_value(source_bytes, fname="test_a", index=0):
    """value of the index-th snapshot(...) argument inside function fname of the (rewritten) file;
    returns ("none",) if the call has no argument"""
    tree = ast.parse(source_bytes)
    for node in tree.body:
        if isinstance(node, ast.FunctionDef) and node.name == fname:
            calls = [n for n in ast.walk(node) if isinstance(n, ast.Call) and isinstance(n.func, ast.Name) and n.func.id == "snapshot"]
            calls.sort(key=lambda n: (n.lineno, n.col_offset))
            call = calls[index]
            if not call.args:
                return ("none",)
            return ("val", eval(compile(ast.Expression(call.args[0]), "<arg>", "eval"), {}))
    raise KeyError(fname)


# ---- Gallina
def g_src(src):
    if src[0] == "atom":
        return f"(SAtom {g_Z(src[1])} {g_bool(src[2])})"
    if src[0] == "list":
        return "(SList " + g_list(src[1], lambda e: g_pair(g_Z(e[0]), g_bool(e[1]))) + ")"
    return "(SDict " + g_list(src[1], lambda e: g_pair(g_Z(e[0]), g_src(e[1]))) + ")"


def g_op(op):
    if op[0] == "get":
        return f"(OGet {g_Z(op[1])} {g_op(op[2])})"
    return "(%s %s)" % ({"eq": "OEq", "min": "OMin", "max": "OMax", "in": "OIn"}[op[0]], g_Z(op[1]))


def g_flags(flags):
    return "{| f_create := %s; f_fix := %s; f_trim := %s; f_update := %s |}" % tuple(g_bool(c in flags) for c in CATS)


def g_pv(v):
    if isinstance(v, bool) or not isinstance(v, (int, list, dict)):
        raise ValueError(f"value outside the modelled universe: {v!r}")
    if isinstance(v, int):
        return f"(PAtom {g_Z(v)})"
    if isinstance(v, list):
        if not all(isinstance(x, int) and not isinstance(x, bool) for x in v):
            raise ValueError(f"value outside the modelled universe: {v!r}")
        return "(PList " + g_list(v, g_Z) + ")"
    return "(PDict " + g_list(v.items(), lambda e: g_pair(g_Z(e[0]), g_pv(e[1]))) + ")"


def g_result(r):
    if r[0] == "ok":
        if r[1] is True or r[1] is False:
            return f"(RBool {g_bool(r[1])})"
        return "ROther"
    return "RTypeError" if r[1] == "TypeError" else "ROther"


def g_case(case, obs):
    """obs: dict(results=[("ok", b)|("exc", name)], missing, incorrect, reported=[..], value=("none",)|("val", v))"""
    va = "None" if obs["value"][0] == "none" else f"(Some {g_pv(obs['value'][1])})"
    return g_pair(
        g_opt(case["old"], g_src), g_flags(case["flags"]), g_list(case["ops"], g_op),
        g_list(obs["results"], g_result), g_pair(g_nat(obs["missing"]), g_nat(obs["incorrect"])),
        g_pair(*(g_bool(c in obs["reported"]) for c in CATS)), va)


def observe(case, res, fname="test_a", filename="test_a.py", snap_index=0):
    """extract the observation of one single-site case from a run_inproc result"""
    R = [r for r in res["R"].get(filename, [])]
    results = [(r[1], r[2]) for r in sorted(R, key=lambda r: r[0])]
    t = [x for x in res["tests"] if x[1] == fname][0]
    snaps = res["snapshots"]
    reported = snaps[snap_index]["flags"] if snap_index < len(snaps) else []
    value = snapshot_arg_value(res["files"][filename], fname)
    return {"results": results, "missing": t[3], "incorrect": t[4], "reported": reported, "value": value,
            "test_outcome": t[2], "session_exc": res["session_exc"]}
