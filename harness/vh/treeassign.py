"""Correspondence of Model/TreeAssign.v with the code: `assert <new value> == snapshot(<hand-written nested list/tuple>)`
run with a subset of {fix, update}; what is read back from the rewritten argument (nesting, leaf values, which leaves keep
a hand-written text) vs the model evaluated in Coq."""
from __future__ import annotations

import ast

from . import driver
from .core import g_Z, g_bool, g_list
from .snapgen import g_flags, render_atom

HDR = "from inline_snapshot import snapshot, Is\n\n\n"


UNM = [0]          # probability of a user-controlled leaf Is(Vk); set by the caller


def gen_tree(rng, depth=0, ids=None):
    if depth >= 3 or rng.random() < 0.35 + 0.15 * depth:
        if UNM[0] and rng.random() < UNM[0]:
            ids = ids if ids is not None else []
            ids.append(len(ids))
            return ("unm", ids[-1], rng.randint(0, 6))
        return ("leaf", rng.randint(0, 6), rng.random() < 0.55)
    return (rng.choice(["list", "tuple"]), [gen_tree(rng, depth + 1, ids) for _ in range(rng.choice([0, 1, 2, 2, 3, 4]))])


def tree_value(t):
    if t[0] == "leaf":
        return t[1]
    if t[0] == "unm":
        return t[2]
    vs = [tree_value(x) for x in t[1]]
    return vs if t[0] == "list" else tuple(vs)


def gen_val(rng, depth=0):
    if depth >= 3 or rng.random() < 0.5:
        return rng.randint(0, 6)
    vs = [gen_val(rng, depth + 1) for _ in range(rng.choice([0, 1, 2, 3]))]
    return vs if rng.random() < 0.5 else tuple(vs)


def mutate(rng, v, depth=0):
    """the newly observed value: a few edits of the old one"""
    if not isinstance(v, (list, tuple)):
        return rng.choice([v, v, rng.randint(0, 6), gen_val(rng, 2)])
    items = [mutate(rng, x, depth + 1) if rng.random() < 0.5 else x for x in v]
    for _ in range(rng.choice([0, 0, 1, 1, 2])):
        k = rng.random()
        if k < 0.35 and items:
            del items[rng.randrange(len(items))]
        elif k < 0.7:
            items.insert(rng.randint(0, len(items)), gen_val(rng, depth + 1))
        elif items:
            i, j = rng.randrange(len(items)), rng.randrange(len(items))
            items[i], items[j] = items[j], items[i]
    r = rng.random()
    if r < 0.08:
        return tuple(items) if isinstance(v, list) else list(items)      # the type changes
    if r < 0.12:
        return rng.randint(0, 6)
    return items if isinstance(v, list) else tuple(items)


def unms(t):
    if t[0] == "unm":
        return [(t[1], t[2])]
    if t[0] == "leaf":
        return []
    return [u for x in t[1] for u in unms(x)]


def render_tree(t):
    if t[0] == "leaf":
        return render_atom(t[1], t[2])
    if t[0] == "unm":
        return f"Is(V{t[1]})"
    body = ", ".join(render_tree(x) for x in t[1])
    if t[0] == "list":
        return "[" + body + "]"
    return "(" + body + ("," if len(t[1]) == 1 else "") + ")"


def gen_case(rng):
    ids = []
    t = (rng.choice(["list", "tuple"]), [gen_tree(rng, 1, ids) for _ in range(rng.choice([1, 2, 3, 4]))])
    old = tree_value(t)
    new = old if rng.random() < 0.1 else mutate(rng, old)
    flags = tuple(c for c in ("fix", "update") if rng.random() < 0.6)
    return {"tree": t, "new": new, "flags": flags}


def read_back(seg):
    node = ast.parse(seg, mode="eval").body

    def conv(n):
        if isinstance(n, ast.List):
            return ("list", [conv(e) for e in n.elts])
        if isinstance(n, ast.Tuple):
            return ("tuple", [conv(e) for e in n.elts])
        s = ast.get_source_segment(seg, n)
        if s.startswith("Is(V") and s.endswith(")"):
            return ("unm", int(s[4:-1]))
        v = eval(s)
        if isinstance(v, bool) or not isinstance(v, int):
            raise ValueError(f"leaf outside the model: {s}")
        return ("leaf", v, s == repr(v))
    return conv(node)


def run_case(c):
    vs = "".join(f"V{i} = {v}\n" for i, v in unms(c["tree"]))
    src = HDR + vs + f"\n\ndef test_a():\n    assert {c['new']!r} == snapshot({render_tree(c['tree'])})\n"
    r = driver.run_inproc({"test_a.py": src}, c["flags"], block_black=True)
    out = {"session_exc": r["session_exc"], "source": src, "after": r["files"]["test_a.py"].decode()}
    try:
        tree = ast.parse(out["after"])
        f = [n for n in tree.body if isinstance(n, ast.FunctionDef)][0]
        call = [n for n in ast.walk(f) if isinstance(n, ast.Call) and isinstance(n.func, ast.Name) and n.func.id == "snapshot"][0]
        seg = ast.get_source_segment(out["after"], call.args[0])
        out["arg"] = seg
        out["observed"] = read_back(seg)
        ns = {"Is": lambda x: x}
        ns.update({f"V{i}": v for i, v in unms(c["tree"])})
        out["value"] = eval(seg, ns)
    except Exception as e:  # noqa
        out["error"] = f"{type(e).__name__}: {e}"
    return out


def g_tree(t):
    if t[0] == "leaf":
        return f"(TLeaf {g_Z(t[1])} {g_bool(t[2])})"
    if t[0] == "unm":
        return f"(TUnm {t[1]}%nat {g_Z(t[2])})"
    return f"(TSeq {'KList' if t[0] == 'list' else 'KTuple'} {g_list(t[1], g_tree)})"


def g_val(v):
    if isinstance(v, (list, tuple)):
        return f"(VSeq {'KList' if isinstance(v, list) else 'KTuple'} {g_list(v, g_val)})"
    return f"(VAtom {g_Z(v)})"


def g_otree(t):
    if t[0] == "leaf":
        return f"(OLeaf {g_Z(t[1])} {g_bool(t[2])})"
    if t[0] == "unm":
        return f"(OUnm {t[1]}%nat)"
    return f"(OSeq {'KList' if t[0] == 'list' else 'KTuple'} {g_list(t[1], g_otree)})"


def g_case(c, o):
    return f"({g_flags(c['flags'])}, {g_tree(c['tree'])}, {g_val(c['new'])}, {g_otree(o['observed'])})"


def _unm_list(t):
    if t[0] == "unm":
        return [t]
    if t[0] == "leaf":
        return []
    return [u for x in t[1] for u in _unm_list(x)]


def oracle(c, o):
    """the statements of C02 / C11 on this case, without the model"""
    old = tree_value(c["tree"])
    us = unms(c["tree"])
    if us:
        # C10: the user-controlled parts that remain keep their text and order; without fix none disappears
        got = [u[1] for u in _unm_list(o["observed"])]
        want = [i for i, _ in us]
        it = iter(want)
        if not all(g in it for g in got):
            return f"user-controlled parts after the run {got} are not a subsequence of the ones before {want}"
        if "fix" not in c["flags"] and got != want:
            return f"fix is not approved but user-controlled parts disappeared: {want} -> {got}"
        return None
    if "fix" in c["flags"]:
        if o["value"] != c["new"] or type(o["value"]) is not type(c["new"]):
            return f"after fix the snapshot holds {o['value']!r}, observed was {c['new']!r}"
    elif o["value"] != old:
        return f"without fix the value changed from {old!r} to {o['value']!r}"
    if "update" not in c["flags"] and old == c["new"] and o["arg"] != render_tree(c["tree"]):
        return f"the value did not change and update is not approved, yet the text changed: {render_tree(c['tree'])} -> {o['arg']}"
    return None
