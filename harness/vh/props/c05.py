"""C05 - each category means what the documentation says."""
from __future__ import annotations

from .. import snapcorr, snapgen
from ..core import Ctx, proof_step
from ..snapgen import plain_op, src_value


def executed_ok(case, obs):
    """ops that ran to a boolean result (not the TypeError/other ones)"""
    return [op for op, r in zip(case["ops"], obs["results"]) if r[0] == "ok"]


def holds(op, v):
    try:
        return bool(plain_op(op, v))
    except Exception:  # noqa  (missing key, wrong shape)
        return False


def noncanon(src):
    if src[0] == "atom":
        return not src[2]
    if src[0] == "list":
        return any(not c for _, c in src[1])
    return any(noncanon(v) for _, v in src[1])


def consistent(case):
    """no == snapshot (top level or sub-snapshot) is compared with two different values"""
    seen = {}
    for op in case["ops"]:
        path = ()
        while op[0] == "get":
            path += (op[1],)
            op = op[2]
        if op[0] == "eq":
            if seen.setdefault(path, op[1]) != op[1]:
                return False
    return True


def oracle(case, obs):
    """the statement of C05 written directly (independent of the Coq model). Returns reason or None."""
    if not consistent(case):
        return None       # self-contradicting tests are outside the statement (model correspondence still applies)
    F = set(case["flags"])
    old = case["old"]
    rep = set(obs["reported"])
    ops = executed_ok(case, obs)
    if any(r[0] != "ok" for r in obs["results"]):
        return None       # scripts with a foreign operation are judged by C06 (TypeError), not here
    val = obs["value"]
    oldv = None if old is None else src_value(old)
    # --- create only fills a missing value (or adds a missing sub-snapshot key), never alters an existing one
    if "create" in rep:
        if old is not None and old[0] != "dict":
            return "create reported for a snapshot that has a value"
    if old is not None and F <= {"create"}:
        if old[0] != "dict":
            if val != ("val", oldv):
                return f"value changed from {oldv} to {val} with only create approved"
        elif val[0] != "val" or not unaltered(oldv, val[1]):
            return f"existing entries altered with only create approved: {oldv} -> {val}"
    if old is None and ops and "create" not in rep:
        return "missing value but create not reported"
    if old is None and "create" in F and ops:
        if val[0] == "none":
            return "create approved, comparisons observed, but the call is still empty"
        if not all(holds(op, val[1]) for op in ops):
            return f"created value {val[1]} does not satisfy the observed comparisons"
    if old is None:
        return None
    # --- fix is reported exactly when some comparison against the current value fails
    failed = [op for op in ops if not holds(op, oldv)]
    missing_key_only = all(_only_missing_key(op, oldv) for op in failed)
    if failed and not missing_key_only and "fix" not in rep:
        return f"comparison {failed[0]} fails against {oldv} but fix is not reported"
    if not failed and "fix" in rep:
        return f"fix reported although every comparison holds against {oldv}"
    # --- once fix (and create for new keys) is applied every observed comparison holds
    if "fix" in F and "create" in F and val[0] == "val":
        bad = [op for op in ops if not holds(op, val[1])]
        if bad:
            return f"fix+create applied but {bad[0]} fails against {val[1]}"
    # --- an update never changes the value
    if F <= {"update"} and val != ("val", oldv):
        return f"value changed from {oldv} to {val} although at most update was approved"
    if "update" in rep and not noncanon(old):
        return "update reported but every leaf is already canonical"
    # --- trim only removes slack and yields the tightest value
    if "trim" in F and "fix" in F and "create" in F and val[0] == "val":
        t = tightest(case["kind"], oldv, ops)
        if t is not None and val[1] != t[1] and not _same(case["kind"], val[1], t[1]):
            return f"trim+fix+create applied: value {val[1]} but the tightest value is {t[1]}"
    if F == {"trim"} and val[0] == "val" and not failed:
        # only slack may be removed: every comparison that held still holds
        bad = [op for op in ops if holds(op, oldv) and not holds(op, val[1])]
        if bad:
            return f"trim broke {bad[0]}: {oldv} -> {val[1]}"
    if "trim" in rep and not failed and case["kind"] in ("min", "max") and ops:
        ext = min(o[1] for o in ops) if case["kind"] == "min" else max(o[1] for o in ops)
        if ext == oldv:
            return "trim reported for a tight bound"
    return None


def unaltered(old, new):
    """create may add sub-snapshot keys at any dict level, nothing else"""
    if isinstance(old, dict) and isinstance(new, dict):
        return all(k in new and unaltered(w, new[k]) for k, w in old.items())
    return type(old) is type(new) and old == new


def _only_missing_key(op, v):
    """the comparison fails only because a sub-snapshot key is missing (that is `create`, not `fix`)"""
    try:
        while op[0] == "get":
            if op[1] not in v:
                return True
            v = v[op[1]]
            op = op[2]
    except Exception:  # noqa
        return False
    return False


def _same(kind, a, b):
    if kind == "in":
        return sorted(a) == sorted(b)
    return a == b


def tightest(kind, oldv, ops):
    xs = [o[1] for o in ops]
    if not xs:
        return None
    if kind == "min":
        return ("val", min(xs))
    if kind == "max":
        return ("val", max(xs))
    if kind == "in":
        return ("val", sorted(set(xs)))
    return None


# ----------------------------------------------------------------------------- B: scenario families outside Model/SnapOps.v
SC_HDR = "from inline_snapshot import snapshot\nimport copy\nLOG = []\n\n\n"


def gen_bound_scenario(rng, i):
    """a <= / >= snapshot compared several times with a MUTABLE value (list of ints) that is mutated between and after the
    comparisons; the documented meaning refers to the values at comparison time"""
    sym = "<=" if i % 2 == 0 else ">="
    n = rng.randint(2, 4)
    start = [rng.randint(0, 5) for _ in range(rng.randint(1, 3))]
    steps = [rng.choice(["v.append(%d)" % rng.randint(0, 9), "v[0] += %d" % rng.randint(1, 3), "v.insert(0, %d)" % rng.randint(0, 9), "v[-1] -= 1", "pass"]) for _ in range(n)]
    after = rng.choice(["v.clear()", "v.append(99)", "v[0] = -50", "pass"])
    old = rng.choice([None, [0], [9, 9, 9, 9], start])
    # the compared object is the list itself or an (immutable) tuple holding it
    wrap, wold = rng.choice([("v", lambda o: o), ("v", lambda o: o), ("(v, 7)", lambda o: (o, 7)), ("(0, v)", lambda o: (0, o))])
    old = None if old is None else wold(old)
    flags = tuple(rng.choice(__import__("vh.proggen", fromlist=["x"]).flag_subsets()))
    body = [f"    v = {start!r}", f"    s = snapshot({'' if old is None else repr(old)})", f"    for k in range({n}):", f"        LOG.append(copy.deepcopy({wrap}))",
            f"        R.append({wrap} {sym} s)"]
    body += [f"        if k == {j}:\n            {st}" for j, st in enumerate(steps)]
    body += [f"    {after}"]
    src = SC_HDR + "R = []\n\n\ndef test_a():\n" + "\n".join(body) + "\n"
    return {"kind": "bound", "sym": sym, "old": old, "flags": flags, "source": src}


def gen_poset_scenario(rng, i):
    """a <= / >= snapshot over a PARTIAL order (sets, subset relation): one value, compared 1-3 times; the previous bound is missing, equal,
    a proper superset / subset, or not comparable with it"""
    sym = "<=" if i % 2 == 0 else ">="
    x = set(rng.sample(range(6), rng.randint(0, 3)))
    rel = rng.choice(["none", "equal", "slack", "violated", "incomparable", "incomparable"])
    if rel == "none":
        old = None
    elif rel == "equal":
        old = set(x)
    elif rel == "incomparable":
        old = (set(list(x)[1:]) if x else set()) | {9}
        if not x:
            old = {9}                          # the empty set is comparable with everything: a violated / slack bound instead
    elif (rel == "slack") == (sym == "<="):
        old = x | {7, 8}                      # proper superset
    else:
        old = set(list(x)[:-1]) if x else {7}   # proper subset (or, for the empty set, something else)
    typ = rng.choice(["set", "frozenset"])
    lit = (lambda v: repr(v) if v else "set()") if typ == "set" else (lambda v: f"frozenset({v!r})" if v else "frozenset()")
    flags = tuple(rng.choice(__import__("vh.proggen", fromlist=["x"]).flag_subsets()))
    body = [f"    x = {lit(x)}", f"    s = snapshot({'' if old is None else lit(old)})", f"    for k in range({rng.randint(1, 3)}):", "        LOG.append(x)", f"        R.append(x {sym} s)"]
    src = SC_HDR + "R = []\n\n\ndef test_a():\n" + "\n".join(body) + "\n"
    return {"kind": "poset", "sym": sym, "old": old, "x": x, "flags": flags, "source": src}


def gen_access_scenario(rng, i):
    """a dict sub-snapshot whose keys are compared, only accessed (s[k] evaluated, no comparison), or untouched"""
    keys = rng.sample(["a", "b", "c", "d", "e"], rng.randint(2, 5))
    old = {k: rng.randint(0, 9) for k in keys}
    roles = {k: rng.choice(["compare_ok", "compare_bad", "access", "untouched"]) for k in keys}
    lines = []
    for k in keys:
        if roles[k] == "compare_ok":
            lines.append(f"    R.append(s[{k!r}] == {old[k]})")
        elif roles[k] == "compare_bad":
            lines.append(f"    R.append(s[{k!r}] == {old[k] + 10})")
        elif roles[k] == "access":
            lines.append(f"    T.append(s[{k!r}])")
    newkey = rng.random() < 0.3
    if newkey:
        lines.append("    R.append(s['zz'] == 5)")
    flags = tuple(rng.choice(__import__("vh.proggen", fromlist=["x"]).flag_subsets()))
    src = SC_HDR + f"R = []\nT = []\n\n\ndef test_a():\n    s = snapshot({old!r})\n" + "\n".join(lines or ["    pass"]) + "\n"
    return {"kind": "access", "old": old, "roles": roles, "newkey": newkey, "flags": flags, "source": src}


def gen_inother_scenario(rng, i):
    """`x in snapshot(<tuple / set / dict display>)`: the previous value is no list display; the categories still mean what they mean for lists"""
    members = rng.sample(range(1, 9), rng.randint(1, 4))
    tested = [m for m in members if rng.random() < 0.6] + ([rng.choice([11, 12])] if rng.random() < 0.5 else [])
    if not tested:
        tested = [members[0]]
    shape = rng.choice(["tuple", "set", "dict"])
    old_src = {"tuple": "(" + ", ".join(map(str, members)) + ("," if len(members) == 1 else "") + ")", "set": "{" + ", ".join(map(str, members)) + "}",
               "dict": "{" + ", ".join(f"{m}: 0" for m in members) + "}"}[shape]
    flags = tuple(rng.choice(__import__("vh.proggen", fromlist=["x"]).flag_subsets()))
    src = SC_HDR + f"R = []\n\n\ndef test_a():\n    for x in {tested!r}:\n        R.append(x in snapshot({old_src}))\n"
    return {"kind": "inother", "members": members, "tested": tested, "shape": shape, "flags": flags, "source": src}


def run_scenario(sc):
    from .. import driver
    r = driver.run_inproc({"test_a.py": sc["source"]}, sc["flags"], block_black=True)
    out = {"session_exc": r["session_exc"], "module_exc": r["module_exc"], "reported": r["reported"], "after": r["files"]["test_a.py"].decode()}
    try:
        out["value"] = snapgen.snapshot_arg_value(r["files"]["test_a.py"], "test_a")
        ns = {}
        plain = sc["source"].replace("from inline_snapshot import snapshot\n", "class _Any:\n    def __eq__(s, o): return True\n    def __le__(s, o): return True\n    def __ge__(s, o): return True\n"
                                     "    def __getitem__(s, k): return s\ndef snapshot(*a):\n    return _Any()\n")
        exec(compile(plain, "<plain>", "exec"), ns)
        ns["test_a"]()
        out["log"] = ns["LOG"]
    except Exception as e:  # noqa
        out["error"] = f"{type(e).__name__}: {e}"
    return out


def judge_scenario(sc, o):
    if o["session_exc"] or o["module_exc"]:
        return f"run failed: {o['session_exc'] or o['module_exc']}"
    if "error" in o:
        return f"cannot analyse: {o['error']}"
    F, rep = set(sc["flags"]), set(o["reported"])
    val = None if o["value"][0] == "none" else o["value"][1]
    if sc["kind"] == "bound":
        log, old = o["log"], sc["old"]
        ext = max(log) if sc["sym"] == "<=" else min(log)        # the extreme of the values AT COMPARISON TIME
        ok = (lambda a, b: a <= b) if sc["sym"] == "<=" else (lambda a, b: a >= b)
        if old is None:
            want_cat, want = "create", (ext if "create" in F else None)
        elif not all(ok(x, old) for x in log):
            want_cat, want = "fix", (ext if "fix" in F else old)
        elif old != ext:
            want_cat, want = "trim", (ext if "trim" in F else old)
        else:
            want_cat, want = None, old
        if want_cat and want_cat not in rep:
            return f"{want_cat} is pending (values at comparison time {log}, bound {old}) but reported categories are {sorted(rep)}"
        if (rep - {"update"}) - ({want_cat} if want_cat else set()):
            return f"categories {sorted(rep)} reported, documented meaning gives {want_cat} (values at comparison time {log}, bound {old})"
        if val != want:
            return f"bound after the run is {val}, documented meaning gives {want} (values at comparison time {log}, previous bound {old}, approved {sorted(F)})"
        return None
    if sc["kind"] == "poset":
        x, old = set(sc["x"]), sc["old"]
        holds = None if old is None else ((x <= old) if sc["sym"] == "<=" else (x >= old))
        if old is None:
            want_cat, want = "create", (x if "create" in F else None)
        elif not holds:
            want_cat, want = "fix", (x if "fix" in F else old)
        elif old != x:
            want_cat, want = "trim", (x if "trim" in F else old)
        else:
            want_cat, want = None, old
        if want_cat and want_cat not in rep:
            return f"{want_cat} is pending (set {x} {sc['sym']} bound {old}: comparison {'holds' if holds else 'fails'}) but reported categories are {sorted(rep)}"
        if (rep - {"update"}) - ({want_cat} if want_cat else set()):
            return f"categories {sorted(rep)} reported, documented meaning gives {want_cat} (set {x} {sc['sym']} bound {old}: comparison {'holds' if holds else 'fails'})"
        if (None if val is None else set(val)) != want:
            return f"bound after the run is {val}, documented meaning gives {want} (set {x} {sc['sym']} previous bound {old}, approved {sorted(F)})"
        return None
    if sc["kind"] == "inother":
        members, tested = sc["members"], sc["tested"]
        missing = [t for t in tested if t not in members]
        unused = [m for m in members if m not in tested]
        want_cat = "fix" if missing else ("trim" if unused else None)
        if want_cat and want_cat not in rep:
            return f"{want_cat} is pending (members {members}, tested {tested}) but reported categories are {sorted(rep)}"
        if (rep - {"update"}) - ({want_cat} if want_cat else set()):
            return f"categories {sorted(rep)} reported, documented meaning gives {want_cat} (members {members}, tested {tested})"
        got = None if val is None else sorted(val)
        if want_cat == "fix" and "fix" in F:
            want = sorted(set(tested) | (set() if "trim" in F else set(members)))       # fix adds what is missing; only trim removes what was not tested
        elif want_cat == "trim" and "trim" in F:
            want = sorted(set(tested))
        else:
            want = sorted(members)
        if got != want:
            return (f"`in` snapshot written as a {sc['shape']} display: after the run it holds {got}, documented meaning gives {want} "
                    f"(members {members}, tested {tested}, approved {sorted(F)})")
        return None
    # access
    old, roles = sc["old"], sc["roles"]
    untouched = [k for k in old if roles[k] == "untouched"]
    if len(untouched) == len(old) and not sc["newkey"]:
        # the snapshot is never used with [..]: no observation at all, nothing to report or change
        return None if (not (rep - {"update"}) and val == old) else f"a snapshot that was never used reports {sorted(rep)} / changed to {val}"
    if ("trim" in rep) != bool(untouched):
        return f"trim reported = {'trim' in rep} but never-accessed keys are {untouched} (roles {roles})"
    if ("fix" in rep) != any(r == "compare_bad" for r in roles.values()):
        return f"fix reported = {'fix' in rep} although failing comparisons: {[k for k in roles if roles[k] == 'compare_bad']}"
    want = {}
    for k, v in old.items():
        if roles[k] == "untouched" and "trim" in F:
            continue
        want[k] = v + 10 if roles[k] == "compare_bad" and "fix" in F else v
    if sc["newkey"] and "create" in F:
        want["zz"] = 5
    if val != want:
        return f"dict after the run is {val}, documented meaning gives {want} (roles {roles}, approved {sorted(F)})"
    return None


_NH = ("from dataclasses import dataclass\nimport attrs\nfrom inline_snapshot import snapshot\n\n\n@dataclass\nclass P:\n    x: int\n    y: int = 0\n\n\n@dataclass\nclass Scale:\n    factor: int\n\n"
       "    def __call__(self, x, y=1):\n        return P(x=x * self.factor, y=y * self.factor)\n\n\n@attrs.define\nclass AScale:\n    factor: int\n\n    def __call__(self, x):\n        return P(x=x * self.factor)\n\n\n"
       "def make(x):\n    return P(x=x + 1)\n\n\ndouble, triple = Scale(2), AScale(3)\n\n\n")
NEVER_CORPUS = [_NH + f"S = snapshot({arg})\n\n\ndef test_a():\n    pass\n" for arg in
                ("double(x=1, y=2)", "triple(x=1+0)", "make(x=1)", "[double(x=0+1), P(x=0+1)]", "{'k': make(x=2), 'j': P(x=1_0, y=0)}", "P.__call__(x=1)" if False else "P(x=1_0)",
                 "{'small': 1_0, 'small': 1_2, 'medium': 1_00, 'large': 1_000}", "{1_0: 'a', 1_0: 'b', 2_0: 'c'}")]


def run_never_corpus(src):
    from .. import driver
    import ast as _ast
    r = driver.run_inproc({"test_a.py": src}, ("update",), block_black=True)
    after = r["files"]["test_a.py"].decode()
    out = {"session_exc": r["session_exc"]}
    try:
        def arg_and_value(text):
            tree = _ast.parse(text)
            call = [n for n in _ast.walk(tree) if isinstance(n, _ast.Call) and isinstance(n.func, _ast.Name) and n.func.id == "snapshot"][0]
            seg = _ast.get_source_segment(text, call.args[0])
            ns = {}
            exec(compile(_ast.Module(body=[n for n in tree.body if not (isinstance(n, _ast.Assign) and getattr(n.targets[0], "id", "") == "S")], type_ignores=[]), "<m>", "exec"), ns)
            return seg, repr(eval(seg, ns))
        out["arg_before"], out["before"] = arg_and_value(src)
        out["arg_after"], out["after"] = arg_and_value(after)
        if r["session_exc"]:
            out["error"] = r["session_exc"]
    except Exception as e:  # noqa
        out.update(error=f"{type(e).__name__}: {e}", before=None, after="?")
    return out


# one call site per category (and a mixed one) for the twin-module oracle
TWIN_SRC = '''from inline_snapshot import snapshot

LIMIT = snapshot(9)


def test_create():
    assert 11 == snapshot()
    for k in (3, 8, 5):
        assert k <= snapshot()


def test_fix():
    assert 22 == snapshot(20)
    for k in (1, 9):
        assert k in snapshot([1, 2])


def test_trim():
    assert 33 in snapshot([33, 39])
    for k in (3, 8, 5):
        assert k <= LIMIT
    s = snapshot({"a": 1, "unused": 2})
    assert s["a"] == 1


def test_update():
    assert 44 == snapshot(40 + 4)
'''


# fix means: afterwards the comparison holds - also when the observed value is an instance of ANOTHER class that is handled by the same adapter (the callee has to change too)
XCLASS_HDR = ("from dataclasses import dataclass\nfrom collections import namedtuple\nimport attrs\nfrom inline_snapshot import snapshot\n\n\n@dataclass\nclass Point:\n    x: int\n    y: int = 0\n\n\n"
              "@dataclass\nclass Point3:\n    x: int\n    y: int = 0\n    z: int = 0\n\n\nNT = namedtuple('NT', 'a b')\nNT2 = namedtuple('NT2', 'a b')\n\n\n@attrs.define\nclass AT:\n    a: int\n\n\n@attrs.define\nclass AT2:\n    a: int\n\n\n")
XCLASS = ["Point3(x=1, y=5) == snapshot(Point(x=1, y=5))", "Point3(x=1, y=6, z=2) == snapshot(Point(x=1, y=5))", "NT2(1, 2) == snapshot(NT(a=1, b=2))", "AT2(a=3) == snapshot(AT(a=3))",
          "[Point(x=1), Point3(x=2)] == snapshot([Point(x=1), Point(x=2)])", "{'p': Point3(x=1)} == snapshot({'p': Point(x=1)})", "Point(x=1) == snapshot(Point3(x=1))"]


# `in` snapshots whose members are mutable objects that are tested, changed and tested again: every member was tested, nothing is pending, whatever is approved
GROW_SRC = ("from inline_snapshot import snapshot\n\n\ndef test_a():\n    v = []\n    for i in range(3):\n        v.append(i)\n        assert v in snapshot([[0], [0, 1], [0, 1, 2]])\n"
            "    d = {}\n    for k in 'ab':\n        d[k] = 1\n        assert d in snapshot([{'a': 1}, {'a': 1, 'b': 1}])\n")


def run_grow(flags):
    from .. import driver
    r = driver.run_inproc({"test_a.py": GROW_SRC}, flags)
    return {"after": r["files"]["test_a.py"].decode(), "reported": r["reported"], "exc": r["session_exc"], "tests": [(t[1], t[2][:200]) for t in r["tests"]]}


def run_xclass(expr):
    from .. import driver
    src = XCLASS_HDR + f"def test_a():\n    assert {expr}\n"
    r1 = driver.run_inproc({"test_a.py": src}, ("fix",))
    after = r1["files"]["test_a.py"].decode()
    r2 = driver.run_inproc({"test_a.py": after}, ())
    return {"after": after, "exc": r1["session_exc"] or r2["session_exc"] or r2["module_exc"], "tests2": [(t[1], t[2][:200]) for t in r2["tests"]]}


def run(ctx: Ctx):
    ctx.coverage["rule"] = (
        "single call sites: previous source (none / atom / list / nested dict, leaves canonical or hand-written) x 0-5 comparisons of one operation kind "
        "(occasionally a foreign one) x subset of approved categories; executed by the real code in-process; observed results, counters, reported categories and the "
        "value of the rewritten argument are compared with Model/SnapOps.v inside Coq and checked against the documented category semantics; "
        "B (oracle only): bounds compared several times with a mutable value - a list, or a tuple holding it - that is mutated between and after the comparisons (the meaning refers to the values at "
        "comparison time), bounds over a partial order (sets: missing / equal / slack / violated / not comparable), and dict sub-snapshots whose keys are compared, only accessed, or untouched (trim removes exactly the never-accessed keys); "
        "distinct = (source, flags, ops); non-trivial = >= 2 operations or container-valued snapshot")
    proof_step(ctx)
    n = 1500 if not ctx.thorough else 15000
    cases = [snapgen.gen_case(ctx.rng) for _ in range(n)]
    obs = snapcorr.run_cases(cases)
    for c, o in zip(cases, obs):
        ctx.count(snapcorr.case_key(c), snapcorr.nontrivial(c))
        ctx.dist("kind=" + c["kind"])
        ctx.dist("flags=" + ",".join(c["flags"]))
        ctx.dist("old=" + ("none" if c["old"] is None else c["old"][0]))
        ctx.dist("nops=%d" % len(c["ops"]))
    bad = snapcorr.correspond(ctx, cases, obs)
    nviol = 0
    for i, (c, o) in enumerate(zip(cases, obs)):
        if "error" in o:
            ctx.report(f"rewritten file unusable: {o['error']}", {"case": c, "obs": o}, tag=classify(c, o))
            continue
        if o.get("session_exc"):
            ctx.report(f"session phase raised {o['session_exc']}", {"case": c, "obs": o}, tag=classify(c, o))
            continue
        why = oracle(c, o)
        if why:
            nviol += 1
            ctx.report("C05 oracle: " + why, {"case": c, "obs": o}, tag=classify(c, o))
        elif i in bad:
            ctx.report(f"Model/SnapOps.v and implementation differ (property oracle silent): {c} -> {o['results']} counters=({o['missing']},{o['incorrect']}) reported={o['reported']} value={o['value']}",
                       {"case": c, "obs": o}, no_input=True, kind="correspondence")
    ctx.coverage["correspondence"]["snapops"] = {"cases": len(cases), "mismatches": len(bad)}
    # B
    from ..core import pmap
    ms = 200 if not ctx.thorough else 2000
    scs = [(gen_bound_scenario, gen_access_scenario, gen_bound_scenario, gen_poset_scenario, gen_inother_scenario)[i % 5](ctx.rng, i // 5) for i in range(ms)]
    for sc, o in zip(scs, pmap(run_scenario, scs, chunksize=8)):
        ctx.count(("scenario", sc["source"], sc["flags"]), True)
        ctx.dist("B.scenario=" + sc["kind"])
        why = judge_scenario(sc, o)
        if why:
            ctx.report("C05 oracle: " + why, {"scenario": sc, "after": o.get("after")})
    ctx.coverage["oracle"]["scenarios"] = ms
    # C: constructor calls (dataclass): fix is reported iff the comparison fails; Model/CallAssign.v
    from .. import callassign as ca
    ca.check_part(ctx, 150 if not ctx.thorough else 2000, "C05")
    grow_flags = [(), ("trim",), ("fix", "trim"), ("create", "fix", "trim", "update")]
    for fl, o in zip(grow_flags, pmap(run_grow, grow_flags, chunksize=1)):
        ctx.count(("grow", fl), True)
        if o["exc"] or o["after"] != GROW_SRC or o["reported"] or any(t[1] != "ok" for t in o["tests"]):
            ctx.report(f"C05 oracle: every member of an `in` snapshot was tested (mutable objects that grow between the tests), flags {fl}: reported {o['reported']}, "
                       f"file changed: {o['after'] != GROW_SRC}, tests {o['tests']}, session {o['exc']}", {"kind": "grow", "flags": list(fl), "after": o["after"]})
    ctx.coverage["oracle"]["growing_members"] = len(grow_flags)
    for expr, o in zip(XCLASS, pmap(run_xclass, XCLASS, chunksize=1)):
        ctx.count(("xclass", expr), True)
        if o["exc"] or any(t[1] != "ok" for t in o["tests2"]):
            ctx.report(f"C05 oracle: `assert {expr}` fails (the observed value is an instance of another class), fix is approved, and afterwards the comparison still fails: "
                       f"{o['exc'] or o['tests2']}; written: {o['after'].splitlines()[-1].strip()}", {"kind": "xclass", "expr": expr})
    ctx.coverage["oracle"]["other_class_same_adapter"] = len(XCLASS)
    # dict displays (observed keys in any order, several new keys): fix makes the comparison hold, the other categories keep the value; Model/DictAssign.v
    from .. import dictassign as da
    da.check_part(ctx, 150 if not ctx.thorough else 2000, "C05")
    # `in` snapshots whose previous value is no list display (tuple, set, frozenset, dict): category and written members vs Model/CollReplace.v
    from .. import collreplace as cr
    cr.check_part(ctx, 160 if not ctx.thorough else 2400, "C05")
    ctx.sample({"case": cases[0], "test": obs[0].get("source"), "after": obs[0].get("after")})
    ctx.sample({"case": cases[1], "observation": {k: obs[1].get(k) for k in ("results", "missing", "incorrect", "reported", "value")}})
    # lists / tuples / dict displays / constructor calls nested in each other: a run without fix keeps the value (update is value preserving) vs Model/Nest.v
    from .. import nestassign as na
    na.check_part(ctx, 300 if not ctx.thorough else 4000, "C05", unm_choices=(0, 0, 0, 0.2))
    # snapshots that are evaluated but never compared, nested values: what update does vs Model/Undecided.v
    na.check_never(ctx, 200 if not ctx.thorough else 2500, "C05")
    # never-compared snapshots whose argument is no display / constructor call: update is value preserving (the value of the argument before = after)
    for src, o in zip(NEVER_CORPUS, pmap(run_never_corpus, NEVER_CORPUS, chunksize=1)):
        ctx.count(("never-corpus", src), True)
        if o.get("error") or o["before"] != o["after"]:
            ctx.report(f"C05 oracle: update changed the VALUE of a never-compared snapshot: {o.get('arg_before')} -> {o.get('arg_after')} ({o.get('before')} -> {o.get('after')}) {o.get('error') or ''}",
                       {"kind": "never-corpus", "source": src})
    ctx.coverage["oracle"]["never_compared_corpus"] = len(NEVER_CORPUS)
    # D: the category of a call site is decided per file: the same module under three names in one session ends up as it does alone, for every category
    from .. import twins
    twins.check(ctx, "C05", [TWIN_SRC], flag_sets=(("create",), ("fix",), ("trim",), ("update",), ("create", "fix", "trim", "update")))


def classify(case, obs):
    # F-01: never-compared container snapshot with hand-written leaves and update approved
    if not case["ops"] and case["old"] is not None and "update" in case["flags"] and noncanon(case["old"]):
        return "F-01"
    return None


def replay(ctx: Ctx, data):
    if isinstance(data.get("case"), dict) and data["case"].get("kind") == "never-corpus":
        o = run_never_corpus(data["case"]["source"])
        print(o)
        return not o.get("error") and o["before"] == o["after"]
    if isinstance(data.get("case"), dict) and data["case"].get("kind") == "collreplace":
        from .. import collreplace as cr
        return cr.replay_case(data["case"]["case"])
    if isinstance(data.get("case"), dict) and data["case"].get("kind") == "grow":
        o = run_grow(tuple(data["case"]["flags"]))
        print(o)
        return not o["exc"] and o["after"] == GROW_SRC and not o["reported"]
    if isinstance(data.get("case"), dict) and data["case"].get("kind") == "xclass":
        o = run_xclass(data["case"]["expr"])
        print(o)
        return not o["exc"] and all(t[1] == "ok" for t in o["tests2"])
    if isinstance(data.get("case"), dict) and data["case"].get("kind") == "twins":
        from .. import twins
        return twins.replay(data["case"])
    if isinstance(data.get("case"), dict) and data["case"].get("kind") == "nest":
        from .. import nestassign as na
        return na.replay_case(data["case"])
    if isinstance(data.get("case"), dict) and data["case"].get("kind") == "never":
        from .. import nestassign as na
        return na.replay_never(data["case"])
    if isinstance(data.get("case"), dict) and data["case"].get("kind") == "call":
        from .. import callassign as ca
        return ca.replay_case(data["case"])
    if isinstance(data.get("case"), dict) and data["case"].get("kind") in ("dict", "dict-orders"):
        from .. import dictassign as da
        return da.replay_case(data["case"])
    if "scenario" in data["case"]:
        sc = data["case"]["scenario"]
        sc["flags"] = tuple(sc["flags"])
        o = run_scenario(sc)
        print(o.get("after"), o.get("log"), o.get("reported"))
        why = judge_scenario(sc, o)
        print("oracle:", why)
        return why is None
    case = data["case"]["case"]
    case["flags"] = tuple(case["flags"])
    case["old"] = _tup(case["old"])
    case["ops"] = [_tup(o) for o in case["ops"]]
    o = snapcorr.run_cases([case])[0]
    print(o.get("source"))
    print(o.get("after"))
    if "error" in o or o.get("session_exc"):
        print(o.get("error"), o.get("session_exc"))
        return False
    why = oracle(case, o)
    print("oracle:", why)
    bad = snapcorr.correspond(ctx, [case], [o])
    print("model agrees:", not bad)
    return why is None and not bad


def _tup(x):
    if isinstance(x, list):
        return tuple(_tup(y) for y in x)
    return x
