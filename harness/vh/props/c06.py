"""C06 - without approval, snapshot(x) behaves like x."""
from __future__ import annotations

from .. import driver, snapcorr, snapgen, valgen
from ..core import Ctx, pmap, proof_step, tmap
from ..snapgen import plain_op, src_value

REC = """R = []
def rec(i, f):
    try:
        R.append((i, "ok", f()))
    except BaseException as e:
        R.append((i, "exc", type(e).__name__))
"""


def expected_plain(case):
    """results of the same comparisons on the plain value; a second kind of operation on one
    snapshot (top level or sub-snapshot) must raise TypeError instead"""
    v = src_value(case["old"])
    kinds = {}
    out = []
    for op in case["ops"]:
        path, o, bad = (), op, False
        w = v
        while True:
            k = "dict" if o[0] == "get" else o[0]
            if kinds.setdefault(path, k) != k:
                bad = True
                break
            if o[0] != "get":
                break
            path += (o[1],)
            w = w[o[1]] if isinstance(w, dict) and o[1] in w else None
            o = o[2]
        if bad:
            out.append(("exc", "TypeError"))
            continue
        try:
            out.append(("ok", bool(plain_op(op, v))))
        except Exception:  # noqa  (the plain comparison raises: outside the scope of C06)
            out.append(None)
    return out


# ---- differential programs: real snapshot (active, no flags) vs identity
def gen_diff_program(rng, rich):
    """several snapshots with Is() parts and inner snapshots; every comparison recorded"""
    lines = []
    nsites = rng.randint(1, 4)
    idx = 0
    for s in range(nsites):
        v = valgen.gen_value(rng, 0, rich=rich, maxdepth=3)
        kind = rng.choice(["eq", "eq", "eq", "le", "ge", "in", "getitem"])
        if kind in ("le", "ge"):
            v = ("int", rng.randint(-5, 20))
        elif kind == "in":
            v = ("list", [valgen.gen_value(rng, 2, rich=rich) for _ in range(rng.randint(0, 4))])
        elif kind == "getitem":
            keys = valgen._distinct([valgen.gen_hashable(rng, 1, rich) for _ in range(rng.randint(1, 3))])
            v = ("dict", [(k, valgen.gen_value(rng, 1, rich=rich)) for k in keys])
        src = wrap_unmanaged(rng, v) if kind in ("eq", "getitem") else valgen.render(v)
        lines.append(f"    s{s} = snapshot({src})")
        for _ in range(rng.randint(1, 4)):
            if kind == "eq":
                x = v if rng.random() < 0.6 else valgen.mutate(rng, v, rich)
                form = rng.choice(["{x} == {s}", "{s} == {x}", "{x} != {s}", "not ({x} == {s})"])
            elif kind == "le":
                x = ("int", rng.randint(-6, 21))
                form = rng.choice(["{x} <= {s}", "{s} >= {x}"])
            elif kind == "ge":
                x = ("int", rng.randint(-6, 21))
                form = rng.choice(["{x} >= {s}", "{s} <= {x}"])
            elif kind == "in":
                x = rng.choice(v[1]) if v[1] and rng.random() < 0.6 else valgen.gen_value(rng, 2, rich=rich)
                form = rng.choice(["{x} in {s}", "{x} not in {s}"])
            else:
                k, w = rng.choice(v[1])
                x = w if rng.random() < 0.6 else valgen.mutate(rng, w, rich)
                form = "{x} == {s}[" + valgen.render(k) + "]"
            expr = form.format(x=valgen.render(x), s=f"s{s}")
            lines.append(f"    rec({idx}, lambda: {expr})")
            idx += 1
        if rng.random() < 0.15:      # a different operation on the same snapshot: TypeError in both worlds? no: only with snapshot
            pass
    body = "\n".join(lines)
    hdr = valgen.RICH_HEADER if rich else valgen.SIMPLE_HEADER
    return hdr, body


def wrap_unmanaged(rng, e, depth=0):
    """render e, wrapping random sub-expressions in Is(...) or an inner snapshot(...)"""
    t = e[0]
    r = rng.random()
    if depth > 0 and r < 0.15:
        return f"Is({valgen.render(e)})"
    if depth > 0 and r < 0.25:
        return f"snapshot({valgen.render(e)})"
    if t == "list":
        return "[" + ", ".join(wrap_unmanaged(rng, x, depth + 1) for x in e[1]) + "]"
    if t == "tuple":
        return "(" + ", ".join(wrap_unmanaged(rng, x, depth + 1) for x in e[1]) + ("," if len(e[1]) == 1 else "") + ")"
    if t == "dict":
        return "{" + ", ".join(f"{valgen.render(k)}: {wrap_unmanaged(rng, v, depth + 1)}" for k, v in e[1]) + "}"
    if t == "dc":
        return "DC(" + ", ".join(f"{k}={wrap_unmanaged(rng, v, depth + 1)}" for k, v in e[1].items()) + ")"
    return valgen.render(e)


# the same snapshot() call evaluated several times with an unchanged argument whose type is a SUBCLASS of list / dict / tuple
_SUB_HDR = ("from collections import OrderedDict, defaultdict\nfrom inline_snapshot import snapshot, Is\n\n\nclass LS(list):\n    pass\n\n\nclass DS(dict):\n    pass\n\n\n"
            "class TS(tuple):\n    pass\n\n")
SUBCLASS_PROGS = [
    (_SUB_HDR, "    for _ in range(3):\n"
               "        rec(0, lambda: OrderedDict(a=1, b=[2]) == snapshot(OrderedDict({'a': 1, 'b': [2]})))\n"
               "        rec(1, lambda: LS([1, 2]) == snapshot(LS([1, 2])))\n"
               "        rec(2, lambda: [DS(k=1)] == snapshot([DS({'k': 1})]))\n"
               "        rec(3, lambda: {'x': LS([3])} == snapshot({'x': LS([3])}))\n"
               "        rec(4, lambda: TS((1, 2)) == snapshot(TS((1, 2))))\n"
               "        rec(5, lambda: defaultdict(list, {'a': [1]}) == snapshot(defaultdict(list, {'a': [1]})))\n"),
    (_SUB_HDR, "    for _ in range(2):\n"
               "        rec(0, lambda: 2 in snapshot(LS([1, 2])))\n"
               "        rec(1, lambda: LS([1]) <= snapshot(LS([1, 2])))\n"
               "        rec(2, lambda: snapshot({'k': OrderedDict(a=1)})['k'] == OrderedDict(a=1))\n"
               "        rec(3, lambda: OrderedDict(a=2) == snapshot(OrderedDict({'a': 1})))\n"
               "        rec(4, lambda: [LS([Is(1)])] == snapshot([LS([Is(1)])]))\n"),
]

IDENT = "\ndef snapshot(x):\n    return x\n\ndef Is(x):\n    return x\n\n"


def run_diff(prog):
    hdr, body = prog
    real = hdr + REC + "\ndef test_a():\n" + body + "\n"
    plain = hdr + IDENT + REC + "\ndef test_a():\n" + body + "\n"
    r1 = driver.run_inproc({"test_a.py": real}, ())
    r2 = driver.run_inproc({"test_a.py": plain}, (), active=False)
    # disabled: the real snapshot() with inline-snapshot inactive returns the value itself
    r3 = driver.run_inproc({"test_a.py": real}, (), active=False)
    return {"real": r1["R"].get("test_a.py"), "plain": r2["R"].get("test_a.py"), "disabled": r3["R"].get("test_a.py"),
            "exc": [r1["module_exc"], r2["module_exc"], r1["tests"], r2["tests"]], "source": real,
            "changed": r1["files"]["test_a.py"].decode("utf-8", "replace") != real}


DISABLED_TEST = """from inline_snapshot import snapshot
import pytest

v = [1, {"a": (2, 3)}]

def test_identity():
    s = snapshot(v)
    assert s is v
    assert type(snapshot(5)) is int

def test_missing():
    with pytest.raises(AssertionError):
        snapshot()
"""

XFAIL_TEST = """from inline_snapshot import snapshot
import pytest

v = [1, 2]

@pytest.mark.xfail
def test_identity():
    s = snapshot(v)
    assert s is v
    assert False
"""


def disabled_sessions(ctx: Ctx):
    """real sessions: disable flag / CI variable / xdist / xfail -> snapshot(v) is v"""
    confs = [
        ("disable", ["--inline-snapshot=disable"], {}, DISABLED_TEST, {"test_identity": "passed", "test_missing": "passed"}),
        ("CI", [], {"CI": "true"}, DISABLED_TEST, {"test_identity": "passed", "test_missing": "passed"}),
        ("xdist", ["-n", "2"], {}, DISABLED_TEST, {"test_identity": "passed", "test_missing": "passed"}),
        ("xfail", ["--inline-snapshot=fix"], {}, XFAIL_TEST, {"test_identity": "skipped"}),
    ]
    # every documented CI variable on its own
    from ..core import CI_VARS
    for var in CI_VARS:
        if var != "CI":
            confs.append(("CI:" + var, [], {var: "1"}, DISABLED_TEST, {"test_identity": "passed", "test_missing": "passed"}))

    def one(conf):
        name, args, env, src, want = conf
        d = driver.scratch_dir()
        try:
            driver.write_project(d, {"test_x.py": src})
            r = driver.run_pytest(d, args, env=env, keep_ci=bool(env))
            got = {k.split("::")[-1]: v for k, v in r["outcomes"].items()}
            return name, got, want, r["rc"], (r["stdout"] + r["stderr"])[-800:]
        finally:
            import shutil
            shutil.rmtree(d, ignore_errors=True)
    for name, got, want, rc, tail in tmap(one, confs):
        ctx.count(("disabled-session", name), True)
        if got != want:
            ctx.report(f"disabled mode '{name}': snapshot(v) is not v (outcomes {got}, expected {want}, rc={rc})", {"kind": "disabled", "conf": name, "output": tail})
    ctx.coverage["oracle"]["disabled_sessions"] = len(confs)
    from .. import xfailfam
    xfailfam.check(ctx, "C06")
    xfailfam.check_disabled(ctx, "C06")
    xfailfam.check_stacks(ctx, "C06", 16 if not ctx.thorough else 200)
    # constructor calls (dataclass / namedtuple / attrs, positional and keyword arguments) without flags: transparent, and Model/CallAssign.v
    from .. import callassign as ca
    ca.check_part(ctx, 200 if not ctx.thorough else 2500, "C06", positional=False, noflags=True)


SESSION_SRC = """from inline_snapshot import snapshot
import pytest


def test_1_wrong():
    assert 1 == snapshot(2)


def test_2_right():
    assert 5 == snapshot(5)


def test_3_bounds():
    for x in (1, 2):
        assert x <= snapshot(3)
    assert 4 in snapshot([4])


@pytest.mark.parametrize("v", [1, 2])
def test_4_param(v):
    assert v >= snapshot(0)


def test_5_missing():
    assert 1 == snapshot()


def test_6_right_again():
    assert {"a": 1} == snapshot({"a": 1})
"""

# comparisons that are evaluated OUTSIDE a test function (module level during collection, parametrize arguments, a session fixture) and legitimately give False,
# membership in snapshots of str / bytes / dict / range / tuple values, tests that pass either way
SESSION_SRC2 = """from inline_snapshot import snapshot
from dataclasses import dataclass, field
from collections import namedtuple
import pytest

WINDOWS = "linux" == snapshot("win32")
SMALL = [v for v in (1, 9) if v <= snapshot(5)]


@pytest.fixture(scope="session")
def limit():
    return 3 if 4 in snapshot([1, 2]) else 7


def test_1_first():
    assert not WINDOWS
    assert SMALL == [1]


def test_2_fixture(limit):
    assert limit == 7


@pytest.mark.parametrize("v", [x for x in (1, 2, 3) if x >= snapshot(2)])
def test_3_param(v):
    assert v >= 2


def test_4_str_membership():
    assert "snapshot" in snapshot("inline-snapshot")
    assert "line-sn" in snapshot("inline-snapshot")
    assert b"cd" in snapshot(b"abcde")
    s = snapshot({"name": "inline-snapshot"})
    assert "snap" in s["name"]
    for needle in ("in", "line", "shot"):
        assert needle in snapshot("inline-snapshot")


def test_5_other_containers():
    assert "k" in snapshot({"k": 1})
    assert 3 in snapshot(range(5))
    assert (1, 2) in snapshot(((1, 2), (3, 4)))
    assert 2 in snapshot({1, 2})


def test_6_last():
    assert 5 == snapshot(5)


# an outer snapshot that is evaluated several times and holds inner snapshots in fields that have a default
@dataclass
class Opt:
    a: int
    b: int = 5
    c: list = field(default_factory=list)


Pair = namedtuple("Pair", "x y", defaults=[7])


def check_opt(v):
    assert v == snapshot(Opt(a=1, b=snapshot(3), c=snapshot([2])))


def test_7_inner_snapshots_in_defaulted_fields():
    for _ in range(2):
        assert Opt(a=1, b=3) == snapshot(Opt(a=1, b=snapshot(3)))
    for _ in range(3):
        assert [Opt(1)] == snapshot([Opt(a=1, b=snapshot(5))])
    for y in (2, 2):
        assert Pair(1, y) == snapshot(Pair(x=1, y=snapshot(2)))
    check_opt(Opt(1, 3, [2]))
    check_opt(Opt(1, 3, [2]))


@pytest.mark.parametrize("n", [1, 2, 3])
def test_8_param_inner(n):
    assert Opt(a=0, b=4) == snapshot(Opt(a=0, b=snapshot(4)))
"""


def session_equivalence(ctx: Ctx):
    """a whole session: every test passes with inline-snapshot active and no approval iff it passes with --inline-snapshot=disable
    (tests after a failing one included)"""
    import shutil

    def one(item):
        which, flags = item
        d = driver.scratch_dir()
        try:
            driver.write_project(d, {"test_s.py": (SESSION_SRC, SESSION_SRC2)[which]})
            r = driver.run_pytest(d, [f"--inline-snapshot={flags}"] if flags else [])
            return (which, flags), (r["outcomes"], r["rc"])
        finally:
            shutil.rmtree(d, ignore_errors=True)
    res = dict(tmap(one, [(w, f) for w in (0, 1) for f in ("disable", "", "report", "short-report")]))
    for w in (0, 1):
        base = {k: (v == "passed") for k, v in res[(w, "disable")][0].items()}
        if w == 1 and not (base and all(base.values())):
            raise RuntimeError(f"the second session project does not pass with --inline-snapshot=disable: {res[(w, 'disable')]}")
        for f in ("", "report", "short-report"):
            ctx.count(("session", w, f), True)
            got = {k: (v == "passed") for k, v in res[(w, f)][0].items()}
            # test_5_missing: an empty snapshot() cannot be evaluated when disabled (documented), it is compared separately
            diff = {k: (base.get(k), got.get(k)) for k in set(base) | set(got) if base.get(k) != got.get(k) and "missing" not in k}
            if diff:
                ctx.report(f"a session without approval (flags {f!r}) and a session with --inline-snapshot=disable disagree on which tests pass: {diff}",
                           {"kind": "session", "flags": f, "project": w})
    ctx.coverage["oracle"]["whole_session_equivalence"] = 6


# subclasses of dict whose == is not the == of dict (OrderedDict: order-sensitive between two OrderedDicts; Counter: missing = 0): active without flags vs inactive
DICTSUB_SRC = """from collections import OrderedDict, Counter
from inline_snapshot import snapshot
R = []


def test_a():
    R.append(OrderedDict([("b", 1), ("a", 2)]) == snapshot(OrderedDict([("a", 2), ("b", 1)])))
    R.append(OrderedDict([("a", 2), ("b", 1)]) == snapshot(OrderedDict([("a", 2), ("b", 1)])))
    R.append(Counter(a=1, b=0) == snapshot(Counter(a=1)))
    R.append({"a": 2, "b": 1} == snapshot(OrderedDict([("a", 2), ("b", 1)])))
    R.append(OrderedDict([("a", 2)]) == snapshot({"a": 2}))
    R.append(Counter(a=1) == snapshot(Counter(a=1)))
"""


def run_dictsub(active):
    r = driver.run_inproc({"test_a.py": DICTSUB_SRC}, (), active=active)
    return {"R": r["R"].get("test_a.py"), "exc": r["session_exc"] or r["module_exc"]}


def dict_subclasses(ctx: Ctx):
    a, b = run_dictsub(True), run_dictsub(False)      # one after the other: run_inproc works on the global state of inline-snapshot
    ctx.count(("dict-subclasses",), True)
    if a["exc"] or b["exc"] or a["R"] != b["R"]:
        known = (not a["exc"] and not b["exc"] and a["R"] == [True, True, False, True, True, True] and b["R"] == [False, True, True, True, True, True])
        ctx.report(f"C06 oracle: comparisons of OrderedDict / Counter values with snapshots give {a['R']} with inline-snapshot active (no flags) and {b['R']} when it is inactive "
                   f"({a['exc'] or b['exc'] or 'no exception'})", {"kind": "dictsub"}, tag="F-90" if known else None)
    ctx.coverage["oracle"]["dict_subclass_comparisons"] = 6


def run(ctx: Ctx):
    ctx.coverage["rule"] = (
        "A: single-site scripts (as C05) with no flags and with random flags, results vs Model/SnapOps.v and vs the same comparison on the plain value; "
        "a second operation kind on one snapshot must raise TypeError. B: programs with 1-4 snapshots over the rich value universe with Is() parts and inner snapshots, "
        "all comparison forms (x == s, s == x, !=, <=, >=, in, not in, s[k] == x), executed with the real snapshot (active, no flags), with snapshot := identity, and with "
        "inline-snapshot inactive; the three result lists must coincide and no file may change. C: real sessions with disable / CI / xdist / xfail: snapshot(v) is v. "
        "non-trivial = >= 2 comparisons or nested value")
    proof_step(ctx)
    dict_subclasses(ctx)
    n = 1500 if not ctx.thorough else 12000
    cases = []
    while len(cases) < n:
        c = snapgen.gen_case(ctx.rng, flags=() if ctx.rng.random() < 0.7 else None, old_prob=0.95)
        cases.append(c)
    obs = snapcorr.run_cases(cases)
    bad = snapcorr.correspond(ctx, cases, obs)
    for i, (c, o) in enumerate(zip(cases, obs)):
        ctx.count(snapcorr.case_key(c), snapcorr.nontrivial(c))
        ctx.dist("A.kind=" + c["kind"])
        ctx.dist("A.flags=" + (",".join(c["flags"]) or "none"))
        if "error" in o:
            ctx.report(f"rewritten file unusable: {o['error']}", {"kind": "site", "case": c})
            continue
        why = None
        if not c["flags"] and c["old"] is not None:
            exp = expected_plain(c)
            for j, (e, r) in enumerate(zip(exp, o["results"])):
                if e is None:
                    continue
                got = (r[0], r[1] if r[0] == "exc" else bool(r[1])) if r[0] == "exc" or isinstance(r[1], bool) else r
                if got != e:
                    why = f"comparison #{j} {c['ops'][j]} on snapshot({src_value(c['old'])}) gave {r}, the plain value gives {e}"
                    break
            if why is None and o["after"] != o["source"]:
                why = "file modified although nothing was approved"
        if why:
            ctx.report("C06 oracle: " + why, {"kind": "site", "case": c, "obs": {k: o.get(k) for k in ("results", "source")}})
        elif i in bad:
            ctx.report(f"Model/SnapOps.v and implementation differ (property oracle silent): {c} -> {o['results']} counters=({o['missing']},{o['incorrect']})",
                       {"kind": "site", "case": c}, no_input=True, kind="correspondence")
    ctx.coverage["correspondence"]["snapops"] = {"cases": len(cases), "mismatches": len(bad)}
    ctx.sample({"site_case": cases[0], "test": obs[0].get("source")})
    # B
    m = 300 if not ctx.thorough else 3000
    progs = [gen_diff_program(ctx.rng, rich=(i % 2 == 0)) for i in range(m)]
    progs += SUBCLASS_PROGS
    outs = pmap(run_diff, progs, chunksize=4)
    ncmp = 0
    for p, o in zip(progs, outs):
        ctx.count(("diff", p[1]), True)
        ncmp += len(o["real"] or [])
        if o["real"] is None or o["plain"] is None:
            ctx.report(f"differential program did not run: {o['exc']}", {"kind": "diff", "source": o["source"]})
            continue
        if o["real"] != o["plain"] or o["disabled"] != o["plain"]:
            k = next((i for i, (a, b, c) in enumerate(zip(o["real"], o["plain"], o["disabled"])) if a != b or c != b), None)
            ctx.report(f"snapshot(v) does not behave like v: comparison #{k}: active/no flags {o['real'][k] if k is not None else None}, identity {o['plain'][k] if k is not None else None}, "
                       f"inactive {o['disabled'][k] if k is not None else None}", {"kind": "diff", "source": o["source"]})
        elif o["changed"]:
            ctx.report("file modified although nothing was approved", {"kind": "diff", "source": o["source"]})
    ctx.coverage["oracle"]["differential_programs"] = m
    ctx.coverage["oracle"]["differential_comparisons"] = ncmp
    ctx.sample({"differential_program": progs[0][1]})
    disabled_sessions(ctx)
    session_equivalence(ctx)


def replay(ctx: Ctx, data):
    case = data["case"]
    if case.get("kind") in ("xfail", "xfail-disabled", "xfail-stack"):
        from .. import xfailfam
        return xfailfam.replay(case, "C06")
    if case.get("kind") == "call":
        from .. import callassign as ca
        return ca.replay_case(case)
    if case.get("kind") == "diff":
        src = case["source"]
        hdr, _, rest = src.partition(REC)
        body = rest.split("def test_a():\n", 1)[1].rstrip("\n")
        o = run_diff((hdr, body))
        print(o["real"], o["plain"], o["disabled"], sep="\n")
        return o["real"] == o["plain"] == o["disabled"] and not o["changed"]
    if case.get("kind") == "site":
        from .c05 import _tup
        c = case["case"]
        c["flags"] = tuple(c["flags"])
        c["old"] = _tup(c["old"])
        c["ops"] = [_tup(x) for x in c["ops"]]
        o = snapcorr.run_cases([c])[0]
        print(o.get("source"), o.get("results"))
        exp = expected_plain(c) if c["old"] is not None and not c["flags"] else []
        okp = all(e is None or (r[0], r[1]) == e for e, r in zip(exp, o["results"]))
        return okp and not snapcorr.correspond(ctx, [c], [o])
    return True
