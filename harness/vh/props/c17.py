"""C17 - what is recorded is the value at comparison time."""
from __future__ import annotations

import ast
import dataclasses
import copy
import json

from .. import driver
from ..core import Ctx, coq_eval_shards, g_Z, g_list, g_nat, g_opt, g_pair, pmap, proof_step


# ----------------------------------------------------------------------------- A: clone() vs Model/Heap.v
def gen_heap_case(rng):
    n = rng.randint(1, 5)
    heap = []
    for a in range(n):
        cell = []
        for _ in range(rng.randint(0, 3)):
            if a > 0 and rng.random() < 0.45:
                cell.append(("ref", rng.randrange(a)))
            else:
                cell.append(("int", rng.randint(0, 9)))
        heap.append(cell)
    v = ("ref", n - 1) if rng.random() < 0.9 else ("int", 5)
    muts = []
    for _ in range(rng.randint(0, 5)):
        a = rng.randrange(n)
        k = rng.random()
        val = ("ref", rng.randrange(a)) if a > 0 and rng.random() < 0.3 else ("int", rng.randint(10, 19))
        if k < 0.35:
            muts.append(("append", a, val))
        elif k < 0.55:
            muts.append(("pop", a))
        elif k < 0.85:
            muts.append(("set", a, rng.randint(0, 3), val))
        else:
            muts.append(("clear", a))
    return {"heap": heap, "v": v, "muts": muts}


def run_heap_case(c):
    from inline_snapshot._snapshot.generic_value import clone
    cells = []
    for cell in c["heap"]:
        cells.append([x[1] if x[0] == "int" else cells[x[1]] for x in cell])
    obj = lambda x: x[1] if x[0] == "int" else cells[x[1]]  # noqa
    v = obj(c["v"])
    at_comparison = json.loads(json.dumps(v))      # independent plain copy of the value at comparison time
    rec = clone(v)
    for m in c["muts"]:
        cell = cells[m[1]]
        if m[0] == "append":
            cell.append(obj(m[2]))
        elif m[0] == "pop":
            if cell:
                cell.pop()
        elif m[0] == "set":
            if m[2] < len(cell):
                cell[m[2]] = obj(m[3])
        else:
            cell.clear()
    return {"copy": rec, "orig": v, "at_comparison": at_comparison}


def g_hval(x):
    return f"(HInt {g_Z(x[1])})" if x[0] == "int" else f"(HRef {g_nat(x[1])})"


def g_pure(p):
    if isinstance(p, list):
        return "(PList " + g_list(p, g_pure) + ")"
    return f"(PInt {g_Z(p)})"


def g_mut(m):
    if m[0] == "append":
        return f"(MAppend {g_nat(m[1])} {g_hval(m[2])})"
    if m[0] == "pop":
        return f"(MPop {g_nat(m[1])})"
    if m[0] == "set":
        return f"(MSet {g_nat(m[1])} {g_nat(m[2])} {g_hval(m[3])})"
    return f"(MClear {g_nat(m[1])})"


def corr_heap(ctx: Ctx):
    n = 800 if not ctx.thorough else 8000
    cases = [gen_heap_case(ctx.rng) for _ in range(n)]
    terms = []
    outs = []
    for c in cases:
        o = run_heap_case(c)
        outs.append(o)
        ctx.count(("heap", repr(c)), len(c["muts"]) >= 1 and len(c["heap"]) >= 2)
        terms.append(g_pair(g_list(c["heap"], lambda cell: g_list(cell, g_hval)), g_hval(c["v"]), g_list(c["muts"], g_mut),
                            g_opt(o["copy"], g_pure), g_opt(o["orig"], g_pure)))
    bad = coq_eval_shards(ctx, "heap", "Model.Heap Corr.HeapCorr", "case", terms, "mismatches")
    ctx.coverage["traces_validated_against_impl"] += len(terms)
    ctx.coverage["correspondence"]["clone_vs_heap_model"] = {"cases": len(terms), "mismatches": len(bad)}
    for c, o in zip(cases, outs):
        if o["copy"] != o["at_comparison"]:      # the property itself, judged without the model
            ctx.report(f"clone(): the recorded copy reads {o['copy']} after the mutations but the value at comparison time was {o['at_comparison']}",
                       {"kind": "heap", "case": c})
    for j in bad[:10]:
        ctx.report(f"Model/Heap.v and clone() differ on {cases[j]}", {"kind": "heap", "case": cases[j]}, no_input=True, kind="correspondence")
    ctx.sample({"heap_case": cases[0]})


# ----------------------------------------------------------------------------- A2: recorder traces vs Model/Heap.v rrun
def count_lists(p):
    return 1 + sum(count_lists(x) for x in p) if isinstance(p, list) else 0


def gen_trace(rng):
    """initial heap + events; the test's objects stay acyclic (a cell refers to older cells only); the addresses of the
    cells that the model allocates for the copies are tracked so that later allocations get the model's addresses"""
    n0 = rng.randint(1, 4)
    heap = []
    for a in range(n0):
        heap.append([("ref", rng.randrange(a)) if a > 0 and rng.random() < 0.45 else ("int", rng.randint(0, 9)) for _ in range(rng.randint(0, 3))])
    # shadow execution on plain Python lists to know sizes
    objs = {}
    for a, cell in enumerate(heap):
        objs[a] = [x[1] if x[0] == "int" else objs[x[1]] for x in cell]
    n = n0
    test_addrs = list(range(n0))
    evs = []
    for _ in range(rng.randint(1, 8)):
        k = rng.random()
        if k < 0.35:
            a = rng.choice(test_addrs)
            evs.append(("observe", ("ref", a)) if rng.random() < 0.9 else ("observe", ("int", rng.randint(0, 9))))
            if evs[-1][1][0] == "ref":
                n += count_lists(copy.deepcopy(objs[a]))
        elif k < 0.85:
            a = rng.choice(test_addrs)
            older = [b for b in test_addrs if b < a]
            val = ("ref", rng.choice(older)) if older and rng.random() < 0.35 else ("int", rng.randint(10, 19))
            kk = rng.random()
            if kk < 0.4:
                m = ("append", a, val)
                objs[a].append(val[1] if val[0] == "int" else objs[val[1]])
            elif kk < 0.6:
                m = ("pop", a)
                if objs[a]:
                    objs[a].pop()
            elif kk < 0.85:
                i = rng.randint(0, 3)
                m = ("set", a, i, val)
                if i < len(objs[a]):
                    objs[a][i] = val[1] if val[0] == "int" else objs[val[1]]
            else:
                m = ("clear", a)
                objs[a].clear()
            evs.append(("mutate", m))
        else:
            cell = [("ref", rng.choice(test_addrs)) if rng.random() < 0.5 else ("int", rng.randint(20, 29)) for _ in range(rng.randint(0, 3))]
            evs.append(("alloc", cell))
            objs[n] = [x[1] if x[0] == "int" else objs[x[1]] for x in cell]
            test_addrs.append(n)
            n += 1
    return {"heap": heap, "evs": evs}


def run_trace(c):
    """the real thing: Python lists, generic_value.clone for every observation"""
    from inline_snapshot._snapshot.generic_value import clone
    objs = {}
    for a, cell in enumerate(c["heap"]):
        objs[a] = [x[1] if x[0] == "int" else objs[x[1]] for x in cell]
    n = len(c["heap"])
    obj = lambda x: x[1] if x[0] == "int" else objs[x[1]]  # noqa
    recs = []
    at = []
    for e in c["evs"]:
        if e[0] == "observe":
            v = obj(e[1])
            at.append(json.loads(json.dumps(v)))
            r = clone(v)
            recs.append(r)
            n += count_lists(r)
        elif e[0] == "mutate":
            m = e[1]
            cell = objs[m[1]]
            if m[0] == "append":
                cell.append(obj(m[2]))
            elif m[0] == "pop":
                if cell:
                    cell.pop()
            elif m[0] == "set":
                if m[2] < len(cell):
                    cell[m[2]] = obj(m[3])
            else:
                cell.clear()
        else:
            objs[n] = [obj(x) for x in e[1]]
            n += 1
    return {"recs": recs, "cells": [objs[a] for a in sorted(objs)], "at_comparison": at}


def g_ev(e):
    if e[0] == "observe":
        return f"(EObserve {g_hval(e[1])})"
    if e[0] == "mutate":
        return f"(EMutate {g_mut(e[1])})"
    return "(EAlloc " + g_list(e[1], g_hval) + ")"


def corr_recorder(ctx: Ctx):
    n = 600 if not ctx.thorough else 6000
    cases = [gen_trace(ctx.rng) for _ in range(n)]
    terms = []
    for c in cases:
        o = run_trace(c)
        nobs = sum(1 for e in c["evs"] if e[0] == "observe")
        nmut_after = 0
        seen = False
        for e in c["evs"]:
            seen = seen or e[0] == "observe"
            nmut_after += seen and e[0] == "mutate"
        ctx.count(("trace", repr(c)), nobs >= 1 and nmut_after >= 1)
        ctx.dist(f"A2.observations={min(nobs, 3)}")
        ctx.dist(f"A2.mutations_after_first_observation={min(nmut_after, 3)}")
        terms.append(g_pair(g_list(c["heap"], lambda cell: g_list(cell, g_hval)), g_list(c["evs"], g_ev),
                            g_list(o["recs"], lambda p: g_opt(p, g_pure)), g_list(o["cells"], lambda p: g_opt(p, g_pure))))
    bad = coq_eval_shards(ctx, "recorder", "Model.Heap Corr.HeapCorr", "rcase", terms, "rmismatches")
    ctx.coverage["traces_validated_against_impl"] += len(terms)
    ctx.coverage["correspondence"]["recorder_traces_vs_heap_model"] = {"cases": len(terms), "mismatches": len(bad)}
    for c in cases:
        o = run_trace(c)
        if o["recs"] != o["at_comparison"]:
            ctx.report(f"clone(): recorded copies read {o['recs']} at the end but the values at comparison time were {o['at_comparison']}", {"kind": "trace", "case": c})
    for j in bad[:10]:
        ctx.report(f"Model/Heap.v (rrun) and clone() on real objects differ on {cases[j]}", {"kind": "trace", "case": cases[j]}, no_input=True, kind="correspondence")
    ctx.sample({"recorder_trace": cases[0]})


# ----------------------------------------------------------------------------- B: mutation schedules end to end
HDR = ("from inline_snapshot import snapshot\nimport copy\nfrom collections import namedtuple\nfrom dataclasses import dataclass\nROW = namedtuple('ROW', 'k v')\n\n\n"
       "@dataclass(frozen=True, order=True)\nclass FZ:\n    k: int\n    v: object\n\n\n"
       "@dataclass(unsafe_hash=True, order=True)\nclass UH:\n    k: int\n    v: int\n\n\nLOG = []\n\n")


@dataclasses.dataclass(frozen=True, order=True)
class FZ:
    """the frozen dataclass of the schedules (a frozen dataclass is only shallowly immutable), for reading the generated code back"""
    k: int
    v: object


@dataclasses.dataclass(unsafe_hash=True, order=True)
class UH:
    """hashable and mutable: a tuple or frozenset that holds it is hashable too, and still changes when the object does (round-9 miss C17-91)"""
    k: int
    v: int


def hashable_mutable_scheds():
    """deterministic schedules: the compared value is a hashable container (tuple, nested tuple, frozenset, namedtuple) that holds a hashable but
    mutable object which is changed after the assertion and between repeated assertions"""
    out = []
    for wrap in ("(0, u)", "((u,), 1)", "frozenset({u})", "ROW(0, u)", "(frozenset({u}), 2)"):
        # a member of a frozenset must not change while the set is still in use (its hash changes: the set itself is broken then, whatever is recorded):
        # frozensets are only mutated after the last comparison
        for op in (("eq", "eq_twice", "in", "getitem", "le", "ge") if "frozenset" not in wrap else ("eq", "eq_twice")):
            body = ["    u = UH(1, 2)", f"    t = {wrap}"]
            log = "    LOG.append(copy.deepcopy(t))"
            if op == "eq":
                body += [log, "    assert t == snapshot()", "    u.v = 99"]
            elif op == "eq_twice":
                body += ["    for i in range(2):", "    " + log, "        assert t == snapshot()", "    u.v = 99"]
            elif op == "in":
                body += ["    for i in range(3):", "    " + log, "        assert t in snapshot()", "        u.v += 10", "    u.k = 7"]
            elif op in ("le", "ge"):
                sym = "<=" if op == "le" else ">="
                body += ["    for i in range(3):", "    " + log, f"        assert t {sym} snapshot()", "        u.v += (10 if i == 0 else -30)", "    u.v = 1000" if op == "le" else "    u.v = -1000"]
            else:
                body += ["    s = snapshot()", "    for i in range(2):", "    " + log, "        assert t == s[i]", "        u.v += 10", "    u.v = 99"]
            out.append({"op": op, "source": HDR + "def test_a():\n" + "\n".join(body) + "\n"})
    return out


def gen_value_src(rng, depth=0):
    k = rng.random()
    if depth >= 2 or k < 0.3:
        return repr(rng.randint(0, 9))
    if k < 0.7:
        return "[" + ", ".join(gen_value_src(rng, depth + 1) for _ in range(rng.randint(1, 3))) + "]"
    keys = rng.sample(["a", "b", "c"], rng.randint(1, 2))
    return "{" + ", ".join(f"{key!r}: {gen_value_src(rng, depth + 1)}" for key in keys) + "}"


MUTATIONS = [
    "v.append(99)", "v.clear()", "v.insert(0, [7])", "v.reverse()", "(v[0].append(5) if isinstance(v[0], list) else v.pop())",
    "(v[-1].update(z=1) if isinstance(v[-1], dict) else v.append({'m': 1}))", "v.extend([1, 2])",
]


def gen_sched(rng, i):
    op = ["eq", "in", "le", "ge", "getitem", "eq_twice"][i % 6]
    v = "[" + ", ".join(gen_value_src(rng, 1) for _ in range(rng.randint(1, 3))) + "]"
    muts = rng.sample(MUTATIONS, rng.randint(1, 3))
    if op in ("le", "ge"):      # bounds need totally ordered values: flat lists of ints
        v = repr([rng.randint(0, 9) for _ in range(rng.randint(1, 4))])
        muts = rng.sample(["v.append(99)", "v.clear()", "v.reverse()", "v.extend([1, 2])", "v.insert(0, -1)", "(v.pop() if v else None)"], rng.randint(1, 3))
    # the compared value is the mutable list itself, or an immutable wrapper that holds it (a tuple is only shallowly immutable)
    wrap = rng.choice(["", "", "({w},)", "(0, {w})", "ROW(0, {w})", "FZ(0, {w})", "FZ(0, {w})"]) if i % 2 else ""
    body = [f"    v = {v}"]
    cmp_v = "v"
    if wrap:
        body.append("    t = " + wrap.format(w="v"))
        cmp_v = "t"
    log = f"    LOG.append(copy.deepcopy({cmp_v}))"
    if op == "eq":
        body += [log, f"    assert {cmp_v} == snapshot()"] + [f"    {m}" for m in muts]
    elif op == "eq_twice":
        body += ["    for i in range(2):", "    " + log, f"        assert {cmp_v} == snapshot()"] + [f"    {m}" for m in muts]
    elif op == "in":
        body += ["    for i in range(3):", "    " + log, f"        assert {cmp_v} in snapshot()", f"        {muts[0]}"] + [f"    {m}" for m in muts[1:]]
    elif op in ("le", "ge"):
        sym = "<=" if op == "le" else ">="
        body += ["    for i in range(3):", "    " + log, f"        assert {cmp_v} {sym} snapshot()", f"        {muts[0]}"] + [f"    {m}" for m in muts[1:]]
    else:
        body += ["    s = snapshot()", "    for i in range(2):", "    " + log, f"        assert {cmp_v} == s[i]", f"        {muts[0]}"] + [f"    {m}" for m in muts[1:]]
    src = HDR + "def test_a():\n" + "\n".join(body) + "\n"
    return {"op": op, "source": src}


def run_sched(s):
    r = driver.run_inproc({"test_a.py": s["source"]}, ("create",), block_black=True)
    out = {"session_exc": r["session_exc"], "module_exc": r["module_exc"], "tests": [(t[1], t[2][:200]) for t in r["tests"]]}
    after = r["files"]["test_a.py"].decode()
    out["after"] = after
    try:
        tree = ast.parse(after)
        call = [n for n in ast.walk(tree) if isinstance(n, ast.Call) and isinstance(n.func, ast.Name) and n.func.id == "snapshot"][0]
        import collections
        out["arg"] = eval(compile(ast.Expression(call.args[0]), "<a>", "eval"), {"ROW": collections.namedtuple("ROW", "k v"), "FZ": FZ, "UH": UH}) if call.args else None
        # the values at comparison time: execute the original test with snapshot := a recorder that accepts everything
        ns = {}
        plain = s["source"].replace("from inline_snapshot import snapshot\n", "class _Any:\n    def __eq__(s, o): return True\n    def __le__(s, o): return True\n    def __ge__(s, o): return True\n"
                                    "    def __contains__(s, o): return True\n    def __getitem__(s, k): return s\ndef snapshot():\n    return _Any()\n")
        exec(compile(plain, "<plain>", "exec"), ns)
        try:
            ns["test_a"]()
        except Exception:  # noqa
            pass
        out["log"] = _plain(ns["LOG"])
        out["arg"] = _plain(out["arg"])
    except Exception as e:  # noqa
        out["error"] = f"{type(e).__name__}: {e}"
    return out


def _plain(x):
    """namedtuples as plain tuples (they compare equal; the classes of a scratch module cannot cross the process boundary)"""
    if isinstance(x, tuple):
        return tuple(_plain(y) for y in x)
    if dataclasses.is_dataclass(x) and not isinstance(x, type):
        return tuple(_plain(getattr(x, f.name)) for f in dataclasses.fields(x))
    if isinstance(x, list):
        return [_plain(y) for y in x]
    if isinstance(x, dict):
        return {k: _plain(v) for k, v in x.items()}
    if isinstance(x, frozenset):
        return frozenset(_plain(y) for y in x)
    return x


def plain_ok(source):
    """does the test run to its end when snapshot() accepts everything? (the random mutations may break the test itself)"""
    ns = {}
    plain = source.replace("from inline_snapshot import snapshot\n", "class _Any:\n    def __eq__(s, o): return True\n    def __le__(s, o): return True\n    def __ge__(s, o): return True\n"
                           "    def __contains__(s, o): return True\n    def __getitem__(s, k): return s\ndef snapshot():\n    return _Any()\n")
    try:
        exec(compile(plain, "<plain>", "exec"), ns)
        ns["test_a"]()
        return True
    except Exception:  # noqa
        return False


def judge_sched(s, o):
    if o["session_exc"] or o["module_exc"]:
        return f"run failed: {o['session_exc'] or o['module_exc']}"
    if "error" in o:
        return f"cannot analyse: {o['error']}"
    log, arg, op = o["log"], o["arg"], s["op"]
    if arg is None:
        return "nothing was created"
    if op == "eq" and arg != log[0]:
        return f"recorded {arg} but the value at comparison time was {log[0]}"
    if op == "eq_twice" and arg != log[0]:
        return f"recorded {arg} but the value at (both) comparison times was {log[0]}"
    if op == "in":
        want = []
        for x in log:
            if x not in want:
                want.append(x)
        if arg != want:
            return f"recorded members {arg} but the values at comparison time were {want}"
    if op == "le" and arg != max(log):
        return f"recorded bound {arg} but the maximum of the values at comparison time is {max(log)}"
    if op == "ge" and arg != min(log):
        return f"recorded bound {arg} but the minimum of the values at comparison time is {min(log)}"
    if op == "getitem" and arg != {i: x for i, x in enumerate(log)}:
        return f"recorded {arg} but the values at comparison time were {dict(enumerate(log))}"
    return None


# the SAME object is compared several times (two snapshots, or one snapshot per operation) and changes in between in a way its == does not see but its
# code shows: key order of a dict, 1 -> True, 0.0 -> -0.0, a dataclass field with compare=False.  Every snapshot records the state at ITS comparison.
INVISIBLE_HDR = ("from inline_snapshot import snapshot\nfrom dataclasses import dataclass, field\n\n\n@dataclass\nclass Job:\n    id: int\n    state: str = field(default='queued', compare=False)\n"
                 "    log: list = field(default_factory=list, compare=False)\n\n\nLOG = []\n\n\n")
INVISIBLE = [
    ("{'a': 1, 'b': 2}", "v['a'] = v.pop('a')"), ("{'a': 1, 'b': [1, 0]}", "v['a'] = True"), ("[[1, 0], 2]", "v[0][0] = True"), ("[0.0, 1]", "v[0] = -0.0"),
    ("Job(id=7)", "v.state = 'done'; v.log.append('finished')"), ("[Job(id=1), Job(id=2)]", "v[1].state = 'failed'"), ("{'k': {'x': 1, 'y': 2}}", "v['k']['x'] = v['k'].pop('x')"),
    ("[1, 2.0]", "v[:] = [1.0, 2]"),
]


def run_invisible(item):
    init, mut, form = item
    if form == "two":
        body = f"    v = {init}\n    LOG.append(repr(v))\n    assert v == snapshot()\n    {mut}\n    LOG.append(repr(v))\n    assert v == snapshot()\n"
    elif form == "ops":
        body = f"    v = {init}\n    LOG.append(repr(v))\n    assert v in snapshot()\n    {mut}\n    LOG.append(repr(v))\n    assert v == snapshot()\n"
    else:
        body = f"    v = {init}\n    s = snapshot()\n    LOG.append(repr(v))\n    assert v == s['first']\n    {mut}\n    LOG.append(repr(v))\n    assert v == s['second']\n"
    src = INVISIBLE_HDR + "def test_a():\n" + body
    r = driver.run_inproc({"test_a.py": src}, ("create",), block_black=True)
    after = r["files"]["test_a.py"].decode()
    out = {"session_exc": r["session_exc"], "tests": [(t[1], t[2][:200]) for t in r["tests"]], "source": src, "after": after}
    try:
        tree = ast.parse(after)
        calls = sorted((n for n in ast.walk(tree) if isinstance(n, ast.Call) and isinstance(n.func, ast.Name) and n.func.id == "snapshot"), key=lambda n: n.lineno)
        args = [c.args[0] if c.args else None for c in calls]
        if form == "ops":
            args[0] = args[0].elts[0]
        if form == "keys":
            d = args[0]
            args = [d.values[[k.value for k in d.keys].index(name)] for name in ("first", "second")]
        ns = {}
        exec(compile(src.replace("from inline_snapshot import snapshot\n", "class _Any:\n    def __eq__(s, o): return True\n    def __contains__(s, o): return True\n    def __getitem__(s, k): return s\n"
                                 "def snapshot():\n    return _Any()\n"), "<plain>", "exec"), ns)
        ns["test_a"]()
        # the written code is evaluated (fields that hold their default are not written) and compared through repr, which shows what == does not see
        out["want"] = out["want_txt"] = list(ns["LOG"])
        out["got_txt"] = [ast.get_source_segment(after, a) if a is not None else None for a in args]
        out["got"] = [repr(eval(t, dict(ns))) if t is not None else None for t in out["got_txt"]]
    except Exception as e:  # noqa
        out["error"] = f"{type(e).__name__}: {e}"
    return out


def invisible(ctx: Ctx):
    items = [(init, mut, form) for init, mut in INVISIBLE for form in ("two", "ops", "keys")]
    for it, o in zip(items, pmap(run_invisible, items, chunksize=2)):
        ctx.count(("invisible", it), True)
        if o["session_exc"] or "error" in o or any(t[1] != "ok" for t in o["tests"]):
            ctx.report(f"C17 oracle: run failed for one object compared twice ({it}): {o.get('session_exc') or o.get('error') or o['tests']}", {"kind": "invisible", "item": list(it)})
        elif o["got"] != o["want"]:
            ctx.report(f"C17 oracle: one object, compared twice and changed in between ({it[1]}): the snapshots hold {o['got_txt']} but the values at the comparisons read {o['want_txt']}",
                       {"kind": "invisible", "item": list(it), "after": o["after"]})
    ctx.coverage["oracle"]["same_object_compared_twice"] = len(items)


BADCOPY = '''from inline_snapshot import snapshot
R = []

class Bad:
    def __init__(self, n):
        self.n = n
    def __eq__(self, o):
        return o.n == self.n if isinstance(o, Bad) else NotImplemented
    def __deepcopy__(self, memo):
        return Bad(self.n + 1)
    def __repr__(self):
        return f"Bad({self.n})"
    def __hash__(self):
        return 1

def test_a():
    try:
        %s
        R.append("no error")
    except BaseException as e:
        R.append(type(e).__name__)
'''


def bad_copy(ctx: Ctx, only=None):
    for expr in ("assert Bad(1) == snapshot()", "assert Bad(1) <= snapshot()", "assert Bad(1) >= snapshot()", "assert Bad(1) in snapshot()", "assert [Bad(1)] == snapshot()",
                 "assert Bad(1) == snapshot()['k']", "assert Bad(1) == snapshot(Bad(1))", "assert Bad(1) in snapshot([Bad(1)])",
                 # values that copy.deepcopy returns unchanged but that are not equal to themselves
                 "assert float('nan') == snapshot()", "assert float('nan') <= snapshot()", "assert float('nan') in snapshot()",
                 "assert __import__('decimal').Decimal('NaN') == snapshot()",
                 # inside hashable containers (Bad is hashable): a tuple / frozenset is no reason to skip the copy check
                 "assert (Bad(1), 2) == snapshot()", "assert frozenset({Bad(1)}) == snapshot()", "assert ((Bad(1),),) in snapshot()", "assert (0, Bad(1)) == snapshot()['k']"):
        src = BADCOPY % expr
        for flags in ((), ("create", "fix")):
            if only and only != (expr, flags):
                continue
            r = driver.run_inproc({"test_a.py": src}, flags, block_black=True)
            ctx.count(("badcopy", expr, flags), True)
            R = r["R"].get("test_a.py")
            after = r["files"]["test_a.py"].decode()
            if R != ["UsageError"]:
                ctx.report(f"a value whose deep copy is not equal to it was not rejected with UsageError in `{expr}` (flags {flags}): {R}", {"kind": "badcopy", "expr": expr, "flags": flags})
            elif r["session_exc"] or after.count("Bad(") != src.count("Bad(") or "Ellipsis" in after or "..." in after.replace("...", "", src.count("...")) or ("nan" in expr.lower() and after != src):
                ctx.report(f"a rejected value was recorded anyway in `{expr}` (flags {flags}): {r['session_exc'] or after[-200:]}", {"kind": "badcopy", "expr": expr, "flags": flags})


UNCOPY = '''from inline_snapshot import snapshot
import threading
R = []

class Box:
    def __init__(self, items):
        self.items = items
        self.lock = threading.Lock()      # copy.deepcopy refuses this object
    def __eq__(self, o):
        return isinstance(o, Box) and self.items == o.items
    def __repr__(self):
        return f"Box({self.items!r})"
    def __hash__(self):
        return 1

def test_a():
    b = Box([1])
    try:
        %s
        R.append("no error")
    except BaseException as e:
        R.append(type(e).__name__)
    b.items.append(7)
'''


def uncopyable(ctx: Ctx, only=None):
    """a value that copy.deepcopy refuses (it holds a lock) and that is mutated after the assertion: either the comparison raises and nothing is
    recorded, or what is recorded is the state at comparison time - never the later state"""
    for expr in ("assert b == snapshot()", "assert [b] == snapshot()", "assert b in snapshot()", "assert b == snapshot()['k']", "assert {'k': [b]} == snapshot()"):
        src = UNCOPY % expr
        for flags in (("create",), ("create", "fix")):
            if only and only != (expr, flags):
                continue
            r = driver.run_inproc({"test_a.py": src}, flags, block_black=True)
            ctx.count(("uncopyable", expr, flags), True)
            after = r["files"]["test_a.py"].decode()
            if r["session_exc"]:
                ctx.report(f"a value that deepcopy refuses in `{expr}` (flags {flags}): the session phase raised {r['session_exc']}", {"kind": "uncopyable", "expr": expr, "flags": flags})
            elif after.count("7") != src.count("7"):
                ctx.report(f"a value that deepcopy refuses was recorded in `{expr}` (flags {flags}) and what is written is its state after a later mutation, not the value at "
                           f"comparison time: {after.split('def test_a')[1][:300]}", {"kind": "uncopyable", "expr": expr, "flags": flags})


# ----------------------------------------------------------------------------- S: the recording sites in the source (fail-closed)
def static_clone_check(ctx: Ctx):
    """Model/Heap.v's recorder stores clone(v) at every observation.  Read the recording sites from the CURRENT source: every value
    stored into `_new_value` of a bound / collection snapshot, and the value handed to Adapter.assign by an == snapshot, must be the
    result of clone(...).  Any other shape is reported as a broken tie (the mutation schedules then search for a failing input)."""
    from ..core import REPO
    base = REPO / "src" / "inline_snapshot" / "_snapshot"
    problems, sites = [], 0

    def is_clone(n):
        return isinstance(n, ast.Call) and isinstance(n.func, ast.Name) and n.func.id == "clone" and len(n.args) == 1

    def stored_ok(n):
        if is_clone(n):
            return True
        if isinstance(n, ast.List):
            return all(is_clone(e) for e in n.elts)
        if isinstance(n, ast.Dict) and not n.keys:
            return True
        return isinstance(n, ast.Name) and n.id == "undefined"

    def is_new_value(n):
        return isinstance(n, ast.Attribute) and n.attr == "_new_value" and isinstance(n.value, ast.Name) and n.value.id == "self"

    for fn in ("min_max_value.py", "collection_value.py"):
        try:
            tree = ast.parse((base / fn).read_text())
        except (OSError, SyntaxError) as e:
            problems.append(f"{fn}: cannot be read ({e})")
            continue
        for n in ast.walk(tree):
            if isinstance(n, ast.Assign) and any(is_new_value(t) for t in n.targets):
                sites += 1
                if not stored_ok(n.value):
                    problems.append(f"{fn}:{n.lineno}: `self._new_value = {ast.unparse(n.value)}` does not store a clone")
            if isinstance(n, ast.Call) and isinstance(n.func, ast.Attribute) and n.func.attr in ("append", "insert", "extend") and is_new_value(n.func.value):
                sites += 1
                if not all(is_clone(a) for a in n.args[-1:]):
                    problems.append(f"{fn}:{n.lineno}: `{ast.unparse(n)}` does not store a clone")
    try:
        tree = ast.parse((base / "eq_value.py").read_text())
        calls = [n for n in ast.walk(tree) if isinstance(n, ast.Call) and isinstance(n.func, ast.Attribute) and n.func.attr == "assign"]
        sites += len(calls)
        if not calls:
            problems.append("eq_value.py: no call of adapter.assign found")
        for n in calls:
            if len(n.args) != 3 or not is_clone(n.args[2]):
                problems.append(f"eq_value.py:{n.lineno}: `{ast.unparse(n)}` does not hand a clone of the compared value to the adapter")
    except (OSError, SyntaxError) as e:
        problems.append(f"eq_value.py: cannot be read ({e})")
    try:
        src = (base / "generic_value.py").read_text()
        tree = ast.parse(src)
        fn = [n for n in tree.body if isinstance(n, ast.FunctionDef) and n.name == "clone"]
        ok = bool(fn) and any(isinstance(n, ast.Call) and ast.unparse(n.func) == "copy.deepcopy" for n in ast.walk(fn[0])) \
            and any(isinstance(n, ast.Raise) for n in ast.walk(fn[0])) and any(isinstance(n, ast.Compare) for n in ast.walk(fn[0]))
        sites += 1
        if not ok:
            problems.append("generic_value.py: clone() is no longer `copy.deepcopy` + comparison + raise")
    except (OSError, SyntaxError) as e:
        problems.append(f"generic_value.py: cannot be read ({e})")
    ctx.coverage["correspondence"]["recording_sites_read_from_source"] = {"sites": sites, "problems": len(problems)}
    ctx.coverage["traces_validated_against_impl"] += sites
    for pr in problems[:5]:
        ctx.report("the recording sites of the source no longer match the recorder of Model/Heap.v (every stored value = clone(compared value)): " + pr,
                   {"kind": "static", "problem": pr}, no_input=True, kind="correspondence")


def run(ctx: Ctx):
    ctx.coverage["rule"] = (
        "A: heaps of 1-5 list objects with sharing, a value, clone() of it, then 0-5 mutations (append, pop, setitem, clear; storing ints or other original objects): what the "
        "recorded copy and the original read as afterwards vs Model/Heap.v in Coq. B: tests that mutate nested lists/dicts after the assertion and between repeated assertions "
        "(==, in, <=, >=, [k]; loops) run with create: the value in the rewritten file vs the values logged by an independent copy at comparison time. C: values whose "
        "__deepcopy__ is not equal to the original in every operation: UsageError and nothing recorded. non-trivial = >= 1 mutation and >= 2 objects")
    proof_step(ctx)
    static_clone_check(ctx)
    corr_heap(ctx)
    corr_recorder(ctx)
    m = 240 if not ctx.thorough else 2400
    scheds = [gen_sched(ctx.rng, i) for i in range(m)] + hashable_mutable_scheds()
    outs = pmap(run_sched, scheds, chunksize=8)
    for s, o in zip(scheds, outs):
        ctx.count(("sched", s["source"]), True)
        ctx.dist("B.op=" + s["op"])
        why = judge_sched(s, o)
        if why:
            ctx.report("C17 oracle: " + why, {"kind": "sched", "source": s["source"], "op": s["op"], "after": o.get("after")})
    ctx.coverage["oracle"]["mutation_schedules"] = m
    invisible(ctx)
    ctx.sample({"schedule": scheds[0]["source"].split("def test_a")[1], "recorded": outs[0].get("arg"), "logged": outs[0].get("log")})
    bad_copy(ctx)
    uncopyable(ctx)


def replay(ctx: Ctx, data):
    c = data["case"]
    if c.get("kind") == "invisible":
        o = run_invisible(tuple(c["item"]))
        print(o)
        return not o["session_exc"] and "error" not in o and o.get("got") == o.get("want")
    if c.get("kind") == "sched":
        s = {"source": c["source"], "op": c["op"]}
        o = run_sched(s)
        print(o.get("after"), o.get("log"))
        return judge_sched(s, o) is None
    if c.get("kind") == "heap":
        o = run_heap_case(c["case"])
        print(o)
        return o["copy"] == o["at_comparison"]
    if c.get("kind") == "trace":
        o = run_trace(c["case"])
        print(o)
        return o["recs"] == o["at_comparison"]
    if c.get("kind") == "uncopyable":
        ctx2 = Ctx("C17", ctx.tier, ctx.seed)
        uncopyable(ctx2, only=(c["expr"], tuple(c["flags"])))
        import shutil
        shutil.rmtree(ctx2.tmp, ignore_errors=True)
        return not ctx2.violations
    if c.get("kind") == "badcopy":
        ctx2 = Ctx("C17", "quick", 0)
        bad_copy(ctx2, only=(c["expr"], tuple(c["flags"])))
        return not ctx2.violations
    return True
