"""C14 - each snapshot() call site has its own state; repeated evaluation aggregates."""
from __future__ import annotations

import ast

from .. import driver, snapgen
from ..core import Ctx, coq_eval_shards, g_Z, g_bool, g_list, g_nat, g_opt, g_pair, pmap, proof_step
from ..snapgen import CATS, g_flags, g_op, g_pv, g_result, g_src, plain_op, render_op, render_src, src_value

STYLES = ("helper", "helper", "local", "module", "sameline")


def gen_program(rng, nsites=None):
    n = nsites or rng.randint(2, 7)
    flags = tuple(c for c in CATS if rng.random() < 0.4)
    sites = []
    for k in range(n):
        c = snapgen.gen_case(rng, flags=flags, allow_foreign=False, max_ops=6)
        style = rng.choice(STYLES)
        if not c["ops"] and style == "helper":
            style = "local"
        sites.append({"old": c["old"], "ops": c["ops"], "style": style, "kind": c["kind"]})
    # pair up "sameline" sites
    sl = [k for k, s in enumerate(sites) if s["style"] == "sameline"]
    if len(sl) % 2:
        sites[sl[-1]]["style"] = "local"
        sl.pop()
    # random interleaving of all operations
    pending = [[(k, op) for op in s["ops"]] for k, s in enumerate(sites)]
    trace = []
    live = [p for p in pending if p]
    while live:
        p = rng.choice(live)
        trace.append(p.pop(0))
        live = [p for p in pending if p]
    # every third program starts with a test whose comparison raises while a list is aligned (documented usage: nothing of it may leak into the sites below)
    return {"flags": flags, "sites": sites, "trace": trace, "pairs": [(sl[i], sl[i + 1]) for i in range(0, len(sl), 2)], "raiser": rng.random() < 0.34}


def render_program(prog):
    """source order of the snapshot() calls = site order 0..n-1 is NOT required; we return the site index of every call in source order"""
    sites = prog["sites"]
    arg = lambda k: "" if sites[k]["old"] is None else render_src(sites[k]["old"])  # noqa
    out = [snapgen.HEADER]
    order = []
    for k, s in enumerate(sites):
        if s["style"] == "module":
            out.append(f"S{k} = snapshot({arg(k)})")
            order.append(k)
    for k, s in enumerate(sites):
        if s["style"] == "helper":
            out.append(f"def site{k}():\n    return snapshot({arg(k)})\n")
            order.append(k)
    if prog.get("raiser"):
        from ..proggen import PICKY
        out.append(PICKY + "\ndef test_0():\n    try:\n        assert [Picky(1)] == snapshot([1])\n    except ValueError:\n        pass\n")
        order.append(-1)
    out.append("def test_a():")
    paired = {a: b for a, b in prog["pairs"]}
    second = set(paired.values())
    for k, s in enumerate(sites):
        if s["style"] == "local":
            out.append(f"    s{k} = snapshot({arg(k)})")
            order.append(k)
        elif s["style"] == "sameline" and k in paired:
            j = paired[k]
            out.append(f"    s{k}, s{j} = snapshot({arg(k)}), snapshot({arg(j)})")
            order += [k, j]
    for i, (k, op) in enumerate(prog["trace"]):
        st = sites[k]["style"]
        target = {"helper": f"site{k}()", "local": f"s{k}", "sameline": f"s{k}", "module": f"S{k}"}[st]
        out.append(f"    rec({i}, lambda: {render_op(op, target)})")
    out.append("    pass")
    return "\n".join(out) + "\n", order


def snapshot_calls(src):
    tree = ast.parse(src)
    calls = [n for n in ast.walk(tree) if isinstance(n, ast.Call) and isinstance(n.func, ast.Name) and n.func.id == "snapshot"]
    calls.sort(key=lambda n: (n.lineno, n.col_offset))
    return calls


def run_program(prog):
    src, order = render_program(prog)
    res = driver.run_inproc({"test_a.py": src}, prog["flags"])
    out = {"source": src, "session_exc": res["session_exc"], "module_exc": res["module_exc"]}
    try:
        R = sorted(res["R"].get("test_a.py", []), key=lambda r: r[0])
        out["results"] = [(r[1], r[2]) for r in R]
        t = [x for x in res["tests"] if x[1] == "test_a"][0]
        out["missing"], out["incorrect"] = t[3], t[4]
        after = res["files"]["test_a.py"].decode()
        out["after"] = after
        before_calls = snapshot_calls(src)
        after_calls = snapshot_calls(after)
        if len(before_calls) != len(after_calls):
            out["error"] = "number of snapshot() calls changed"
            return out
        pos2site = {(c.lineno, c.col_offset): order[i] for i, c in enumerate(before_calls)}
        reported = {k: [] for k in range(len(prog["sites"]))}
        for s in res["snapshots"]:
            k = pos2site.get((s["line"], s["col"]))
            if k is None:
                out["error"] = f"snapshot at {s['line']}:{s['col']} not a generated call site"
                return out
            if k >= 0:
                reported[k] = s["flags"]
        vals = {}
        for i, c in enumerate(after_calls):
            k = order[i]
            if k < 0:
                continue
            vals[k] = ("none",) if not c.args else ("val", eval(compile(ast.Expression(c.args[0]), "<a>", "eval"), {}))
        out["per_site"] = [(reported[k], vals[k]) for k in range(len(prog["sites"]))]
    except Exception as e:  # noqa
        out["error"] = f"{type(e).__name__}: {e}"
    return out


def g_mcase(prog, out):
    per = []
    for rep, val in out["per_site"]:
        va = "None" if val[0] == "none" else f"(Some {g_pv(val[1])})"
        per.append(g_pair(g_pair(*(g_bool(c in rep) for c in CATS)), va))
    return g_pair(g_flags(prog["flags"]), g_list([s["old"] for s in prog["sites"]], lambda o: g_opt(o, g_src)),
                  g_list(prog["trace"], lambda ko: g_pair(g_Z(ko[0]), g_op(ko[1]))),
                  g_list(out["results"], g_result), g_pair(g_nat(out["missing"]), g_nat(out["incorrect"])),
                  "[" + "; ".join(per) + "]")


def aggregate_oracle(prog, out):
    """independent aggregation: with create+fix+trim approved every site holds the extreme bound / the union of
    members / the union of keys of ITS OWN observations only"""
    F = set(prog["flags"])
    if not {"create", "fix", "trim"} <= F:
        return None
    for k, s in enumerate(prog["sites"]):
        ops = [op for kk, op in prog["trace"] if kk == k]
        if not ops:
            continue
        rep, val = out["per_site"][k]
        if val[0] != "val":
            return f"site {k}: call still empty after create"
        v = val[1]
        xs = [op[1] for op in ops if op[0] != "get"]
        if s["kind"] == "min" and v != min(xs):
            return f"site {k}: bound {v} but the minimum of its own observations {xs} is {min(xs)}"
        if s["kind"] == "max" and v != max(xs):
            return f"site {k}: bound {v} but the maximum of its own observations {xs} is {max(xs)}"
        if s["kind"] == "in" and sorted(v) != sorted(set(xs)):
            return f"site {k}: members {v} but its own tested values are {sorted(set(xs))}"
        if s["kind"] == "dict":
            keys = {op[1] for op in ops}
            if set(v) != keys:
                return f"site {k}: keys {sorted(v)} but its own requested keys are {sorted(keys)}"
    return None


# ---- re-evaluation with a changed argument
REEVAL = """from inline_snapshot import snapshot
from dataclasses import dataclass, field
from collections import namedtuple
from enum import Enum


@dataclass
class Event:
    a: int


@dataclass
class AuditEvent(Event):
    pass


class Color(str, Enum):
    red = "red"


@dataclass
class Point:
    x: int = 0
    y: int = 0
    tags: list = field(default_factory=list)
    labels: list = field(default_factory=list)


NT = namedtuple("NT", "x y", defaults=[0, 0])
R = []
G = [{first}]

def site():
    return snapshot(G[0])

def test_a():
    try:
        R.append(("ok", {cmp1}))
        {mut}
        R.append(("ok", {cmp2}))
    except BaseException as e:
        R.append(("exc", type(e).__name__))
"""


def reeval_cases():
    vals = [("5", "6"), ("5", "'a'"), ("[1]", "[1, 2]"), ("[1, 2]", "[1, 3]"), ("{'a': 1}", "{'a': 2}"), ("{'a': 1}", "{'a': 1, 'b': 2}"),
            ("(1, 2)", "[1, 2]"), ("'x'", "'y'"), ("[[1]]", "[[1, 2]]"), ("5", "5")]
    cmps = [("{v} == site()", "{v} == site()"), ("3 <= site()", "3 <= site()"), ("3 in site()", "3 in site()")]
    out = []
    for a, b in vals:
        for c1, c2 in cmps:
            if ("<=" in c1 and not a.isdigit()) or (" in " in c1 and not a.startswith("[")):
                continue
            if ("<=" in c1 and not b.isdigit() and b != "'a'"):
                continue
            out.append({"first": a, "second": b, "cmp1": c1.format(v=a), "cmp2": c2.format(v=b), "mut": f"G[0] = {b}"})
    # the name keeps its object, the object is modified in place between the evaluations (the argument is the very same object again)
    for a, mut, b in (("[1]", "G[0].append(2)", "[1, 2]"), ("[1, 2]", "G[0][1] = 3", "[1, 3]"), ("{'a': 1}", "G[0]['a'] = 2", "{'a': 2}"),
                      ("{'a': 1}", "G[0]['b'] = 2", "{'a': 1, 'b': 2}"), ("[[1]]", "G[0][0].append(2)", "[[1, 2]]"), ("[1, [2, {'k': 3}]]", "G[0][1][1]['k'] = 4", "[1, [2, {'k': 4}]]"),
                      ("[1]", "G[0].append(2); G[0].pop()", "[1]"), ("{'a': [1]}", "G[0]['a'] = [1]", "{'a': [1]}")):
        out.append({"first": a, "second": b, "cmp1": f"{a} == site()", "cmp2": f"{b} == site()", "mut": mut})
        if a.startswith("["):
            out.append({"first": a, "second": b, "cmp1": "3 in site()", "cmp2": "3 in site()", "mut": mut})
    # the argument evaluates to an instance of a SUBCLASS with the same fields, to an equal value of another type, to a value whose non-default fields moved
    for a, b in (("Event(a=1)", "AuditEvent(a=1)"), ("[Event(a=1)]", "[AuditEvent(a=1)]"), ("{'k': Event(a=1)}", "{'k': AuditEvent(a=1)}"), ("'red'", "Color.red"), ("1", "True"), ("[1]", "[True]"),
                 ("Point(x=3, y=0)", "Point(x=0, y=3)"), ("Point(x=3)", "Point(y=3)"), ("[Point(x=3, y=0, tags=[1])]", "[Point(x=3, y=0, labels=[1])]"),
                 ("NT(x=3, y=0)", "NT(x=0, y=3)"), ("Point(x=3, y=0)", "Point(x=3, y=0)"), ("NT(x=3)", "NT(x=3, y=0)")):
        out.append({"first": a, "second": b, "cmp1": f"{a} == site()", "cmp2": f"{b} == site()", "mut": f"G[0] = {b}", "same": a == b or (a, b) == ("NT(x=3)", "NT(x=3, y=0)")})
    # the KEYS of a dict display are part of the value too
    for a, b in (("{'a': 1}", "{'b': 1}"), ("{'a': 1, 'z': 2}", "{'b': 1, 'z': 2}"), ("[{'a': [1]}]", "[{'b': [1]}]"), ("{(1, 0): 'v'}", "{(2, 0): 'v'}"), ("{'a': 1, 'b': 2}", "{'b': 2, 'a': 1}")):
        out.append({"first": a, "second": b, "cmp1": f"{a} == site()", "cmp2": f"{b} == site()", "mut": f"G[0] = {b}"})
    return out


DYNAMIC = [
    # the documented way to have a part that changes between evaluations: Is(...); every comparison must hold and nothing may raise
    "for i in range(3):\n        R.append(snapshot({'a': Is(i)})['a'] == i)",
    "for i in range(3):\n        R.append([i, 5] == snapshot([Is(i), 5]))",
    "for i in range(3):\n        R.append(i in snapshot([Is(i), 9]))",
    "for i in range(3):\n        R.append({'k': i} == snapshot({'k': Is(i)}))",
    "for i in range(3):\n        s = snapshot({'a': {'b': Is(i)}, 'c': 1})\n        R.append(s['a']['b'] == i)\n        R.append(s['c'] == 1)",
    "for i in range(2):\n        for j in range(2):\n            R.append(snapshot({'a': Is(i), 'b': Is(j)})['b'] == j)",
    "for i in range(3):\n        R.append((i, 'x') == snapshot((Is(i), 'x')))",
]
DYN_SRC = """from inline_snapshot import snapshot, Is
R = []

def test_a():
    try:
        {body}
    except BaseException as e:
        R.append(("exc", type(e).__name__))
"""


def run_dynamic(body):
    res = driver.run_inproc({"test_a.py": DYN_SRC.format(body=body.replace("\n", "\n    "))}, ())
    return {"R": res["R"].get("test_a.py"), "after": res["files"]["test_a.py"].decode(), "session_exc": res["session_exc"]}


TWIN_SRC = """import os
from inline_snapshot import snapshot


def test_a():
    v = int(open(os.path.join(os.path.dirname(__file__), "data.txt")).read())
    assert v == snapshot()
    for x in (v, v + 1):
        assert x <= snapshot()
"""


def run_twins(flags):
    """two textually identical test modules in different directories: two call sites each, which must stay independent"""
    files = {"a/test_same.py": TWIN_SRC, "a/data.txt": "1", "b/test_same.py": TWIN_SRC, "b/data.txt": "20"}
    res = driver.run_inproc(files, flags)
    return {"a": res["files"]["a/test_same.py"].decode(), "b": res["files"]["b/test_same.py"].decode(), "session_exc": res["session_exc"], "tests": res["tests"]}


# the hand-written argument holds an f-string whose value changes between the evaluations (an f-string is no Is(): the stored value would silently go stale)
REEVAL_F = """from inline_snapshot import snapshot
R = []
G = [{first}]

def site():
    return snapshot({arg})

def test_a():
    try:
        R.append(("ok", {cmp1}))
        G[0] = {second}
        R.append(("ok", {cmp2}))
    except BaseException as e:
        R.append(("exc", type(e).__name__))
"""


def reeval_fstring_cases():
    out = []
    for arg, val in (("f'item {G[0]}'", "'item %s'"), ("[f'item {G[0]}', 'other']", "['item %s', 'other']"), ("{'k': f'item {G[0]}'}", "{'k': 'item %s'}"),
                     ("(1, [f'{G[0]}'])", "(1, ['%s'])")):
        for second in ("'b'", "'a'"):
            out.append({"first": "'a'", "second": second, "arg": arg, "cmp1": f"{val % 'a'} == site()", "cmp2": f"{val % second.strip(chr(39))} == site()", "fstring": True})
    out.append({"first": "'a'", "second": "'b'", "arg": "f'item {G[0]}'", "cmp1": "'item' <= site()", "cmp2": "'item' <= site()", "fstring": True})
    return out


# sub-snapshots s[key] that are fetched several times BEFORE they are compared (pairs built first, compared later): every comparison counts
COLLECTED = [
    ("    s = snapshot()\n    cases = [(v, s['b']) for v in (30, 55, 44)]\n    for v, snap in cases:\n        assert v <= snap\n", ("create",), {"b": 55}),
    ("    s = snapshot()\n    cases = [(v, s['m']) for v in (30, 47, 44)]\n    for v, snap in cases:\n        assert v in snap\n", ("create",), {"m": [30, 47, 44]}),
    ("    s = snapshot({'b': 40})\n    cases = [(v, s['b']) for v in (30, 55, 44)]\n    for v, snap in cases:\n        assert v <= snap\n", ("fix",), {"b": 55}),
    ("    s = snapshot()\n    a, b, c = s['x'], s['y'], s['x']\n    assert 3 >= a\n    assert 9 == b\n    assert 1 >= c\n", ("create",), {"x": 1, "y": 9}),
    ("    s = snapshot()\n    first = s['k']\n    again = s['k']\n    assert first is again\n    assert 5 == again\n", ("create",), {"k": 5}),
]


def run_collected(item):
    body, flags, want = item
    src = "from inline_snapshot import snapshot\n\n\ndef test_a():\n" + body
    res = driver.run_inproc({"test_a.py": src}, flags)
    after = res["files"]["test_a.py"].decode()
    out = {"source": src, "after": after, "session_exc": res["session_exc"], "tests": [(t[1], t[2][:200]) for t in res["tests"]], "got": None}
    try:
        call = snapshot_calls(after)[0]
        out["got"] = eval(compile(ast.Expression(call.args[0]), "<a>", "eval"), {}) if call.args else None
    except Exception as e:  # noqa
        out["error"] = f"{type(e).__name__}: {e}"
    return out


# several files in one session: a wide replacement in one file (a long string that is fixed) and call sites at the same line / column / character offsets in
# another file - every site keeps its own state and its own changes
LONG_OLD = "".join(f"row {i:03d}: value {i * 7}\\n" for i in range(60))
MULTI_A = 'from inline_snapshot import snapshot\n\n\ndef test_report():\n    assert "new report" == snapshot("' + LONG_OLD + '")\n'
MULTI_B = """from inline_snapshot import snapshot


def test_numbers():
    for v in (3, 9, 4):
        assert v <= snapshot(5)
    for v in (1, 2):
        assert v in snapshot([1, 7])
    s = snapshot({"a": 1})
    assert s["a"] == 2
    assert s["b"] == 5
    assert 7 == snapshot()
    assert "ab" == snapshot("zz")
"""
MULTI_WANT = {("create", "fix", "trim", "update"): [9, [1, 2], {"a": 2, "b": 5}, 7, "ab"], ("fix",): [9, [1, 7, 2], {"a": 2}, None, "ab"], ("create", "fix"): [9, [1, 7, 2], {"a": 2, "b": 5}, 7, "ab"],
              ("fix", "trim"): [9, [1, 2], {"a": 2}, None, "ab"]}


def run_multi(flags):
    out = {}
    for order in (("test_a_report.py", "test_b_numbers.py"), ("test_z_report.py", "test_b_numbers.py")):
        res = driver.run_inproc({order[0]: MULTI_A, order[1]: MULTI_B}, flags)
        after = res["files"][order[1]].decode()
        got = []
        try:
            for c in snapshot_calls(after):
                got.append(eval(compile(ast.Expression(c.args[0]), "<a>", "eval"), {}) if c.args else None)
        except Exception as e:  # noqa
            got = f"{type(e).__name__}: {e}"
        out[order[0]] = {"got": got, "session_exc": res["session_exc"], "report": res["files"][order[0]].decode()[-60:]}
    return out


def run_reeval(case):
    if case.get("fstring"):
        src = REEVAL_F.format(**{k: v for k, v in case.items() if k != "fstring"})
        res = driver.run_inproc({"test_a.py": src}, ())
        return {"R": res["R"].get("test_a.py"), "after": res["files"]["test_a.py"].decode(), "source": src, "session_exc": res["session_exc"]}
    src = REEVAL.format(**case)
    res = driver.run_inproc({"test_a.py": src}, ())
    return {"R": res["R"].get("test_a.py"), "after": res["files"]["test_a.py"].decode(), "source": src, "session_exc": res["session_exc"]}


def run(ctx: Ctx):
    ctx.coverage["rule"] = (
        "programs with 2-7 call sites placed as helper functions (re-evaluated on every use), locals, module-level snapshots and two calls on one line; "
        "their 0-6 operations each are executed in a random interleaving inside one test; per-step results, total counters, per-site reported categories and "
        "per-site values of the rewritten file vs Model/Sites.v (table of Model/SnapOps.v sites) evaluated in Coq; independent aggregation oracle "
        "(extreme / union of members / union of keys of the site's own observations); re-evaluation with a changed argument must raise UsageError. "
        "non-trivial = >= 2 sites with >= 1 operation each")
    proof_step(ctx)
    n = 400 if not ctx.thorough else 4000
    progs = [gen_program(ctx.rng) for _ in range(n)]
    outs = pmap(run_program, progs, chunksize=4)
    terms, idx = [], []
    for i, (p, o) in enumerate(zip(progs, outs)):
        active = sum(1 for s in p["sites"] if s["ops"])
        ctx.count(("prog", o["source"], p["flags"]), active >= 2)
        ctx.dist("sites=%d" % len(p["sites"]))
        for s in p["sites"]:
            ctx.dist("style=" + s["style"])
        if o.get("session_exc") or o.get("module_exc") or "error" in o:
            ctx.report(f"program failed: {o.get('session_exc') or o.get('module_exc') or o.get('error')}", {"kind": "prog", "prog": p, "source": o["source"]})
            continue
        why = aggregate_oracle(p, o)
        if why:
            ctx.report("C14 oracle: " + why, {"kind": "prog", "prog": p, "source": o["source"], "after": o["after"]})
            continue
        try:
            terms.append(g_mcase(p, o))
            idx.append(i)
        except ValueError as e:
            ctx.report(f"observation outside the model universe: {e}", {"kind": "prog", "prog": p, "source": o["source"], "after": o["after"]}, no_input=True, kind="correspondence")
    bad = coq_eval_shards(ctx, "sites", "Model.SnapOps Model.Sites Corr.SitesCorr", "mcase", terms, "mmismatches", chunk=100)
    ctx.coverage["traces_validated_against_impl"] += len(terms)
    ctx.coverage["correspondence"]["sites"] = {"programs": len(terms), "mismatches": len(bad)}
    for j in bad[:10]:
        p, o = progs[idx[j]], outs[idx[j]]
        ctx.report(f"Model/Sites.v and implementation differ (aggregation oracle silent): results={o['results']} counters=({o['missing']},{o['incorrect']}) per_site={o['per_site']}",
                   {"kind": "prog", "prog": p, "source": o["source"], "after": o["after"]}, no_input=True, kind="correspondence")
    ctx.sample({"program": outs[0]["source"], "flags": progs[0]["flags"], "per_site": outs[0].get("per_site")})
    # re-evaluation
    for it, o in zip(COLLECTED, pmap(run_collected, COLLECTED, chunksize=1)):
        ctx.count(("collected", it[0], it[1]), True)
        if o["session_exc"] or "error" in o or any(t[1] != "ok" for t in o["tests"]) or o["got"] != it[2]:
            ctx.report(f"sub-snapshots fetched before they are compared: with {it[1]} the snapshot holds {o['got']}, the aggregate of all comparisons is {it[2]} "
                       f"(tests {o['tests']}, session {o['session_exc']})", {"kind": "collected", "body": it[0], "flags": list(it[1])})
    ctx.coverage["oracle"]["collected_subsnapshot_cases"] = len(COLLECTED)
    for fl, o in zip(MULTI_WANT, pmap(run_multi, list(MULTI_WANT), chunksize=1)):
        ctx.count(("multi-file", fl), True)
        for name, r in o.items():
            if r["session_exc"] or r["got"] != MULTI_WANT[fl] or 'snapshot("new report")' not in r["report"]:
                ctx.report(f"two files in one session ({name} holds a wide replacement): with {fl} the sites of test_b_numbers.py hold {r['got']}, their own observations give {MULTI_WANT[fl]} "
                           f"(session {r['session_exc']}, report file ends with {r['report']!r})", {"kind": "multi", "flags": list(fl)})
    ctx.coverage["oracle"]["multi_file_cases"] = 2 * len(MULTI_WANT)
    rc = reeval_cases() + reeval_fstring_cases()
    for c, o in zip(rc, pmap(run_reeval, rc)):
        ctx.count(("reeval", repr(c)), True)
        R = o["R"] or []
        changed = c["first"] != c["second"] and not c.get("same")
        if changed:
            if not R or R[-1] != ("exc", "UsageError"):
                ctx.report(f"argument re-evaluates from {c['first']} to {c['second']}: expected UsageError, got {R}", {"kind": "reeval", "case": c},
                           tag="F-18" if R and R[-1] == ("exc", "AssertionError") else None)
            elif o["after"] != o["source"]:
                ctx.report("file changed after a rejected re-evaluation", {"kind": "reeval", "case": c})
        elif any(r[0] == "exc" for r in R):
            ctx.report(f"unchanged argument rejected: {R}", {"kind": "reeval", "case": c})
    ctx.coverage["oracle"]["reeval_cases"] = len(rc)
    # nested arguments with managed holes, Is() holes and dict keys, evaluated twice: usage error or refreshed value vs Model/ReEval.v
    from .. import reevalcorr
    reevalcorr.check_part(ctx, 300 if not ctx.thorough else 4000, "C14")
    tw = run_twins(("create",))
    ctx.count(("twins",), True)
    if tw["session_exc"] or "snapshot(1)" not in tw["a"] or "snapshot(2)" not in tw["a"] or "snapshot(20)" not in tw["b"] or "snapshot(21)" not in tw["b"]:
        ctx.report(f"two identical test modules in different directories are not tracked independently: session {tw['session_exc']}; a: {tw['a'][-120:]!r} b: {tw['b'][-120:]!r}",
                   {"kind": "twins"})
    for body, o in zip(DYNAMIC, pmap(run_dynamic, DYNAMIC)):
        ctx.count(("dynamic", body), True)
        if o["session_exc"] or not o["R"] or any(r is not True for r in o["R"]):
            ctx.report(f"a snapshot with an Is(...) part evaluated repeatedly: comparisons gave {o['R']} (session: {o['session_exc']}) for `{body}`", {"kind": "dynamic", "body": body})
    ctx.coverage["oracle"]["dynamic_part_loops"] = len(DYNAMIC)
    # the aggregate of a call site evaluated several times is built from the values AS THEY WERE COMPARED: the test mutates the compared object (or an
    # object inside a compared tuple / namedtuple) between the evaluations
    from . import c17
    ms = [c17.gen_sched(ctx.rng, i) for i in range(24 if not ctx.thorough else 240)]
    ms = [s_ for s_ in ms if s_["op"] in ("in", "le", "ge", "getitem", "eq_twice")]
    for s_, o in zip(ms, pmap(c17.run_sched, ms, chunksize=4)):
        ctx.count(("mutation", s_["source"]), True)
        why = c17.judge_sched(s_, o)
        if why:
            ctx.report("C14 oracle: the aggregate over the evaluations of one call site is not built from the values that were compared: " + why,
                       {"kind": "sched", "source": s_["source"], "op": s_["op"], "after": o.get("after")})
    ctx.coverage["oracle"]["mutation_schedules"] = len(ms)


def replay(ctx: Ctx, data):
    case = data["case"]
    if case.get("kind") == "twins":
        tw = run_twins(("create",))
        print(tw)
        return not tw["session_exc"] and "snapshot(1)" in tw["a"] and "snapshot(2)" in tw["a"] and "snapshot(20)" in tw["b"] and "snapshot(21)" in tw["b"]
    if case.get("kind") == "sched":
        from . import c17
        s_ = {"op": case["op"], "source": case["source"]}
        why = c17.judge_sched(s_, c17.run_sched(s_))
        print("oracle:", why)
        return why is None
    if case.get("kind") == "collected":
        it = [x for x in COLLECTED if x[0] == case["body"] and list(x[1]) == case["flags"]][0]
        o = run_collected(it)
        print(o)
        return not (o["session_exc"] or "error" in o or any(t[1] != "ok" for t in o["tests"]) or o["got"] != it[2])
    if case.get("kind") == "dynamic":
        o = run_dynamic(case["body"])
        print(o)
        return not o["session_exc"] and bool(o["R"]) and all(r is True for r in o["R"])
    if case.get("kind") == "reeval-nested":
        from .. import reevalcorr
        return reevalcorr.replay_case(case["case"])
    if case.get("kind") == "multi":
        fl = tuple(case["flags"])
        o = run_multi(fl)
        print(o)
        return all(not r["session_exc"] and r["got"] == MULTI_WANT[fl] for r in o.values())
    if case.get("kind") == "reeval":
        o = run_reeval(case["case"])
        print(o["R"])
        return bool(o["R"]) and o["R"][-1] == ("exc", "UsageError")
    from .c05 import _tup
    p = case["prog"]
    p["flags"] = tuple(p["flags"])
    for s in p["sites"]:
        s["old"] = _tup(s["old"])
        s["ops"] = [_tup(x) for x in s["ops"]]
    p["trace"] = [(k, _tup(op)) for k, op in p["trace"]]
    p["pairs"] = [tuple(x) for x in p["pairs"]]
    o = run_program(p)
    print(o["source"], o.get("after"), o.get("per_site"), sep="\n")
    if o.get("session_exc") or "error" in o:
        return False
    if aggregate_oracle(p, o):
        return False
    bad = coq_eval_shards(ctx, "sites", "Model.SnapOps Model.Sites Corr.SitesCorr", "mcase", [g_mcase(p, o)], "mmismatches")
    return not bad
