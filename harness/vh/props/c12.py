"""C12 - every string is written as a literal that reads back identically."""
from __future__ import annotations

import ast
import itertools

from .. import driver
from ..core import Ctx, coq_eval_shards, g_pair, g_str, pmap, proof_step

ALPHA = ["a", " ", "\n", "\r", "\t", "'", '"', "\\", "\x00", "é", "\u2028", "\x7f", "\U0001F40D", "\ud800", "\xad", "n", "x"]
CHUNKS = ALPHA + ["'''", '"""', " \n", "\t\n", " \t\n", "\\\n", "\r\n", "\\'", '\\"', "''", '""',
                  # text that looks like code (a word, a blank, punctuation; numbers; brackets): nothing that tidies up generated CODE may reach into a literal
                  "a = 1", "x : y", "f (", "n ,", "[ a ]", "{ x }", "a )", "1 ,2", "k =v"]


def nonprintable_ranges():
    out, start = [], None
    for c in range(0x110000):
        p = chr(c).isprintable()
        if not p and start is None:
            start = c
        if p and start is not None:
            out.append((start, c - 1))
            start = None
    if start is not None:
        out.append((start, 0x10FFFF))
    return out


def gen_strings(ctx: Ctx):
    rng = ctx.rng
    L = 3 if not ctx.thorough else 4
    strs = [""]
    alpha = ALPHA if not ctx.thorough else ALPHA[:13]
    for k in range(1, L + 1):
        a = alpha if k <= 3 else alpha[:9]
        strs += ["".join(t) for t in itertools.product(a, repeat=k)]
    nexh = len(strs)
    nrand = 2500 if not ctx.thorough else 30000
    for _ in range(nrand):
        n = rng.randint(2, 14)
        if rng.random() < 0.8:
            strs.append("".join(rng.choice(CHUNKS) for _ in range(n)))
        else:
            strs.append("".join(chr(rng.choice([rng.randrange(0x20, 0x7f), rng.randrange(0x80, 0x3000), rng.randrange(0x10000, 0x110000), 10, 39, 34]))
                                for _ in range(n)))
    # big strings (captured output, generated source): whatever is done differently above a size, the literal still has to read back
    # (round-9 miss C12-92: another escaping path for strings of 5000 characters and more); text with backslashes in front of n / t / quotes
    big_chunks = CHUNKS + ["\\n", "\\t", "\\'", '\\"', "C:\\new\\table", "print('a\\n')", "line\n", "line \n", "word ", "é", "\x1b[0m"]
    for size in ([1200, 5200, 9000, 21000] if not ctx.thorough else [1200, 3000, 5200, 7000, 9000, 15000, 21000, 33000, 50000, 70000]):
        for variant in range(2):
            parts, n = [], 0
            while n < size:
                c = rng.choice(big_chunks)
                parts.append(c)
                n += len(c)
            t = "".join(parts)
            strs.append(t if variant == 0 else t.replace("\n", " ") + "\\n")      # several lines / one line
    return strs, nexh


def literal_of(s):
    """the literal text value_to_token writes for s (a single STRING token)"""
    from inline_snapshot._utils import value_to_token
    toks = value_to_token(s)
    if len(toks) != 1 or toks[0].type != 3:
        raise AssertionError(f"not a single string token: {toks}")
    return toks[0].string


def classify_str(s):
    # F-17: both triple quotes inside, string ends with the quote kind that gets escaped
    if isinstance(s, str) and "'''" in s and '"""' in s and s and s[-1] in "'\"":
        return "F-17"
    return None


def corr_literals(ctx: Ctx):
    strs, nexh = gen_strings(ctx)
    cases, kept = [], []
    for s in strs:
        multi = ("\n" in s and s[-1] != "\n") or s.count("\n") > 1
        ctx.count(("str", s), nontrivial=(len(s) >= 2 and (multi or not s.isprintable() or "'" in s or '"' in s or "\\" in s)))
        ctx.dist("literal=" + ("triple" if multi else "single"))
        try:
            lit = literal_of(s)
        except Exception as e:  # noqa
            ctx.report(f"value_to_token({s!r}) raised {type(e).__name__}: {str(e)[:100]}", {"kind": "literal", "s": [ord(c) for c in s]}, tag=classify_str(s))
            continue
        try:
            back = ast.literal_eval(lit)
        except Exception as e:  # noqa
            back = e
        if back != s:
            ctx.report(f"literal {lit!r} for {s!r} evaluates to {back!r}", {"kind": "literal", "s": [ord(c) for c in s]}, tag=classify_str(s))
            continue
        cases.append(g_pair(g_str(s), g_str(lit)))
        kept.append((s, lit))
    nonp = nonprintable_ranges()
    # facts the decoder model relies on (TB-4): raw CR and NUL never appear in a literal
    for c in (13, 0, 10):
        if chr(c).isprintable():
            ctx.report(f"chr({c}) is printable in this interpreter: decoder model assumption broken", {"kind": "printable", "c": c}, no_input=True, kind="correspondence")
    pre = "Definition nonp : list (N * N) := [" + ";".join(f"({a},{b})" for a, b in nonp) + "]%N.\n"
    bad = coq_eval_shards(ctx, "strlit", "Model.StrLit Corr.StrLitCorr", "list N * list N", cases, "mismatches nonp", chunk=350, preamble=pre)
    ctx.coverage["traces_validated_against_impl"] += len(cases)
    ctx.coverage["correspondence"]["str_literals"] = {"strings": len(cases), "exhaustive_part": nexh, "mismatches": len(bad), "nonprintable_ranges": len(nonp)}
    ctx.coverage["exhaustive_over_alphabet"] = {"alphabet": [ord(c) for c in ALPHA], "max_len": 3 if not ctx.thorough else 4}
    for j in bad[:10]:
        s, lit = kept[j]
        ctx.report(f"Model/StrLit.v and implementation differ on {s!r}: implementation writes {lit!r} (it evaluates back correctly)",
                   {"kind": "literal", "s": [ord(c) for c in s]}, no_input=True, kind="correspondence")
    ctx.sample({"string": kept[-1][0], "literal": kept[-1][1]})
    # bytes
    rng = ctx.rng
    bs = [bytes(t) for k in range(0, 3) for t in itertools.product([0, 9, 10, 13, 34, 39, 92, 97, 127, 128, 255], repeat=k)]
    bs += [bytes(rng.randrange(256) for _ in range(rng.randint(1, 12))) for _ in range(500 if not ctx.thorough else 5000)]
    bcases, bkept = [], []
    from inline_snapshot._utils import value_to_token
    for b in bs:
        ctx.count(("bytes", b), nontrivial=len(b) >= 2)
        toks = value_to_token(b)
        lit = toks[0].string if len(toks) == 1 else None
        if lit is None or ast.literal_eval(lit) != b:
            ctx.report(f"bytes literal {lit!r} for {b!r} does not evaluate back", {"kind": "bytes", "b": list(b)})
            continue
        bcases.append(g_pair(g_str(b), g_str(lit)))
        bkept.append((b, lit))
    bad = coq_eval_shards(ctx, "bytes", "Model.StrLit Corr.StrLitCorr", "list N * list N", bcases, "bmismatches", chunk=600)
    ctx.coverage["traces_validated_against_impl"] += len(bcases)
    ctx.coverage["correspondence"]["bytes_literals"] = {"values": len(bcases), "mismatches": len(bad)}
    for j in bad[:5]:
        ctx.report(f"Model/StrLit.v and implementation differ on {bkept[j][0]!r}: {bkept[j][1]!r}", {"kind": "bytes", "b": list(bkept[j][0])}, no_input=True, kind="correspondence")
    # the decoder model vs CPython on hand-written literal spellings (validates TB-4 lexer model)
    lits = []
    for s, lit in kept[: 1500 if not ctx.thorough else 15000]:
        for alt in (repr(s), '"' + s.replace("\\", "\\\\").replace('"', '\\"').replace("\n", "\\n").replace("\r", "\\r") + '"'):
            try:
                v = ast.literal_eval(alt)
            except Exception:  # noqa
                continue
            if isinstance(v, str) and "\\N" not in alt and not any(f"\\{d}" in alt for d in "01234567"):
                lits.append((alt, v))
    bad = coq_eval_shards(ctx, "decode", "Model.StrLit Corr.StrLitCorr", "list N * list N", [g_pair(g_str(a), g_str(v)) for a, v in lits], "dmismatches", chunk=600)
    ctx.coverage["traces_validated_against_impl"] += len(lits)
    ctx.coverage["correspondence"]["decoder_vs_literal_eval"] = {"literals": len(lits), "mismatches": len(bad)}
    for j in bad[:5]:
        ctx.report(f"decoder model and ast.literal_eval differ on {lits[j][0]!r}", {"kind": "decoder", "lit": lits[j][0]}, no_input=True, kind="correspondence")


# ----------------------------------------------------------------------------- end-to-end oracle

PLACEMENTS = ("top", "list", "dict", "tuple", "dc")
SETUPS = ("black", "noblack", "fmtcmd", "stripcmd", "crlfcmd")
# a format-command that does what many formatters / editors do to every line: strip trailing whitespace
STRIP_CMD = "/venv/bin/python -c \"import sys; sys.stdout.write(chr(10).join(l.rstrip(chr(32) + chr(9)) for l in sys.stdin.read().split(chr(10))))\""
# a test file with \\r\\n line endings and a format-command that writes \\r\\n line endings (ruff with line-ending = "cr-lf", unix2dos)
CRLF_CMD = "/venv/bin/python -c \"import sys; d = sys.stdin.buffer.read().replace(bytes([13, 10]), bytes([10])).replace(bytes([10]), bytes([13, 10])); sys.stdout.buffer.write(d)\""
HDR = "from inline_snapshot import snapshot\nfrom dataclasses import dataclass\n\n@dataclass\nclass DC:\n    a: object\n    b: object = 1\n\n"


def wrap(placement, lit):
    return {"top": lit, "list": f"[1, {lit}]", "dict": f"{{'k': {lit}, {lit}: 2}}", "tuple": f"({lit},)", "dc": f"DC(a={lit})"}[placement]


def run_e2e(item):
    strings, placement, setup = item[:3]
    mode = item[3] if len(item) > 3 else "create"
    # the observed values are written with repr() in the test; one test function per string; the snapshot is empty (create) or holds
    # another string at the same place (fix replaces it)
    old_arg = "" if mode == "create" else wrap(placement, "'zz'")
    lines = [HDR]
    flags = ("create", "fix")
    for i, s in enumerate(strings):
        if mode == "bound":
            # the string becomes the new bound of a <= snapshot (fix of a bound: another code path than == )
            lines.append(f"def test_{i}():\n    assert {repr(s)} <= snapshot('')\n")
        elif mode == "in_update":
            # a member written in another spelling (implicit concatenation) is rewritten by update
            lines.append(f"def test_{i}():\n    assert {repr(s)} in snapshot(['' {repr(s)}])\n")
            flags = ("update",)
        elif mode == "never_update":
            # a snapshot that is never compared, written in another spelling, is rewritten by update
            lines.append(f"def test_{i}():\n    s = snapshot('' {repr(s)})\n")
            flags = ("update",)
        else:
            lines.append(f"def test_{i}():\n    assert {wrap(placement, repr(s))} == snapshot({old_arg})\n")
    src = "\n".join(lines)
    kw = {}
    if setup == "noblack":
        kw["block_black"] = True
    elif setup == "fmtcmd":
        kw["format_command"] = "/venv/bin/python -m black -q -"
    elif setup == "stripcmd":
        kw["format_command"] = STRIP_CMD
    elif setup == "crlfcmd":
        kw["format_command"] = CRLF_CMD
        src = src.replace("\n", "\r\n")
    res = driver.run_inproc({"test_a.py": src}, flags, **kw)
    out = {"session_exc": res["session_exc"], "module_exc": res["module_exc"], "tests": res["tests"], "bad": []}
    after = res["files"]["test_a.py"].decode("utf-8", "surrogateescape")
    out["after_tail"] = after[-600:]
    try:
        tree = ast.parse(after)
        ns = {}
        exec(HDR, ns)
        funcs = {n.name: n for n in tree.body if isinstance(n, ast.FunctionDef)}
        for i, s in enumerate(strings):
            f = funcs[f"test_{i}"]
            call = [n for n in ast.walk(f) if isinstance(n, ast.Call) and isinstance(n.func, ast.Name) and n.func.id == "snapshot"][0]
            if not call.args:
                out["bad"].append((i, "snapshot still empty"))
                continue
            got = eval(compile(ast.Expression(call.args[0]), "<arg>", "eval"), dict(ns))
            want = [s] if mode == "in_update" else (s if mode in ("bound", "never_update") else eval(wrap(placement, repr(s)), dict(ns)))
            if got != want or repr(got) != repr(want):
                out["bad"].append((i, f"written {ast.get_source_segment(after, call.args[0])!r} evaluates to {got!r}"))
    except Exception as e:  # noqa
        out["error"] = f"{type(e).__name__}: {e}"
    return out


def docstring_like(s, placement):
    """F-07: a lone top-level string is formatted by black as a docstring (blank stripping, quote handling)"""
    return placement == "top"


def e2e(ctx: Ctx):
    rng = ctx.rng
    pool = [s for s in ["".join(t) for k in range(0, 3) for t in itertools.product(ALPHA[:12], repeat=k)]]
    pool += ["".join(rng.choice(CHUNKS) for _ in range(rng.randint(2, 10))) for _ in range(300 if not ctx.thorough else 3000)]
    pool = [s for s in pool if "\ud800" not in s]
    rng.shuffle(pool)
    per = 20
    items = []
    nitems = 48 if not ctx.thorough else 400
    for k in range(nitems):
        strings = pool[(k * per) % len(pool):][:per]
        if len(strings) < per:
            strings = pool[:per]
        items.append((strings, PLACEMENTS[k % len(PLACEMENTS)], SETUPS[(k // len(PLACEMENTS)) % len(SETUPS)], "create" if (k // (len(PLACEMENTS) * len(SETUPS))) % 2 == 0 else "fix"))
    # the other code paths that write a string: the bound of <= (fix), a member of `in` (update), a never-compared snapshot (update)
    for k, mode in enumerate(("bound", "in_update", "never_update") * (3 if not ctx.thorough else 12)):
        strings = [" a ", "a ", " a", "a'\"", "x\"", "it's \"q\" ", "\\' "] + [s_ for s_ in pool[(7 + k * per) % len(pool):][:per] if s_]
        items.append((strings, "top", SETUPS[(k // 3) % len(SETUPS)], mode))
    outs = pmap(run_e2e, items, chunksize=1)
    n = 0
    for (strings, placement, setup, mode), o in zip(items, outs):
        ctx.dist(f"e2e.{placement}.{setup}.{mode}", len(strings))
        for s in strings:
            ctx.count(("e2e", s, placement, setup), nontrivial=len(s) >= 1)
        n += len(strings)
        if o.get("session_exc") or o.get("module_exc") or "error" in o:
            ctx.report(f"{mode} run failed ({placement}, {setup}): {o.get('session_exc') or o.get('module_exc') or o.get('error')}",
                       {"kind": "e2e", "strings": [[ord(c) for c in s] for s in strings], "placement": placement, "setup": setup, "mode": mode, "after": o.get("after_tail")})
            continue
        for i, why in o["bad"]:
            s = strings[i]
            ctx.report(f"string {s!r} as {placement} value with {setup} ({mode}): {why}",
                       {"kind": "e2e", "strings": [[ord(c) for c in s]], "placement": placement, "setup": setup, "mode": mode},
                       tag=("F-07" if placement == "top" and setup != "noblack" else None) or classify_str(s))
    ctx.coverage["oracle"]["e2e_strings"] = n
    ctx.sample({"e2e": {"string": items[0][0][0], "placement": items[0][1], "setup": items[0][2]}})


LOCALES = {"utf8": {"LC_ALL": "C.UTF-8", "LANG": "C.UTF-8"},
           "c_no_utf8_mode": {"LC_ALL": "C", "LANG": "C", "PYTHONUTF8": "0", "PYTHONCOERCECLOCALE": "0"},
           "posix_utf8_mode": {"LC_ALL": "POSIX", "LANG": "POSIX", "PYTHONUTF8": "1"},
           "latin1_name": {"LC_ALL": "en_US.ISO-8859-1", "LANG": "en_US.ISO-8859-1", "PYTHONUTF8": "0", "PYTHONCOERCECLOCALE": "0"}}
LOCALE_VALUES = ["gr\xfc\xdfe", "\u65e5\u672c\u8a9e", "smile \U0001f600 end", "first line \xe4\nsecond line \u0431\n\u4e09", "plain ascii", ["\xe9", {"k\xf6y": "v\xe4lue\nnext"}],
                 ("\u03b1\u03b2\u03b3", "tab\there"), "\xa0nbsp \xad soft", {"\xfc": 1}]
IDENTITY_CMD = "/venv/bin/python -c \"import sys; sys.stdout.buffer.write(sys.stdin.buffer.read())\""


def run_locale_session(item):
    """a real session in a process whose locale / UTF-8 mode is given by the environment; the test file itself is pure ASCII (the values come from vals.py)"""
    import shutil
    loc, fmt = item
    d = driver.scratch_dir()
    try:
        files = {"vals.py": "VALUES = " + ascii(LOCALE_VALUES) + "\n",
                 "test_values.py": "from inline_snapshot import snapshot\nfrom vals import VALUES\n\n\n"
                 + "\n\n".join(f"def test_{i}():\n    assert VALUES[{i}] == snapshot()\n" for i in range(len(LOCALE_VALUES)))}
        if fmt:
            files["pyproject.toml"] = "[tool.inline-snapshot]\nformat-command = '" + IDENTITY_CMD + "'\n"
        driver.write_project(d, files)
        r = driver.run_pytest(d, ["--inline-snapshot=create"], env=dict(LOCALES[loc], PYTHONIOENCODING="utf-8"))
        after = (d / "test_values.py").read_bytes().decode("utf-8", "replace")
        bad = []
        try:
            tree = ast.parse(after)
            for n in tree.body:
                if isinstance(n, ast.FunctionDef):
                    i = int(n.name[5:])
                    call = [c for c in ast.walk(n) if isinstance(c, ast.Call) and isinstance(c.func, ast.Name) and c.func.id == "snapshot"][0]
                    if not call.args:
                        bad.append((i, "snapshot still empty"))
                        continue
                    got = ast.literal_eval(call.args[0])
                    if got != LOCALE_VALUES[i] or type(got) is not type(LOCALE_VALUES[i]):
                        bad.append((i, f"written {ast.get_source_segment(after, call.args[0])!r} evaluates to {got!r}"))
        except Exception as e:  # noqa
            bad.append((-1, f"rewritten file unusable: {type(e).__name__}: {e}"))
        return {"bad": bad, "rc": r["rc"], "tail": (r["stdout"][-1200:] + r["stderr"][-400:]), "infra": r.get("infra_error")}
    finally:
        shutil.rmtree(d, ignore_errors=True)


def locale_sessions(ctx: Ctx):
    from ..core import tmap
    items = [(loc, fmt) for loc in LOCALES for fmt in (False, True)]
    for (loc, fmt), o in zip(items, tmap(run_locale_session, items)):
        ctx.count(("locale", loc, fmt), True)
        ctx.dist(f"locale.{loc}.{'fmtcmd' if fmt else 'black'}")
        if o.get("infra"):
            raise RuntimeError("pytest session timed out twice (infrastructure)")
        if o["bad"]:
            i, why = o["bad"][0]
            ctx.report(f"string {LOCALE_VALUES[i]!r} created in a session with locale setting {loc} ({'format-command' if fmt else 'black'}): {why}",
                       {"kind": "locale", "locale": loc, "fmt": fmt, "output": o["tail"]})
    ctx.coverage["oracle"]["locale_sessions"] = len(items)


# ----------------------------------------------------------------------------- D: test files with a PEP 263 coding cookie (F-97)
COOKIE_VALUES = ["caf\xe9", "\u20acuro", "two\nlines \xe9\n", ["\xe4", "\u4e2d"], {"k\xfc": "v\U0001f40d"}, b"\xe9", "plain"]
COOKIES = {
    "latin-1": ("# -*- coding: latin-1 -*-\n", b""),
    "latin-1+byte": ("# -*- coding: latin-1 -*-\n", "# caf\xe9 in a comment\n".encode("latin-1")),      # the file is no valid UTF-8
    "cp1252": ("# coding: cp1252\n", "# price: 5 \u20ac\n".encode("cp1252")),
    "utf-8 cookie": ("# -*- coding: utf-8 -*-\n", "# caf\xe9\n".encode("utf-8")),
}


def run_cookie_session(kind):
    """create in a file whose encoding is declared by a coding cookie, then the same tests again without flags: the literals are read by Python with the
    declared encoding, so they have to be written in it (or escaped)"""
    import shutil
    d = driver.scratch_dir()
    try:
        head, extra = COOKIES[kind]
        body = ("from inline_snapshot import snapshot\nfrom vals import VALUES\n\n\n"
                + "\n\n".join(f"def test_{i}():\n    assert VALUES[{i}] == snapshot()\n" for i in range(len(COOKIE_VALUES))))
        driver.write_project(d, {"vals.py": "VALUES = " + ascii(COOKIE_VALUES) + "\n", "pyproject.toml": "[tool.inline-snapshot]\n",
                                 "test_values.py": head.encode("ascii") + extra + body.encode("ascii")})
        r1 = driver.run_pytest(d, ["--inline-snapshot=create"])
        r2 = driver.run_pytest(d, [])
        raw = (d / "test_values.py").read_bytes()
        return {"kind": kind, "rc1": r1["rc"], "rc2": r2["rc"], "outcomes2": r2.get("outcomes"), "tail1": (r1["stdout"][-500:] + r1["stderr"][-300:]),
                "tail2": r2["stdout"][-700:], "empty": raw.count(b"snapshot()"), "infra": r1.get("infra_error") or r2.get("infra_error")}
    finally:
        shutil.rmtree(d, ignore_errors=True)


def cookie_sessions(ctx: Ctx, only=None):
    from ..core import tmap
    kinds = [k for k in COOKIES if only in (None, k)]
    for o in tmap(run_cookie_session, kinds):
        ctx.count(("cookie", o["kind"]), True)
        if o.get("infra"):
            raise RuntimeError("pytest session timed out twice (infrastructure)")
        why = None
        if o["rc1"] not in (0, 1) or "INTERNALERROR" in o["tail1"] or "Traceback" in o["tail1"]:
            why = f"the create session ended with exit status {o['rc1']}: {o['tail1'][-300:]}"
        elif o["empty"]:
            why = f"{o['empty']} snapshots are still empty after the create session"
        elif o["rc2"] != 0:
            why = f"the values written by create do not read back: the next session (no flags) exits with {o['rc2']}: {o['tail2'][-400:]}"
        if why:
            ctx.report(f"strings created in a test file with the coding cookie `{o['kind']}`: {why}", {"kind": "cookie", "which": o["kind"]}, tag="F-97")
    ctx.coverage["oracle"]["coding_cookie_sessions"] = len(kinds)


def corr_encode(ctx: Ctx):
    """Model/StrLit.v encode_text vs str.encode(encoding, "backslashreplace") on the literals value_to_token writes (what SourceFile.rewrite does for files with a
    coding cookie since F-97), and the escaped literal read back"""
    from ..core import g_N
    rng = ctx.rng
    pool = ["a", " ", "'", '"', "\\", "\xe9", "\xff", "\u0100", "\u20ac", "\u4e2d", "\U0001f40d", "\x7f", "\x80", "\xa0", "\xad", "\u2028", "\ud800", "\t", "x=1",
            # several lines: the triple-quoted form (not covered by C12_backslashreplace_roundtrip_single_line: instances only)
            "\n", " \n", "\n", "'''", '"""']
    cases, kept = [], []
    for _ in range(400 if not ctx.thorough else 5000):
        s = "".join(rng.choice(pool) for _ in range(rng.randint(0, 8)))
        lit = literal_of(s)
        for codec, limit in (("latin-1", 256), ("ascii", 128)):
            enc = lit.encode(codec, "backslashreplace").decode(codec)
            ctx.count(("encode", s, codec), any(ord(c) >= limit for c in lit))
            try:
                back = ast.literal_eval(enc)
            except Exception as e:  # noqa
                back = e
            if back != s:
                ctx.report(f"the literal {lit!r} of {s!r}, encoded for a {codec} file with backslashreplace ({enc!r}), evaluates to {back!r}", {"kind": "literal", "s": [ord(c) for c in s]})
                continue
            cases.append(g_pair(g_str(s), g_str(lit), g_str(enc), g_N(limit)))
            kept.append((s, lit, enc, codec))
    bad = coq_eval_shards(ctx, "encode", "Model.StrLit Corr.StrLitCorr", "StrLitCorr.ecase", cases, "StrLitCorr.emismatches", chunk=400)
    ctx.coverage["traces_validated_against_impl"] += len(cases)
    ctx.coverage["correspondence"]["backslashreplace"] = {"cases": len(cases), "mismatches": len(bad)}
    for j in bad[:5]:
        s, lit, enc, codec = kept[j]
        ctx.report(f"Model/StrLit.v encode_text and str.encode({codec!r}, 'backslashreplace') differ on the literal {lit!r}: Python gives {enc!r}", {"kind": "literal", "s": [ord(c) for c in s]},
                   no_input=True, kind="correspondence")


def run(ctx: Ctx):
    ctx.coverage["rule"] = (
        "A: every string over a 17-symbol adversarial alphabet (quotes, backslash, LF, CR, TAB, NUL, DEL, soft hyphen, U+2028, astral, lone surrogate, blanks) "
        "up to length 3 (exhaustive) plus random strings of multi-character chunks (triple quotes, blank+LF, backslash+LF, CRLF) and random code points; the literal "
        "value_to_token writes vs Model/StrLit.v evaluated in Coq with the printable table regenerated from the running interpreter, and ast.literal_eval of it; "
        "bytes likewise; the decoder model vs ast.literal_eval on alternative spellings. B: end to end: create runs writing each string as top-level value and "
        "nested in list / dict (value and key) / tuple / dataclass, with black, with black blocked, with a format-command; the argument found in the rewritten file "
        "must evaluate to the string. C: real create sessions in processes with a UTF-8 locale, the C locale without UTF-8 mode, POSIX with UTF-8 mode and a latin-1 locale name, "
        "with black and with a format-command: non-ASCII strings (top level, nested, keys, triple-quoted) read back identically. non-trivial = length >= 2 and needs an escape / quote choice / triple quotes")
    ctx.assumptions += ["decoder model: raw CR / NUL are never emitted (checked: chr(13), chr(0) not printable)", "black and the format-command are exercised, not modelled"]
    proof_step(ctx)
    corr_literals(ctx)
    corr_encode(ctx)
    e2e(ctx)
    locale_sessions(ctx)
    cookie_sessions(ctx)


def replay(ctx: Ctx, data):
    case = data["case"]
    k = case.get("kind")
    if k == "literal":
        s = "".join(chr(c) for c in case["s"])
        try:
            lit = literal_of(s)
            print(repr(s), "->", lit)
            return ast.literal_eval(lit) == s
        except Exception as e:  # noqa
            print(type(e).__name__, e)
            return False
    if k == "cookie":
        o = run_cookie_session(case["which"])
        print(o)
        return o["rc1"] in (0, 1) and not o["empty"] and o["rc2"] == 0
    if k == "locale":
        o = run_locale_session((case["locale"], case["fmt"]))
        print(o)
        return not o["bad"]
    if k == "e2e":
        strings = ["".join(chr(c) for c in s) for s in case["strings"]]
        o = run_e2e((strings, case["placement"], case["setup"], case.get("mode", "create")))
        print(o)
        return not o["bad"] and not o.get("session_exc") and "error" not in o
    return True
