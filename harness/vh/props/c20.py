"""C20 - a formatter-clean test file stays formatter-clean."""
from __future__ import annotations

from .. import driver, proggen
from ..core import Ctx, coq_eval_shards, g_bool, g_list, g_nat, g_pair, pmap, proof_step
from .c03 import judge as c03_judge

PYPROJECTS = [
    None,
    "[tool.black]\nline-length = 60\n",
    "[tool.black]\nline-length = 120\nskip-magic-trailing-comma = true\n",
    "[tool.black]\nskip-string-normalization = true\n",
    "[tool.black]\npreview = true\nline-length = 100\n",
    # keys next to the four options: they must not disturb the supported ones (black accepts a major version as required-version; unstable = false does not
    # switch preview off)
    "[tool.black]\npreview = true\nunstable = false\n",
    "[tool.black]\nline-length = 70\nrequired-version = \"%s\"\n" % __import__("black").__version__.split(".")[0],
    # line lengths of OTHER tools in the same file are not black's
    "[tool.black]\nskip-magic-trailing-comma = false\n\n[tool.ruff]\nline-length = 120\n\n[tool.isort]\nline_length = 110\n\n[tool.pylint.format]\nmax-line-length = 115\n",
]


def black_mode(pyproject):
    """the mode black itself derives from the project's pyproject.toml (read by the harness, independent of _format.py)"""
    import black
    import tomllib
    mode = black.FileMode()
    if pyproject:
        conf = tomllib.loads(pyproject).get("tool", {}).get("black", {})
        if "line-length" in conf:
            mode.line_length = int(conf["line-length"])
        if conf.get("skip-magic-trailing-comma"):
            mode.magic_trailing_comma = False
        if conf.get("skip-string-normalization"):
            mode.string_normalization = False
        if conf.get("preview"):
            mode.preview = True
    return mode


def fmt(text, pyproject):
    import black
    return black.format_str(text, mode=black_mode(pyproject))


def gen_shrink_case(rng, i):
    """a formatter-clean file whose snapshot collection is exploded over several lines and shrinks so that it fits on one line again
    (what the formatter then does depends on its options, e.g. skip-magic-trailing-comma)"""
    n = rng.randint(18, 30)
    old = [rng.randint(100000, 999999) for _ in range(n)]
    k = rng.randint(1, 3)
    new = rng.choice([old[:k], old[-k:], [old[0], old[-1]]])      # keeping the last element keeps the trailing comma of the exploded display
    kind = rng.choice(["list", "tuple", "dict"])
    if kind == "dict":
        olds, news = repr({f"k{j}": v for j, v in enumerate(old)}), repr({f"k{j}": v for j, v in enumerate(new)})
    elif kind == "tuple":
        olds, news = repr(tuple(old)), repr(tuple(new))
    else:
        olds, news = repr(old), repr(new)
    src = f"from inline_snapshot import snapshot\n\n\ndef test_a():\n    assert {news} == snapshot({olds})\n"
    if rng.random() < 0.6:
        # below it, in the same file: a snapshot whose new value no longer fits on one line (the edits above moved it by several lines)
        grow = [rng.randint(100000, 999999) for _ in range(rng.randint(14, 22))]
        src += f"\n\ndef test_b():\n    assert {grow!r} == snapshot([{grow[0]}])\n"
    return {"source": src, "pyproject": PYPROJECTS[i % len(PYPROJECTS)], "flags": ("fix",), "setup": "black", "make_clean": True, "sites": []}


def gen_case(rng, i):
    if i % 8 == 7:
        return gen_shrink_case(rng, i // 8)
    opts = {"p_noncanon": 0.3, "p_same": 0.2, "p_missing": 0.3, "comments": True, "maxdepth": 4 if i % 3 == 0 else 3}
    p = proggen.gen_program(rng, rich=(i % 2 == 0), style="assert", nsites=rng.randint(1, 5), opts=opts, layout={"per_test": rng.choice([1, 2, 4])})
    p["pyproject"] = PYPROJECTS[i % len(PYPROJECTS)]
    p["flags"] = rng.choice(proggen.flag_subsets()[1:])
    p["setup"] = ["black", "black", "black", "fmtcmd", "noblack", "black_raises", "fmtcmd_fails"][i % 7]
    p["make_clean"] = i % 3 != 2
    p["strip_final_newline"] = p["make_clean"] and i % 5 == 1      # formatted exactly as black would, except for the missing final newline: NOT clean
    return p


def run_case(p):
    src = p["source"]
    if p["make_clean"]:
        try:
            src = fmt(src, p["pyproject"])
        except Exception:  # noqa
            pass
    if p.get("strip_final_newline"):
        src = src.rstrip("\n")
    kw = {"pyproject": p["pyproject"]}
    if p["setup"] == "fmtcmd":
        kw["format_command"] = "/venv/bin/python -m black -q -"
    elif p["setup"] == "fmtcmd_fails":
        kw["format_command"] = "/venv/bin/python -c 'import sys; sys.stderr.write(\"boom\"); sys.exit(3)'"
    elif p["setup"] == "noblack":
        kw["block_black"] = True
    elif p["setup"] == "black_raises":
        kw["black_raises"] = True
    r = driver.run_inproc({"test_a.py": src}, p["flags"], **kw)
    after = r["files"]["test_a.py"].decode("utf-8", "replace")
    out = {"before": src, "after": after, "session_exc": r["session_exc"], "problems": r["problems"], "raw": r["raw_new_code"].get("test_a.py"),
           "new_code": r["new_code"].get("test_a.py")}
    try:
        out["clean_before"] = fmt(src, p["pyproject"]) == src
        out["clean_after"] = fmt(after, p["pyproject"]) == after
        out["fmt_raw"] = fmt(out["raw"], p["pyproject"]) if out["raw"] is not None else None
        if not out["clean_after"]:
            once = fmt(after, p["pyproject"])
            out["black_unstable"] = fmt(once, p["pyproject"]) != once or (out["raw"] is not None and fmt(fmt(out["raw"], p["pyproject"]), p["pyproject"]) != fmt(out["raw"], p["pyproject"]))
    except Exception as e:  # noqa
        out["black_error"] = f"{type(e).__name__}: {str(e)[:200]}"
    return out


def judge(p, o):
    if o["session_exc"]:
        return f"session phase raised {o['session_exc']}"
    if "black_error" in o:
        return None
    if o["after"] == o["before"]:
        return None
    if p["setup"] == "black" and o["clean_before"] and not o["clean_after"] and not o.get("black_unstable"):
        return "the file was formatter-clean (black with the project's options) before the rewrite and is not afterwards"
    if p["setup"] in ("black", "noblack", "black_raises") and not o["clean_before"]:
        # not clean, no format-command: the layout outside the edited arguments is left alone
        why = c03_judge(o["before"].encode(), o["after"].encode(), False)
        if why:
            return "file was not formatter-clean and no format-command is configured, yet " + why
    if p["setup"] in ("black_raises", "fmtcmd_fails", "noblack") and o["raw"] is not None:
        if o["after"] != o["raw"]:
            return "the formatter failed but the written text is not the unformatted edit"
        if not o["problems"]:
            return "the formatter failed but no problem was reported"
    return None


def g_case(p, o):
    """ids: 0 = file content, 1 = edited text, 2 = fmt(file content), 3 = fmt(edited); equal texts share the smallest id"""
    texts = [o["before"]]
    fails = []
    tbl = []
    ok = p["setup"] in ("black", "fmtcmd")

    def tid(t):
        if t in texts:
            return texts.index(t)
        texts.append(t)
        return len(texts) - 1
    ed = tid(o["raw"])
    if ok:
        fsrc = fmt(o["before"], p["pyproject"])
        fed = fmt(o["raw"], p["pyproject"])
        tbl = [(0, tid(fsrc))] + ([(ed, tid(fed))] if ed != 0 else [])
    else:
        fails = sorted({0, ed})
    out = tid(o["new_code"])
    problem = bool(o["problems"])
    return g_pair(g_bool(p["setup"] in ("fmtcmd", "fmtcmd_fails")), g_list(tbl, lambda e: g_pair(g_nat(e[0]), g_nat(e[1]))), g_list(fails, g_nat), g_nat(0), g_nat(ed),
                  g_pair(g_nat(out), g_bool(problem)))


# ---- where the options come from: the pyproject.toml that `black <file>` itself would use for the test file - the nearest directory above the file whose
# pyproject.toml has a [tool.black] table - wherever the session is started from (real sessions)
WS_TEST = ("from inline_snapshot import snapshot\n\n\ndef test_a():\n    assert [111111, 222222, 333333, 444444, 555555, 666666, 777777] == snapshot([111111, 222222])\n\n\n"
           "def test_b():\n    assert {'alpha': 'value one', 'beta': 'value two', 'gamma': 'three'} == snapshot({'alpha': 'x'})\n")
WS_LAYOUTS = [
    # (name, files besides the test file, path of the test file, pyproject text whose [tool.black] applies)
    ("workspace: black options in the root, a metadata-only pyproject.toml in the package",
     {"pyproject.toml": "[tool.black]\nline-length = 60\n", "pkg/pyproject.toml": "[project]\nname = 'pkg'\nversion = '1'\n"}, "pkg/test_w.py", "[tool.black]\nline-length = 60\n"),
    ("single project", {"pyproject.toml": "[tool.black]\nline-length = 60\n"}, "tests/test_w.py", "[tool.black]\nline-length = 60\n"),
    ("the default configuration block of docs/configuration.md (format-command = \"\")",
     {"pyproject.toml": "[tool.black]\nline-length = 60\n\n[tool.inline-snapshot]\nhash-length=15\ndefault-flags=[\"report\"]\nformat-command=\"\"\nskip-snapshot-updates-for-now=false\n"},
     "tests/test_w.py", "[tool.black]\nline-length = 60\n"),
    ("preview with unstable = false, a long string value in a dict (wrapped in parentheses by the preview style only)",
     {"pyproject.toml": "[tool.black]\npreview = true\nunstable = false\n"}, "tests/test_w.py", "[tool.black]\npreview = true\n",
     "from inline_snapshot import snapshot\n\n\ndef get():\n    return {'name': 'n' * 12, 'text': 'long text ' * 9}\n\n\ndef test_a():\n    assert get() == snapshot({'name': 'nnnnnnnnnnnn', 'text': 'short'})\n"),
    ("required-version given as the major version",
     {"pyproject.toml": "[tool.black]\nline-length = 60\nrequired-version = \"%s\"\n" % __import__("black").__version__.split(".")[0]}, "tests/test_w.py", "[tool.black]\nline-length = 60\n"),
    ("line lengths of other tools (ruff, isort, pylint) next to a [tool.black] table without line-length: black's default applies",
     {"pyproject.toml": "[tool.black]\nskip-magic-trailing-comma = false\n\n[tool.ruff]\nline-length = 120\n\n[tool.isort]\nline_length = 110\n\n[tool.pylint.format]\nmax-line-length = 115\n"},
     "tests/test_w.py", "[tool.black]\nskip-magic-trailing-comma = false\n",
     "from inline_snapshot import snapshot\n\n\ndef test_a():\n    assert [111111, 222222, 333333, 444444, 555555] == snapshot([111111, 222222])\n\n\n"
     "def test_b():\n    assert {'alpha': 'value one', 'beta': 'value two'} == snapshot({'alpha': 'x'})\n"),
    ("nested project with its own black options", {"pyproject.toml": "[tool.black]\nline-length = 120\n", "sub/pyproject.toml": "[tool.black]\nline-length = 50\n"}, "sub/test_w.py",
     "[tool.black]\nline-length = 50\n"),
]
WS_STARTS = ("project root", "directory of the test file", "outside the project")


def run_ws(item):
    import shutil
    (name, files, test_path, applies, *rest), start = item
    outer = driver.scratch_dir("c20ws-")
    try:
        d = outer / "proj"
        src = fmt(rest[0] if rest else WS_TEST, applies)
        driver.write_project(d, dict(files, **{test_path: src}))
        tp = d / test_path
        if start == "project root":
            cwd, arg = d, test_path
        elif start == "directory of the test file":
            cwd, arg = tp.parent, tp.name
        else:
            cwd, arg = outer, str(tp)
        r = driver.run_pytest(d, ["--inline-snapshot=fix", arg], cwd=cwd)
        after = tp.read_text()
        return {"name": name, "start": start, "before": src, "after": after, "clean_after": fmt(after, applies) == after, "rc": r["rc"], "tail": (r["stdout"] + r["stderr"])[-800:],
                "infra": r.get("infra_error")}
    finally:
        shutil.rmtree(outer, ignore_errors=True)


def check_ws(ctx):
    from ..core import tmap
    import black  # noqa: F401  (imported here, in the main thread: worker threads that import it concurrently can see a partially initialised module)
    import tomllib  # noqa: F401
    items = [(lay, st) for lay in WS_LAYOUTS for st in WS_STARTS]
    for (lay, st), o in zip(items, tmap(run_ws, items)):
        ctx.count(("workspace", lay[0], st), True)
        if o["infra"]:
            continue
        if o["after"] == o["before"]:
            ctx.report(f"C20 (layout {lay[0]}, session started from the {st}): the approved fix was not applied (exit status {o['rc']}): {o['tail'][-300:]}", {"kind": "ws", "layout": lay[0], "start": st})
        elif not o["clean_after"]:
            ctx.report(f"C20 oracle: layout `{lay[0]}`, session started from the {st}: the file was formatter-clean (black with the options that apply to it: "
                       f"{lay[3].splitlines()[1]}) before the rewrite and is not afterwards", {"kind": "ws", "layout": lay[0], "start": st, "after": o["after"]})
    ctx.coverage["oracle"]["project_layout_sessions"] = len(items)


# ---- cleanliness is a property of each FILE: one session that changes a formatter-clean module and a hand-formatted module (real sessions, both orders)
MIX_UNCLEAN = ("from inline_snapshot import snapshot\n\n\ndef test_h( ):\n    values   = [ 1,2,\n                 3 ]\n"
               "    assert values   ==  snapshot( [1] )\n    assert {'alpha': 'value one', 'beta': 'value two', 'gamma': 'three', 'delta': 'four', 'epsilon': 'five'}   == snapshot({})\n")


def run_mix(order):
    import shutil
    d = driver.scratch_dir("c20mix-")
    try:
        clean = fmt(WS_TEST, "")
        names = ("test_a_clean.py", "test_b_hand.py") if order == "clean first" else ("test_z_clean.py", "test_b_hand.py")
        driver.write_project(d, {"pyproject.toml": "", names[0]: clean, names[1]: MIX_UNCLEAN})
        r = driver.run_pytest(d, ["--inline-snapshot=fix"])
        a, b = (d / names[0]).read_text(), (d / names[1]).read_text()
        return {"order": order, "clean_before": clean, "clean_after": a, "hand_after": b, "rc": r["rc"], "tail": (r["stdout"] + r["stderr"])[-600:], "infra": r.get("infra_error")}
    finally:
        shutil.rmtree(d, ignore_errors=True)


def judge_mix(o):
    if o["clean_after"] == o["clean_before"] or o["hand_after"] == MIX_UNCLEAN:
        return f"the approved fix was not applied to both files (exit status {o['rc']}): {o['tail'][-300:]}"
    if fmt(o["clean_after"], "") != o["clean_after"]:
        return f"the formatter-clean module is not formatter-clean after a session that also changed a hand-formatted module ({o['order']})"
    for keep in ("def test_h( ):", "    values   = [ 1,2,\n                 3 ]\n", "    assert values   ==  snapshot("):
        if keep not in o["hand_after"]:
            return f"the hand-formatted module was reformatted outside the snapshot arguments by a session that also changed a formatter-clean module ({o['order']}): {keep!r} is gone"
    return None


def check_mix(ctx):
    from ..core import tmap
    orders = ("clean first", "hand-formatted first")
    for order, o in zip(orders, tmap(run_mix, orders)):
        ctx.count(("mix", order), True)
        if o["infra"]:
            continue
        why = judge_mix(o)
        if why:
            ctx.report("C20 oracle: " + why, {"kind": "mix", "order": order, "clean_after": o["clean_after"], "hand_after": o["hand_after"]})
    ctx.coverage["oracle"]["mixed_cleanliness_sessions"] = len(orders)


def run(ctx: Ctx):
    ctx.coverage["rule"] = (
        "test files with 1-5 snapshot sites over the rich value universe (deep values that force re-wrapping), made formatter-clean first in 2/3 of the cases, "
        "x 5 pyproject.toml variants of black options (line-length, skip-magic-trailing-comma, skip-string-normalization, preview) x non-empty approved subsets x "
        "{black, format-command, black missing, black raising, format-command failing}: the decision and the result of SourceFile.new_code() vs Model/Format.v in Coq "
        "(texts as ids, the formatter as the finite table computed by calling the real formatter); oracle: independent black.format_str with the mode the harness reads "
        "from pyproject.toml: clean before => clean after; not clean and no format-command => bytes outside the arguments unchanged; formatter failure => unformatted edit "
        "+ reported problem. non-trivial = file changed by the run")
    proof_step(ctx)
    n = 220 if not ctx.thorough else 2500
    cases = [gen_case(ctx.rng, i) for i in range(n)]
    outs = pmap(run_case, cases, chunksize=4)
    terms, idx = [], []
    unstable = 0
    for i, (p, o) in enumerate(zip(cases, outs)):
        ctx.count(("case", p["source"], p["flags"], p["setup"], p["pyproject"]), o["after"] != o["before"])
        ctx.dist("setup=" + p["setup"])
        ctx.dist("pyproject=" + (p["pyproject"] or "none").replace("\n", " ")[:50])
        ctx.dist("clean_before=%s" % o.get("clean_before"))
        unstable += bool(o.get("black_unstable"))
        why = judge(p, o)
        if why:
            ctx.report("C20 oracle: " + why, {"kind": "case", "source": p["source"], "flags": p["flags"], "setup": p["setup"], "pyproject": p["pyproject"], "make_clean": p["make_clean"], "strip_final_newline": p.get("strip_final_newline"),
                                              "after": o["after"][-1500:]})
            continue
        if o["raw"] is not None and o["new_code"] is not None and "black_error" not in o and not o["session_exc"]:
            try:
                terms.append(g_case(p, o))
                idx.append(i)
            except Exception:  # noqa  (the real formatter cannot format one of the texts)
                pass
    bad = coq_eval_shards(ctx, "format", "Model.Format Corr.FormatCorr", "case", terms, "mismatches")
    ctx.coverage["traces_validated_against_impl"] += len(terms)
    ctx.coverage["correspondence"]["format"] = {"files": len(terms), "mismatches": len(bad)}
    ctx.coverage["oracle"]["black_not_idempotent_instances"] = unstable
    for j in bad[:10]:
        p, o = cases[idx[j]], outs[idx[j]]
        ctx.report(f"Model/Format.v and implementation differ (setup {p['setup']}, clean_before={o.get('clean_before')}, problems={bool(o['problems'])})",
                   {"kind": "case", "source": p["source"], "flags": p["flags"], "setup": p["setup"], "pyproject": p["pyproject"], "make_clean": p["make_clean"]}, no_input=True, kind="correspondence")
    ctx.sample({"setup": cases[0]["setup"], "pyproject": cases[0]["pyproject"], "flags": cases[0]["flags"], "clean_before": outs[0].get("clean_before"), "clean_after": outs[0].get("clean_after")})
    check_ws(ctx)
    check_mix(ctx)


def replay(ctx: Ctx, data):
    c = data["case"]
    if c.get("kind") == "mix":
        o = run_mix(c["order"])
        print(o["clean_after"], o["hand_after"], judge_mix(o))
        return judge_mix(o) is None
    if c.get("kind") == "ws":
        o = run_ws(([l for l in WS_LAYOUTS if l[0] == c["layout"]][0], c["start"]))
        print(o["after"], o["clean_after"])
        return o["after"] != o["before"] and o["clean_after"]
    p = {"source": c["source"], "flags": tuple(c["flags"]), "setup": c["setup"], "pyproject": c["pyproject"], "make_clean": c["make_clean"],
         "strip_final_newline": c.get("strip_final_newline")}
    o = run_case(p)
    print(o["after"][-1200:], o.get("clean_before"), o.get("clean_after"))
    return judge(p, o) is None
