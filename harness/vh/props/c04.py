"""C04 - nothing is written without approval; exactly the approved categories apply."""
from __future__ import annotations

import ast
import hashlib
import json
import shutil
from pathlib import Path

from .. import driver
from ..core import CI_VARS, REPO, Ctx, coq_eval_shards, g_bool, g_list, g_opt, g_pair, proof_step, tmap

CATS = ("create", "fix", "trim", "update")
FLAGC = {"create": "FCreate", "fix": "FFix", "trim": "FTrim", "update": "FUpdate", "disable": "FDisable", "review": "FReview",
         "report": "FReport", "short-report": "FShortReport"}

TEST_CATS = '''from inline_snapshot import snapshot


def test_create():
    assert 1 == snapshot()


def test_fix():
    assert 1 == snapshot(2)


def test_trim():
    assert 1 in snapshot([1, 2])


def test_update():
    assert "a" == snapshot("""a""")
'''
USED = b"used external data"
UNUSED = b"data nobody references"
TEST_EXT = '''from inline_snapshot import snapshot, external


def test_ext():
    assert snapshot(external("%s*.txt")) == external("%s*.txt")
''' % (hashlib.sha256(USED).hexdigest()[:12], hashlib.sha256(USED).hexdigest()[:12])


FRESH = "fresh text that is not stored yet"
OTHER = "other text that is not stored yet"
# outsource() of values that are not stored: their persisted files (without -new) may only appear when the category of the snapshot that refers to them is approved
TEST_OUT = '''from inline_snapshot import snapshot, outsource, external


def test_out_create():
    assert outsource(%r) == snapshot()


def test_out_fix():
    assert outsource(%r) == snapshot(external("%s*.txt"))
''' % (FRESH, OTHER, hashlib.sha256(USED).hexdigest()[:12])


def g_flag(f):
    return FLAGC.get(f) or f"(FUnknown {abs(hash(f)) % 7})"


def gen_config(rng):
    def flist(allow_mode=True, allow_unknown=True):
        fl = [c for c in CATS if rng.random() < 0.35]
        if allow_mode:
            r = rng.random()
            if r < 0.15:
                fl.append("report")
            elif r < 0.35:
                fl.append("review")
            elif r < 0.45:
                fl.append("short-report")
            elif r < 0.52:
                fl.append("disable")
        if allow_unknown and rng.random() < 0.04:
            fl.append("foo")
        rng.shuffle(fl)
        return fl
    conf = {"cli": None, "shortcut": None, "env_var": None, "cfg_default": None, "cfg_default_tui": None, "tty": rng.random() < 0.3,
            "xdist": rng.choice([None, None, None, 0, 2]), "ci": None, "pycharm": False, "skip": rng.random() < 0.15,
            "answers": {c: rng.random() < 0.5 for c in CATS}}
    r = rng.random()
    if r < 0.5:
        conf["cli"] = flist()
        if not conf["cli"] and rng.random() < 0.5:
            conf["cli"] = None
    elif r < 0.62:
        # shortcuts: the two built-in ones, or a [tool.inline-snapshot.shortcuts] table of the project that redefines them / adds others (round-9 miss C04-91)
        if rng.random() < 0.55:
            conf["shortcuts"] = rng.choice(SHORTCUT_TABLES)
        conf["shortcut"] = rng.choice(sorted(sc_table(conf)))
    elif r < 0.68:
        conf["shortcuts"] = rng.choice(SHORTCUT_TABLES)      # a table that is defined and not used
    if rng.random() < 0.3:
        conf["env_var"] = flist() or ["report"]
    if rng.random() < 0.4:
        conf["cfg_default"] = flist()
    if rng.random() < 0.3:
        conf["cfg_default_tui"] = flist()
    if rng.random() < 0.12:
        conf["ci"] = rng.choice(CI_VARS)
        conf["pycharm"] = rng.random() < 0.25
    return conf


SHORTCUT_TABLES = [{"fix": ["fix"]}, {"fix": ["trim"], "review": ["review"]}, {"strim": ["trim"], "fix": ["create", "fix"]}, {"up": ["update", "fix"]},
                   {"review": ["fix", "review"]}, {"fix": ["report"], "all": ["create", "fix", "trim", "update"]}, {"review": ["create"]}]


def sc_table(conf):
    return conf.get("shortcuts") or {"fix": ["create", "fix"], "review": ["review"]}


def effective(conf):
    """harness replica of the precedence rule, only used to know which review questions will be asked (stdin)"""
    cli = conf["cli"] if conf["cli"] is not None else (sc_table(conf)[conf["shortcut"]] if conf["shortcut"] else None)
    if cli is not None:
        return cli
    if conf["env_var"] is not None:
        return conf["env_var"]
    if conf["tty"]:
        return conf["cfg_default_tui"] if conf["cfg_default_tui"] is not None else ["create", "review"]
    return conf["cfg_default"] if conf["cfg_default"] is not None else ["report"]


def g_env(conf):
    cli = conf["cli"] if conf["cli"] is not None else (sc_table(conf)[conf["shortcut"]] if conf["shortcut"] else None)
    fl = lambda l: g_list(l, g_flag)  # noqa
    return ("{| cli := %s; env_var := %s; cfg_default := %s; cfg_default_tui := %s; tty := %s; xdist := %s; ci := %s; cpython := true |}" % (
        g_opt(cli, fl), g_opt(conf["env_var"], fl),
        fl(conf["cfg_default"] if conf["cfg_default"] is not None else ["report"]),
        fl(conf["cfg_default_tui"] if conf["cfg_default_tui"] is not None else ["create", "review"]),
        g_bool(conf["tty"]), g_bool(bool(conf["xdist"])), g_bool(conf["ci"] is not None and not conf["pycharm"])))


def tree_hash(d: Path):
    out = {}
    for k, v in driver.read_project(d).items():
        out[k] = hashlib.sha256(v).hexdigest()
    return out


def run_config(conf):
    d = driver.scratch_dir()
    try:
        # test_zz.py holds one more create change and nothing else: what one category changes lies in other files than what
        # another category changes
        files = {"test_cats.py": TEST_CATS, "test_ext.py": TEST_EXT, "test_out.py": TEST_OUT, "test_zz.py": "from inline_snapshot import snapshot\n\n\ndef test_zz():\n    assert 3 == snapshot()\n",
                 f".inline-snapshot/external/{hashlib.sha256(USED).hexdigest()}.txt": USED,
                 f".inline-snapshot/external/{hashlib.sha256(UNUSED).hexdigest()}.txt": UNUSED,
                 ".inline-snapshot/external/.gitignore": "# ignore all snapshots which are not referred in the source\n*-new.*\n"}
        tool = []
        if conf["cfg_default"] is not None:
            tool.append(f"default-flags = {conf['cfg_default']!r}")
        if conf["cfg_default_tui"] is not None:
            tool.append(f"default-flags-tui = {conf['cfg_default_tui']!r}")
        if conf["skip"]:
            tool.append("skip-snapshot-updates-for-now = true")
        files["pyproject.toml"] = "[tool.inline-snapshot]\n" + "\n".join(tool) + "\n"
        if conf.get("shortcuts"):
            files["pyproject.toml"] += "\n[tool.inline-snapshot.shortcuts]\n" + "".join(f"{k} = {json.dumps(v)}\n" for k, v in conf["shortcuts"].items())
        driver.write_project(d, files)
        before = tree_hash(d)
        args = []
        if conf["cli"] is not None:
            args.append("--inline-snapshot=" + ",".join(conf["cli"]))
        elif conf["shortcut"]:
            args.append("--" + conf["shortcut"])
        if conf["xdist"] is not None:
            args += ["-n", str(conf["xdist"])]
        env = {}
        if conf["env_var"] is not None:
            env["INLINE_SNAPSHOT_DEFAULT_FLAGS"] = ",".join(conf["env_var"])
        if conf["ci"]:
            env[conf["ci"]] = "true"
        if conf["pycharm"]:
            env["PYCHARM_HOSTED"] = "1"
        eff = effective(conf)
        stdin = b""
        if "review" in eff:
            for c in CATS:
                if c not in eff and not (c == "update" and conf["skip"]):
                    stdin += b"y\n" if conf["answers"][c] else b"n\n"
            stdin += b"n\n" * 3
        r = driver.run_pytest(d, args, env=env, stdin=stdin, keep_ci=True, tty=conf["tty"])
        if not conf["tty"] and "review" in eff:
            pass   # no terminal: rich reads the answers from the (empty) stdin -> handled by the run below
        after = tree_hash(d)
        txt = (d / "test_cats.py").read_text()
        applied = {
            "create": "assert 1 == snapshot(1)" in txt.split("def test_fix")[0],
            "fix": "assert 1 == snapshot(1)" in txt.split("def test_fix")[1].split("def test_trim")[0],
            "trim": "snapshot([1])" in txt,
            "update": 'snapshot("a")' in txt,
        }
        known_forms = txt.count("snapshot()") + txt.count("snapshot(1)") + txt.count("snapshot(2)") + txt.count("snapshot([1, 2])") + txt.count("snapshot([1])") \
            + txt.count('snapshot("""a""")') + txt.count('snapshot("a")')
        removed = f".inline-snapshot/external/{hashlib.sha256(UNUSED).hexdigest()}.txt" not in after
        # files of values that are not persisted (<hash>-new.<suffix>, pruned by the next session) are not "written" in the sense of the property
        changed = sorted(k for k in set(before) | set(after) if before.get(k) != after.get(k) and "-new." not in k)
        persisted = {c: f".inline-snapshot/external/{hashlib.sha256(t.encode()).hexdigest()}.txt" in after for c, t in (("create", FRESH), ("fix", OTHER))}
        out_txt = (d / "test_out.py").read_text()
        out_applied = {"create": "snapshot()" not in out_txt, "fix": hashlib.sha256(OTHER.encode()).hexdigest()[:12] in out_txt}
        return {"rc": r["rc"], "usage_error": r["rc"] == 4, "applied": applied, "removed": removed, "changed": changed, "weird": known_forms != 4, "persisted": persisted, "out_applied": out_applied,
                "tail": (r["stdout"][-1500:] + r["stderr"][-500:]), "text": txt, "infra": r.get("infra_error")}
    finally:
        shutil.rmtree(d, ignore_errors=True)


def approved_by_statement(conf):
    """what C04 says may be written, stated directly: category flags of the effective source, or a 'y' answer in review mode;
    nothing for short-report / disable / CI / xdist / usage errors"""
    eff = effective(conf)
    if "short-report" in eff or "disable" in eff or bool(conf["xdist"]) or (conf["ci"] and not conf["pycharm"]):
        return set()
    ok = {c for c in CATS if c in eff}
    if "review" in eff:
        ok |= {c for c in CATS if conf["answers"][c]}
    return ok


def source_constants(ctx: Ctx):
    """fail-closed extraction of the data the model and the harness rely on"""
    tree = ast.parse((REPO / "src/inline_snapshot/pytest_plugin.py").read_text())
    found = None
    for n in ast.walk(tree):
        if isinstance(n, ast.Assign) and any(isinstance(t, ast.Name) and t.id == "ci_env_vars" for t in n.targets):
            found = tuple(ast.literal_eval(n.value))
    if found != CI_VARS:
        ctx.report(f"the list of CI variables in pytest_plugin.py changed: {found}", {"kind": "constants"}, no_input=True, kind="correspondence")
    cfg = ast.parse((REPO / "src/inline_snapshot/_config.py").read_text())
    ok = "shortcuts" in ast.dump(cfg) and "'fix'" in ast.dump(cfg)
    if not ok:
        ctx.report("_config.py: default shortcuts not found", {"kind": "constants"}, no_input=True, kind="correspondence")
    ctx.coverage["correspondence"]["constants"] = {"ci_env_vars": len(found or ())}


# ---- which pyproject.toml decides: the one of pytest's rootdir (the project), never one found in the directory the session happens to be started from
WS_TEST = "from inline_snapshot import snapshot\n\n\ndef test_a():\n    assert 11 == snapshot()\n    assert 22 == snapshot(20)\n"
WS_CASES = [
    # (name, default-flags of the workspace pyproject, default-flags of the project pyproject (None = key absent), categories that may be written)
    ("workspace approves create,fix; the project has no default-flags", '["create", "fix"]', None, set()),
    ("workspace approves fix; the project approves create", '["fix"]', '["create"]', {"create"}),
    ("workspace has no default-flags; the project approves fix", None, '["fix"]', {"fix"}),
]


def run_workspace(item):
    import shutil
    (name, ws_flags, pkg_flags, allowed), start = item
    outer = driver.scratch_dir("c04ws-")
    try:
        ws = outer / "ws"
        tool = lambda fl: "[tool.inline-snapshot]\n" + (f"default-flags = {fl}\ndefault-flags-tui = {fl}\n" if fl else "")  # noqa
        driver.write_project(ws, {"pyproject.toml": tool(ws_flags), "pkg/pyproject.toml": "[tool.pytest.ini_options]\nminversion = '6.0'\n\n" + tool(pkg_flags), "pkg/test_w.py": WS_TEST})
        cwd, args = (ws, ["pkg"]) if start == "workspace" else (ws / "pkg", [])
        r = driver.run_pytest(ws / "pkg", args, cwd=cwd)
        after = (ws / "pkg" / "test_w.py").read_text()
        return {"name": name, "start": start, "created": "snapshot(11)" in after, "fixed": "snapshot(22)" in after, "rc": r["rc"], "tail": (r["stdout"] + r["stderr"])[-800:], "infra": r.get("infra_error")}
    finally:
        shutil.rmtree(outer, ignore_errors=True)


def check_workspace(ctx):
    items = [(c, st) for c in WS_CASES for st in ("workspace", "project")]
    for (c, st), o in zip(items, tmap(run_workspace, items)):
        ctx.count(("workspace", c[0], st), True)
        if o["infra"]:
            continue
        got = {k for k, v in (("create", o["created"]), ("fix", o["fixed"])) if v}
        if got != c[3]:
            ctx.report(f"C04 oracle (workspace layout `{c[0]}`, session started in the {st} directory): the project's own pyproject.toml approves {sorted(c[3]) or 'nothing'}, "
                       f"but {sorted(got) or 'nothing'} was written", {"kind": "workspace", "name": c[0], "start": st, "output": o["tail"]})
    ctx.coverage["oracle"]["workspace_sessions"] = len(items)


# review mode on an `in` snapshot whose previous value is no list display: the answer for fix must not apply the trim as well
REVIEW_NONLIST = "from inline_snapshot import snapshot\n\n\ndef test_a():\n    for x in (2, 3):\n        assert x in snapshot((1, 2))\n"


def run_review_nonlist(answers):
    d = driver.scratch_dir()
    try:
        driver.write_project(d, {"test_r.py": REVIEW_NONLIST, "pyproject.toml": "[tool.inline-snapshot]\n"})
        r = driver.run_pytest(d, ["--inline-snapshot=review"], stdin=answers, tty=True)
        txt = (d / "test_r.py").read_text()
        call = [n for n in ast.walk(ast.parse(txt)) if isinstance(n, ast.Call) and isinstance(n.func, ast.Name) and n.func.id == "snapshot"][0]
        return {"arg": ast.unparse(call.args[0]), "rc": r["rc"], "tail": r["stdout"][-1200:], "infra": r.get("infra_error")}
    finally:
        shutil.rmtree(d, ignore_errors=True)


def check_review_nonlist(ctx):
    items = [(b"y\nn\nn\n", "fix: y, trim: n", "[1, 2, 3]"), (b"n\nn\nn\n", "fix: n", "(1, 2)"), (b"y\ny\nn\n", "fix: y, trim: y", "[2, 3]")]
    for (ans, what, want), o in zip(items, tmap(run_review_nonlist, [i[0] for i in items])):
        ctx.count(("review-nonlist", what), True)
        if o.get("infra"):
            raise RuntimeError("pytest session timed out twice (infrastructure)")
        if o["arg"] != want:
            ctx.report(f"C04 oracle (review mode, `x in snapshot((1, 2))` tested with 2 and 3, answers {what}): the snapshot holds {o['arg']}, applying exactly the approved categories gives {want}",
                       {"kind": "review-nonlist", "answers": ans.decode(), "output": o["tail"]}, tag="F-89" if (what == "fix: y, trim: n" and o["arg"] == "[2, 3]") else None)
    ctx.coverage["oracle"]["review_nonlist_sessions"] = len(items)


def run(ctx: Ctx):
    ctx.coverage["rule"] = (
        "real pytest sessions on a project with one pending change in each of the four categories, a referenced and an unreferenced persisted external; configurations: "
        "command line flags (category subsets + report/review/short-report/disable, unknown flags, shortcuts --fix/--review) x INLINE_SNAPSHOT_DEFAULT_FLAGS x pyproject "
        "default-flags / default-flags-tui / skip-snapshot-updates-for-now x terminal or not x review answers x -n 0 / -n 2 x CI variables (+PYCHARM_HOSTED); observed: usage error, "
        "applied categories per site, unused external removed, SHA-256 of every project file before/after; compared with Model/Flags.v in Coq and with the statement "
        "(only approved categories are written; nothing at all without approval). Plus tests marked xfail on the function / a parameter set / the class / the module (pytestmark), "
        "with fix / all categories / no flags: the file stays byte-identical. non-trivial = at least two sources of flags or review mode")
    proof_step(ctx)
    source_constants(ctx)
    n = 160 if not ctx.thorough else 2500
    confs = [gen_config(ctx.rng) for _ in range(n)]
    # a few fixed, important configurations
    base = {"cli": None, "shortcut": None, "env_var": None, "cfg_default": None, "cfg_default_tui": None, "tty": False, "xdist": None, "ci": None, "pycharm": False,
            "skip": False, "answers": {c: False for c in CATS}}
    for extra in ({"cli": ["review"], "tty": True}, {"cli": ["review"], "tty": True, "answers": {c: True for c in CATS}}, {"cfg_default": ["fix", "trim"], "xdist": 2},
                  {"env_var": ["create", "fix"], "xdist": 2}, {"cli": ["create", "fix", "trim", "update"]}, {"cli": ["short-report", "fix"]}, {},
                  {"cli": ["fix"], "ci": "GITHUB_ACTIONS"}, {"tty": True}, {"cli": ["trim", "report"]},
                  # shortcuts of the project: a redefined --fix that approves fix only, an added one, a redefined --review that also approves fix
                  {"shortcut": "fix", "shortcuts": {"fix": ["fix"]}}, {"shortcut": "strim", "shortcuts": {"strim": ["trim"], "fix": ["create", "fix"]}},
                  {"shortcut": "review", "shortcuts": {"review": ["fix", "review"]}, "tty": True}, {"shortcut": "fix"}):
        confs.append({**base, **extra})
    from .. import xfailfam
    xfailfam.check(ctx, "C04")
    xfailfam.check_stacks(ctx, "C04", 12 if not ctx.thorough else 150)
    # the approval loop over several test files vs Model/Session.v
    from .. import sessloop
    sessloop.check_part(ctx, 36 if not ctx.thorough else 500, "C04")
    sessloop.check_nested(ctx, 24 if not ctx.thorough else 300, "C04")
    check_workspace(ctx)
    check_review_nonlist(ctx)
    outs = tmap(run_config, confs)
    terms, idx = [], []
    for i, (c, o) in enumerate(zip(confs, outs)):
        if o.get("infra"):
            raise RuntimeError("pytest session timed out twice (infrastructure)")
        srcs = sum(x is not None for x in (c["cli"], c["shortcut"], c["env_var"], c["cfg_default"], c["cfg_default_tui"]))
        ctx.count(("conf", repr(c)), srcs >= 2 or "review" in effective(c))
        ctx.dist("effective=" + ",".join(sorted(effective(c))))
        ctx.dist("xdist=%s ci=%s tty=%s" % (c["xdist"], bool(c["ci"]), c["tty"]))
        if o["rc"] not in (0, 1, 4):
            ctx.report(f"pytest exit status {o['rc']}", {"kind": "conf", "conf": c, "output": o["tail"]}, tag=classify(c, o))
            continue
        # the statement itself
        ok = approved_by_statement(c)
        written = {k for k, v in o["applied"].items() if v}
        why = None
        if not written <= ok:
            why = f"categories {sorted(written - ok)} were written but only {sorted(ok)} are approved"
        elif not ok and (o["changed"] and not (o["removed"] and o["changed"] == [x for x in o["changed"] if "external" in x])):
            why = f"nothing is approved but files changed: {o['changed']}"
        elif [x for x in ("create", "fix") if o["persisted"][x] and x not in ok]:
            why = f"the value of an outsource() call was persisted although {[x for x in ('create', 'fix') if o['persisted'][x] and x not in ok]} is not approved"
        elif [x for x in ("create", "fix") if o["out_applied"][x] != o["persisted"][x]]:
            why = f"snapshots referring to outsourced values were written {o['out_applied']} but the values are persisted {o['persisted']}"
        elif o["out_applied"] != {x: o["applied"][x] for x in ("create", "fix")}:
            why = f"test_out.py got {o['out_applied']} but test_cats.py got {o['applied']}"
        elif o["removed"] and "trim" not in ok:
            why = "an unreferenced persisted external was removed although trim is not approved"
        elif o["weird"]:
            why = "a snapshot argument has an unexpected form"
        elif o["rc"] != 4 and (ok - ({"update"} if c["skip"] and "update" not in effective(c) else set())) - written:
            why = f"categories {sorted(ok - written)} are approved and pending but were not applied"
        if why:
            ctx.report("C04 oracle: " + why + f" (effective flags {effective(c)})", {"kind": "conf", "conf": c, "output": o["tail"], "text": o["text"]}, tag=classify(c, o))
            continue
        a = c["answers"]
        ap = o["applied"]
        terms.append(g_pair(g_env(c), g_pair(*(g_bool(a[x]) for x in CATS)), g_bool(c["skip"]),
                            g_pair(g_bool(o["usage_error"]), g_pair(*(g_bool(ap[x]) for x in CATS)), g_bool(o["removed"]))))
        idx.append(i)
    bad = coq_eval_shards(ctx, "flags", "Model.Flags Corr.FlagsCorr", "case", terms, "mismatches")
    ctx.coverage["traces_validated_against_impl"] += len(terms)
    ctx.coverage["correspondence"]["flags"] = {"sessions": len(terms), "mismatches": len(bad)}
    for j in bad[:10]:
        c, o = confs[idx[j]], outs[idx[j]]
        ctx.report(f"Model/Flags.v and implementation differ (statement oracle silent): conf={c} -> usage_error={o['usage_error']} applied={o['applied']} removed={o['removed']}",
                   {"kind": "conf", "conf": c, "output": o["tail"]}, no_input=True, kind="correspondence")
    ctx.sample({"configuration": confs[0], "observed": {k: outs[0][k] for k in ("rc", "applied", "removed", "changed")}})


def classify(c, o):
    if o["removed"] and "review" in effective(c) and "trim" not in effective(c):
        return "F-04"
    return None


def replay(ctx: Ctx, data):
    if isinstance(data.get("case"), dict) and data["case"].get("kind") == "sessloop":
        from .. import sessloop
        return sessloop.replay_case(data["case"])
    if data["case"].get("kind") == "workspace":
        c = [x for x in WS_CASES if x[0] == data["case"]["name"]][0]
        o = run_workspace((c, data["case"]["start"]))
        print(o)
        return {k for k, v in (("create", o["created"]), ("fix", o["fixed"])) if v} == c[3]
    if data["case"].get("kind") in ("xfail", "xfail-stack"):
        from .. import xfailfam
        return xfailfam.replay(data["case"], "C04")
    c = data["case"]["conf"]
    o = run_config(c)
    print(o["tail"][-800:], o["applied"], o["removed"], o["changed"])
    ok = approved_by_statement(c)
    written = {k for k, v in o["applied"].items() if v}
    return written <= ok and not (o["removed"] and "trim" not in ok)
