"""C18 - end-of-session processing completes for every test program."""
from __future__ import annotations

import shutil

from .. import driver, proggen, valgen
from ..core import Ctx, coq_eval_shards, pmap, proof_step, tmap
from .c03 import g_case as g_rewrite_case

EXTRA_SNIPPETS = [
    # nested snapshots whose parent is replaced or which are reached only while aligning a list
    ("nested_inner", "    assert [1, 2] == snapshot([snapshot(2)])"),
    ("nested_inner_eq", "    assert [1, 2] == snapshot([1, snapshot(2)])"),
    ("nested_parent_replaced", "    assert 5 == snapshot([snapshot(1), 2])"),
    ("nested_dict", "    assert {'a': 1, 'b': [2]} == snapshot({'a': snapshot(3), 'b': [snapshot(2)]})"),
    ("nested_missing", "    assert [1, 2] == snapshot([snapshot(), 2])"),
    ("nested_missing_deleted", "    assert [0, 7] == snapshot([snapshot(), 0])"),
    ("nested_missing_deleted_tuple", "    assert (1, 2, 3) == snapshot((snapshot(), 0))"),
    ("nested_missing_two", "    assert [5] == snapshot([snapshot(), snapshot(), 5])"),
    ("nested_missing_dict", "    assert {'a': 1} == snapshot({'b': snapshot(), 'a': 1})"),
    # comparisons that raise
    ("cmp_raises_le", "    class Bad:\n        def __deepcopy__(self, memo):\n            raise ValueError('no copy')\n    try:\n        assert Bad() <= snapshot(5)\n    except Exception:\n        pass"),
    ("cmp_raises_in", "    class Bad:\n        def __eq__(self, o):\n            return False\n        def __hash__(self):\n            return 1\n    try:\n        assert Bad() in snapshot([5])\n    except Exception:\n        pass"),
    ("cmp_raises_eq", "    class Bad:\n        def __eq__(self, o):\n            return False\n    try:\n        assert Bad() == snapshot(5)\n    except Exception:\n        pass"),
    ("cmp_raises_in_eq", "    class W:\n        def __eq__(self, o):\n            if not isinstance(o, W):\n                raise TypeError('no')\n            return True\n        def __repr__(self):\n            return 'W()'\n    try:\n        assert W() in snapshot([1])\n    except TypeError:\n        pass"),
    ("cmp_raises_in_second", "    s = snapshot([1, 2])\n    assert 1 in s\n    try:\n        assert 'a' + 1 in s\n    except TypeError:\n        pass"),
    ("cmp_typeerror_ge", "    s = snapshot(5)\n    assert 7 >= s\n    try:\n        assert 'a' >= s\n    except TypeError:\n        pass"),
    ("getitem_is_loop", "    for i in range(3):\n        assert snapshot({'a': Is(i), 'b': 1+1})['a'] == i"),
    ("in_with_is", "    k = 7\n    assert 7 in snapshot([Is(k), 1+1])"),
    ("cmp_typeerror", "    try:\n        assert 'a' <= snapshot(5)\n    except TypeError:\n        pass"),
    # exceptions raised inside tests
    ("raise_before", "    raise RuntimeError('boom')\n    assert 1 == snapshot(2)"),
    ("raise_after", "    assert 1 == snapshot(2)\n    raise RuntimeError('boom')"),
    ("raise_between", "    assert 1 == snapshot()\n    assert 0, 'fail'\n    assert 3 == snapshot(4)"),
    # in / getitem displays as black explodes them
    ("in_trailing_comma", "    assert 4 in snapshot([1, 2, ])"),
    ("in_multiline", "    for x in [4, 2]:\n        assert x in snapshot(\n            [\n                1,\n                2,\n            ]\n        )"),
    ("in_plain", "    assert 4 in snapshot([1, 2])"),
    ("getitem_trailing", "    s = snapshot({'a': 1, 'b': 2, })\n    assert 1 == s['a']\n    assert 3 == s['c']"),
    ("tuple_one", "    assert (1, 2) == snapshot((5,))"),
    ("tuple_to_one", "    assert (1,) == snapshot((5, 6, 7))"),
    ("never_compared", "    s = snapshot([0+1, 1+1, {'k': 2+1}])"),
    ("loop_two_ops", "    s = snapshot(3)\n    for x in (1, 2):\n        assert x <= s"),
    # the previous content of an `in` snapshot is no list display (tuple, dict, string, set): C02 "whatever the previous content was"
    ("in_tuple_hit", "    assert 1 in snapshot((1, 2))"),
    ("in_tuple_miss", "    try:\n        assert 4 in snapshot((1, 2))\n    except AssertionError:\n        pass"),
    ("in_dict", "    assert 'a' in snapshot({'a': 1})"),
    ("in_str", "    assert 'a' in snapshot('abc')"),
    ("in_set_miss", "    try:\n        assert 4 in snapshot({1, 2})\n    except AssertionError:\n        pass"),
    # a member of an `in` snapshot whose == raises for foreign types; the test itself passes (the search stops at the first match)
    ("in_member_raises", "    class W:\n        def __eq__(self, o):\n            if not isinstance(o, W):\n                raise TypeError('no')\n            return True\n        def __repr__(self):\n            return 'W()'\n    assert 1 in snapshot([1, W()])"),
    ("in_member_raises_first", "    class W:\n        def __eq__(self, o):\n            if not isinstance(o, W):\n                raise TypeError('no')\n            return True\n        def __repr__(self):\n            return 'W()'\n    assert W() in snapshot([W(), 1])"),
    ("in_tuple_member_raises", "    class W:\n        def __eq__(self, o):\n            if not isinstance(o, W):\n                raise TypeError('no')\n            return True\n        def __hash__(self):\n            return 1\n        def __repr__(self):\n            return 'W()'\n    assert 1 in snapshot((1, W()))"),
    # ... or raises something else than TypeError (the usual sloppy `return self.x == other.x`, numpy's "truth value is ambiguous")
    ("in_member_attrerror", "    class Pt:\n        def __init__(self, x):\n            self.x = x\n        def __eq__(self, o):\n            return self.x == o.x\n        def __hash__(self):\n            return 1\n        def __repr__(self):\n            return f'Pt({self.x})'\n    assert Pt(0) in snapshot([Pt(0), 'origin', Pt(1)])"),
    ("in_member_valueerror", "    class Arr:\n        def __eq__(self, o):\n            if not isinstance(o, Arr):\n                raise ValueError('the truth value is ambiguous')\n            return True\n        def __hash__(self):\n            return 1\n        def __repr__(self):\n            return 'Arr()'\n    assert 2 in snapshot((2, Arr(), 3))"),
    # [key] on a snapshot whose value is not written as a dict display: the test fails, the session must still finish
    ("getitem_nondisplay", "    try:\n        assert snapshot(dict(a=1))['a'] == 1\n    except AssertionError:\n        pass"),
    ("getitem_list", "    try:\n        assert snapshot([1, 2])[0] == 1\n    except Exception:\n        pass"),
    # a never-compared snapshot of a defaultdict (supported type; its constructor call has fewer arguments than the adapter describes)
    ("never_defaultdict", "    from collections import defaultdict\n    s = snapshot(defaultdict(list))"),
    ("never_defaultdict_full", "    from collections import defaultdict\n    s = snapshot(defaultdict(list, {'a': [1+1]}))"),
    # a never-compared snapshot whose argument is a variable / an expression that is no constructor call, holding a dataclass, a namedtuple or a container
    ("never_variable_dc", "    from dataclasses import dataclass\n    @dataclass\n    class NV:\n        a: int\n    x = NV(1)\n    s = snapshot(x)"),
    ("never_variable_nt", "    from collections import namedtuple\n    NT = namedtuple('NT', 'a b')\n    rows = [NT(1, 2)]\n    s = snapshot(rows[0])"),
    ("never_variable_list", "    x = [1, {'k': (2, 3)}]\n    s = snapshot(x)"),
    # elements wrapped in parentheses that span several lines / hold a comment (the usual layout of implicit string concatenation), next to an element that is deleted
    ("paren_multiline_list", "    assert [1, 3] == snapshot([\n        (\n            1\n        ),\n        2,\n        (  # why\n            3),\n    ])"),
    ("paren_multiline_dict", "    assert {'a': 'xy'} == snapshot({\n        'a': (\n            'x'\n            'y'\n        ),\n        'b': 2,\n    })"),
    ("paren_multiline_call", "    from dataclasses import dataclass\n    @dataclass\n    class PM:\n        a: str\n        b: int = 0\n    assert PM(a='xy') == snapshot(PM(\n        a=(\n            'x'  # first\n            'y'\n        ),\n        b=2,\n    ))"),
    # containers holding a star-expression evaluated several times, and used with `in`
    ("star_loop", "    extra = [1, 2]\n    for _ in (1, 2):\n        assert [1, 2, 3] == snapshot([*extra, 3])"),
    ("star_in", "    extra = [1, 2]\n    try:\n        assert 5 in snapshot([*extra, 3])\n    except AssertionError:\n        pass"),
]


def gen_prog(rng, i):
    opts = {"p_noncanon": 0.35, "p_same": 0.2, "p_missing": 0.25, "parens": (i % 4 == 3), "comments": True}
    prog = proggen.gen_program(rng, rich=(i % 3 == 0), style=rng.choice(["assert", "check"]), nsites=rng.randint(1, 5), opts=opts,
                               layout={"per_test": rng.choice([1, 2, 5])})
    # append a few special tests
    extras = rng.sample(EXTRA_SNIPPETS, rng.randint(1, 3))
    src = prog["source"]
    for k, (name, body) in enumerate(extras):
        src += f"\n\ndef test_x{k}_{name}():\n{body}\n"
    if i % 6 == 4:
        src = "\ufeff" + src            # the file starts with a UTF-8 byte order mark
    prog["source"] = src
    prog["extras"] = [e[0] for e in extras]
    prog["flags"] = rng.choice(proggen.flag_subsets())
    return prog


def run_prog(prog):
    r = driver.run_inproc({"test_a.py": prog["source"]}, prog["flags"], edits=True)
    out = {"session_exc": r["session_exc"], "tb": r.get("session_tb"), "module_exc": r["module_exc"], "replacements": r["replacements"].get("test_a.py"), "obsolete": r.get("obsolete"),
           "edits": r.get("edits"),
           "raw": r["raw_new_code"].get("test_a.py"), "read_text": r["read_text"].get("test_a.py")}
    after = r["files"]["test_a.py"]
    try:
        compile(after, "<after>", "exec")
    except SyntaxError as e:
        out["syntax"] = str(e)
    out["after"] = after.decode("utf-8", "replace")
    return out


def classify(prog, o):
    tb = (o.get("tb") or "") + (o.get("session_exc") or "")
    if "object has no attribute '_changes'" in tb:
        return "F-09"
    if "not supported between instances" in tb and ("ellipsis" in tb or "Ellipsis" in tb):
        return "F-10"
    return None


def run_session(item):
    src, flags = item
    d = driver.scratch_dir()
    try:
        driver.write_project(d, {"test_p.py": src})
        r = driver.run_pytest(d, [f"--inline-snapshot={','.join(flags)}"] if flags else [])
        after = (d / "test_p.py").read_bytes()
        syntax = None
        try:
            compile(after, "<after>", "exec")
        except SyntaxError as e:
            syntax = str(e)
        return {"rc": r["rc"], "tail": (r["stdout"][-2500:] + r["stderr"][-800:]), "internal": "INTERNALERROR" in r["stdout"] + r["stderr"] or "Traceback (most recent call last)" in r["stderr"], "syntax": syntax,
                "problems": "Problems" in r["stdout"], "infra": r.get("infra_error")}
    finally:
        shutil.rmtree(d, ignore_errors=True)


def run_sibling_session(flags):
    outer = driver.scratch_dir("c18sib-")
    try:
        src = "from inline_snapshot import snapshot\n\n\ndef test_a():\n    assert 5 == snapshot(4)\n    assert [1] == snapshot()\n"
        driver.write_project(outer, {"tests/test_s.py": src, "tests/pyproject.toml": "", "work/keep.txt": ""})
        r = driver.run_pytest(outer / "tests", [f"--inline-snapshot={','.join(flags)}"] * bool(flags) + ["../tests"], cwd=outer / "work")
        out = r["stdout"] + r["stderr"]
        return {"rc": r["rc"], "internal": "INTERNALERROR" in out or "Traceback (most recent call last)" in out, "fixed": "snapshot(5)" in (outer / "tests/test_s.py").read_text(),
                "tail": out[-1500:], "infra": r.get("infra_error")}
    finally:
        shutil.rmtree(outer, ignore_errors=True)


def classify_session(src, flags, o):
    if "fix" in flags and "trim" in flags and " in snapshot(" in src:
        return "F-21"
    return None


def run(ctx: Ctx):
    ctx.coverage["rule"] = (
        "test modules within documented usage: 1-5 generated snapshot sites (all five operations, rich values, hand-written layout incl. redundant parentheses and comments, "
        "asserting or recording style) plus 1-3 special tests (nested snapshots whose parent is replaced / that are reached only while aligning / missing; comparisons that raise "
        "in deepcopy, __eq__, TypeError; exceptions before/after/between snapshots; black-exploded `in` and [k] displays with trailing commas; 1-tuples; never-compared snapshots) "
        "x all 16 approved sets; in-process driver (session phase exception, overlap assertion, compile() of the result, Model/Rewrite.v correspondence of the recorded "
        "replacements) and real pytest sessions (INTERNALERROR, exit status, spurious formatter problems). non-trivial = program with >= 3 snapshot calls")
    proof_step(ctx)
    n = 320 if not ctx.thorough else 4000
    progs = [gen_prog(ctx.rng, i) for i in range(n)]
    outs = pmap(run_prog, progs, chunksize=4)
    terms = []
    for p, o in zip(progs, outs):
        ctx.count(("prog", p["source"], p["flags"]), p["source"].count("snapshot(") >= 3)
        ctx.dist("flags=" + (",".join(p["flags"]) or "none"))
        for e in p["extras"]:
            ctx.dist("extra=" + e)
        if o["module_exc"]:
            ctx.report(f"generated module is broken (harness): {o['module_exc']}", {"kind": "prog", "source": p["source"], "flags": p["flags"]}, no_input=True, kind="correspondence")
        elif o["session_exc"]:
            ctx.report(f"collecting/applying changes raised {o['session_exc']}", {"kind": "prog", "source": p["source"], "flags": p["flags"], "tb": o["tb"]}, tag=classify(p, o))
        elif o.get("syntax"):
            ctx.report(f"the edits produced an invalid file: {o['syntax']}", {"kind": "prog", "source": p["source"], "flags": p["flags"], "after": o["after"]}, tag=classify(p, o))
        elif o["replacements"] is not None and len(o["read_text"]) < 7000:
            terms.append(g_rewrite_case(o))
    bad = coq_eval_shards(ctx, "rewrite", "Model.Rewrite Corr.RewriteCorr", "case", terms, "mismatches", chunk=20)
    ctx.coverage["traces_validated_against_impl"] += len(terms)
    ctx.coverage["correspondence"]["rewrite"] = {"files": len(terms), "mismatches": len(bad)}
    if bad:
        ctx.report(f"Model/Rewrite.v and implementation differ on {len(bad)} recorded replacement sets", {"kind": "rewrite", "indices": bad[:10]}, no_input=True, kind="correspondence")
    # the filter of changes inside deleted / replaced nodes vs Model/Obsolete.v
    from ..core import g_bool, g_list, g_nat, g_pair
    oterms, oprogs = [], []
    for p, o in zip(progs, outs):
        ob = o.get("obsolete")
        if not ob or "error" in ob or not ob["changes"]:
            continue
        oterms.append(g_pair(g_list(ob["changes"], lambda c: "{| c_removes := %s; c_chain := %s |}" % (g_bool(c[0]), g_list(c[1], g_nat))), g_list(ob["kept"], g_nat)))
        oprogs.append(p)
        ctx.dist("obsolete.dropped=%d" % min(len(ob["changes"]) - len(ob["kept"]), 3))
    obad = coq_eval_shards(ctx, "obsolete", "Model.Obsolete Corr.ObsoleteCorr", "case", oterms, "mismatches", chunk=200)
    ctx.coverage["traces_validated_against_impl"] += len(oterms)
    ctx.coverage["correspondence"]["without_obsolete_changes"] = {"change_lists": len(oterms), "mismatches": len(obad)}
    for j in obad[:5]:
        ctx.report("Model/Obsolete.v and without_obsolete_changes differ on the approved changes of a program", {"kind": "prog", "source": oprogs[j]["source"], "flags": oprogs[j]["flags"]},
                   no_input=True, kind="correspondence")
    # where apply_all writes: the replacement ranges of the surviving changes vs Model/Edits.v (with the premises of C18_edits_never_overlap evaluated on each case)
    from .. import editscorr
    editscorr.check_part(ctx, "C18", progs, outs)
    ctx.sample({"program_tail": progs[0]["source"][-500:], "flags": progs[0]["flags"], "replacements": outs[0]["replacements"]})
    # the documented in-process helper Example.run_inline on containers that several approved categories edit at once (multi-line, trailing comma; nested snapshot in a
    # replaced element): the edits of one container are merged into one, nothing overlaps
    for (src, fl), o in zip(EXAMPLE_CORPUS, pmap(run_example, EXAMPLE_CORPUS, chunksize=1)):
        ctx.count(("example", src, tuple(fl)), True)
        if o["exc"]:
            ctx.report(f"Example.run_inline({fl}) raised {o['exc']}", {"kind": "example", "source": src, "flags": fl})
        elif o["syntax"]:
            ctx.report(f"Example.run_inline({fl}) wrote an invalid file: {o['syntax']}", {"kind": "example", "source": src, "flags": fl, "after": o["after"]})
    ctx.coverage["oracle"]["example_run_inline_cases"] = len(EXAMPLE_CORPUS)
    # snapshots inside doctests (the documentation of snapshot() itself is written like this): the session finishes
    for fl, o in zip(DOCTEST_FLAGS, tmap(run_doctest_session, DOCTEST_FLAGS)):
        ctx.count(("doctest", tuple(fl)), True)
        if o.get("infra"):
            continue
        if o["internal"] or o["rc"] not in (0, 1):
            ctx.report(f"C18 oracle: a session with --doctest-modules (flags {fl}) over a module whose doctests use snapshot() ended with an internal error / exit status {o['rc']}",
                       {"kind": "doctest", "flags": fl, "output": o["tail"]})
    ctx.coverage["oracle"]["doctest_sessions"] = len(DOCTEST_FLAGS)
    o = tmap(run_paths_session, [0])[0]
    ctx.count(("paths-session",), True)
    if not o.get("infra") and (o["internal"] or o["rc1"] not in (0, 1) or o["bad"] or o["rc2"] != 0):
        ctx.report("C18 oracle: session over files whose co_filename is not their real path (sys.path entry with '..', symlinked file, symlinked directory) with new code that needs an import: "
                   + ("INTERNALERROR / traceback" if o["internal"] else f"exit status {o['rc1']} then {o['rc2']}; {o['bad']}"), {"kind": "paths", "output": o["tail"]})
    ctx.coverage["oracle"]["path_sessions"] = 1
    # real sessions
    m = 64 if not ctx.thorough else 800
    items = []
    for k in range(m):
        p = gen_prog(ctx.rng, k)
        items.append((p["source"], list(p["flags"]) if k % 4 else ["fix", "trim"]))
    # projects that outsource data (new externals appear, are persisted and may be trimmed in the same session)
    EXT = ("from inline_snapshot import snapshot, outsource, external\n\n\ndef test_e1():\n    assert outsource('a' * 40) == snapshot()\n\n\n"
           "def test_e2():\n    assert [outsource(b'b' * 40), 1] == snapshot([0])\n\n\ndef test_e3():\n    assert 5 in snapshot([4, 5])\n")
    for flags in (["create", "trim"], ["create", "fix", "trim"], ["fix", "trim"], ["create", "fix", "trim", "update"], ["trim"], ["create"]):
        items.append((EXT, flags))
    for (src, flags), o in zip(items, tmap(run_session, items)):
        if o.get("infra"):
            raise RuntimeError("pytest session timed out twice (infrastructure)")
        ctx.count(("session", src, tuple(flags)), src.count("snapshot(") >= 3)
        ctx.dist("session.flags=" + (",".join(flags) or "none"))
        why = None
        if o["internal"] or o["rc"] not in (0, 1):
            why = f"INTERNALERROR / exit status {o['rc']} in a real session"
        elif o["syntax"]:
            why = f"the session left an invalid file: {o['syntax']}"
        elif o["problems"]:
            why = "the report shows a formatter problem for a preview that inline-snapshot itself corrupted"
        if why:
            ctx.report("C18 oracle: " + why + f" (flags {flags})", {"kind": "session", "source": src, "flags": flags, "output": o["tail"]}, tag=classify_session(src, flags, o))
    ctx.coverage["oracle"]["sessions"] = len(items)
    # the session is started in a directory that does not contain the test files (cd work && pytest ../tests)
    for flags in ([], ["fix"], ["create", "fix", "trim", "update"]):
        o = run_sibling_session(flags)
        ctx.count(("sibling-session", tuple(flags)), True)
        if not o.get("infra") and (o["internal"] or o["rc"] not in (0, 1) or ("fix" in flags and not o["fixed"])):
            ctx.report(f"C18 oracle: session started in a sibling directory of the test files (pytest ../tests, flags {flags}): "
                       f"{'INTERNALERROR / traceback' if o['internal'] else 'exit status %s' % o['rc']}{'' if o['fixed'] or 'fix' not in flags else ', the approved fix was not applied'}",
                       {"kind": "sibling", "flags": flags, "output": o["tail"]})
    # the edits computed for one file never depend on another file: the same module under several names in one session
    from .. import twins
    NESTED = ("from inline_snapshot import snapshot\n\n\ndef test_n1():\n    assert [0, 7] == snapshot([snapshot(), 0])\n\n\n"
              "def test_n2():\n    assert {'a': [1, 2], 'b': 3} == snapshot({'a': [snapshot(5), 9, 2], 'c': snapshot(1)})\n")
    twins.check(ctx, "C18", [NESTED] + [s_ for s_, _ in items[:2 if not ctx.thorough else 12]])


# files whose co_filename is not their real path (a helper found through a sys.path entry with "..", a symlinked test file, a symlinked directory) and whose new code
# needs an import line (HasRepr, external): the session finishes, the file is rewritten once and the next session passes
PATHS_CONFTEST = "import os\nimport sys\n\nsys.path.insert(0, os.path.join(os.path.dirname(__file__), 'tests', '..', 'lib'))\n"
PATHS_HELPER = ("from inline_snapshot import snapshot, outsource\n\n\nclass NoCode:\n    def __repr__(self):\n        return '<nocode>'\n\n    def __eq__(self, other):\n"
                "        return True if isinstance(other, NoCode) else NotImplemented\n\n\ndef check():\n    assert NoCode() == snapshot()\n    assert outsource('x' * 30) == snapshot()\n    assert 3 == snapshot(2)\n")
PATHS_TEST = "from helper import check\n\n\ndef test_helper():\n    check()\n"
PATHS_REAL = PATHS_HELPER.replace("def check():", "def test_real():")


def run_paths_session(_):
    import os
    d = driver.scratch_dir()
    try:
        driver.write_project(d, {"conftest.py": PATHS_CONFTEST, "lib/helper.py": PATHS_HELPER, "tests/test_h.py": PATHS_TEST, "real/test_real.py": PATHS_REAL,
                                 "realdir/test_in_dir.py": PATHS_REAL.replace("test_real", "test_in_dir")})
        os.symlink(d / "real" / "test_real.py", d / "tests" / "test_link.py")
        os.symlink(d / "realdir", d / "tests" / "linkdir", target_is_directory=True)
        targets = ["tests/test_h.py", "tests/test_link.py", "tests/linkdir/test_in_dir.py"]
        r1 = driver.run_pytest(d, ["--inline-snapshot=create,fix"] + targets)
        r2 = driver.run_pytest(d, targets)
        out1 = r1["stdout"] + r1["stderr"]
        bad = []
        for f in ("lib/helper.py", "real/test_real.py", "realdir/test_in_dir.py"):
            txt = (d / f).read_text()
            try:
                compile(txt, f, "exec")
            except SyntaxError as e:
                bad.append(f"{f}: {e}")
            if "snapshot()" in txt or "snapshot(2)" in txt:
                bad.append(f"{f}: the approved changes were not written")
            if txt.count("import external") + txt.count("import HasRepr") + txt.count("import HasRepr, external") + txt.count("import external, HasRepr") > 2:
                bad.append(f"{f}: import lines were added more than once")
        if not (d / "tests" / "test_link.py").is_symlink():
            bad.append("the symlink was replaced by a file")
        return {"rc1": r1["rc"], "rc2": r2["rc"], "internal": "INTERNALERROR" in out1 or "Traceback (most recent call last)" in r1["stderr"], "bad": bad,
                "tail": out1[-1500:] + "\n---- second session\n" + (r2["stdout"] + r2["stderr"])[-800:], "infra": r1.get("infra_error") or r2.get("infra_error")}
    finally:
        shutil.rmtree(d, ignore_errors=True)


DOCTEST_SRC = ("from inline_snapshot import snapshot\n\n\ndef double(x):\n    \"\"\"\n    >>> from inline_snapshot import snapshot\n    >>> assert double(2) == snapshot(4)\n"
               "    >>> assert double(3) == snapshot(5)\n    >>> double(1) <= snapshot(9)\n    True\n    \"\"\"\n    return 2 * x\n\n\ndef test_a():\n    assert double(4) == snapshot(7)\n")
DOCTEST_FLAGS = [[], ["fix"], ["create", "fix", "trim", "update"], ["report"]]


def run_doctest_session(fl):
    d = driver.scratch_dir()
    try:
        driver.write_project(d, {"calc.py": DOCTEST_SRC, "test_calc.py": "from calc import test_a  # noqa\n"})
        r = driver.run_pytest(d, (["--inline-snapshot=" + ",".join(fl)] if fl else []) + ["--doctest-modules", "calc.py", "test_calc.py"])
        out = r["stdout"] + r["stderr"]
        return {"rc": r["rc"], "internal": "INTERNALERROR" in out or "Traceback (most recent call last)" in r["stderr"], "tail": out[-1500:], "infra": r.get("infra_error")}
    finally:
        shutil.rmtree(d, ignore_errors=True)


_EH = "from dataclasses import dataclass\nfrom inline_snapshot import snapshot\n\n\n@dataclass\nclass DC:\n    a: int\n    b: int = 0\n    c: int = 0\n\n\n"
EXAMPLE_CORPUS = [
    (_EH + "def test_a():\n    for x in (1, 5):\n        assert x in snapshot(\n            [\n                1,\n                2,\n            ]\n        )\n", ["fix", "trim"]),
    (_EH + "def test_a():\n    s = snapshot(\n        {\n            'a': 1,\n            'unused': 2,\n        }\n    )\n    assert s['a'] == 1\n    assert s['b'] == 3\n", ["create", "trim"]),
    (_EH + "def test_a():\n    assert DC(a=1, c=3) == snapshot(\n        DC(\n            a=1,\n            b=0,\n        )\n    )\n", ["fix", "update"]),
    (_EH + "def test_a():\n    assert [5] == snapshot([snapshot(0x10), 2])\n", ["fix", "update"]),
    (_EH + "def test_a():\n    assert {'k': [1, 2]} == snapshot(\n        {\n            'k': [\n                1,\n                3,\n            ],\n            'gone': snapshot(0o7),\n        }\n    )\n", ["fix", "update"]),
    (_EH + "def test_a():\n    for x in (1, 5):\n        assert x in snapshot(\n            [\n                0o1,\n                2,\n            ]\n        )\n", ["fix", "trim", "update"]),
]


def run_example(item):
    src, fl = item
    import contextlib
    import io
    from inline_snapshot.testing import Example
    out = {"exc": None, "syntax": None, "after": None}
    try:
        with contextlib.redirect_stdout(io.StringIO()), contextlib.redirect_stderr(io.StringIO()):
            e = Example({"test_a.py": src}).run_inline(["--inline-snapshot=" + ",".join(fl)])
        out["after"] = e.files["test_a.py"] if hasattr(e, "files") else None
        if out["after"] is not None:
            try:
                compile(out["after"], "<after>", "exec")
            except SyntaxError as ex:
                out["syntax"] = str(ex)
    except BaseException as ex:  # noqa
        out["exc"] = f"{type(ex).__name__}: {str(ex)[:300]}"
    return out


def replay(ctx: Ctx, data):
    if isinstance(data.get("case"), dict) and data["case"].get("kind") == "paths":
        o = run_paths_session(0)
        print(o["tail"], o["bad"])
        return not (o["internal"] or o["rc1"] not in (0, 1) or o["bad"] or o["rc2"] != 0)
    if isinstance(data.get("case"), dict) and data["case"].get("kind") == "doctest":
        o = run_doctest_session(data["case"]["flags"])
        print(o["tail"])
        return not (o["internal"] or o["rc"] not in (0, 1))
    if isinstance(data.get("case"), dict) and data["case"].get("kind") == "example":
        o = run_example((data["case"]["source"], data["case"]["flags"]))
        print(o)
        return not (o["exc"] or o["syntax"])
    if isinstance(data.get("case"), dict) and data["case"].get("kind") == "twins":
        from .. import twins
        return twins.replay(data["case"])
    c = data["case"]
    if c.get("kind") == "sibling":
        o = run_sibling_session(c["flags"])
        print(o["tail"][-800:])
        return not (o["internal"] or o["rc"] not in (0, 1) or ("fix" in c["flags"] and not o["fixed"]))
    if c.get("kind") == "session":
        o = run_session((c["source"], c["flags"]))
        print(o["tail"][-1500:])
        return not (o["internal"] or o["rc"] not in (0, 1) or o["syntax"] or o["problems"])
    if c.get("kind") == "prog":
        o = run_prog({"source": c["source"], "flags": tuple(c["flags"])})
        print(o.get("tb") or o.get("after"))
        return not (o["session_exc"] or o.get("syntax"))
    return True
