"""C07 - a wrong or missing snapshot never yields a green run."""
from __future__ import annotations

import shutil

from .. import driver, snapcorr, snapgen
from ..core import Ctx, proof_step, tmap
from ..snapgen import CATS, plain_op, src_value
from .c05 import _tup


def site_bad(case, obs):
    """does the script execute a comparison that is missing a value or fails against the value in the source?"""
    if case["old"] is None:
        return bool(obs["results"])
    v = src_value(case["old"])
    for op, r in zip(case["ops"], obs["results"]):
        if r[0] != "ok":
            continue          # the comparison raised (TypeError): the test fails by itself
        try:
            if not plain_op(op, v):
                return True
        except KeyError:
            return True       # missing sub-snapshot key
        except Exception:  # noqa
            return None       # comparison not defined on the plain value: outside the scope
    return False


# ---- real sessions
def gen_assert(rng, status):
    """one assert line with a snapshot that is ok / wrong / missing"""
    kind = rng.choice(["eq", "eq", "le", "ge", "in", "getitem", "eqlist"])
    x = rng.randint(0, 9)
    if kind == "eq":
        arg = {"ok": repr(x), "wrong": repr(x + 1), "missing": ""}[status]
        return f"assert {x} == snapshot({arg})"
    if kind == "eqlist":
        arg = {"ok": repr([x, "a"]), "wrong": repr([x, "b", 3]), "missing": ""}[status]
        return f"assert [{x}, 'a'] == snapshot({arg})"
    if kind == "le":
        arg = {"ok": repr(x + rng.randint(0, 2)), "wrong": repr(x - 1), "missing": ""}[status]
        return f"assert {x} <= snapshot({arg})"
    if kind == "ge":
        arg = {"ok": repr(x - rng.randint(0, 2)), "wrong": repr(x + 1), "missing": ""}[status]
        return f"assert {x} >= snapshot({arg})"
    if kind == "in":
        arg = {"ok": repr([x, 77]), "wrong": repr([x + 1, 77]), "missing": ""}[status]
        return f"assert {x} in snapshot({arg})"
    arg = {"ok": repr({"k": x}), "wrong": repr({"k": x + 1}), "missing": rng.choice(["", "{}", repr({"other": 1})])}[status]
    return f"assert {x} == snapshot({arg})['k']"


def gen_project(rng):
    ntests = rng.randint(1, 4)
    lines = ["import pytest", "from inline_snapshot import snapshot", ""]
    expect = {}
    for t in range(ntests):
        nass = rng.randint(1, 3)
        bad_test = rng.random() < 0.55
        badpos = rng.randrange(nass) if bad_test else -1
        loop = rng.random() < 0.25
        param = rng.random() < 0.3            # the same call sites executed by two test items
        if param:
            lines.append("@pytest.mark.parametrize('rep', [0, 1])")
        lines.append(f"def test_t{t}({'rep' if param else ''}):")
        ind = "    "
        if loop:
            lines.append("    for _ in range(2):")
            ind = "        "
        for a in range(nass):
            st = rng.choice(["wrong", "wrong", "missing"]) if a == badpos else "ok"
            lines.append(ind + gen_assert(rng, st))
        lines.append("")
        for name in ([f"test_t{t}[0]", f"test_t{t}[1]"] if param else [f"test_t{t}"]):
            expect[name] = "bad" if bad_test else "good"
    return "\n".join(lines) + "\n", expect


def gen_config(rng):
    cats = [c for c in CATS if rng.random() < 0.4]
    mode = rng.choice(["none", "none", "report", "review-n", "review-y", "short-report"])
    flags = list(cats)
    stdin = b""
    if mode == "report":
        flags.append("report")
    elif mode == "short-report":
        flags.append("short-report")
    elif mode.startswith("review"):
        flags.append("review")
        stdin = (b"n\n" if mode == "review-n" else b"y\n") * 8
    args = [f"--inline-snapshot={','.join(flags)}"] if flags else []
    return {"flags": flags, "mode": mode, "args": args, "stdin": stdin}


def run_session(item):
    src, expect, conf = item
    d = driver.scratch_dir()
    try:
        driver.write_project(d, {"test_p.py": src})
        r = driver.run_pytest(d, conf["args"], stdin=conf["stdin"], tty=bool(conf["stdin"]))
        got = {k.split("::")[-1]: v for k, v in r["outcomes"].items()}
        return {"rc": r["rc"], "outcomes": got, "tail": (r["stdout"] + r["stderr"])[-1500:], "infra": r.get("infra_error")}
    finally:
        shutil.rmtree(d, ignore_errors=True)


def judge_session(expect, res):
    if res.get("infra") or res["rc"] is None:
        return "infra"
    if res["rc"] not in (0, 1):
        return f"pytest exit status {res['rc']} (internal error / usage error)"
    anybad = False
    for t, e in expect.items():
        o = res["outcomes"].get(t)
        if o is None:
            return f"no outcome recorded for {t}"
        if e == "bad":
            anybad = True
            if not ("fail" in o or "error" in o):
                return f"{t} executes a wrong or missing snapshot but is reported as {o}"
        elif e == "skipped":
            if o != "skipped":
                return f"{t}: all snapshots hold and the test skips itself, but it is reported as {o}"
        elif o != "passed":
            return f"{t}: all snapshots hold but the test is reported as {o}"
    if anybad and res["rc"] == 0:
        return "a test with a wrong or missing snapshot ran, yet the exit status is 0"
    if not anybad and res["rc"] != 0:
        return f"all snapshots hold, yet the exit status is {res['rc']}"
    return None


# the snapshots handed to inline_snapshot.testing.Example are ordinary snapshots of the CALLING test: an empty or wrong one has to fail it,
# whatever flags the example itself is run with
EXAMPLE_SRC = '''from inline_snapshot import snapshot
from inline_snapshot.testing import Example

example = Example(
    """\\
from inline_snapshot import snapshot

def test_a():
    assert 1 + 1 == snapshot(3)
"""
)


def test_missing_changed_files():
    example.run_inline(["--inline-snapshot=fix"], changed_files=snapshot())


def test_missing_categories():
    example.run_inline(["--inline-snapshot=update"], reported_categories=snapshot())


def test_wrong_changed_files():
    example.run_inline(["--inline-snapshot=fix"], changed_files=snapshot({"test_something.py": "outdated"}))


def test_wrong_categories_create():
    example.run_inline(["--inline-snapshot=create"], reported_categories=snapshot(["trim"]))


def test_correct():
    example.run_inline(["--inline-snapshot=fix"], reported_categories=snapshot(["fix"]))


raising = Example(
    """\\
def test_a():
    1 / 0
"""
)
quiet = Example(
    """\\
def test_a():
    pass
"""
)


def test_missing_raises():
    raising.run_inline(raises=snapshot())


def test_missing_raises_quiet():
    quiet.run_inline(["--inline-snapshot=fix"], raises=snapshot())


def test_wrong_raises():
    raising.run_inline(["--inline-snapshot=create"], raises=snapshot("""\\
ValueError:
boom\\
"""))


def test_correct_raises():
    raising.run_inline(raises=snapshot("""\\
ZeroDivisionError:
division by zero\\
"""))
'''
EXAMPLE_EXPECT = {"test_missing_changed_files": "bad", "test_missing_categories": "bad", "test_wrong_changed_files": "bad", "test_wrong_categories_create": "bad",
                  "test_correct": "good", "test_missing_raises": "bad", "test_missing_raises_quiet": "bad", "test_wrong_raises": "bad", "test_correct_raises": "good"}

# a wrong / missing snapshot is executed, the test goes on (the comparison is not asserted) and then leaves through pytest.skip / pytest.xfail / importorskip, or the
# comparison runs in a thread the test started: the run is not green
EDGE_SRC = '''import threading
from concurrent.futures import ThreadPoolExecutor

import pytest

from inline_snapshot import snapshot


def test_wrong_then_skip():
    ok = 1 == snapshot(2)
    pytest.skip("the rest needs a database")


def test_missing_then_skip():
    ok = 5 == snapshot()
    pytest.skip("later")


def test_wrong_then_importorskip():
    ok = 3 <= snapshot(2)
    pytest.importorskip("a_module_that_does_not_exist_xyz")


def test_wrong_in_thread():
    seen = []
    t = threading.Thread(target=lambda: seen.append(1 == snapshot(2)))
    t.start()
    t.join()
    assert seen


def test_missing_in_pool():
    with ThreadPoolExecutor(max_workers=1) as pool:
        assert pool.submit(lambda: 7 == snapshot()).result() in (True, False)


def test_missing_not_equal():
    assert 3 != snapshot()


def test_missing_not_equal_in_loop():
    for v in (1, 2):
        assert v != snapshot()


def test_missing_key_not_equal():
    s = snapshot({"a": 4})
    assert 5 != s["b"]


def test_missing_not_in():
    assert 3 not in snapshot()


def test_right_not_equal_then_equal():
    s = snapshot(4)
    assert not (4 != s)
    assert 4 == s


def test_right_then_skip():
    assert 1 == snapshot(1)
    pytest.skip("fine")


def test_right_in_thread():
    seen = []
    t = threading.Thread(target=lambda: seen.append(4 == snapshot(4)))
    t.start()
    t.join()
    assert seen == [True]
'''
EDGE_EXPECT = {"test_wrong_then_skip": "bad", "test_missing_then_skip": "bad", "test_wrong_then_importorskip": "bad", "test_wrong_in_thread": "bad", "test_missing_in_pool": "bad",
               "test_missing_not_equal": "bad", "test_missing_not_equal_in_loop": "bad", "test_missing_key_not_equal": "bad", "test_missing_not_in": "bad",
               "test_right_not_equal_then_equal": "good", "test_right_then_skip": "skipped", "test_right_in_thread": "good"}

# wrong snapshots whose wrong part is controlled by the user (Is(), f-string, star-expression, a field that is no constructor argument): inline-snapshot
# generates no change for that part, the test has to fail all the same - whatever is approved
UNMANAGED_SRC = '''from dataclasses import dataclass, field

from inline_snapshot import Is, snapshot


@dataclass
class Rec:
    a: int
    hidden: int = field(default=0, repr=False)


def test_wrong_is():
    want = 3
    assert [1, 2] == snapshot([Is(want), 2])


def test_wrong_is_top():
    want = 3
    assert 1 == snapshot(Is(want))


def test_wrong_fstring():
    who = "b"
    assert "a 1" == snapshot(f"{who} 1")


def test_wrong_fstring_in_dict():
    who = "b"
    assert {"k": "a 1", "n": 1} == snapshot({"k": f"{who} 1", "n": 1})


def test_wrong_star():
    head = [7]
    assert [1, 2] == snapshot([*head, 2])


def test_wrong_is_in_call():
    want = 9
    assert Rec(a=1) == snapshot(Rec(a=Is(want)))


def test_wrong_and_managed_wrong():
    want = 3
    assert [1, 2, 5] == snapshot([Is(want), 2, 4])


def test_holds():
    who, want, head = "a", 1, [1]
    assert "a 1" == snapshot(f"{who} 1")
    assert [1, 2] == snapshot([Is(want), 2])
    assert [1, 2] == snapshot([*head, 2])
    assert Rec(a=1) == snapshot(Rec(a=Is(want)))
    assert 1 == snapshot(Is(want))
'''
UNMANAGED_EXPECT = {"test_wrong_is": "bad", "test_wrong_is_top": "bad", "test_wrong_fstring": "bad", "test_wrong_fstring_in_dict": "bad", "test_wrong_star": "bad",
                    "test_wrong_is_in_call": "bad", "test_wrong_and_managed_wrong": "bad", "test_holds": "good"}


def run(ctx: Ctx):
    ctx.coverage["rule"] = (
        "A: single-site scripts x flag subsets through the real code in-process: counters at the end of the test vs Model/SnapOps.v, and vs the statement "
        "(some executed comparison is missing a value or fails against the source value  <=>  counters != (0,0)). "
        "B: real pytest sessions: 1-4 tests x 1-3 snapshot asserts (==, <=, >=, in, [k], lists; optionally in a loop), one assert wrong or missing at a random position, "
        "x category subsets x {none, report, review answered n / y, short-report}: junit outcome per test and exit status. non-trivial = >= 2 comparisons / >= 2 tests")
    proof_step(ctx)
    n = 1500 if not ctx.thorough else 12000
    cases = [snapgen.gen_case(ctx.rng, allow_foreign=False) for _ in range(n)]
    obs = snapcorr.run_cases(cases)
    bad = snapcorr.correspond(ctx, cases, obs)
    for i, (c, o) in enumerate(zip(cases, obs)):
        ctx.count(snapcorr.case_key(c), snapcorr.nontrivial(c))
        ctx.dist("A.kind=" + c["kind"])
        ctx.dist("A.flags=" + (",".join(c["flags"]) or "none"))
        if "error" in o or o.get("session_exc"):
            continue       # C18 / C05 report these
        sb = site_bad(c, o)
        counted = (o["missing"], o["incorrect"]) != (0, 0)
        why = None
        if sb is True and not counted:
            why = "a comparison is missing a value or fails against the source value but nothing was counted: the test would pass"
        elif sb is False and counted:
            why = f"every comparison holds but counters are ({o['missing']},{o['incorrect']}): the test would be failed"
        if why:
            ctx.report("C07 oracle: " + why + f" [{c}]", {"kind": "site", "case": c})
        elif i in bad:
            ctx.report(f"Model/SnapOps.v and implementation differ (property oracle silent): {c} -> {o['results']} counters=({o['missing']},{o['incorrect']})",
                       {"kind": "site", "case": c}, no_input=True, kind="correspondence")
    ctx.coverage["correspondence"]["snapops"] = {"cases": len(cases), "mismatches": len(bad)}
    ctx.sample({"site_case": cases[0], "test": obs[0].get("source")})
    # B
    m = 96 if not ctx.thorough else 1200
    items = []
    for _ in range(m):
        src, expect = gen_project(ctx.rng)
        items.append((src, expect, gen_config(ctx.rng)))
    for fl in ([], ["fix"], ["create", "fix", "trim", "update"], ["report"]):
        items.append((EXAMPLE_SRC, EXAMPLE_EXPECT, {"flags": fl, "mode": "example", "args": [f"--inline-snapshot={','.join(fl)}"] if fl else [], "stdin": b""}))
    for fl in ([], ["fix"], ["create"], ["create", "fix", "trim", "update"], ["report"]):
        items.append((EDGE_SRC, EDGE_EXPECT, {"flags": fl, "mode": "edge", "args": [f"--inline-snapshot={','.join(fl)}"] if fl else [], "stdin": b""}))
    for fl in ([], ["fix"], ["update"], ["create", "fix", "trim", "update"], ["report"], ["short-report"]):
        items.append((UNMANAGED_SRC, UNMANAGED_EXPECT, {"flags": fl, "mode": "unmanaged", "args": [f"--inline-snapshot={','.join(fl)}"] if fl else [], "stdin": b""}))
    results = tmap(run_session, items)
    for (src, expect, conf), res in zip(items, results):
        ctx.count(("session", src, tuple(conf["flags"])), len(expect) >= 2 or src.count("snapshot(") >= 3)
        ctx.dist("B.mode=" + conf["mode"])
        why = judge_session(expect, res)
        if why == "infra":
            raise RuntimeError("pytest session timed out twice (infrastructure)")
        if why:
            ctx.report("C07 oracle: " + why + f" (flags {conf['flags']})", {"kind": "session", "source": src, "expect": expect, "conf": {**conf, "stdin": conf["stdin"].decode()}, "output": res["tail"]})
    ctx.coverage["oracle"]["sessions"] = m
    ctx.sample({"session": {"source": items[0][0], "expect": items[0][1], "flags": items[0][2]["flags"], "outcomes": results[0]["outcomes"], "rc": results[0]["rc"]}})


def replay(ctx: Ctx, data):
    case = data["case"]
    if case.get("kind") == "session":
        conf = dict(case["conf"])
        conf["stdin"] = conf["stdin"].encode()
        res = run_session((case["source"], case["expect"], conf))
        print(res["tail"])
        why = judge_session(case["expect"], res)
        print("oracle:", why)
        return why is None
    c = case["case"]
    c["flags"] = tuple(c["flags"])
    c["old"] = _tup(c["old"])
    c["ops"] = [_tup(x) for x in c["ops"]]
    o = snapcorr.run_cases([c])[0]
    sb = site_bad(c, o)
    counted = (o["missing"], o["incorrect"]) != (0, 0)
    print(o.get("source"), o["results"], (o["missing"], o["incorrect"]))
    return not ((sb is True and not counted) or (sb is False and counted)) and not snapcorr.correspond(ctx, [c], [o])
