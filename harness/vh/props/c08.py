"""C08 - a second run is a no-op."""
from __future__ import annotations

import shutil

from .. import driver, proggen, snapcorr, snapgen
from ..core import Ctx, pmap, proof_step, tmap

ALL = ("create", "fix", "trim", "update")


def gen_prog(rng, i):
    opts = {"p_noncanon": 0.35, "p_same": 0.25, "p_missing": 0.25, "parens": (i % 6 == 5), "comments": True, "floats": (i % 2 == 1)}
    prog = proggen.gen_program(rng, rich=(i % 2 == 0), style="check", nsites=rng.randint(1, 5), opts=opts, layout={"per_test": rng.choice([1, 2, 5])})
    prog["flags"] = ALL if i % 3 else rng.choice(proggen.flag_subsets()[1:])
    prog["setup"] = ["black", "black", "noblack", "fmtcmd"][i % 4]
    return prog


def run_twice(prog):
    kw = {}
    if prog["setup"] == "noblack":
        kw["block_black"] = True
    elif prog["setup"] == "fmtcmd":
        kw["format_command"] = "/venv/bin/python -m black -q -"
    r1 = driver.run_inproc({"test_a.py": prog["source"]}, prog["flags"], **kw)
    f1 = r1["files"]["test_a.py"]
    r2 = driver.run_inproc({"test_a.py": f1}, prog["flags"], **kw)
    f2 = r2["files"]["test_a.py"]
    r3 = driver.run_inproc({"test_a.py": f2}, prog["flags"], **kw)
    return {"exc": r1["session_exc"] or r2["session_exc"] or r1["module_exc"] or r2["module_exc"], "f1": f1.decode("utf-8", "replace"), "f2": f2.decode("utf-8", "replace"),
            "f3": r3["files"]["test_a.py"].decode("utf-8", "replace"), "reported2": r2["reported"], "replacements2": r2["replacements"].get("test_a.py"),
            "snapshots2": [s for s in r2["snapshots"] if s["flags"]], "tests2": [(t[1], t[2][:100], t[3], t[4]) for t in r2["tests"]]}


def judge(prog, o):
    if o["exc"]:
        return f"run raised {o['exc']}"
    if o["f2"] != o["f1"]:
        return "the second run with the same approved set changed the file again"
    if set(prog["flags"]) == set(ALL):
        pend = set(o["reported2"]) - {"update"}     # an update with an empty diff is not shown (and f2 == f1 was checked above)
        if pend:
            return f"after a run with all four categories approved the second run still reports {sorted(pend)}"
        bad = [t for t in o["tests2"] if t[1] != "ok" or t[2] or t[3]]
        if bad:
            return f"after a run with all four categories approved the test {bad[0][0]} does not pass cleanly: {bad[0]}"
    return None


def classify(prog, o):
    # F-08: a value whose repr is parenthesised without being a tuple (complex numbers) gains parentheses on every update
    import re
    if re.search(r"\d\.?\d*j\b", o.get("f2", "") or o.get("after", "") or ""):
        return "F-08"
    return None


def run_sessions(prog):
    d = driver.scratch_dir()
    try:
        driver.write_project(d, {"test_p.py": prog["source"].replace("assert check(", "assert (")})
        env = None
        if prog.get("bytecode"):
            # Python's default: byte code (also pytest's rewritten modules) is cached and validated by mtime and size of the source
            import os
            import time
            env = {"PYTHONDONTWRITEBYTECODE": ""}
            old = time.time() - 3600
            os.utime(d / "test_p.py", (old, old))
        r1 = driver.run_pytest(d, ["--inline-snapshot=create,fix,trim,update"], env=env)
        f1 = (d / "test_p.py").read_bytes()
        r2 = driver.run_pytest(d, ["--inline-snapshot=create,fix,trim,update"], env=env)
        f2 = (d / "test_p.py").read_bytes()
        out2 = r2["stdout"]
        st = d / ".inline-snapshot" / "external"
        store2 = sorted(x.name for x in st.iterdir() if x.name != ".gitignore") if st.exists() else []
        if prog.get("externals") is not None and not (len(store2) == prog["externals"] and not any("-new" in n for n in store2) and "removed" not in out2):
            return {"rc1": r1["rc"], "rc2": r2["rc"], "same": False, "panel": False, "tail": f"storage after the second session: {store2}; " + out2[-800:], "f2": f2.decode("utf-8", "replace")}
        return {"rc1": r1["rc"], "rc2": r2["rc"], "same": f1 == f2, "panel": any(w in out2 for w in ("Create snapshots", "Fix snapshots", "Trim snapshots", "Update snapshots")),
                "tail": (out2[-1500:] + r2["stderr"][-300:]), "f2": f2.decode("utf-8", "replace")}
    finally:
        shutil.rmtree(d, ignore_errors=True)


def run(ctx: Ctx):
    ctx.coverage["rule"] = (
        "A: single-site scripts run with all four categories, then the same script again on the rewritten file: Model/SnapOps.v correspondence of both runs and "
        "'second run reports nothing'. B: programs with 1-5 sites over the rich universe incl. floats and complex numbers, hand-written previous values, run three times "
        "with the same approved set (all four categories for 2/3 of them, random subsets otherwise) x {black, black missing, format-command}: bytes after run 2 = bytes after run 1, "
        "and with all four approved run 2 reports no category, all tests pass, counters zero. C: real pytest sessions run twice with create,fix,trim,update: exit 0, no diff "
        "panel, identical bytes. non-trivial = >= 2 sites or pending changes in >= 2 categories")
    proof_step(ctx)
    # A: single sites, second run through the model correspondence
    n = 500 if not ctx.thorough else 5000
    cases = [snapgen.gen_case(ctx.rng, flags=ALL, allow_foreign=False) for _ in range(n)]
    cases = [c for c in cases if _consistent(c)]
    obs1 = snapcorr.run_cases(cases)
    second = []
    for c, o in zip(cases, obs1):
        if "error" in o or o.get("session_exc") or o["value"][0] == "none":
            second.append(None)
            continue
        second.append(dict(c, old=_canon(o["value"][1], c["old"]), flags=ALL))
    idx = [i for i, c in enumerate(second) if c is not None]
    obs2 = snapcorr.run_cases([second[i] for i in idx])
    bad = snapcorr.correspond(ctx, [second[i] for i in idx], obs2)
    for k, i in enumerate(idx):
        c2, o2 = second[i], obs2[k]
        ctx.count(snapcorr.case_key(cases[i]), snapcorr.nontrivial(cases[i]))
        if "error" in o2 or o2.get("session_exc"):
            ctx.report(f"second run failed: {o2.get('error') or o2.get('session_exc')}", {"kind": "site", "case": cases[i]})
        elif o2["reported"] or o2["missing"] or o2["incorrect"] or o2["after"] != o2["source"]:
            ctx.report(f"second run of {cases[i]} reports {o2['reported']} counters=({o2['missing']},{o2['incorrect']})", {"kind": "site", "case": cases[i]})
        elif k in bad:
            ctx.report(f"Model/SnapOps.v and implementation differ on the second run of {cases[i]}", {"kind": "site", "case": cases[i]}, no_input=True, kind="correspondence")
    ctx.coverage["correspondence"]["second_runs"] = {"cases": len(idx), "mismatches": len(bad)}
    # B
    m = 240 if not ctx.thorough else 2500
    progs = [gen_prog(ctx.rng, i) for i in range(m)]
    # corpus: the recorded finding F-08 is reproduced on every run
    progs.append({"source": "from inline_snapshot import snapshot\n\ndef test_c():\n    assert [1 + 2j, 5] == snapshot([(1+2j), 5])\n", "sites": [1], "flags": ALL, "setup": "black"})
    outs = pmap(run_twice, progs, chunksize=4)
    for p, o in zip(progs, outs):
        ctx.count(("prog", p["source"], p["flags"], p["setup"]), len(p["sites"]) >= 2)
        ctx.dist("B.setup=" + p["setup"])
        ctx.dist("B.flags=" + ",".join(p["flags"]))
        why = judge(p, o)
        if why:
            ctx.report("C08 oracle: " + why, {"kind": "prog", "source": p["source"], "flags": p["flags"], "setup": p["setup"], "after1": o.get("f1"), "after2": o.get("f2"),
                                              "pending2": o.get("snapshots2")}, tag=classify(p, o))
    # B2: tests that mutate the compared objects afterwards (loops over one call site), run twice with all four categories
    from . import c17
    ms = [dict(c17.gen_sched(ctx.rng, i), flags=ALL, setup="noblack", sites=[1]) for i in range(24 if not ctx.thorough else 240)]
    ms = [m_ for m_ in ms if c17.plain_ok(m_["source"])]
    for p, o in zip(ms, pmap(run_twice, ms, chunksize=4)):
        ctx.count(("mutation", p["source"]), True)
        why = judge(p, o)
        if why:
            ctx.report("C08 oracle (objects mutated after the comparison): " + why, {"kind": "prog", "source": p["source"], "flags": p["flags"], "setup": p["setup"], "after1": o.get("f1"), "after2": o.get("f2")})
    ctx.coverage["oracle"]["programs_run_three_times"] = m
    ctx.sample({"program_tail": progs[0]["source"][-500:], "flags": progs[0]["flags"], "after_first_run_tail": outs[0].get("f1", "")[-500:]})
    # C
    sp = [gen_prog(ctx.rng, 2 * i) for i in range(12 if not ctx.thorough else 100)]
    # rewrites that keep the size of the file, with byte-code caching switched on (the rewritten file must not look unchanged to the import system)
    SAME_SIZE = ("from inline_snapshot import snapshot\n\n\ndef test_a():\n    assert 2 == snapshot(1)\n    assert 'abd' == snapshot('abc')\n\n\n"
                 "def test_b():\n    for x in (1, 2):\n        assert x <= snapshot(1)\n")
    sp += [{"source": SAME_SIZE, "bytecode": True}, {"source": SAME_SIZE.replace("2 == snapshot(1)", "7 == snapshot(5)"), "bytecode": True}]
    # values that are == and hash alike but have different code (0.0 / -0.0, 1 / True / 1.0) in one session
    sp += [{"source": "from inline_snapshot import snapshot\n\n\ndef test_a():\n    assert [0.0, -0.0, 1.5] == snapshot()\n    assert -0.0 == snapshot()\n    assert [1, True, 1.0, 0, False] == snapshot()\n\n\n"
                      "def test_b():\n    assert {'z': -0.0, 'p': 0.0} == snapshot({'z': 5.0})\n    assert (0.0, -0.0) == snapshot((-0.0,))\n"}]
    # F-94: a leaf (a set: no adapter) whose code holds 1-tuples, long enough to be wrapped, in a file that is not formatter-clean (one blank line after the import):
    # the leaf comparison of Model/Tokens.v reports an update for the code just written (C08_leaf_trailing_comma_update_refuted), and the leaf replaced alone is laid out differently
    sp += [{"source": "from inline_snapshot import snapshot\n\ndef test_a():\n    assert [{(n,) for n in range(10**15, 10**15 + 5)}] == snapshot()\n"},
           {"source": "from inline_snapshot import snapshot\n\ndef test_a():\n    assert {'k': frozenset({(10**20 + n,) for n in range(4)}), 'j': {(1,): 2}} == snapshot({'k': 0})\n"},
           {"source": "from inline_snapshot import snapshot\n\ndef test_a():\n    snapshot([{(10**15 + n,) for n in range(5)}])\n"}]
    # externals created, replaced and trimmed in the session that also writes the reference: the second session finds nothing to do in the storage either
    sp += [{"source": "from inline_snapshot import snapshot, outsource, external\n\n\ndef test_a():\n    assert outsource('a' * 40) == snapshot()\n\n\n"
                      "def test_b():\n    assert [outsource(b'b' * 40), 1] == snapshot([0])\n", "externals": 2}]
    # the names the generated code needs (external, HasRepr) are imported only where the import is not executed / not at module level, or not at all:
    # the first session has to add the import line, the second one passes and finds nothing to do
    body = "\n\ndef test_a():\n    assert outsource('c' * 40) == snapshot()\n\n\nclass NoCode:\n    def __repr__(self):\n        return '<nocode>'\n\n    def __eq__(self, other):\n        return True if isinstance(other, NoCode) else NotImplemented\n\n\ndef test_b():\n    assert NoCode() == snapshot()\n"
    for head in ("from inline_snapshot import snapshot, outsource\n",
                 "from typing import TYPE_CHECKING\nfrom inline_snapshot import snapshot, outsource\n\nif TYPE_CHECKING:\n    from inline_snapshot import external, HasRepr\n",
                 "from inline_snapshot import snapshot, outsource\n\ntry:\n    import a_module_that_does_not_exist_xyz\n    from inline_snapshot import external, HasRepr\nexcept ImportError:\n    pass\n",
                 "from inline_snapshot import snapshot, outsource\n\n\ndef helper():\n    from inline_snapshot import external, HasRepr\n    return external, HasRepr\n",
                 "from inline_snapshot import snapshot, outsource\n\nif False:\n    from inline_snapshot import external\nelse:\n    from inline_snapshot import HasRepr\n"):
        sp.append({"source": head + body, "externals": 1})
    for p, o in zip(sp, tmap(run_sessions, sp)):
        ctx.count(("session", p["source"]), True)
        why = None
        if o["rc1"] not in (0, 1):
            why = f"first session exit status {o['rc1']}"
        elif not o["same"]:
            why = "the second session modified the file"
        elif o["rc2"] != 0:
            why = f"the second session exits with {o['rc2']}"
        elif o["panel"]:
            why = "the second session shows a pending diff"
        if why:
            ctx.report("C08 oracle (sessions): " + why, {"kind": "session", "source": p["source"], "bytecode": p.get("bytecode"), "after": o["f2"], "output": o["tail"]}, tag=classify(p, {"f2": o["f2"]}))
    ctx.coverage["oracle"]["session_pairs"] = len(sp)
    # lists / tuples / dict displays / constructor calls nested in each other: a run with fix,update (and more), then a run with any approved set
    from .. import nestassign as na
    na.check_second_run(ctx, 200 if not ctx.thorough else 3000, "C08")
    na.check_never_twice(ctx, 100 if not ctx.thorough else 1500, "C08")
    # the token comparison that decides whether an update is pending (Model/Tokens.v): correspondence and the second-run statement on the written code
    from .. import tokenscorr
    tokenscorr.check_part(ctx, 600 if not ctx.thorough else 8000, "C08")


def _consistent(c):
    from .c05 import consistent
    return consistent(c)


def _canon(v, old):
    """source of a value as inline-snapshot wrote it; leaves that were not rewritten are unknown to us, so read the
    canonicity back from the value only (the rewritten file is what the second run really uses)"""
    if isinstance(v, bool) or not isinstance(v, (int, list, dict)):
        raise ValueError(v)
    if isinstance(v, int):
        return ("atom", v, True)
    if isinstance(v, list):
        return ("list", [(z, True) for z in v])
    return ("dict", [(k, _canon(w, None)) for k, w in v.items()])


def replay(ctx: Ctx, data):
    if isinstance(data.get("case"), dict) and data["case"].get("kind") == "never-twice":
        from .. import nestassign as na
        return na.replay_never(data["case"])
    if isinstance(data.get("case"), dict) and data["case"].get("kind") == "nest-twice":
        from .. import nestassign as na
        return na.replay_case(data["case"])
    c = data["case"]
    if c.get("kind") == "tokens":
        from .. import tokenscorr
        return tokenscorr.replay_case(c["src"])
    if c.get("kind") == "prog":
        o = run_twice({"source": c["source"], "flags": tuple(c["flags"]), "setup": c["setup"]})
        print(o["f1"][-800:], o["f2"][-800:], o["reported2"])
        return judge({"flags": tuple(c["flags"])}, o) is None
    if c.get("kind") == "session":
        o = run_sessions({"source": c["source"], "bytecode": c.get("bytecode")})
        print(o["tail"])
        return o["same"] and o["rc2"] == 0 and not o["panel"]
    return True
