"""C01 - a created snapshot reads back as the value that was observed."""
from __future__ import annotations

import ast
import shutil

from .. import driver, proggen, snapcorr, snapgen, valgen
from ..core import Ctx, pmap, proof_step, tmap

IDENT_HDR = "\ndef snapshot(x):\n    return x\n\n"


W_CLASS = 'class W:\n    def __repr__(self):\n        return "<W>"\n\n    def __eq__(self, o):\n        return True if isinstance(o, W) else NotImplemented\n\n\n'
# module-level snapshots that need a NEW import (HasRepr / external), with further top-level imports below them
IMPORT_PROJECTS = [
    'import sys\nfrom inline_snapshot import snapshot\n\n\n' + W_CLASS + 's_mod = snapshot()\n\nsys.path.append("x")\nimport string\n\n\ndef test_a():\n    assert W() == s_mod\n\n\n'
    'import json\n\n\ndef test_b():\n    assert [W()] == snapshot()\n',
    'from inline_snapshot import snapshot, outsource\n\ne_mod = snapshot()\n\nimport string\n\n\ndef test_a():\n    assert outsource("x" * 40) == e_mod\n\n\nimport json\n',
    '"""module docstring"""\nfrom __future__ import annotations\nfrom inline_snapshot import snapshot\n\n\n' + W_CLASS + 's_mod = snapshot()\nif True:\n    import string\n\nimport json\n\n\n'
    'def test_a():\n    assert (W(), 1) == s_mod\n',
    # the name is imported, but only inside another test function / under another name: the rest of the module cannot use it
    'from inline_snapshot import snapshot\n\n\n' + W_CLASS + 'def test_known():\n    from inline_snapshot import HasRepr\n\n    assert W() == snapshot(HasRepr(W, "<W>"))\n\n\n'
    'def test_new():\n    assert [W(), 4] == snapshot()\n',
    'from inline_snapshot import snapshot, outsource\nfrom inline_snapshot import external as ext\n\n\ndef test_known():\n    from inline_snapshot import external\n\n    assert external is ext\n\n\n'
    'def test_new():\n    assert {"page": outsource("p" * 30)} == snapshot()\n',
    # empty inner snapshots as values of fields that have a default (dataclass, attrs, namedtuple): each records what IT is compared with
    'from dataclasses import dataclass\nfrom typing import NamedTuple\nimport attrs\nfrom inline_snapshot import snapshot\n\n\nclass Version(NamedTuple):\n    major: int\n    minor: int = 0\n    patch: int = 0\n\n\n'
    '@dataclass\nclass DV:\n    major: int\n    minor: int = 0\n\n\n@attrs.define\nclass AV:\n    major: int\n    minor: int = 0\n    tags: list = attrs.field(factory=list)\n\n\n'
    'def test_nt():\n    assert Version(3, 12, 7) == snapshot(Version(major=3, minor=snapshot(), patch=7))\n\n\ndef test_dc():\n    assert DV(3, 12) == snapshot(DV(major=3, minor=snapshot()))\n\n\n'
    'def test_attrs():\n    assert AV(3, 12, ["x"]) == snapshot(AV(major=3, minor=snapshot(), tags=snapshot()))\n\n\ndef test_nested():\n    assert [Version(1, 2, 3)] == snapshot([Version(major=1, minor=snapshot(), patch=snapshot())])\n',
    # objects whose repr() is no code and is built from the repr() of their parts (as docs/customize_repr.md recommends): Enum members, types, sets, nested objects
    'from enum import Enum\nfrom inline_snapshot import snapshot\n\n\nclass State(Enum):\n    DONE = 1\n\n\nclass Job:\n    def __init__(self, name, state, kinds):\n        self.name, self.state, self.kinds = name, state, kinds\n\n'
    '    def __repr__(self):\n        return f"<Job {self.name} {repr(self.state)} {repr(self.kinds)} {repr(int)}>"\n\n    def __eq__(self, other):\n        if not isinstance(other, Job):\n            return NotImplemented\n        return (self.name, self.state, self.kinds) == (other.name, other.state, other.kinds)\n\n\n'
    'def test_a():\n    assert Job("build", State.DONE, {"a", "b"}) == snapshot()\n\n\ndef test_b():\n    assert [Job("x", State.DONE, set()), 1] == snapshot()\n',    # attrs classes with private attributes (`_x` is initialised with `x`) and an explicit alias
    'import attrs\nfrom inline_snapshot import snapshot\n\n\n@attrs.define\nclass PA:\n    _x: int\n    y: int = 0\n    _hidden: list = attrs.field(factory=list)\n    z: int = attrs.field(default=1, alias="zed")\n\n\n'
    'def test_a():\n    assert PA(1, 2, ["h"], 5) == snapshot()\n\n\ndef test_b():\n    assert [PA(3)] == snapshot()\n',
]


def gen_prog(rng, i):
    opts = {"p_missing": 1.0, "p_noncanon": 0.0, "maxdepth": 4 if i % 5 == 0 else 3, "floats": (i % 4 == 3),
            "placements": ["assert", "helper", "module", "loop"]}
    layout = dict([{}, {"nonascii": True}, {"tabs": True}, {"no_final_newline": True}, {"late_import": True}, {"late_import": True, "nonascii": True}][i % 6])
    layout["per_test"] = rng.choice([1, 2, 4])
    prog = proggen.gen_program(rng, rich=(i % 2 == 0), style="assert", nsites=rng.randint(1, 5), opts=opts, layout=layout)
    prog["setup"] = ["black", "black", "noblack", "fmtcmd"][i % 4]
    return prog


def run_prog(prog):
    kw = {}
    if prog["setup"] == "noblack":
        kw["block_black"] = True
    elif prog["setup"] == "fmtcmd":
        kw["format_command"] = "/venv/bin/python -m black -q -"
    r1 = driver.run_inproc({"test_a.py": prog["source"]}, ("create",), **kw)
    out = {"session_exc": r1["session_exc"], "module_exc": r1["module_exc"], "first": [(t[1], t[2][:200]) for t in r1["tests"]]}
    after = r1["files"]["test_a.py"].decode("utf-8", "replace")
    out["after"] = after
    if r1["session_exc"] or r1["module_exc"]:
        return out
    # every call must have an argument now
    try:
        tree = ast.parse(after)
        out["empty_calls"] = sum(1 for n in ast.walk(tree) if isinstance(n, ast.Call) and isinstance(n.func, ast.Name) and n.func.id == "snapshot" and not n.args)
    except SyntaxError as e:
        out["syntax"] = str(e)
        return out
    # evaluate in the module's own namespace with inline-snapshot disabled: snapshot := identity
    plain = after.replace("from inline_snapshot import snapshot, Is, HasRepr, external, outsource", "from inline_snapshot import Is, HasRepr, external, outsource") \
                 .replace("from inline_snapshot import snapshot, Is", "from inline_snapshot import Is")
    marker = "def check(b):"
    plain = plain.replace(marker, IDENT_HDR + marker, 1)
    r2 = driver.run_inproc({"test_a.py": plain}, (), active=False)
    out["second"] = [(t[1], t[2][:300]) for t in r2["tests"]]
    out["module_exc2"] = r2["module_exc"]
    return out


def judge(prog, o):
    if o["session_exc"]:
        return f"session phase raised {o['session_exc']}"
    if o["module_exc"]:
        return f"module could not be executed: {o['module_exc']}"
    if o.get("syntax"):
        return f"the created code is not valid Python: {o['syntax']}"
    if o.get("module_exc2"):
        return f"rewritten module cannot be executed: {o['module_exc2']}"
    if o["empty_calls"]:
        return f"{o['empty_calls']} snapshot() calls are still empty after create"
    bad = [t for t in o["second"] if t[1] != "ok"]
    if bad:
        return f"the created value does not satisfy the comparison when read back (test {bad[0][0]}): {bad[0][1]}"
    return None


def run_session(prog):
    d = driver.scratch_dir()
    try:
        driver.write_project(d, {"test_p.py": prog["source"]})
        r1 = driver.run_pytest(d, ["--inline-snapshot=create"])
        r2 = driver.run_pytest(d, ["--inline-snapshot=disable"])
        return {"rc1": r1["rc"], "rc2": r2["rc"], "after": (d / "test_p.py").read_text(), "tail2": (r2["stdout"] + r2["stderr"])[-1500:], "tail1": (r1["stdout"] + r1["stderr"])[-800:]}
    finally:
        shutil.rmtree(d, ignore_errors=True)


def run(ctx: Ctx):
    ctx.coverage["rule"] = (
        "A: single-site scripts with an empty snapshot() and create approved: created value vs Model/SnapOps.v in Coq (all five operations, nested sub-snapshots). "
        "B: programs with 1-5 empty snapshots over the supported type universe (numbers incl. floats/complex, str, bytes, None, bool, list, tuple, dict, set, frozenset, Enum, Flag, "
        "classes, dataclass, attrs, pydantic, namedtuple, defaultdict, objects with non-code repr -> HasRepr; depth <= 4) x five operations x placements (assert, helper-function "
        "argument, module level, loop) x layouts (non-ASCII, tabs, no final newline, further top-level imports below module-level snapshots) x {black, black missing, format-command}: after a create run the module is executed with "
        "snapshot := identity and every test must pass. C: real pytest sessions (create, then disable), which also cover externals-free import insertion for HasRepr. "
        "D: nested values of the modelled types (None, bool, int incl. negative/big, str, bytes, list, tuple, dict, set, frozenset, Enum members, classes, dataclass, attrs, "
        "namedtuple, defaultdict; depth <= 4): the tokens of the real value_to_token vs repr_toks of Model/PyRepr.v for the abstract value the harness builds with its own rules, "
        "and what Python's parser reads from the generated code vs the model's parser. "
        "non-trivial = value of depth >= 2, or a string needing an escape, or a non-builtin type")
    proof_step(ctx)
    # A
    n = 600 if not ctx.thorough else 6000
    cases = [snapgen.gen_case(ctx.rng, flags=("create",), old_prob=0.0, allow_foreign=False) for _ in range(n)]
    obs = snapcorr.run_cases(cases)
    bad = snapcorr.correspond(ctx, cases, obs)
    from .c05 import consistent, holds
    for i, (c, o) in enumerate(zip(cases, obs)):
        ctx.count(snapcorr.case_key(c), snapcorr.nontrivial(c))
        if "error" in o or o.get("session_exc"):
            ctx.report(f"create run failed: {o.get('error') or o.get('session_exc')}", {"kind": "site", "case": c})
        elif consistent(c) and c["ops"] and all(r[0] == "ok" for r in o["results"]) and (o["value"][0] == "none" or not all(holds(op, o["value"][1]) for op in c["ops"])):
            ctx.report(f"created value {o['value']} does not satisfy the observed comparisons of {c}", {"kind": "site", "case": c})
        elif i in bad:
            ctx.report(f"Model/SnapOps.v and implementation differ on create: {c} -> {o['value']}", {"kind": "site", "case": c}, no_input=True, kind="correspondence")
    ctx.coverage["correspondence"]["snapops_create"] = {"cases": len(cases), "mismatches": len(bad)}
    # B
    m = 300 if not ctx.thorough else 3500
    progs = [gen_prog(ctx.rng, i) for i in range(m)]
    outs = pmap(run_prog, progs, chunksize=4)
    for p, o in zip(progs, outs):
        nt = any(valgen.nontrivial(s["new"]) for s in p["sites"] if s["kind"] == "eq") or len(p["sites"]) >= 3
        ctx.count(("prog", p["source"], p["setup"]), nt)
        ctx.dist("B.setup=" + p["setup"])
        for s in p["sites"]:
            ctx.dist("B.kind=" + s["kind"] + "/" + s["placement"])
        why = judge(p, o)
        if why:
            ctx.report("C01 oracle: " + why, {"kind": "prog", "source": p["source"], "setup": p["setup"], "after": o.get("after")})
    ctx.coverage["oracle"]["programs"] = m
    ctx.sample({"program_tail": progs[0]["source"][-500:], "after_tail": outs[0].get("after", "")[-500:]})
    # where the import line for HasRepr / external goes (Model/Imports.v)
    from .. import importscorr as ic
    ic.check_part(ctx, 300 if not ctx.thorough else 3000, "C01")
    # C
    sp = [gen_prog(ctx.rng, 2 * i) for i in range(10 if not ctx.thorough else 80)]
    for k, p in enumerate(sp):
        if k % 2 == 1:      # the file does not import HasRepr / external yet: the session has to add the import where the module can use it
            p["source"] = p["source"].replace("from inline_snapshot import snapshot, Is, HasRepr, external, outsource", "from inline_snapshot import snapshot, Is, outsource")
    sp += [{"source": s} for s in IMPORT_PROJECTS]
    # numbers whose repr is a NAME (inf, nan are no literals), at any depth; objects whose repr parses as a statement but is no expression
    sp += [{"source": s} for s in (
        'from inline_snapshot import snapshot\n\n\ndef test_a():\n    assert float("inf") == snapshot()\n    assert [1.5, float("-inf")] == snapshot()\n    assert {"k": (float("inf"), 2)} == snapshot()\n'
        '    assert float("inf") <= snapshot()\n    assert float("-inf") in snapshot()\n    assert float("inf") == snapshot()["limit"]\n',
        'from inline_snapshot import snapshot\n\n\nclass R:\n    def __init__(self, text):\n        self.text = text\n\n    def __repr__(self):\n        return self.text\n\n'
        '    def __eq__(self, o):\n        return o.text == self.text if isinstance(o, R) else NotImplemented\n\n\n'
        'def test_a():\n    assert R("x=1") == snapshot()\n    assert [R("pass"), R("")] == snapshot()\n    assert R("import os") == snapshot()\n    assert R("a = b = 2") in snapshot()\n',
    )]
    for p, o in zip(sp, tmap(run_session, sp)):
        ctx.count(("session", p["source"]), True)
        if o["rc1"] not in (0, 1):
            ctx.report(f"create session exit status {o['rc1']}", {"kind": "session", "source": p["source"], "output": o["tail1"]})
        elif o["rc2"] != 0:
            ctx.report("after a create session the tests fail with --inline-snapshot=disable", {"kind": "session", "source": p["source"], "after": o["after"], "output": o["tail2"]})
    ctx.coverage["oracle"]["session_pairs"] = len(sp)
    # the same module under several names in one create session: every copy is filled as if it were alone
    from .. import twins
    twins.check(ctx, "C01", [p["source"] for p in sp[:2 if not ctx.thorough else 10]], flag_sets=(("create",),))
    # C2: the compared object is mutated afterwards (loops over one call site): what is created is what was compared
    from . import c17
    ms = [c17.gen_sched(ctx.rng, i) for i in range(18 if not ctx.thorough else 180)]
    for s_, o in zip(ms, pmap(c17.run_sched, ms, chunksize=4)):
        ctx.count(("mutation", s_["source"]), True)
        why = c17.judge_sched(s_, o)
        if why:
            ctx.report("C01 oracle: the created value does not make the comparison hold that was observed: " + why, {"kind": "sched", "source": s_["source"], "op": s_["op"], "after": o.get("after")})
    # D: nested values: value_to_token vs Model/PyRepr.v (repr_toks), Python's parser vs the model's parser
    from .. import pyrepr
    from ..core import coq_eval_shards
    nd = 700 if not ctx.thorough else 8000
    objs = [pyrepr.gen_obj(ctx.rng) for _ in range(nd)]
    terms, codes = [], []
    for o in objs:
        t, code = pyrepr.case_term(o)
        terms.append(t)
        codes.append(code)
        ctx.count(("pyrepr", code), isinstance(o, (list, tuple, dict, set, frozenset)) or hasattr(o, "__dataclass_fields__") or hasattr(o, "_fields"))
        ctx.dist("D.type=" + type(o).__name__)
    badd = coq_eval_shards(ctx, "pyrepr", "Model.PyRepr Corr.PyReprCorr", "case", terms, "mismatches", chunk=350)
    ctx.coverage["traces_validated_against_impl"] += len(terms)
    ctx.coverage["correspondence"]["value_to_token_and_python_parser_vs_pyrepr_model"] = {"cases": len(terms), "mismatches": len(badd)}
    for j in badd[:10]:
        # is the disagreement itself a failing input of the property?  evaluate the generated code and compare
        try:
            ns = {"Color": pyrepr.Color, "DC": pyrepr.DC, "NT": pyrepr.NT, "AT": getattr(pyrepr, "AT", None), "defaultdict": pyrepr.defaultdict}
            back = eval(codes[j], ns)
            same = back == objs[j] and type(back) is type(objs[j])
        except Exception as e:  # noqa
            back, same = f"{type(e).__name__}: {e}", False
        if not same:
            ctx.report(f"the code generated for {objs[j]!r} is {codes[j].strip()!r}, which evaluates to {back!r}", {"kind": "pyrepr", "code": codes[j], "value": repr(objs[j])})
        else:
            ctx.report(f"Model/PyRepr.v and value_to_token / Python's parser differ on {objs[j]!r} -> {codes[j].strip()!r}", {"kind": "pyrepr", "code": codes[j], "value": repr(objs[j])},
                       no_input=True, kind="correspondence")
    ctx.sample({"pyrepr_value": repr(objs[0])[:200], "code": codes[0].strip()[:200]})


def replay(ctx: Ctx, data):
    if isinstance(data.get("case"), dict) and data["case"].get("kind") == "twins":
        from .. import twins
        return twins.replay(data["case"])
    if isinstance(data.get("case"), dict) and data["case"].get("kind") == "imports":
        from .. import importscorr as ic
        return ic.replay_case(data["case"])
    if data["case"].get("kind") == "sched":
        from . import c17
        s_ = {"source": data["case"]["source"], "op": data["case"]["op"]}
        return c17.judge_sched(s_, c17.run_sched(s_)) is None
    c = data["case"]
    if c.get("kind") == "prog":
        o = run_prog({"source": c["source"], "setup": c["setup"]})
        print(o.get("after"), o.get("second"))
        return judge(None, o) is None
    if c.get("kind") == "session":
        o = run_session({"source": c["source"]})
        print(o["tail2"])
        return o["rc1"] in (0, 1) and o["rc2"] == 0
    return True
