"""C13 - external storage stays consistent across any history of runs."""
from __future__ import annotations

import ast
import hashlib
import re
import shutil
from pathlib import Path

from .. import driver
from ..core import Ctx, coq_eval_shards, g_bool, g_list, g_nat, g_opt, g_pair, proof_step, tmap

SUFFIXES = [".txt", ".bin", ".png"]


def suffix_of(d, suf):
    """the suffix of the stored file: the defaults for str / bytes, a custom one (letters only, or with a digit) for suf == 2"""
    return SUFFIXES[suf] if suf < 2 else (".png" if d % 2 == 0 else ".mp3")



def payload(d, suf):
    s = f"payload-{d}-" + "x" * (d % 7)
    return s if suf == 0 else s.encode()


def data_expr(d, suf):
    if suf == 0:
        return f"outsource({payload(d, 0)!r})"
    if suf == 1:
        return f"outsource({payload(d, 1)!r})"
    return f"outsource({payload(d, 2)!r}, suffix={suffix_of(d, 2)!r})"


def sha(d, suf):
    p = payload(d, suf)
    return hashlib.sha256(p.encode() if isinstance(p, str) else p).hexdigest()


def gen_history(rng, maxlen=8):
    h, tests, nextd = [], [], 0
    n = rng.randint(3, maxlen)
    uid = 0
    while len(h) < n:
        r = rng.random()
        if not tests or r < 0.25:
            suf = rng.choice([0, 0, 1, 2])
            d = nextd
            if tests and rng.random() < 0.3:
                # the same bytes as another test outsources, but with another suffix (str / bytes / .png payloads have equal bytes)
                other = rng.choice(tests)
                d, suf = other["d"], rng.choice([x for x in (0, 1, 2) if x != other["suf"]])
            h.append(("add", d, suf))
            tests.append({"uid": uid, "d": d, "suf": suf})
            uid += 1
            if d == nextd:
                nextd += 1
        elif r < 0.4:
            i = rng.randrange(len(tests))
            # new data, or data another test already uses (shared externals)
            d = nextd if rng.random() < 0.7 else rng.choice(tests)["d"]
            if d == nextd:
                nextd += 1
            h.append(("edit", i, d))
            tests[i]["d"] = d
        elif r < 0.5 and len(tests) > 1:
            i = rng.randrange(len(tests))
            h.append(("remove", i))
            del tests[i]
        else:
            a = {c: rng.random() < 0.55 for c in ("create", "fix", "trim")}
            if rng.random() < 0.2:
                # review mode: every question answered alike; unused externals are only removed with the trim FLAG, which review mode lacks
                yes = rng.random() < 0.5
                a = {"create": yes, "fix": yes, "trim": False, "review": "y" if yes else "n"}
            h.append(("session", a))
    if h[-1][0] != "session":
        h.append(("session", {"create": True, "fix": True, "trim": rng.random() < 0.5}))
    return h


def render_tests(tests, late_import=False, module_level=False):
    out = ["from inline_snapshot import snapshot, outsource, external", ""]
    if module_level:
        # the data is outsourced while the module is imported (module-level constants, as with parametrize values): at collection time
        for t in tests:
            out.append(f"D{t['uid']} = {data_expr(t['d'], t['suf'])}")
        out.append("")
        for t in tests:
            out += [f"def test_{t['uid']}():", f"    assert D{t['uid']} == snapshot({t['arg']})", ""]
        return "\n".join(out) + "\n"
    if late_import:
        # the file's own import of `external` stands behind ordinary statements
        out = ["import sys", "", "sys.path.append('.')", "from inline_snapshot import snapshot, outsource", "X = 1", "from inline_snapshot import external", ""]
    for t in tests:
        out.append(f"def test_{t['uid']}():")
        out.append(f"    assert {data_expr(t['d'], t['suf'])} == snapshot({t['arg']})")
        out.append("")
    return "\n".join(out) + "\n"


ARG_RE = re.compile(r"snapshot\((.*)\)\s*$")


def run_history(item):
    h, conf = item
    d = driver.scratch_dir()
    scratch_root = d
    try:
        tool = []
        if conf.get("hash_length"):
            tool.append(f"hash-length = {conf['hash_length']}")
        if conf.get("storage_dir"):
            tool.append(f"storage-dir = {conf['storage_dir']!r}")
        if conf.get("workspace"):
            # a workspace: the directory above the project has a pyproject.toml of its own with OTHER inline-snapshot settings, which must never apply to the
            # project (pytest's rootdir is the project: its pyproject.toml has [tool.pytest.ini_options]); sessions start alternately in the workspace and in the project
            (d / "pyproject.toml").write_text("[tool.inline-snapshot]\nstorage-dir = 'ws-store'\nhash-length = 5\n")
            outer, d = d, d / "pkg"
            d.mkdir()
            (d / "pyproject.toml").write_text("[tool.pytest.ini_options]\nminversion = '6.0'\n\n[tool.inline-snapshot]\n" + "\n".join(tool) + "\n")
        else:
            outer = None
            (d / "pyproject.toml").write_text("[tool.inline-snapshot]\n" + "\n".join(tool) + "\n")
        store_dir = (d / conf["storage_dir"] if conf.get("storage_dir") else d / ".inline-snapshot") / "external"
        tests, uid = [], 0
        obs, problems = [], []
        # conf "subdir": the test file lives in tests/, sessions are started alternately from the project root and from tests/
        tdir = d / "tests" if conf.get("subdir") else d
        tdir.mkdir(exist_ok=True)
        tfile = tdir / "test_s.py"
        nsession = 0
        known = {}   # (sha, suffix) -> (d, suf)   (bytes payloads with suffix .bin and .png have the same hash)
        for step in h:
            if step[0] == "add":
                tests.append({"uid": uid, "d": step[1], "suf": step[2], "arg": ""})
                uid += 1
            elif step[0] == "edit":
                tests[step[1]]["d"] = step[2]
            elif step[0] == "remove":
                del tests[step[1]]
            else:
                for t in tests:
                    known[(sha(t["d"], t["suf"]), suffix_of(t["d"], t["suf"]))] = (t["d"], t["suf"])
                tfile.write_text(render_tests(tests, conf.get("late_import"), conf.get("module_level")))
                flags = [c for c in ("create", "fix", "trim") if step[1][c]]
                cwd = tdir if (conf.get("subdir") and nsession % 2 == 1) else d
                extra = []
                if outer is not None and nsession % 2 == 0:
                    cwd, extra = outer, ["pkg"]
                nsession += 1
                if "hash_length_later" in conf and nsession == 3 and outer is None:
                    # the setting changes in the life of the project: references written with the old length stay valid and in use
                    later = [x for x in tool if not x.startswith("hash-length")] + ([f"hash-length = {conf['hash_length_later']}"] if conf["hash_length_later"] else [])
                    (d / "pyproject.toml").write_text("[tool.inline-snapshot]\n" + "\n".join(later) + "\n")
                if step[1].get("review"):
                    r = driver.run_pytest(cwd, ["--inline-snapshot=review"] + extra, stdin=(step[1]["review"] + "\n").encode() * 8)
                else:
                    r = driver.run_pytest(cwd, ([f"--inline-snapshot={','.join(flags)}"] if flags else []) + extra)
                if outer is not None and (outer / "ws-store").exists():
                    problems.append("the storage-dir of the workspace's pyproject.toml was used for a project that has its own pyproject.toml")
                if r.get("infra_error"):
                    return {"infra": True}
                if r["rc"] not in (0, 1):
                    problems.append(f"pytest exit status {r['rc']}: {(r['stdout'] + r['stderr'])[-600:]}")
                # read back the references from the file
                txt = tfile.read_text()
                tree = ast.parse(txt)
                funcs = {n.name: n for n in tree.body if isinstance(n, ast.FunctionDef)}
                refs = []
                for t in tests:
                    f = funcs[f"test_{t['uid']}"]
                    call = [n for n in ast.walk(f) if isinstance(n, ast.Call) and isinstance(n.func, ast.Name) and n.func.id == "snapshot"][0]
                    t["arg"] = ast.get_source_segment(txt, call.args[0]) if call.args else ""
                    if not call.args:
                        refs.append(None)
                        continue
                    a = call.args[0]
                    name = a.args[0].value
                    m = re.fullmatch(r"([0-9a-f]*)\*?(\.[a-z0-9]+)", name)
                    cands = [v for k, v in known.items() if k[0].startswith(m.group(1)) and k[1] == m.group(2)]
                    if len(cands) != 1:
                        problems.append(f"reference {name!r} matches {len(cands)} known data items")
                        refs.append(None)
                    else:
                        refs.append(cands[0])
                files = []
                if store_dir.exists():
                    for p in sorted(store_dir.iterdir()):
                        if p.name == ".gitignore":
                            continue
                        m = re.fullmatch(r"([0-9a-f]{64})(-new)?(\.[a-z0-9]+)", p.name)
                        if not m:
                            problems.append(f"unexpected file name {p.name}")
                            continue
                        content = p.read_bytes()
                        # I1: the SHA-256 of the bytes is the file name and the bytes are what was outsourced
                        if hashlib.sha256(content).hexdigest() != m.group(1):
                            problems.append(f"{p.name}: content hash differs from the name")
                        k = known.get((m.group(1), m.group(3)))
                        if k is None:
                            problems.append(f"{p.name}: not data of this history")
                            continue
                        want = payload(*k)
                        if content != (want.encode() if isinstance(want, str) else want):
                            problems.append(f"{p.name}: bytes differ from what was outsourced")
                        files.append((k[0], bool(m.group(2)), k[1]))
                obs.append((files, refs))
        return {"obs": obs, "problems": problems, "final": tfile.read_text() if tfile.exists() else ""}
    finally:
        shutil.rmtree(scratch_root, ignore_errors=True)


def g_hist(h):
    out = []
    for s in h:
        if s[0] == "add":
            out.append(f"HAdd {g_nat(s[1])} {g_nat(s[2])}")
        elif s[0] == "edit":
            out.append(f"HEdit {g_nat(s[1])} {g_nat(s[2])}")
        elif s[0] == "remove":
            out.append(f"HRemove {g_nat(s[1])}")
        else:
            a = s[1]
            out.append("HSession {| a_create := %s; a_fix := %s; a_trim := %s |}" % (g_bool(a["create"]), g_bool(a["fix"]), g_bool(a["trim"])))
    return "[" + "; ".join(out) + "]"


def g_obs(o):
    files, refs = o
    return g_pair(g_list(files, lambda f: g_pair(g_nat(f[0]), g_bool(f[1]), g_nat(f[2]))),
                  g_list(refs, lambda r: g_opt(r, lambda x: g_pair(g_nat(x[0]), g_nat(x[1])))))


def statement_oracle(h, obs):
    """C13 stated directly on the observed sequence of (files, refs) after every session"""
    prev_files, prev_refs, k = set(), set(), 0
    for step in h:
        if step[0] != "session":
            continue
        files, refs = obs[k]
        files = set(files)
        k += 1
        refset = {r for r in refs if r is not None}
        for r in refset - prev_refs:
            if (r[0], False, r[1]) not in files:
                return f"session {k}: a reference to data {r[0]} was written but its file is not persisted (it is pruned at the next session start)"
        prev_refs = refset
        for (d, new, suf) in files:
            if not new and (d, False, suf) not in prev_files and (d, suf) not in refset:
                return f"session {k}: persisted file of data {d} appeared without a reference in the test file"
        for (d, new, suf) in prev_files:
            if not new and (d, False, suf) not in files:
                if not step[1]["trim"]:
                    return f"session {k}: persisted file of data {d} removed although trim was not approved"
                if (d, suf) in refset:
                    return f"session {k}: persisted file of data {d} removed although the test file references it"
        prev_files = files
    return None


def lookup_api_cases(ctx: Ctx):
    """I5: a missing or ambiguous hash prefix raises HashError instead of resolving to other data (API level, real DiscStorage)"""
    import tempfile
    from inline_snapshot._external import DiscStorage, HashError
    tmp = Path(tempfile.mkdtemp(dir=str(ctx.tmp)))
    st = DiscStorage(tmp)
    datas = [f"d{i}".encode() for i in range(60)]
    hashes = [hashlib.sha256(x).hexdigest() for x in datas]
    for hsh, x in zip(hashes, datas):
        st.save(hsh + ".bin", x)
    n = 0
    for plen in (0, 1, 2, 3, 64):
        for hsh, x in zip(hashes, datas):
            pre = hsh[:plen]
            matches = [h2 for h2 in hashes if h2.startswith(pre)]
            n += 1
            ctx.count(("lookup", pre), len(matches) != 1)
            try:
                got = st.read(pre + "*.bin")
                if len(matches) != 1:
                    ctx.report(f"ambiguous prefix {pre!r} ({len(matches)} files) resolved to data instead of HashError", {"kind": "lookup", "prefix": pre})
                elif got != x:
                    ctx.report(f"prefix {pre!r} resolved to other data", {"kind": "lookup", "prefix": pre})
            except HashError:
                if len(matches) == 1:
                    ctx.report(f"unique prefix {pre!r} raised HashError", {"kind": "lookup", "prefix": pre})
    for pre in ("ffff0000ffff", "0123456789abcdef" * 4):
        try:
            st.read(pre + "*.bin")
            if not any(h2.startswith(pre) for h2 in hashes):
                ctx.report(f"missing prefix {pre!r} resolved to data", {"kind": "lookup", "prefix": pre})
        except HashError:
            pass
    # a prefix that matches a persisted file AND a not yet persisted one (-new) is ambiguous too; a prefix that matches exactly one of them resolves to it
    tmp2 = Path(tempfile.mkdtemp(dir=str(ctx.tmp)))
    st2 = DiscStorage(tmp2)
    pairs = [(b"old data %d" % i, b"new data %d" % i) for i in range(40)]
    names = []
    for a, b in pairs:
        ha, hb = hashlib.sha256(a).hexdigest(), hashlib.sha256(b).hexdigest()
        st2.save(ha + ".txt", a)
        st2.save(hb + "-new.txt", b)
        names += [(ha, ha + ".txt", a), (hb, hb + "-new.txt", b)]
    for plen in (1, 2, 3):
        for hsh, fname, data in names:
            pre = hsh[:plen]
            matches = [x for x in names if x[1].startswith(pre)]
            n += 1
            ctx.count(("lookup-new", pre, fname), len(matches) != 1)
            try:
                got = st2.read(pre + "*.txt")
                if len(matches) != 1:
                    ctx.report(f"ambiguous prefix {pre!r} ({[m[1][:10] + '...' + m[1][64:] for m in matches]}) resolved to data instead of HashError", {"kind": "lookup", "prefix": pre})
                elif got != matches[0][2]:
                    ctx.report(f"prefix {pre!r} resolved to other data", {"kind": "lookup", "prefix": pre})
            except HashError:
                if len(matches) == 1:
                    ctx.report(f"unique prefix {pre!r} raised HashError", {"kind": "lookup", "prefix": pre})
    ctx.coverage["oracle"]["lookup_api_cases"] = n


# ----------------------------------------------------------------------------- files whose snapshot tests are all xfail (F-96)
XF_FILES = {
    # every test of the file that uses snapshots is xfail: the file still takes part in the session
    "all_xfail": ("import pytest\nfrom inline_snapshot import snapshot, outsource, external\n\n\n@pytest.mark.xfail\ndef test_a():\n    assert outsource('hello') == snapshot({arg})\n", None),
    "xfail_reason_strict_false": ("import pytest\nfrom inline_snapshot import snapshot, outsource, external\n\n\n@pytest.mark.xfail(reason='flaky')\ndef test_a():\n    assert outsource('hello') == snapshot({arg})\n\n\ndef test_plain():\n    assert 1 == 1\n", None),
    # control: one more test of the file is not xfail
    "one_xfail_one_not": ("import pytest\nfrom inline_snapshot import snapshot, outsource, external\n\n\n@pytest.mark.xfail\ndef test_a():\n    assert outsource('hello') == snapshot({arg})\n\n\ndef test_b():\n    assert 2 == snapshot(2)\n", None),
}


def run_xfail_file(kind):
    """session 1 (create) persists the external of a plain test; the user then marks the test xfail; session 2 runs with trim: the file took part in the
    session and references the external, so its persisted data has to stay"""
    d = driver.scratch_dir()
    try:
        (d / "pyproject.toml").write_text("[tool.inline-snapshot]\n")
        plain = "from inline_snapshot import snapshot, outsource, external\n\n\ndef test_a():\n    assert outsource('hello') == snapshot()\n"
        (d / "test_x.py").write_text(plain)
        r1 = driver.run_pytest(d, ["--inline-snapshot=create"])
        after1 = (d / "test_x.py").read_text()
        m = re.search(r"snapshot\((external\([^)]*\))\)", after1)
        store = d / ".inline-snapshot" / "external"
        persisted1 = sorted(p.name for p in store.iterdir() if p.suffix == ".txt") if store.exists() else []
        if not m or not persisted1:
            return {"kind": kind, "setup_failed": f"session 1 did not persist an external: rc {r1['rc']}, files {persisted1}, source {after1[-200:]}"}
        (d / "test_x.py").write_text(XF_FILES[kind][0].replace("{arg}", m.group(1)))
        r2 = driver.run_pytest(d, ["--inline-snapshot=trim"])
        persisted2 = sorted(p.name for p in store.iterdir() if p.suffix == ".txt")
        return {"kind": kind, "rc2": r2["rc"], "persisted1": persisted1, "persisted2": persisted2, "source2": (d / "test_x.py").read_text(), "tail": r2["stdout"][-600:]}
    finally:
        shutil.rmtree(d, ignore_errors=True)


def xfail_files(ctx: Ctx, only=None):
    kinds = [k for k in XF_FILES if only in (None, k)]
    for o in tmap(run_xfail_file, kinds):
        ctx.count(("xfail-file", o["kind"]), True)
        if "setup_failed" in o:
            ctx.report("C13 (xfail files): " + o["setup_failed"], {"kind": "xfail-file", "which": o["kind"]})
        elif o["persisted2"] != o["persisted1"]:
            ctx.report(f"C13 oracle (xfail files, {o['kind']}): the session with trim removed the persisted file {sorted(set(o['persisted1']) - set(o['persisted2']))} although the test file that took part in the "
                       f"session still references it: {o['source2'].splitlines()[-1].strip() if o['kind'] == 'all_xfail' else [l.strip() for l in o['source2'].splitlines() if 'external(' in l]}",
                       {"kind": "xfail-file", "which": o["kind"], "output": o["tail"]}, tag="F-96")
    ctx.coverage["oracle"]["xfail_files"] = len(kinds)


def run(ctx: Ctx):
    ctx.coverage["rule"] = (
        "histories of 3-8 steps over {add a test with an empty snapshot, edit the data a test outsources (new data or data shared with another test), remove a test, "
        "run a real pytest session with a subset of create/fix/trim}; str/bytes/custom-suffix data; hash-length 8/12/64 and (relative) storage-dir settings, sessions started alternately from the project root and from tests/, the file's own `external` import behind ordinary statements; after every session the "
        "directory listing (content hashes checked with hashlib against the file names and against the outsourced bytes) and the references in the test file vs "
        "Model/Storage.v in Coq, and against the statement (persisted only with a reference, removed only by approved trim and unreferenced); "
        "prefix lookup on a real DiscStorage (missing / ambiguous / unique). non-trivial = history with >= 2 sessions")
    proof_step(ctx)
    n = 36 if not ctx.thorough else 480
    items = []
    for i in range(n):
        conf = [{}, {"hash_length": 8}, {"hash_length": 64}, {"storage_dir": "snaps/store"}, {"late_import": True}, {"storage_dir": "snaps/store", "subdir": True},
                {"late_import": True, "hash_length": 8}, {"subdir": True}, {"module_level": True}, {"workspace": True}, {"module_level": True, "hash_length": 8},
                {"workspace": True, "hash_length": 8}, {"hash_length": 8, "hash_length_later": None}, {"hash_length": 6, "hash_length_later": 20},
                {"hash_length": 20, "hash_length_later": 8}][i % 15]
        items.append((gen_history(ctx.rng), conf))
    outs = tmap(run_history, items)
    terms, idx = [], []
    nsess = 0
    for i, ((h, conf), o) in enumerate(zip(items, outs)):
        if o.get("infra"):
            raise RuntimeError("pytest session timed out twice (infrastructure)")
        ns = sum(1 for s in h if s[0] == "session")
        nsess += ns
        ctx.count(("hist", repr(h), repr(conf)), ns >= 2)
        ctx.dist("steps=%d" % len(h))
        ctx.dist("conf=" + (",".join(conf) or "default"))
        if o["problems"]:
            ctx.report("C13: " + o["problems"][0], {"kind": "hist", "history": h, "conf": conf, "problems": o["problems"]})
            continue
        why = statement_oracle(h, o["obs"])
        if why:
            ctx.report("C13 oracle: " + why, {"kind": "hist", "history": h, "conf": conf, "obs": o["obs"]})
            continue
        terms.append(g_pair(g_hist(h), g_list(o["obs"], g_obs)))
        idx.append(i)
    bad = coq_eval_shards(ctx, "storage", "Model.Storage Corr.StorageCorr", "case", terms, "mismatches", chunk=50)
    ctx.coverage["traces_validated_against_impl"] += len(terms)
    ctx.coverage["correspondence"]["storage"] = {"histories": len(terms), "sessions": nsess, "mismatches": len(bad)}
    for j in bad[:10]:
        (h, conf), o = items[idx[j]], outs[idx[j]]
        ctx.report(f"Model/Storage.v and implementation differ (statement oracle silent): history={h} observed={o['obs']}",
                   {"kind": "hist", "history": h, "conf": conf, "obs": o["obs"]}, no_input=True, kind="correspondence")
    ctx.sample({"history": items[0][0], "conf": items[0][1], "observed_after_each_session": outs[0].get("obs")})
    # which stored files a trim may remove: the real unused_externals() on generated storage directories and references vs Model/Unused.v
    from .. import unusedcorr
    unusedcorr.check_part(ctx, 300 if not ctx.thorough else 4000, "C13")
    xfail_files(ctx)
    lookup_api_cases(ctx)


def replay(ctx: Ctx, data):
    if isinstance(data.get("case"), dict) and data["case"].get("kind") == "xfail-file":
        o = run_xfail_file(data["case"]["which"])
        print(o)
        return "setup_failed" not in o and o["persisted2"] == o["persisted1"]
    c = data["case"]
    if c.get("kind") == "unused":
        from .. import unusedcorr
        return unusedcorr.replay_case(c["case"])
    if c.get("kind") != "hist":
        return True
    h = [tuple(s) for s in c["history"]]
    o = run_history((h, c["conf"]))
    print(o)
    return not o["problems"] and statement_oracle(h, o["obs"]) is None
